// driver.h -- common driver framework: programs, history recording, schedule exploration with de-duplication,
// crash/hang supervision and ndjson output.  A driver registers variants (one per container configuration);
// the variant body runs one client program inside a controlled execution and records its history.
#pragma once
#include <cds_verif/vsched.h>
#include <cstdio>
#include <cstdlib>
#include <cstring>
#include <string>
#include <vector>
#include <map>
#include <set>
#include <functional>
#include <thread>
#include <chrono>
#include <unistd.h>
#include <sys/mman.h>
#include <sys/wait.h>
#include <sys/personality.h>
#include <signal.h>

namespace drv {
// ---- client programs ------------------------------------------------------------------------------------------
struct Op { std::string name; std::vector<long> a; long arg(size_t i, long d = 0) const { return i < a.size() ? a[i] : d; } };
struct Program { std::string text; std::vector<Op> init; std::vector<std::vector<Op>> threads; std::vector<Op> fini; };
// syntax:  body | body;fini | init;body;fini   with body = thread1 "|" thread2 ...     op = name[:int[:int...]]   ops separated by ","
inline std::vector<Op> parse_ops(const std::string& s) {
  std::vector<Op> r; size_t i = 0;
  while (i < s.size()) { size_t j = s.find(',', i); if (j == std::string::npos) j = s.size(); std::string tok = s.substr(i, j - i); i = j + 1;
    if (tok.empty()) continue; Op o; size_t k = tok.find(':'); o.name = tok.substr(0, k);
    while (k != std::string::npos) { size_t k2 = tok.find(':', k + 1); o.a.push_back(atol(tok.substr(k + 1, k2 == std::string::npos ? std::string::npos : k2 - k - 1).c_str())); k = k2; }
    r.push_back(o); }
  return r; }
inline Program parse_program(const std::string& s) {
  Program p; p.text = s; std::vector<std::string> parts; size_t i = 0;
  for (;;) { size_t j = s.find(';', i); if (j == std::string::npos) { parts.push_back(s.substr(i)); break; } parts.push_back(s.substr(i, j - i)); i = j + 1; }
  std::string body; if (parts.size() == 1) body = parts[0]; else if (parts.size() == 2) { body = parts[0]; p.fini = parse_ops(parts[1]); } else { p.init = parse_ops(parts[0]); body = parts[1]; p.fini = parse_ops(parts[2]); }
  i = 0; for (;;) { size_t j = body.find('|', i); std::string t = body.substr(i, j == std::string::npos ? std::string::npos : j - i); p.threads.push_back(parse_ops(t)); if (j == std::string::npos) break; i = j + 1; }
  return p; }

// ---- history recording ----------------------------------------------------------------------------------------
struct HEv { char e; int t; const char* op; long a, b, r, v; };
extern std::vector<HEv> g_hist;
extern thread_local int t_id;          // logical thread id of the client program (0 = main thread)
inline void inv(const char* op, long a = 0, long b = 0) { g_hist.push_back(HEv{'i', t_id, op, a, b, 0, 0}); }
inline void ret(long r, long v = 0) {   // the result is also copied into the matching invocation (prunes the linearizability search)
  for (size_t i = g_hist.size(); i-- > 0;) if (g_hist[i].e == 'i' && g_hist[i].t == t_id) { g_hist[i].r = r; g_hist[i].v = v; break; }
  g_hist.push_back(HEv{'r', t_id, "", 0, 0, r, v}); }
inline void xev(const char* op, long a = 0, long b = 0) { g_hist.push_back(HEv{'x', t_id, op, a, b, 0, 0}); }
std::string hist_json(const std::vector<HEv>& h);

// ---- variants -------------------------------------------------------------------------------------------------
typedef std::function<void(const Program&)> Body;
struct Variant { std::string name; Body body; };
std::vector<Variant>& variants();
struct Reg { Reg(const char* n, Body b) { variants().push_back(Variant{n, b}); } };
#define DRV_VARIANT(ID, NAME) static void ID(const drv::Program&); static drv::Reg reg_##ID(NAME, ID); static void ID(const drv::Program& P)

// run the threads of a program: fn(op) executes one operation (and records inv/ret); pre/post run in each thread
void run_threads(const Program& P, std::function<void(const Op&)> fn, std::function<void()> pre = nullptr, std::function<void()> post = nullptr);

// ---- quarantine allocator: memory is never reused during an execution; frees only mark the region disposed --------
void* q_alloc(size_t n, int tag);
void q_free(void* p);
void q_release_all();          // called by the framework between executions
extern bool g_quarantine;      // false: plain malloc/free (address reuse possible, exposes ABA)
template <typename T> struct qallocator {
  typedef T value_type; typedef T* pointer; typedef const T* const_pointer; typedef T& reference; typedef const T& const_reference;
  typedef size_t size_type; typedef ptrdiff_t difference_type;
  template <typename U> struct rebind { typedef qallocator<U> other; };
  qallocator() noexcept {} template <typename U> qallocator(const qallocator<U>&) noexcept {}
  T* allocate(size_t n, const void* = nullptr) { return (T*)q_alloc(n * sizeof(T), 0); }
  void deallocate(T* p, size_t) noexcept { q_free(p); }
  template <typename U, typename... A> void construct(U* p, A&&... a) { ::new ((void*)p) U(std::forward<A>(a)...); }
  template <typename U> void destroy(U* p) { p->~U(); }
  size_t max_size() const noexcept { return size_t(-1) / sizeof(T); }
  bool operator==(const qallocator&) const { return true; } bool operator!=(const qallocator&) const { return false; }
};

int main_impl(int argc, char** argv);
}
