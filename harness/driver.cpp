// driver.cpp -- see driver.h
#include "driver.h"
#include <sstream>
#include <fstream>

namespace drv {
std::vector<HEv> g_hist;
thread_local int t_id = 0;
bool g_quarantine = true;
std::vector<Variant>& variants() { static std::vector<Variant> v; return v; }

std::string hist_json(const std::vector<HEv>& h) {
  std::string s; char buf[256];
  for (auto& e : h) {
    if (e.e == 'i') snprintf(buf, sizeof buf, "{\"e\":\"inv\",\"t\":%d,\"op\":\"%s\",\"a\":%ld,\"b\":%ld,\"r\":%ld,\"v\":%ld}\n", e.t, e.op, e.a, e.b, e.r, e.v);
    else if (e.e == 'r') snprintf(buf, sizeof buf, "{\"e\":\"ret\",\"t\":%d,\"r\":%ld,\"v\":%ld}\n", e.t, e.r, e.v);
    else snprintf(buf, sizeof buf, "{\"e\":\"x\",\"t\":%d,\"op\":\"%s\",\"a\":%ld,\"b\":%ld}\n", e.t, e.op, e.a, e.b);
    s += buf; }
  return s; }

void run_threads(const Program& P, std::function<void(const Op&)> fn, std::function<void()> pre, std::function<void()> post) {
  std::vector<std::thread> th; vs::roi(true);
  for (size_t i = 0; i < P.threads.size(); ++i)
    th.emplace_back([&, i] { t_id = (int)i + 1; if (pre) pre(); for (auto& o : P.threads[i]) fn(o); if (post) post(); });
  for (auto& t : th) t.join();
  vs::roi(false); }

// ---- quarantine -------------------------------------------------------------------------------------------------
static std::vector<void*> g_qlist;
void* q_alloc(size_t n, int tag) { void* p = malloc(n < 8 ? 8 : n); if (g_quarantine) { vs::mem_register(p, n < 8 ? 8 : n, tag); g_qlist.push_back(p); } return p; }
void q_free(void* p) { if (!p) return; if (g_quarantine) { if (vs::mem_state(p) == 2) vs::report_uad(p, 99); vs::mem_dispose(p); } else free(p); }
void q_release_all() { for (void* p : g_qlist) free(p); g_qlist.clear(); vs::mem_reset(); }

// ---- supervision ------------------------------------------------------------------------------------------------
struct Shared { volatile long exec_no; volatile long next_id; volatile long progress; volatile int strategy; volatile unsigned long long seed; volatile int nprefix; volatile int prefix[8192];
                volatile long execs_done, inconclusive, deadlocks, uads, crashes, max_steps, distinct; volatile int exhausted; volatile int decs[2 * vs::DEC_SINK_MAX + 2]; };
static Shared* g_sh = nullptr;
// partial history of an execution that is abandoned (step budget exceeded: livelock): the completed operations and the pending invocations are
// still evidence; the record is flagged "p":1 and ends with an x "hang" event (vlib judges it with every completion of the pending calls)
static FILE* g_fo = nullptr; static FILE* g_fs = nullptr; static std::string g_sched_head;
static std::string join_ints(const std::vector<int>& v);
static void flush_partial(const char*, const std::vector<int>& trace) {
  if (!g_fo || !g_sh) return;
  for (auto& u : vs::g_uad) g_hist.push_back(HEv{'x', u.t < 0 ? 0 : u.t, "uad", u.tag, u.kind, 0, 0});
  g_hist.push_back(HEv{'x', 0, "hang", 42, 0, 0, 0});
  long id = g_sh->next_id++; g_sh->distinct++;
  fprintf(g_fo, "{\"e\":\"reset\",\"n\":%zu,\"id\":%ld,\"p\":1}\n%s", g_hist.size(), id, hist_json(g_hist).c_str()); fflush(g_fo);
  if (g_fs) { fprintf(g_fs, "{\"id\":%ld,%s,\"sched\":\"%s\"}\n", id, g_sched_head.c_str(), join_ints(trace).c_str()); fflush(g_fs); } }
static void on_crash(int sig) { _exit(100 + sig); }

struct Args { std::string variant, program, strategy = "random", out = "", replay = "", prefix = ""; long n = 1000; int bound = 2; unsigned long long seed = 1; int pct_depth = 3; bool list = false; bool steps = false; bool spurious = false; double time_limit = 1e9; long max_steps = 400000; };
static std::vector<int> parse_ints(const std::string& s) { std::vector<int> r; size_t i = 0; while (i < s.size()) { size_t j = s.find(',', i); if (j == std::string::npos) j = s.size(); if (j > i) r.push_back(atoi(s.substr(i, j - i).c_str())); i = j + 1; } return r; }
static std::string join_ints(const std::vector<int>& v) { std::string s; for (size_t i = 0; i < v.size(); ++i) { if (i) s += ","; s += std::to_string(v[i]); } return s; }

static int child_explore(const Args& A, const Variant& V, const Program& P, long start_exec) {
  signal(SIGSEGV, on_crash); signal(SIGBUS, on_crash); signal(SIGABRT, on_crash); signal(SIGFPE, on_crash); signal(SIGILL, on_crash);
  FILE* fo = A.out.empty() ? stdout : fopen((A.out + ".ndjson").c_str(), "a");
  FILE* fs = A.out.empty() ? nullptr : fopen((A.out + ".sched").c_str(), "a");
  std::set<std::string> seen; auto t0 = std::chrono::steady_clock::now();
  vs::ExecSpec spec; spec.bound = A.bound; spec.pct_depth = A.pct_depth; spec.log_steps = false; spec.spurious_cas = A.spurious; spec.max_steps = A.max_steps;
  int strat = A.strategy == "dfs" ? vs::S_DFS : A.strategy == "pct" ? vs::S_PCT : A.strategy == "replay" ? vs::S_REPLAY : A.strategy == "seq" ? vs::S_SEQ : vs::S_RANDOM;
  spec.strategy = strat; if (strat == vs::S_REPLAY) spec.sched = parse_ints(A.replay); if (strat == vs::S_DFS) spec.prefix = parse_ints(A.prefix);
  size_t est_len = 300;
  for (long k = start_exec; k < A.n; ++k) {
    spec.seed = A.seed + (unsigned long long)k; spec.pct_len = est_len;
    g_sh->exec_no = k; g_sh->strategy = strat; g_sh->seed = spec.seed; g_sh->nprefix = (int)std::min<size_t>(spec.prefix.size(), 8192); for (int i = 0; i < g_sh->nprefix; ++i) g_sh->prefix[i] = spec.prefix[i];
    g_hist.clear(); q_release_all(); g_sh->decs[0] = 0; vs::g_dec_sink = g_sh->decs;
    { char hb[64]; snprintf(hb, sizeof hb, "\"seed\":%llu,\"bound\":%d", spec.seed, A.bound);
      g_sched_head = "\"variant\":\"" + V.name + "\",\"program\":\"" + P.text + "\",\"strategy\":\"" + A.strategy + "\"," + hb + ",\"prefix\":\"" + join_ints(spec.prefix) + "\"";
      g_fo = fo; g_fs = fs; vs::g_on_abort = flush_partial; }
    vs::ExecResult r = vs::run([&] { V.body(P); }, spec);
    g_sh->progress++; g_sh->execs_done++; if ((long)r.steps > g_sh->max_steps) g_sh->max_steps = (long)r.steps;
    if (r.trace.size() > 20) est_len = r.trace.size();
    if (r.deadlock) { g_sh->deadlocks++; g_hist.push_back(HEv{'x', 0, "deadlock", 0, 0, 0, 0}); }
    for (auto& u : vs::g_uad) { g_hist.push_back(HEv{'x', u.t < 0 ? 0 : u.t, "uad", u.tag, u.kind, 0, 0}); }
    if (!vs::g_uad.empty()) g_sh->uads++;
    std::string h = hist_json(g_hist);
    if (seen.insert(h).second) {
      long id = g_sh->next_id++; g_sh->distinct++;
      fprintf(fo, "{\"e\":\"reset\",\"n\":%zu,\"id\":%ld%s}\n%s", g_hist.size(), id, r.deadlock ? ",\"p\":1" : "", h.c_str()); fflush(fo);
      if (fs) { fprintf(fs, "{\"id\":%ld,\"variant\":\"%s\",\"program\":\"%s\",\"strategy\":\"%s\",\"seed\":%llu,\"bound\":%d,\"prefix\":\"%s\",\"sched\":\"%s\"}\n", id, V.name.c_str(), P.text.c_str(), A.strategy.c_str(), spec.seed, A.bound, join_ints(spec.prefix).c_str(), join_ints(r.trace).c_str()); fflush(fs); }
    }
    if (r.deadlock) { /* threads of a deadlocked execution are parked forever: leave this process */ fflush(fo); if (fs) fflush(fs); _exit(43); }
    if (strat == vs::S_DFS) {
      int i = (int)r.decs.size() - 1; while (i >= 0 && r.decs[i].chosen + 1 >= r.decs[i].nalt) --i;
      if (i < 0) { g_sh->exhausted = 1; break; }
      spec.prefix.clear(); for (int j = 0; j < i; ++j) spec.prefix.push_back(r.decs[j].chosen); spec.prefix.push_back(r.decs[i].chosen + 1);
    }
    if (strat == vs::S_REPLAY || strat == vs::S_SEQ) { g_sh->exhausted = 1; if (r.diverged) fprintf(stderr, "replay diverged %d times (used %zu of %zu)\n", r.diverged, r.sched_used, spec.sched.size()); break; }
    if (std::chrono::duration<double>(std::chrono::steady_clock::now() - t0).count() > A.time_limit) break;
  }
  if (fo != stdout) fclose(fo); if (fs) fclose(fs);
  return 0; }

int main_impl(int argc, char** argv) {
  // stable addresses: disable ASLR and re-exec once
  if (!getenv("VERIF_NO_REEXEC")) { int pers = personality(0xffffffff); if (pers != -1 && !(pers & ADDR_NO_RANDOMIZE)) { if (personality(pers | ADDR_NO_RANDOMIZE) != -1) { setenv("VERIF_NO_REEXEC", "1", 1); execv("/proc/self/exe", argv); } } }
  Args A;
  for (int i = 1; i < argc; ++i) { std::string a = argv[i]; auto nx = [&] { return std::string(i + 1 < argc ? argv[++i] : ""); };
    if (a == "--list") A.list = true; else if (a == "--variant") A.variant = nx(); else if (a == "--prog") A.program = nx(); else if (a == "--strategy") A.strategy = nx();
    else if (a == "--n") A.n = atol(nx().c_str()); else if (a == "--bound") A.bound = atoi(nx().c_str()); else if (a == "--seed") A.seed = strtoull(nx().c_str(), 0, 10);
    else if (a == "--out") A.out = nx(); else if (a == "--sched") A.replay = nx(); else if (a == "--prefix") A.prefix = nx(); else if (a == "--pct-depth") A.pct_depth = atoi(nx().c_str());
    else if (a == "--points") { std::string w = nx(); if (w == "locks") vs::g_is_modelled = [](const void*, int kind) { return kind == vs::K_MLOCK || kind == vs::K_USERPT; };
      else if (w == "rmw") vs::g_is_modelled = [](const void*, int kind) { return kind == vs::K_MLOCK || kind == vs::K_USERPT || kind == vs::K_CAS || kind == vs::K_XCHG || kind == vs::K_FADD || kind == vs::K_FSUB || kind == vs::K_FBIT; }; }   // + read-modify-write accesses (spin locks, flags)   // decision points: lock acquisitions and user points only
    else if (a == "--spurious") A.spurious = true; else if (a == "--noquarantine") g_quarantine = false; else if (a == "--time") A.time_limit = atof(nx().c_str()); else if (a == "--max-steps") A.max_steps = atol(nx().c_str());
    else { fprintf(stderr, "unknown argument %s\n", a.c_str()); return 2; } }
  if (A.list) { for (auto& v : variants()) printf("%s\n", v.name.c_str()); return 0; }
  const Variant* V = nullptr; for (auto& v : variants()) if (v.name == A.variant) V = &v;
  if (!V) { fprintf(stderr, "no such variant: %s\n", A.variant.c_str()); return 2; }
  if (A.strategy == "sched") { A.strategy = "replay"; }
  if (A.strategy == "replay" || A.strategy == "seq") A.n = 1;
  Program P = parse_program(A.program);
  g_sh = (Shared*)mmap(nullptr, sizeof(Shared), PROT_READ | PROT_WRITE, MAP_SHARED | MAP_ANONYMOUS, -1, 0); memset((void*)g_sh, 0, sizeof(Shared));
  if (!A.out.empty()) { fclose(fopen((A.out + ".ndjson").c_str(), "w")); fclose(fopen((A.out + ".sched").c_str(), "w")); }
  long start = 0; auto t0 = std::chrono::steady_clock::now(); int hangs = 0;
  for (int attempt = 0; attempt < 50 && start < A.n && !g_sh->exhausted; ++attempt) {
    fflush(stdout); fflush(stderr);
    pid_t pid = fork();
    if (pid == 0) { int rc = child_explore(A, *V, P, start); fflush(stdout); _exit(rc); }
    int status = 0; long last = -1; int idle = 0;
    for (;;) { pid_t w = waitpid(pid, &status, WNOHANG); if (w == pid) break; usleep(20000);
      if (g_sh->progress == last) { if (++idle > 6000) {   /* 120 s without a finished execution: a loaded machine must not turn a slow execution into a "hang" */ kill(pid, SIGKILL); waitpid(pid, &status, 0); status = 0x7f00 | 99; break; } } else { idle = 0; last = g_sh->progress; } }
    if (WIFEXITED(status) && WEXITSTATUS(status) == 0) break;
    int code = WIFEXITED(status) ? WEXITSTATUS(status) : 128 + WTERMSIG(status);
    long k = g_sh->exec_no;
    if (code == 42) { g_sh->inconclusive++; }
    else if (code == 43) { /* deadlock: already recorded by the child */ }
    else { // crash or hang: record a one-event history that the oracle rejects
      const char* what = (status == (0x7f00 | 99)) ? "hang" : "crash"; if (what[0] == 'h') ++hangs; g_sh->crashes++;
      long id = g_sh->next_id++; g_sh->distinct++;
      FILE* fo = A.out.empty() ? stdout : fopen((A.out + ".ndjson").c_str(), "a");
      fprintf(fo, "{\"e\":\"reset\",\"n\":1,\"id\":%ld}\n{\"e\":\"x\",\"t\":0,\"op\":\"%s\",\"a\":%d,\"b\":0}\n", id, what, code); if (fo != stdout) fclose(fo);
      if (!A.out.empty()) { FILE* fs = fopen((A.out + ".sched").c_str(), "a"); std::vector<int> pf; for (int i = 0; i < g_sh->nprefix; ++i) pf.push_back((int)g_sh->prefix[i]);
        fprintf(fs, "{\"id\":%ld,\"variant\":\"%s\",\"program\":\"%s\",\"strategy\":\"%s\",\"seed\":%llu,\"bound\":%d,\"prefix\":\"%s\",\"sched\":\"%s\"}\n", id, V->name.c_str(), P.text.c_str(), A.strategy.c_str(), (unsigned long long)g_sh->seed, A.bound, join_ints(pf).c_str(), A.replay.c_str()); fclose(fs); }
    }
    if (A.strategy == "replay" || A.strategy == "seq") break;
    if (A.strategy == "dfs") {   // continue the DFS behind the lost execution: successor of its mirrored decision list (the subtree below the abort point is skipped)
      int n = g_sh->decs[0]; if (n < 0) break; int i = n - 1; while (i >= 0 && g_sh->decs[2 + 2 * i] + 1 >= g_sh->decs[1 + 2 * i]) --i;
      if (i < 0) { g_sh->exhausted = 1; break; }
      std::string pf; for (int j = 0; j < i; ++j) pf += std::to_string(g_sh->decs[2 + 2 * j]) + ","; pf += std::to_string(g_sh->decs[2 + 2 * i] + 1); A.prefix = pf; }
    if (g_sh->crashes >= 3) break;                                                       // enough evidence
    start = k + 1;
  }
  double sec = std::chrono::duration<double>(std::chrono::steady_clock::now() - t0).count();
  std::string st = "{\"variant\":\"" + V->name + "\",\"program\":\"" + P.text + "\",\"strategy\":\"" + A.strategy + "\",\"bound\":" + std::to_string(A.bound) + ",\"seed\":" + std::to_string(A.seed) +
    ",\"executions\":" + std::to_string(g_sh->execs_done) + ",\"distinct\":" + std::to_string(g_sh->distinct) + ",\"exhausted\":" + std::to_string(g_sh->exhausted) + ",\"inconclusive\":" + std::to_string(g_sh->inconclusive) +
    ",\"deadlocks\":" + std::to_string(g_sh->deadlocks) + ",\"uad_executions\":" + std::to_string(g_sh->uads) + ",\"crashes\":" + std::to_string(g_sh->crashes) + ",\"max_steps\":" + std::to_string(g_sh->max_steps) + ",\"wall_s\":" + std::to_string(sec) + "}";
  if (!A.out.empty()) { FILE* f = fopen((A.out + ".stats.json").c_str(), "w"); fprintf(f, "%s\n", st.c_str()); fclose(f); } else fprintf(stderr, "%s\n", st.c_str());
  return 0; }
}
int main(int argc, char** argv) { return drv::main_impl(argc, argv); }
