// vsched.cpp -- deterministic scheduler for the libcds verification harness.
//
// Real pthreads, exactly one of which runs at a time.  Every instrumented atomic access and every interposed
// pthread primitive (mutex, condvar, create, join, yield, sleep, kill) is a scheduling point.  The strategy
// (random / PCT / pre-emption bounded DFS / replay of a thread-id list) decides who moves next.
// See /verif/DESIGN.md section 4.3.
#include <cds_verif/vsched.h>
#include <pthread.h>
#include <semaphore.h>
#include <dlfcn.h>
#include <sched.h>
#include <time.h>
#include <signal.h>
#include <errno.h>
#include <unistd.h>
#include <random>
#include <map>
#include <cstdio>
#include <cstdlib>
#include <cstring>

namespace vs {
enum St { RUN, BLK_MUTEX, BLK_COND, BLK_JOIN, FIN };
struct Ctx {
  double prio = 0; sem_t sem; St st = RUN; const void* on = nullptr; pthread_t pt; bool timed = false; bool timedout = false;
  int yielded = 0; unsigned sigpending = 0; bool in_handler = false;
};
static std::vector<Ctx*> g_ctx; static bool g_active = false; static int g_cur = -1;
static thread_local int t_self = -1;
static std::mt19937_64 g_rng; static std::vector<Event>* g_out = nullptr; static bool g_deadlock;
static sem_t g_done;
struct MOwner { int owner; int count; };
static std::map<const void*, MOwner> g_owner;   // virtual mutex state
static ExecSpec g_spec; static ExecResult g_res;
static bool g_roi = false;
static int g_preempt_used = 0;
static double g_low = 0; static std::vector<size_t> g_change; static double g_switch_p = 1.0;
static long g_consec = 0; static int g_last = -1;
static void (*g_sighandler[65])(int) = {nullptr};

bool (*g_is_modelled)(const void*, int) = nullptr;
volatile int* g_dec_sink = nullptr;
void (*g_on_abort)(const char*, const std::vector<int>&) = nullptr;
void (*g_user_sink)(const char*, const void*) = nullptr;
std::vector<Uad> g_uad;

int self() noexcept { return t_self; }
bool active() noexcept { return g_active && t_self >= 0; }
void roi(bool on) noexcept { g_roi = on; }
static inline bool controlled() { return g_active && t_self >= 0; }

// ---- memory registry ---------------------------------------------------------------------------------------
struct Region { size_t n; int tag; int state; };
static std::map<uintptr_t, Region> g_mem;
void mem_register(const void* p, size_t n, int tag) noexcept { g_mem[(uintptr_t)p] = Region{n, tag, 1}; }
void mem_dispose(const void* p) noexcept { auto it = g_mem.find((uintptr_t)p); if (it != g_mem.end()) it->second.state = 2; }
static std::map<uintptr_t, Region>::iterator mem_find(const void* p) {
  if (g_mem.empty()) return g_mem.end();
  auto it = g_mem.upper_bound((uintptr_t)p); if (it == g_mem.begin()) return g_mem.end(); --it;
  if ((uintptr_t)p < it->first + it->second.n) return it; return g_mem.end(); }
int mem_state(const void* p) noexcept { auto it = mem_find(p); return it == g_mem.end() ? 0 : it->second.state; }
int mem_tag(const void* p) noexcept { auto it = mem_find(p); return it == g_mem.end() ? -1 : it->second.tag; }
void mem_reset() noexcept { g_mem.clear(); g_uad.clear(); }
void report_uad(const void* addr, int kind) noexcept {
  auto it = mem_find(addr); g_uad.push_back(Uad{t_self, addr, it == g_mem.end() ? -1 : it->second.tag, kind, g_res.steps}); }

// ---- choosing the next thread -------------------------------------------------------------------------------
static void finish_all() { g_active = false; sem_post(&g_done); }
static bool all_finished() { for (auto c : g_ctx) if (c->st != FIN) return false; return true; }
static void runnable(std::vector<int>& en, std::vector<int>& lo) {
  for (int i = 0; i < (int)g_ctx.size(); ++i) if (g_ctx[i]->st == RUN) { (g_ctx[i]->yielded ? lo : en).push_back(i); } }
// generic pick used at forced switches (block / finish / yield) and by the random and PCT strategies
static int pick(int me, bool forced) {
  std::vector<int> en, lo; runnable(en, lo);
  if (en.empty()) { for (int i : lo) g_ctx[i]->yielded = 0; en.swap(lo); }
  if (en.empty()) {
    for (int i = 0; i < (int)g_ctx.size(); ++i) if (g_ctx[i]->st == BLK_COND && g_ctx[i]->timed) { g_ctx[i]->st = RUN; g_ctx[i]->timedout = true; return i; }
    return -1; }
  if (g_spec.strategy == S_REPLAY) {
    if (g_res.sched_used < g_spec.sched.size()) { int w = g_spec.sched[g_res.sched_used]; for (int i : en) if (i == w) return w; }
    for (int i : en) if (i != me) return i; return en[0]; }
  if (g_spec.strategy == S_DFS && g_roi && en.size() > 1) {
    // a non-preemptive switch (the running thread blocked or finished): which thread continues is a free decision of the search (cost 0);
    // alternative 0 is the rotation order
    std::vector<int> alts; for (int i : en) if (i > me) alts.push_back(i); for (int i : en) if (i <= me) alts.push_back(i);
    size_t di = g_res.decs.size(); int choice = di < g_spec.prefix.size() ? g_spec.prefix[di] : 0; if (choice >= (int)alts.size()) choice = 0;
    g_res.decs.push_back(Dec{(int)alts.size(), choice, 0});
    if (g_dec_sink) { int n = g_dec_sink[0]; if (n >= 0 && n < DEC_SINK_MAX) { g_dec_sink[1 + 2 * n] = (int)alts.size(); g_dec_sink[2 + 2 * n] = choice; g_dec_sink[0] = n + 1; } else g_dec_sink[0] = -1; }
    return alts[choice]; }
  if (g_spec.strategy == S_DFS || g_spec.strategy == S_SEQ || !g_roi) {   // deterministic rotation
    for (int i : en) if (i > me) return i; return en[0]; }
  if (g_spec.strategy == S_PCT) {
    int best = -1; for (int i : en) { if (g_ctx[i]->prio == 0) g_ctx[i]->prio = 1 + (g_rng() % 100000) / 100000.0; if (best < 0 || g_ctx[i]->prio > g_ctx[best]->prio) best = i; }
    return best; }
  // random
  if (!forced && me >= 0 && g_ctx[me]->st == RUN && !g_ctx[me]->yielded && g_switch_p < 1.0) {
    double u = (g_rng() % 1000000) / 1000000.0; if (u >= g_switch_p) return me; }
  return en[g_rng() % en.size()];
}
static void park(int me) { while (sem_wait(&g_ctx[me]->sem) != 0) {} }
static void switch_to(int me, int next) { g_cur = next; if (next == me) return; sem_post(&g_ctx[next]->sem); if (me >= 0 && g_ctx[me]->st != FIN) park(me); }
static void switch_from(int me, bool forced) {   // choose next; block me unless chosen
  int next = pick(me, forced);
  if (next < 0) { if (!all_finished()) { g_deadlock = true;
      if (getenv("VS_DEBUG")) { for (size_t i = 0; i < g_ctx.size(); ++i) fprintf(stderr, "vsched deadlock: thread %zu state %d on %p\n", i, (int)g_ctx[i]->st, g_ctx[i]->on);
        for (auto& kv : g_owner) if (kv.second.owner >= 0) fprintf(stderr, "  mutex %p owner %d count %d kind %d\n", kv.first, kv.second.owner, kv.second.count, ((const pthread_mutex_t*)kv.first)->__data.__kind); } }
    finish_all(); if (me >= 0 && g_ctx[me]->st != FIN) { for (;;) park(me); } return; }
  switch_to(me, next);
}
static void deliver_signals() {
  Ctx* c = g_ctx[t_self]; if (c->in_handler) return;
  while (c->sigpending) { int s = __builtin_ctz(c->sigpending); c->sigpending &= ~(1u << s); c->in_handler = true;
    if (g_out && g_spec.log_steps) g_out->push_back(Event{t_self, K_SIGNAL, nullptr, (uint64_t)s, 0, 1, 0, nullptr});
    if (s < 65 && g_sighandler[s]) g_sighandler[s](s); c->in_handler = false; } }

static void abort_exec(const char* why) {
  if (g_on_abort) g_on_abort(why, g_res.trace);
  fprintf(stderr, "vsched: execution aborted: %s (steps=%zu)\n", why, g_res.steps); fflush(stderr); _exit(42); }

static void dfs_point(const void* addr, int kind, bool mod) {
  bool meYield = (kind == K_YIELD);
  std::vector<int> en; for (int i = 0; i < (int)g_ctx.size(); ++i) if (g_ctx[i]->st == RUN) en.push_back(i);
  if (meYield) {   // yields never branch: hand over to the next other runnable thread (round robin)
    int nxt = -1; for (int i : en) if (i > t_self) { nxt = i; break; } if (nxt < 0) for (int i : en) if (i != t_self) { nxt = i; break; }
    if (nxt >= 0) switch_to(t_self, nxt); return; }
  if (!mod || (kind == K_POST && !g_post_store_points)) return;
  std::vector<int> alts; alts.push_back(t_self); for (int i : en) if (i != t_self) alts.push_back(i);
  if (alts.size() <= 1) return;
  size_t di = g_res.decs.size(); int choice = 0;
  if (di < g_spec.prefix.size()) choice = g_spec.prefix[di];
  if (choice >= (int)alts.size()) choice = 0;
  int cost = (alts[choice] != t_self) ? 1 : 0;
  int nalt = (g_preempt_used < g_spec.bound) ? (int)alts.size() : 1;
  if (cost && g_preempt_used >= g_spec.bound) { choice = 0; cost = 0; }
  g_preempt_used += cost;
  g_res.decs.push_back(Dec{nalt, choice, cost});
  if (g_dec_sink) { int n = g_dec_sink[0]; if (n >= 0 && n < DEC_SINK_MAX) { g_dec_sink[1 + 2 * n] = nalt; g_dec_sink[2 + 2 * n] = choice; g_dec_sink[0] = n + 1; } else g_dec_sink[0] = -1; }
  int w = alts[choice]; if (w != t_self) switch_to(t_self, w);
}

void sched_point(const void* addr, int kind, int) noexcept {
  if (!controlled()) return;
  if (++g_res.steps > g_spec.max_steps) { g_res.inconclusive = true; abort_exec("step budget exceeded"); }
  if (addr && !g_mem.empty() && kind < K_YIELD) { auto it = mem_find(addr); if (it != g_mem.end() && it->second.state == 2) g_uad.push_back(Uad{t_self, addr, it->second.tag, kind, g_res.steps}); }
  // fairness: a thread that spins without back-off while others are runnable is treated as yielding
  if (g_last != t_self) { g_last = t_self; g_consec = 0; }
  if (++g_consec > 3000) { kind = K_YIELD; g_consec = 0; g_ctx[t_self]->yielded = 1; }
  bool mod = addr != nullptr && g_roi && kind != K_YIELD && (!g_is_modelled || g_is_modelled(addr, kind));
  switch (g_spec.strategy) {
  case S_DFS: dfs_point(addr, kind, mod); break;
  case S_SEQ: if (kind == K_YIELD) switch_from(t_self, true); break;
  case S_REPLAY:
    if (kind == K_YIELD) { switch_from(t_self, true); break; }
    if (!mod) break;
    for (;;) {
      int w = g_res.sched_used < g_spec.sched.size() ? g_spec.sched[g_res.sched_used] : t_self;
      if (w == t_self) { if (g_res.sched_used < g_spec.sched.size()) ++g_res.sched_used; break; }
      if (w < 0 || w >= (int)g_ctx.size() || g_ctx[w]->st != RUN) { ++g_res.diverged; ++g_res.sched_used; continue; }
      switch_to(t_self, w); }
    break;
  default:
    if (kind == K_YIELD) { if (g_spec.strategy == S_PCT) { g_low -= 1; g_ctx[t_self]->prio = g_low; } switch_from(t_self, true); break; }
    for (auto c : g_ctx) c->yielded = 0;
    if (!mod) break;
    if (g_spec.strategy == S_PCT) { for (size_t cp : g_change) if (g_res.trace.size() == cp) { g_low -= 1; g_ctx[t_self]->prio = g_low; } }
    switch_from(t_self, false);
  }
  if (mod) g_res.trace.push_back(t_self);
  if (g_ctx[t_self]->sigpending) deliver_signals();
}
void log_event(int kind, const void* addr, uint64_t a, uint64_t b, int ok, int ord) noexcept {
  if (!controlled() || !g_out || !g_spec.log_steps) return; g_out->push_back(Event{t_self, kind, addr, a, b, ok, ord, nullptr}); }
void user_event(const char* name, const void* p) noexcept {
  if (!controlled()) return; if (g_user_sink) g_user_sink(name, p);
  if (g_out && g_spec.log_steps) g_out->push_back(Event{t_self, K_USER, p, 0, 0, 1, 0, name}); }
bool g_post_store_points = false;
void post_point() noexcept { static char after; sched_point(&after, K_POST, 0); }
bool weak_cas_spurious() noexcept {
  if (!controlled() || !g_spec.spurious_cas || !g_roi) return false;
  if (g_spec.strategy == S_RANDOM || g_spec.strategy == S_PCT) return (g_rng() % 16) == 0; return false; }

struct Start { void* (*f)(void*); void* arg; int id; };
static pthread_key_t g_exit_key; static pthread_once_t g_exit_once = PTHREAD_ONCE_INIT;
static void wake_joiners(int id) { for (auto c : g_ctx) if (c->st == BLK_JOIN && c->on == (const void*)(intptr_t)(id + 1)) c->st = RUN; }
static void exit_hook(void* v) {
  intptr_t round = (intptr_t)v;
  if (round < 2) { pthread_setspecific(g_exit_key, (void*)(round + 1)); return; }   // let other TLS destructors run first
  if (t_self < 0) return;
  int me = t_self; g_ctx[me]->st = FIN; wake_joiners(me); t_self = -1;
  if (g_active) { int next = pick(me, true); if (next < 0) { if (!all_finished()) g_deadlock = true; finish_all(); } else { g_cur = next; sem_post(&g_ctx[next]->sem); } }
}
static void mk_key() { pthread_key_create(&g_exit_key, exit_hook); }
static void* tramp(void* p) {
  Start* s = (Start*)p; t_self = s->id; pthread_once(&g_exit_once, mk_key); park(s->id);
  void* r = s->f(s->arg); pthread_setspecific(g_exit_key, (void*)1); delete s; return r; }
typedef int (*create_t)(pthread_t*, const pthread_attr_t*, void* (*)(void*), void*);
static create_t real_create() { static create_t f = (create_t)dlsym(RTLD_NEXT, "pthread_create"); return f; }
typedef int (*join_t)(pthread_t, void**);
static join_t real_join() { static join_t f = (join_t)dlsym(RTLD_NEXT, "pthread_join"); return f; }
static std::function<void()> g_rootf;

ExecResult run(std::function<void()> root, const ExecSpec& spec, std::vector<Event>* steps_out) {
  g_spec = spec; g_res = ExecResult(); g_rng.seed(spec.seed * 0x9E3779B97F4A7C15ull + 12345); g_preempt_used = 0; g_low = 0; g_roi = false;
  g_change.clear();
  if (spec.strategy == S_PCT) for (int k = 0; k + 1 < spec.pct_depth; ++k) g_change.push_back(g_rng() % (spec.pct_len ? spec.pct_len : 1));
  static const double ps[] = {1.0, 0.5, 0.2, 0.08, 0.03}; g_switch_p = ps[spec.seed % 5];
  g_out = steps_out; g_deadlock = false; g_owner.clear(); g_consec = 0; g_last = -1; g_uad.clear();
  sem_init(&g_done, 0, 0); g_ctx.clear();
  auto c = new Ctx; sem_init(&c->sem, 0, 0); g_ctx.push_back(c);
  g_rootf = root;
  Start* s = new Start{ [](void*) -> void* { g_rootf(); return nullptr; }, nullptr, 0 };
  pthread_t pt; real_create()(&pt, nullptr, tramp, s); c->pt = pt;
  g_active = true; g_cur = 0; sem_post(&c->sem);
  while (sem_wait(&g_done) != 0) {}
  g_res.deadlock = g_deadlock; g_res.nthreads = (int)g_ctx.size();
  if (!g_deadlock) { for (auto x : g_ctx) real_join()(x->pt, nullptr); for (auto x : g_ctx) { sem_destroy(&x->sem); delete x; } }
  g_ctx.clear(); g_out = nullptr;
  return g_res;
}
static int find_by_pt(pthread_t t) { for (int i = 0; i < (int)g_ctx.size(); ++i) if (pthread_equal(g_ctx[i]->pt, t)) return i; return -1; }
static void block_on(St st, const void* on) {   // block current thread; signals may wake it temporarily
  Ctx* me = g_ctx[t_self]; me->st = st; me->on = on; switch_from(t_self, true); if (me->sigpending) deliver_signals(); }
static bool mutex_free_for(const void* m, int me, bool& recursive_hit) {
  auto it = g_owner.find(m); recursive_hit = false;
  if (it == g_owner.end() || it->second.owner < 0) return true;
  if (it->second.owner == me && ((((const pthread_mutex_t*)m)->__data.__kind & 3) == PTHREAD_MUTEX_RECURSIVE_NP)) { recursive_hit = true; return true; }
  return false; }
static void mutex_take(const void* m, int me, bool rec) { if (rec) g_owner[m].count++; else g_owner[m] = MOwner{me, 1}; }
static void mutex_release(const void* m) {
  auto& o = g_owner[m]; if (--o.count <= 0) { o.owner = -1; o.count = 0; for (auto c : g_ctx) if (c->st == BLK_MUTEX && c->on == m) c->st = RUN; } }
} // namespace vs

using namespace vs;
extern "C" {
int pthread_create(pthread_t* t, const pthread_attr_t* a, void* (*f)(void*), void* arg) {
  if (!controlled()) return real_create()(t, a, f, arg);
  int id = (int)g_ctx.size(); auto c = new Ctx; sem_init(&c->sem, 0, 0); g_ctx.push_back(c);
  Start* s = new Start{f, arg, id}; int rc = real_create()(t, a, tramp, s); c->pt = *t; sched_point(nullptr, K_SPAWN, 0); return rc; }
int pthread_join(pthread_t t, void** rv) {
  if (!controlled()) return real_join()(t, rv);
  int id = find_by_pt(t);
  while (id >= 0 && g_ctx[id]->st != FIN) block_on(BLK_JOIN, (const void*)(intptr_t)(id + 1));
  if (rv) *rv = nullptr; return 0; /* the real join happens at the end of the run */ }
int pthread_detach(pthread_t t) { static auto real = (int (*)(pthread_t))dlsym(RTLD_NEXT, "pthread_detach"); if (!controlled()) return real(t); return 0; }
int pthread_mutex_lock(pthread_mutex_t* m) { static auto real = (int (*)(pthread_mutex_t*))dlsym(RTLD_NEXT, "pthread_mutex_lock");
  if (!controlled()) return real(m);
  sched_point(m, K_MLOCK, 0);
  for (;;) { bool rec; if (mutex_free_for(m, t_self, rec)) { mutex_take(m, t_self, rec); return 0; } block_on(BLK_MUTEX, m); } }
int pthread_mutex_trylock(pthread_mutex_t* m) { static auto real = (int (*)(pthread_mutex_t*))dlsym(RTLD_NEXT, "pthread_mutex_trylock");
  if (!controlled()) return real(m);
  sched_point(m, K_MLOCK, 0); bool rec; if (mutex_free_for(m, t_self, rec)) { mutex_take(m, t_self, rec); return 0; } return EBUSY; }
int pthread_mutex_unlock(pthread_mutex_t* m) { static auto real = (int (*)(pthread_mutex_t*))dlsym(RTLD_NEXT, "pthread_mutex_unlock");
  if (!controlled()) return real(m);
  if (g_owner.find(m) == g_owner.end()) return real(m);
  mutex_release(m); sched_point(m, K_MUNLOCK, 0); return 0; }
static int cond_wait_impl(pthread_cond_t* c, pthread_mutex_t* m, bool timed) {
  int saved = g_owner[m].count; g_owner[m].count = 1; mutex_release(m);
  Ctx* me = g_ctx[t_self]; me->timed = timed; me->timedout = false;
  me->st = BLK_COND; me->on = c; switch_from(t_self, true);
  bool to = me->timedout; me->timed = false;
  for (;;) { bool rec; if (mutex_free_for(m, t_self, rec) && !rec) { g_owner[m] = MOwner{t_self, saved}; break; } block_on(BLK_MUTEX, m); }
  return to ? ETIMEDOUT : 0; }
int pthread_cond_wait(pthread_cond_t* c, pthread_mutex_t* m) { static auto real = (int (*)(pthread_cond_t*, pthread_mutex_t*))dlsym(RTLD_NEXT, "pthread_cond_wait"); if (!controlled()) return real(c, m); return cond_wait_impl(c, m, false); }
int pthread_cond_timedwait(pthread_cond_t* c, pthread_mutex_t* m, const struct timespec* ts) { static auto real = (int (*)(pthread_cond_t*, pthread_mutex_t*, const struct timespec*))dlsym(RTLD_NEXT, "pthread_cond_timedwait"); if (!controlled()) return real(c, m, ts); return cond_wait_impl(c, m, true); }
int pthread_cond_clockwait(pthread_cond_t* c, pthread_mutex_t* m, clockid_t k, const struct timespec* ts) { static auto real = (int (*)(pthread_cond_t*, pthread_mutex_t*, clockid_t, const struct timespec*))dlsym(RTLD_NEXT, "pthread_cond_clockwait"); if (!controlled()) return real(c, m, k, ts); return cond_wait_impl(c, m, true); }
int pthread_cond_signal(pthread_cond_t* c) { static auto real = (int (*)(pthread_cond_t*))dlsym(RTLD_NEXT, "pthread_cond_signal"); if (!controlled()) return real(c);
  for (auto x : g_ctx) if (x->st == BLK_COND && x->on == c) { x->st = RUN; break; } sched_point(c, K_CSIGNAL, 0); return 0; }
int pthread_cond_broadcast(pthread_cond_t* c) { static auto real = (int (*)(pthread_cond_t*))dlsym(RTLD_NEXT, "pthread_cond_broadcast"); if (!controlled()) return real(c);
  for (auto x : g_ctx) if (x->st == BLK_COND && x->on == c) x->st = RUN; sched_point(c, K_CSIGNAL, 0); return 0; }
int sched_yield(void) { if (controlled()) { g_ctx[t_self]->yielded = 1; sched_point(nullptr, K_YIELD, 0); } return 0; }
int nanosleep(const struct timespec* a, struct timespec* b) { static auto real = (int (*)(const struct timespec*, struct timespec*))dlsym(RTLD_NEXT, "nanosleep"); if (!controlled()) return real(a, b); g_ctx[t_self]->yielded = 1; sched_point(nullptr, K_YIELD, 0); return 0; }
int clock_nanosleep(clockid_t c, int f, const struct timespec* a, struct timespec* b) { static auto real = (int (*)(clockid_t, int, const struct timespec*, struct timespec*))dlsym(RTLD_NEXT, "clock_nanosleep"); if (!controlled()) return real(c, f, a, b); g_ctx[t_self]->yielded = 1; sched_point(nullptr, K_YIELD, 0); return 0; }
int usleep(useconds_t u) { static auto real = (int (*)(useconds_t))dlsym(RTLD_NEXT, "usleep"); if (!controlled()) return real(u); g_ctx[t_self]->yielded = 1; sched_point(nullptr, K_YIELD, 0); return 0; }
// signals: pthread_kill does not deliver a real signal; the handler runs on the target thread as a scheduled step
int sigaction(int sig, const struct sigaction* act, struct sigaction* old) { static auto real = (int (*)(int, const struct sigaction*, struct sigaction*))dlsym(RTLD_NEXT, "sigaction");
  if (act && sig > 0 && sig < 65 && sig != SIGSEGV && sig != SIGABRT && sig != SIGBUS && sig != SIGFPE && sig != SIGILL) g_sighandler[sig] = (act->sa_flags & SA_SIGINFO) ? nullptr : act->sa_handler;
  if (act && sig > 0 && sig < 65 && (act->sa_flags & SA_SIGINFO) && sig != SIGSEGV && sig != SIGABRT && sig != SIGBUS && sig != SIGFPE && sig != SIGILL) g_sighandler[sig] = (void (*)(int))(void*)act->sa_sigaction;
  return real(sig, act, old); }
int pthread_kill(pthread_t t, int sig) { static auto real = (int (*)(pthread_t, int))dlsym(RTLD_NEXT, "pthread_kill");
  if (!controlled() || sig <= 0 || sig >= 32) return real(t, sig);
  int id = find_by_pt(t); if (id < 0 || g_ctx[id]->st == FIN) return ESRCH;
  g_ctx[id]->sigpending |= (1u << sig);
  if (id == t_self) { deliver_signals(); return 0; }
  if (g_ctx[id]->st != RUN) { g_ctx[id]->st = RUN; }   // wake a blocked target: its blocking loop re-checks the condition after the handler
  sched_point(&g_ctx[id]->sigpending, K_KILL, 0); return 0; }
}
