// cds_verif::atomic<T> -- instrumented drop-in for the subset of std::atomic that libcds uses.
// Every operation is a scheduling point of the deterministic scheduler (vsched) and a step event.
#pragma once
#include <atomic>
#include <cstring>
#include <cds_verif/vsched.h>
#ifndef CDS_VERIF_EVENT
#   define CDS_VERIF_EVENT( name, ptr ) ::vs::user_event( name, ptr )
#endif
namespace cds_verif {
  using std::memory_order; using std::memory_order_relaxed; using std::memory_order_consume; using std::memory_order_acquire;
  using std::memory_order_release; using std::memory_order_acq_rel; using std::memory_order_seq_cst;
  template <typename T> inline uint64_t enc(T const& v) noexcept { uint64_t r=0; std::memcpy(&r,&v,sizeof(T)<8?sizeof(T):8); return r; }
  inline void atomic_thread_fence(memory_order o) noexcept { std::atomic_thread_fence(o); }
  inline void atomic_signal_fence(memory_order o) noexcept { std::atomic_signal_fence(o); }
  template <typename T> class atomic {
    mutable std::atomic<T> a_;
  public:
    atomic() noexcept = default;
    constexpr atomic(T v) noexcept : a_(v) {}
    atomic(const atomic&) = delete; atomic& operator=(const atomic&) = delete;
    bool is_lock_free() const noexcept { return true; }
    T load(memory_order o = memory_order_seq_cst) const noexcept { vs::sched_point(this,vs::K_LOAD,(int)o); T v = a_.load(o); vs::log_event(vs::K_LOAD,this,enc(v),0,1,(int)o); return v; }
    void store(T v, memory_order o = memory_order_seq_cst) noexcept { vs::sched_point(this,vs::K_STORE,(int)o); a_.store(v,o); vs::log_event(vs::K_STORE,this,enc(v),0,1,(int)o); vs::post_point(); }
    T exchange(T v, memory_order o = memory_order_seq_cst) noexcept { vs::sched_point(this,vs::K_XCHG,(int)o); T r = a_.exchange(v,o); vs::log_event(vs::K_XCHG,this,enc(r),enc(v),1,(int)o); vs::post_point(); return r; }
    bool compare_exchange_strong(T& e, T d, memory_order s, memory_order f) noexcept { vs::sched_point(this,vs::K_CAS,(int)s); T e0=e; bool ok=a_.compare_exchange_strong(e,d,s,f); vs::log_event(vs::K_CAS,this,enc(ok?e0:e),enc(d),ok,(int)s); if (ok) vs::post_point(); return ok; }
    bool compare_exchange_strong(T& e, T d, memory_order s = memory_order_seq_cst) noexcept { return compare_exchange_strong(e,d,s,memory_order_relaxed); }
    bool compare_exchange_weak(T& e, T d, memory_order s, memory_order f) noexcept {
      if ( vs::weak_cas_spurious()) { vs::sched_point(this,vs::K_CAS,(int)s); T cur=a_.load(f); vs::log_event(vs::K_CAS,this,enc(cur),enc(d),0,(int)s); e=cur; return false; }
      return compare_exchange_strong(e,d,s,f); }
    bool compare_exchange_weak(T& e, T d, memory_order s = memory_order_seq_cst) noexcept { return compare_exchange_weak(e,d,s,memory_order_relaxed); }
    template <typename A> T fetch_add(A v, memory_order o = memory_order_seq_cst) noexcept { vs::sched_point(this,vs::K_FADD,(int)o); T r=a_.fetch_add(v,o); vs::log_event(vs::K_FADD,this,enc(r),(uint64_t)v,1,(int)o); vs::post_point(); return r; }
    template <typename A> T fetch_sub(A v, memory_order o = memory_order_seq_cst) noexcept { vs::sched_point(this,vs::K_FSUB,(int)o); T r=a_.fetch_sub(v,o); vs::log_event(vs::K_FSUB,this,enc(r),(uint64_t)v,1,(int)o); vs::post_point(); return r; }
    template <typename A> T fetch_and(A v, memory_order o = memory_order_seq_cst) noexcept { vs::sched_point(this,vs::K_FBIT,(int)o); T r=a_.fetch_and(v,o); vs::log_event(vs::K_FBIT,this,enc(r),(uint64_t)v,1,(int)o); vs::post_point(); return r; }
    template <typename A> T fetch_or(A v, memory_order o = memory_order_seq_cst) noexcept { vs::sched_point(this,vs::K_FBIT,(int)o); T r=a_.fetch_or(v,o); vs::log_event(vs::K_FBIT,this,enc(r),(uint64_t)v,1,(int)o); vs::post_point(); return r; }
    template <typename A> T fetch_xor(A v, memory_order o = memory_order_seq_cst) noexcept { vs::sched_point(this,vs::K_FBIT,(int)o); T r=a_.fetch_xor(v,o); vs::log_event(vs::K_FBIT,this,enc(r),(uint64_t)v,1,(int)o); vs::post_point(); return r; }
    operator T() const noexcept { return load(); }
    T operator=(T v) noexcept { store(v); return v; }
    T operator++() noexcept { return fetch_add(1)+1; }
    T operator++(int) noexcept { return fetch_add(1); }
    T operator--() noexcept { return fetch_sub(1)-1; }
    T operator--(int) noexcept { return fetch_sub(1); }
    template <typename A> T operator+=(A v) noexcept { return fetch_add(v)+v; }
    template <typename A> T operator-=(A v) noexcept { return fetch_sub(v)-v; }
  };
  typedef atomic<size_t> atomic_size_t; typedef atomic<int> atomic_int; typedef atomic<bool> atomic_bool; typedef atomic<unsigned> atomic_uint;
}
