// vsched.h -- deterministic scheduler interface used by the instrumented atomics and by drivers.
// Part of the libcds verification harness (/verif); found by the library through -I/verif/include
// when it is compiled with -DKHIZMAX_LIBCDS_VERIF.
#pragma once
#include <cstdint>
#include <cstddef>
#include <vector>
#include <functional>
#include <string>
namespace vs {
// kinds of scheduling points / step events
enum Kind { K_LOAD=0, K_STORE=1, K_XCHG=2, K_CAS=4, K_FADD=5, K_FSUB=6, K_FBIT=7, K_FENCE=8, K_POST=9,
            K_YIELD=10, K_SPAWN=11, K_MLOCK=12, K_MUNLOCK=13, K_CSIGNAL=14, K_CWAIT=15, K_JOIN=16,
            K_KILL=17, K_SIGNAL=18, K_USER=20, K_USERPT=21 };
struct Event { int t; int kind; const void* addr; uint64_t a, b; int ok; int ord; const char* name; };

void sched_point(const void* addr, int kind, int ord) noexcept;            // before every atomic access / blocking call
void log_event(int kind, const void* addr, uint64_t a, uint64_t b, int ok, int ord) noexcept; // after it
void user_event(const char* name, const void* p) noexcept;                  // CDS_VERIF_EVENT
extern bool g_post_store_points;                                            // see post_point()
void post_point() noexcept;                                                 // second scheduling point *after* an atomic write: lets plain accesses that (wrongly) follow an
                                                                            // unlocking / publishing write interleave with other threads.  random / pct / replay: always a
                                                                            // switch opportunity; dfs: a branching decision only if g_post_store_points is set (lock-like drivers)
bool weak_cas_spurious() noexcept;                                          // strategy may inject a spurious weak-CAS failure
int  self() noexcept;                                                       // scheduler thread index (0 = root) or -1
bool active() noexcept;

// region of interest: decisions (pre-emptions) are only taken while roi is on
void roi(bool on) noexcept;

// memory life-cycle registry (quarantine): accesses to disposed regions are reported, not executed differently
void mem_register(const void* p, size_t n, int tag) noexcept;   // live region (tag = driver-chosen object id)
void mem_dispose(const void* p) noexcept;                       // region becomes "disposed"
int  mem_state(const void* p) noexcept;                         // 0 unknown, 1 live, 2 disposed
int  mem_tag(const void* p) noexcept;                           // tag of the region containing p, or -1
void mem_reset() noexcept;
struct Uad { int t; const void* addr; int tag; int kind; size_t step; };
extern std::vector<Uad> g_uad;                                  // use-after-dispose reports of the current execution
void report_uad(const void* addr, int kind) noexcept;           // driver-detected payload access to a disposed region

// user-event sink (driver installs it to turn CDS_VERIF_EVENT into history events)
extern void (*g_user_sink)(const char* name, const void* p);

// ---- execution control -------------------------------------------------------------------------
enum Strategy { S_RANDOM=0, S_PCT=1, S_DFS=2, S_REPLAY=3, S_SEQ=4 };
struct Dec { int nalt; int chosen; int cost; };
struct ExecSpec {
  int strategy = S_RANDOM;
  uint64_t seed = 1;
  int bound = 2;                 // DFS pre-emption bound
  std::vector<int> prefix;       // DFS decision prefix
  std::vector<int> sched;        // REPLAY: thread ids, one per modelled access
  int pct_depth = 3;
  size_t pct_len = 300;          // expected number of steps (for PCT change points)
  size_t max_steps = 400000;
  bool log_steps = false;
  bool spurious_cas = false;
};
struct ExecResult {
  size_t steps = 0; bool deadlock = false; bool inconclusive = false; int nthreads = 0;
  std::vector<Dec> decs; int diverged = 0; size_t sched_used = 0;
  std::vector<int> trace;        // thread id per decision-relevant step (for saving a replayable schedule)
};
// run root() as controlled thread 0; threads created inside become controlled too.
ExecResult run(std::function<void()> root, const ExecSpec& spec, std::vector<Event>* steps_out = nullptr);
// which accesses count as "modelled" (consume a replay entry / are DFS decision points); default: all with addr != 0
extern bool (*g_is_modelled)(const void*, int);
// DFS decisions of the running execution mirrored into (shared) memory, so that a supervising process can continue the search after the
// exploring process was lost (livelock, crash, deadlock): sink[0] = count (-1: overflow), then pairs (nalt, chosen)
extern void (*g_on_abort)(const char* why, const std::vector<int>& trace);   // called (in the aborting thread) before an execution is abandoned: step budget exceeded
extern volatile int* g_dec_sink; static const int DEC_SINK_MAX = 100000;
}
