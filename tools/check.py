#!/usr/bin/env python3
"""check.py <property-id> [--tier quick|thorough] [--seed N] [--replay file]

Exit 0: property held on everything explored (KNOWN-FINDING lines possible); exit 1 + 'VIOLATION property=<id> replay=<path>':
reproducible rejection by the TLA+ oracle; exit 2: machinery failure (never reported as a violation)."""
import argparse, importlib, os, sys, json, subprocess

sys.path.insert(0, os.path.dirname(os.path.abspath(__file__)))
import vlib, build


def replay(path):
    d = json.load(open(path))
    if "driver" not in d:
        print(json.dumps(d, indent=1)[:4000])
        return 0
    exe = build.ensure_driver(d["driver"])
    s = d.get("schedule") or {}
    cmd = [exe, "--variant", d["variant"], "--prog", d["program"]] + d.get("extra", [])
    if s.get("sched"):
        cmd += ["--strategy", "replay", "--sched", s["sched"]]
    elif s.get("strategy") == "dfs":
        cmd += ["--strategy", "dfs", "--prefix", s.get("prefix", ""), "--bound", str(s.get("bound", 2)), "--n", "1"]
    else:
        cmd += ["--strategy", s.get("strategy", "random"), "--seed", str(s.get("seed", 1)), "--n", "1"]
    print("replaying:", " ".join(cmd))
    r = subprocess.run(cmd, stdout=subprocess.PIPE, stderr=subprocess.STDOUT, text=True)
    print(r.stdout[-6000:])
    want = [json.dumps(x, separators=(",", ":")) for x in d["history"]]
    got = [l for l in r.stdout.splitlines() if l.startswith('{"e":') and '"reset"' not in l]
    same = [json.loads(x) for x in got] == d["history"]
    print("replay reproduces the recorded history:", same)
    return 0 if same else 3


def main():
    ap = argparse.ArgumentParser()
    ap.add_argument("prop")
    ap.add_argument("--tier", default=os.environ.get("VERIF_TIER", "quick"))
    ap.add_argument("--seed", type=int, default=int(os.environ.get("VERIF_SEED", "1")))
    ap.add_argument("--replay")
    a = ap.parse_args()
    if a.replay:
        sys.exit(replay(a.replay))
    build.prune()
    mod = importlib.import_module("props." + a.prop.lower())
    ctx = vlib.Ctx(a.prop, a.tier, a.seed)
    vlib.log("== %s tier=%s seed=%d tree=%s" % (a.prop, a.tier, a.seed, build.tree_hash()))
    rc = mod.run(ctx)
    sys.exit(rc)


if __name__ == "__main__":
    main()
