"""C08 -- SegmentedQueue conserves items and bounds reordering by the quasi factor (DESIGN.md 6/C08)"""
import vlib
from props.common import make_jobs, strategies

VARIANTS = ["segmented_hp_q2", "segmented_hp_q3", "segmented_dhp_q4", "segmented_hp_q8"]
PROGRAMS = ["enq:1,enq:2,deq|deq,enq:3,deq|enq:4,deq;drain",
            "enq:1,enq:2,enq:3,enq:4|deq,deq,deq|enq:5,deq;drain",
            "enq:8,enq:9;enq:1,deq,enq:2|deq,deq,deq|enq:3,enq:4,deq;drain",
            "enq:1,enq:2,enq:3,enq:4,enq:5;deq,deq|deq,enq:6|deq,deq;drain"]
DEEP = ["enq:1,enq:2|deq,deq;drain", "enq:9;enq:1,deq|deq,enq:2;drain"]
CONSTS = ["AbsInit <- QQInit", "Step <- QQStep", "XStep <- QQXStep", "FinalOk <- QQFinal"]


def gen_program(rng):
    nt = rng.choice([2, 3, 3]); v = 0; th = []
    for t in range(nt):
        ops = []
        for _ in range(rng.choice([3, 4])):
            if rng.random() < 0.55:
                v += 1; ops.append("enq:%d" % v)
            else:
                ops.append("deq")
        th.append(",".join(ops))
    return "|".join(th) + ";drain"


def run(ctx):
    q = ctx.quick()
    # Tier B: SegQueue.tla (segment list under a lock, cells claimed / marked by CAS in any probe order, create_tail / remove_head); invariants: no loss, no
    # duplicate, every segment but the last is populated, "empty" only if no item was present throughout.  Refuted: seeded change C08 (hoisted CAS expected value)
    vlib.model_check_many(ctx, [dict(module_rel="queue/SegQueueMC.tla", cfg_rel="queue/SegQueue_q.cfg", workers=2),
                                dict(module_rel="queue/SegQueueMC.tla", cfg_rel="queue/SegQueue_bad_hoist.cfg", workers=2, expect_violation="Populated")] +
                               ([] if q else [dict(module_rel="queue/SegQueueMC.tla", cfg_rel="queue/SegQueue_q3.cfg", workers=8, timeout=3000)]), par=3)
    progs = PROGRAMS + [gen_program(ctx.rng) for _ in range(2 if q else 10)]
    deep = [("dfs", 6000 if q else 400000, 2 if q else 3)]
    jobs = make_jobs(ctx, "queue", VARIANTS, progs) + make_jobs(ctx, "queue", VARIANTS, DEEP, strat=deep)
    vlib.run_jobs(ctx, jobs)
    vlib.validate_histories(ctx, jobs, "QuasiQueue", CONSTS)
    ctx.impl_runs.append({"driver": "queue", "variants": VARIANTS, "programs": progs + DEEP, "strategies": strategies(ctx)})
    return vlib.finish(ctx)
