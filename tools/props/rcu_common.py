"""shared by C04 and C05: variants and programs of the RCU driver"""
VARIANTS = ["gpi", "gpb_cap1", "gpb_cap2", "gpb_cap4", "gpb_cap256", "gpt_cap1", "gpt_cap2", "gpt_cap4", "shb_cap1", "shb_cap2", "shb_cap4"]
PROGRAMS = ["rlock,read:0,deref,rlock,deref,runlock,deref,runlock|swap:0,swap:0,sync,swap:0|retn:3,sync",
            "rlock,read:0,deref,yield,deref,runlock,rlock,read:0,deref,runlock|swap:0,sync|rlock,read:0,swap:1,deref,runlock",
            "rlock,read:1,deref,runlock,detach,attach,rlock,read:1,deref,runlock|swap:1,swap:1,swap:1,swap:1,swap:1|batch:3,sync",
            "retn:2;rlock,read:2,rlock,read:0,deref,runlock,runlock|swap:0,swap:2,retn:5|sync,swap:0;sync",
            # four roles: an older reader that holds a synchronize() in its grace period, the synchronizer, a reader that enters
            # during that grace period, and a writer that retires (below the buffer threshold) what the new reader has just read
            "rlock,read:0,deref,runlock|sync|rlock,read:1,deref,yield,deref,runlock|swap:1",
            "rlock,rlock,read:0,deref,runlock,runlock|sync,sync|rlock,read:1,deref,yield,deref,runlock|swap:1,swap:1"]
# tiny two-thread programs explored exhaustively with a larger pre-emption bound (the classic single-flip grace-period
# bug needs three pre-emptions: reader between its phase snapshot and its store, writer between two grace periods,
# reader before it leaves)
DEEP = ["rlock,read:0,deref,runlock|swap:0,swap:0",
        "rlock,rlock,read:0,runlock,deref,runlock|swap:0,sync,swap:0",
        "rlock,read:0,deref,runlock|retn:1,swap:0,sync"]
DEEP_VARIANTS = ["gpi", "gpb_cap1", "gpb_cap2", "gpt_cap2", "shb_cap2"]
CONSTS = ["AbsInit <- RcuInit", "Step <- RcuStep", "XStep <- RcuXStep", "FinalOk <- RcuFinal"]


def gen_program(rng):
    nt = rng.choice([2, 3, 3]); th = []
    for t in range(nt):
        ops = []; depth = 0; have = False
        for _ in range(rng.choice([3, 4, 5, 6])):
            x = rng.random()
            if depth == 0:
                if x < 0.35:
                    ops.append("rlock"); depth = 1; have = False
                elif x < 0.7:
                    ops.append(rng.choice(["swap:0", "swap:1", "retn:2", "batch:2"]))
                elif x < 0.9:
                    ops.append("sync")
                else:
                    ops.append("detach,attach")
            else:
                if x < 0.3:
                    ops.append("read:%d" % rng.randrange(2)); have = True
                elif x < 0.6 and have:
                    ops.append("deref")
                elif x < 0.7 and depth < 2:
                    ops.append("rlock"); depth += 1
                else:
                    if have:
                        ops.append("deref")
                    ops.append("runlock"); depth -= 1
                    if depth == 0:
                        have = False
        th.append(",".join(ops))
    return "|".join(th) + ";sync"
