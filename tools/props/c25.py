"""C25 -- bit-manipulation helpers are correct for every input (DESIGN.md 6/C25)"""
import os, vlib

CONSTS = ["St0 = 0", "Ok <- BOk", "St <- BSt"]


def classify(d):
    if d.get("f") == "cut":
        return "cut/%s/%s" % (d.get("kind"), "safe_cut" if d.get("safe") else "cut")
    return "%s/%s" % (d.get("f"), d.get("impl", ""))


def run(ctx):
    q = ctx.quick()
    # model level: limb-composition lemmas, the algorithms transcribed at width 16 for all inputs, the splitter state machines
    vlib.model_check_many(ctx, [
        dict(module_rel="pure/Lemmas.tla", cfg_rel="pure/Lemmas.cfg", workers=1),
        dict(module_rel="pure/BitAlgo.tla", cfg_rel="pure/BitAlgo.cfg", workers=1),
        dict(module_rel="pure/SplitModelMC.tla", cfg_rel="pure/SplitModel8.cfg", workers=2),
        dict(module_rel="pure/SplitModelMC.tla", cfg_rel="pure/SplitModel16q.cfg" if q else "pure/SplitModel16.cfg", workers=4, timeout=3000),
        dict(module_rel="pure/SplitModelMC.tla", cfg_rel="pure/SplitModel8_bad.cfg", workers=1, expect_violation="AllCutsCorrect")], par=5)
    # reference tables for the 32-bit sweep come from the specification
    tables = os.path.join(ctx.dir, "tables.json")
    r = vlib.run_tlc(ctx, os.path.join(vlib.SPEC, "pure", "Tables.tla"), cfg_path=os.path.join(vlib.SPEC, "pure", "Tables.cfg"), env={"OUT": tables}, workers=1, name="tables")
    if r["error"] or r["violation"]:
        ctx.machinery_errors.append("Tables.tla failed: %s" % (r["error"] or r["violation"]))
    # code level: recorded cases of the real functions
    files = [vlib.run_recorder(ctx, ("bitops", ctx.seed, 800 if q else 60000), "bitops.ndjson"),
             vlib.run_recorder(ctx, ("split", ctx.seed + 1, 200 if q else 6000), "split.ndjson"),
             vlib.run_recorder(ctx, ("sweep32", ctx.seed % 4099, 4099 if q else 1, tables), "sweep.ndjson", timeout=3000)]
    vlib.validate_records(ctx, files, "pure/BitOpsCheck.tla", CONSTS, "C25", "bitops", classify_rec=classify)
    sw = [l for l in open(files[2]).read().splitlines() if '"summary"' in l]
    ctx.notes.append("32-bit sweep: " + (sw[-1] if sw else "no summary"))
    ctx.assumptions = ["the exhaustive 32-bit sweep is executed by the C++ recorder against 16-bit tables emitted by the TLA+ reference (Tables.tla); the limb-composition lemmas that justify it are checked by TLC (Lemmas.cfg); disagreeing inputs are re-validated by TLC",
                       "64-bit variants: structured and random inputs only", "muldiv byte reversal is validated for all 256 byte values by I/O, not transcribed (40-bit intermediate values)"]
    return vlib.finish(ctx, extra={"exhaustive": not q})
