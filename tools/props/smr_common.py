"""shared by C01, C02, C03: programs and variants of the SMR driver"""
HP_VARIANTS = ["hp_inplace_k1", "hp_inplace_k2", "hp_inplace_k2_r16", "hp_classic_k1", "hp_classic_k2", "hp_classic_k2_r16", "hp_inplace_odd_k1", "hp_inplace_odd_k2", "hp_inplace_k4"]
DHP_VARIANTS = ["dhp_k4", "dhp_k2", "dhp_k24_init4", "dhp_k40_init16"]
# slot numbers stay below the smallest K of the variants they run on (k1 variants use K1 programs)
K1_PROGRAMS = ["prot:0:0,deref:0,yield,deref:0,rel:0|swap:0,swap:0,swap:0,swap:0,scan",
               "prot:0:0,deref:0,detach,attach,prot:0:1,deref:0|swapn:0:5,scan,detach,attach,swap:1,scan|swap:1,retn:3",
               "prot:0:1,deref:0|swap:1,scan,swap:1|prot:0:1,deref:0,rel:0,retn:4"]
K2_PROGRAMS = ["prot:0:0,prot:1:1,deref:0,deref:1,rel:0,deref:1|swap:0,swap:1,swap:0,swap:1,swap:0,scan",
               "prot:0:0,deref:0,prot:1:0,deref:1,deref:0|swapn:0:6,scan|swap:0,retn:5,detach",
               "retn:2;prot:1:2,deref:1,yield,deref:1|swap:2,scan,retn:6|prot:0:2,swap:2,deref:0,scan;scan"]
DHP_PROGRAMS = ["prot:0:0,prot:1:1,deref:0,deref:1,rel:0,deref:1|swap:0,swap:1,swap:0,swap:1,swap:0,scan",
                "prot:0:0,deref:0,prot:1:0,deref:1,deref:0|swapn:0:6,scan|swap:0,retn:5,detach",
                "prot:0:0,deref:0,detach,attach,prot:0:1,deref:0|swapn:0:5,scan,detach,attach,swap:1,scan|swap:1,retn:3"]
# long programs: more guards than the initial block (extension), more retired objects than one block (256)
DHP_LONG = ["prot:0:0,prot:5:1,prot:9:2,prot:17:3,prot:21:0,deref:17,deref:21,deref:5,rel:5,deref:9|swap:0,swap:1,swap:2,swap:3,swap:0,scan,swap:3,scan",
            "prot:3:0,deref:3|retn:300,swap:0,scan,retn:300,scan|prot:1:0,deref:1,retn:10"]
CONSTS = ["AbsInit <- SmrInit", "Step <- SmrStep", "XStep <- SmrXStep", "FinalOk <- SmrFinal"]


def gen_program(rng, nslots):
    nt = rng.choice([2, 3])
    th = []
    for t in range(nt):
        ops = []; held = set()
        for _ in range(rng.choice([3, 4, 5])):
            x = rng.random()
            if x < 0.3:
                k = rng.randrange(nslots); ops.append("prot:%d:%d" % (k, rng.randrange(2))); held.add(k)
            elif x < 0.5 and held:
                ops.append("deref:%d" % rng.choice(sorted(held)))
            elif x < 0.6 and held:
                k = rng.choice(sorted(held)); ops.append("rel:%d" % k); held.discard(k)
            elif x < 0.85:
                ops.append(rng.choice(["swap:0", "swap:1", "swapn:0:3", "retn:3"]))
            elif x < 0.95:
                ops.append("scan")
            else:
                ops.append("detach,attach"); held.clear()
        for k in sorted(held):
            ops.append("deref:%d" % k)
        th.append(",".join(ops))
    return "|".join(th) + ";scan"
