"""C20 -- single-threaded API behaviour matches the reference container model (DESIGN.md 6/C20)
Sequential operation sequences (one thread, no pre-emption) over every driver variant; every history is validated by TLC
against the same sequential TLA+ specifications that define linearizability (a sequential history has exactly one order)."""
import vlib
from vlib import Job
from props import set_common as SC
from props import c06, c07, c09, c10, c11, c13, c14, c15, c16


def seq_set_program(rng, voc, keys, n, minmax=False, fin="trav,size,check"):
    v = list(voc) + ["size", "empty"] + (["extmin", "extmax"] if minmax else [])
    ops = []
    for _ in range(n):
        o = rng.choice(v)
        ops.append(o if o in ("extmin", "extmax", "size", "empty") else "%s:%d" % (o, rng.randrange(1, keys + 1)))
    if rng.random() < 0.3:
        ops.insert(rng.randrange(len(ops)), "clear")
    return ",".join(ops) + ";" + fin


def seq_lin_program(rng, push, pops, n, fin):
    ops = []; v = 0
    for _ in range(n):
        if rng.random() < 0.55:
            v += 1; ops.append("%s:%d" % (rng.choice(push), v))
        else:
            ops.append(rng.choice(pops))
    return ",".join(ops) + ";" + fin


def run(ctx):
    q = ctx.quick()
    reps = 3 if q else 40
    L = 14 if q else 40
    jobs = []
    def add(driver, variants, progs, group):
        for v in variants:
            for p in progs:
                jobs.append(Job(driver, v, p, "seq", 1, 0, 1, group=group))
    rng = ctx.rng
    # fixed edge sequences: a failed pop on the empty container followed by pushes and pops from either end (per-thread records of the FC containers
    # keep flags from the previous operation: seeded change C20b), alternating ends, refill after drain
    EDGE_Q = ["deq,enq:1,deq,deq,enq:2,enq:3,deq,empty,deq,deq,enq:4,empty,deq;drain"]
    EDGE_S = ["pop,push:1,pop,pop,push:2,push:3,pop,empty,pop,pop,push:4,empty,pop;drain"]
    EDGE_D = ["popb,pushf:1,popb,popf,pushb:2,popf,popb,popf,pushb:3,pushf:4,popb,popb,popb,empty;drainf",
              "popf,pushb:1,popf,popb,pushf:2,popb,popf,popb,pushf:3,pushb:4,popf,popf,popf,empty;drainb",
              "popf,pushf:1,popb,popb,pushb:2,pushb:3,popb,popf,popf,empty;drainf"]
    add("queue", c06.VARIANTS + c07.MPMC, EDGE_Q + [seq_lin_program(rng, ["enq"], ["deq", "deq", "empty"], L, "drain") for _ in range(reps)], "queue")
    add("stack", c09.VARIANTS, EDGE_S + [seq_lin_program(rng, ["push"], ["pop", "pop", "empty"], L, "drain") for _ in range(reps)], "stack")
    add("stack", c10.VARIANTS, EDGE_D + [seq_lin_program(rng, ["pushf", "pushb"], ["popf", "popb", "empty"], L, rng.choice(["drainf", "drainb"])) for _ in range(reps * 2)], "deque")
    pqp = []
    for _ in range(reps):
        ops = []; uid = 0
        for _ in range(L):
            if rng.random() < 0.6:
                uid += 1; ops.append("push:%d" % (rng.choice([1, 2, 2, 3, 4]) * 100 + uid % 100))
            else:
                ops.append("pop")
        pqp.append(",".join(ops) + ";drain")
    add("pq", c11.MSPQ + c11.FCPQ, pqp, "pq")
    add("set_list", c13.STD, [seq_set_program(rng, SC.VOC_FULL, 5, L) for _ in range(reps)], "set_ord")
    add("set_list", c13.ITER, [seq_set_program(rng, SC.VOC_FULL, 5, L) for _ in range(reps)], "set_ord_repl")
    add("set_list", c13.NOGC, [seq_set_program(rng, SC.VOC_NOGC, 5, L) for _ in range(reps)], "set_ord")
    add("set_tree", c15.SKIP + c15.ELLEN + c15.BRONSON[:2], [seq_set_program(rng, SC.VOC_FULL, 6, L, minmax=True) for _ in range(reps)], "set_ord")
    # fixed sequences around colliding keys (h1: all keys collide, h2: same parity collides, h3: hashes differ only in high/middle bits)
    COLL = ["ins:1,ins:5,ins:3,find:1,find:3,find:5,era:1,find:1,size,era:5,find:3,ins:7,ins:2,ins:4,find:2,upd1:3,era:3,find:7,empty;trav,size,check",
            "ins:6,ins:2,ins:4,find:2,find:4,find:6,ext:2,get:4,era:6,size,upd0:2,upd1:2,insf:6,findf:6,eraf:4,find:2,empty;trav,size,check",
            "ins:5,ins:1,find:5,find:1,era:5,era:1,empty,ins:3,ins:7,ins:1,era:3,find:7,find:1,size;trav,size,check"]
    add("set_hash", c14.STD, COLL + [seq_set_program(rng, SC.VOC_FULL, 7, L) for _ in range(reps * 2)], "set_unord")
    add("set_hash", c14.REPL, COLL + [seq_set_program(rng, SC.VOC_FULL, 7, L) for _ in range(reps * 2)], "set_unord_repl")
    add("set_lock", c16.CUCKOO + c16.STRIPED, [seq_set_program(rng, c16.VOC, 8, L, fin="size") for _ in range(reps)], "set_unord")
    vlib.run_jobs(ctx, jobs)
    vlib.validate_histories(ctx, jobs, "LinQueue", c07.CONSTS, group="queue")
    vlib.validate_histories(ctx, jobs, "LinStack", c09.CONSTS, group="stack")
    vlib.validate_histories(ctx, jobs, "LinDeque", c10.CONSTS, group="deque")
    vlib.validate_histories(ctx, jobs, "LinPQ", c11.CONSTS_FC, group="pq")          # sequential: strict priority order for both queues
    vlib.validate_histories(ctx, jobs, "LinSet", SC.consts(replace=False, ordered=True, exact=True), group="set_ord")
    vlib.validate_histories(ctx, jobs, "LinSet", SC.consts(replace=True, ordered=True, exact=True), group="set_ord_repl")
    vlib.validate_histories(ctx, jobs, "LinSet", SC.consts(replace=False, ordered=False, exact=True), group="set_unord")
    vlib.validate_histories(ctx, jobs, "LinSet", SC.consts(replace=True, ordered=False, exact=True), group="set_unord_repl")
    nv = len(set((j.driver, j.variant) for j in jobs))
    ctx.impl_runs.append({"variants": nv, "sequences_per_variant": reps, "sequence_length": L})
    ctx.notes.append("variant matrix: %d container variants x %d random sequences of %d operations" % (nv, reps, L))
    return vlib.finish(ctx)
