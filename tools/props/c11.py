"""C11 -- priority queues conserve items and honour priority order (DESIGN.md 6/C11)"""
import vlib
from props.common import make_jobs, strategies

MSPQ = ["mspq_buf2", "mspq_buf3", "mspq_buf4", "mspq_buf5", "mspq_buf8", "mspq_buf16", "mspq_static8", "intr_mspq_buf4", "intr_mspq_buf8"]
FCPQ = ["fcpq", "fcpq_pass1", "fcpq_deque"]
# items are prio*100+uid; equal priorities on purpose
PROGRAMS = ["push:301,push:102,pop|push:203,pop|push:304,pop;drain",
            "push:101,push:202|push:203,push:104|push:305,push:106;drain",          # pushes only, then quiescent pops: strict order required
            "push:501,push:402,push:303;pop,pop|pop,push:204|pop;drain",
            "push:101,push:102,push:103,push:104|push:205,pop|pop,push:106;drain"]
CONSTS_MS = ["AbsInit <- PInit", "Step <- PStep", "XStep <- PXStep", "FinalOk <- PFinal", "Cap = 0", "Strict = FALSE"]
CONSTS_FC = ["AbsInit <- PInit", "Step <- PStep", "XStep <- PXStep", "FinalOk <- PFinal", "Cap = 0", "Strict = TRUE"]


def gen_program(rng):
    nt = rng.choice([2, 3, 3]); uid = 0; th = []
    for t in range(nt):
        ops = []
        for _ in range(rng.choice([2, 3, 4])):
            if rng.random() < 0.6:
                uid += 1; ops.append("push:%d" % (rng.choice([1, 2, 2, 3]) * 100 + uid))
            else:
                ops.append("pop")
        th.append(",".join(ops))
    return "|".join(th) + ";drain"


def run(ctx):
    # Tier B: MSPQ.tla (Hunt et al.'s heap: per-node locks and tags, heap-size lock, bit-reversed slots, both heapify loops); at quiescence the heap
    # is ordered, holds exactly pushed \ popped in the first cnt slots and all locks are free.  Refuted: seeded change C11 (size lock released early)
    vlib.model_check_many(ctx, [dict(module_rel="pq/MSPQMC.tla", cfg_rel="pq/MSPQ_q.cfg", workers=2),
                                dict(module_rel="pq/MSPQMC.tla", cfg_rel="pq/MSPQ_bad_earlyunlock.cfg", workers=2, expect_violation="Assert"),
                                dict(module_rel="pq/MSPQMC.tla", cfg_rel="pq/MSPQ_bad_parentnotempty.cfg", workers=4, expect_violation="Quiescent")] +      # seeded change C11b
                               ([] if ctx.quick() else [dict(module_rel="pq/MSPQMC.tla", cfg_rel="pq/MSPQ_q3.cfg", workers=8, timeout=3000)]), par=3)
    progs = list(PROGRAMS) + [gen_program(ctx.rng) for _ in range(1 if ctx.quick() else 6)]
    jobs = make_jobs(ctx, "pq", MSPQ, progs, group_of=lambda v: "ms") + make_jobs(ctx, "pq", FCPQ, progs, group_of=lambda v: "fc")
    # spin-lock based code: extra schedules whose decision points are the read-modify-write accesses (lock acquisitions) only
    rmw = [("random", 100 if ctx.quick() else 4000, 0), ("pct", 40 if ctx.quick() else 2000, 0)]
    jobs += make_jobs(ctx, "pq", MSPQ, progs, group_of=lambda v: "ms", strat=rmw, extra_of=lambda v: ["--points", "rmw"]) + \
            make_jobs(ctx, "pq", FCPQ, progs, group_of=lambda v: "fc", strat=rmw, extra_of=lambda v: ["--points", "rmw"])
    vlib.run_jobs(ctx, jobs)
    vlib.validate_histories(ctx, jobs, "LinPQ", CONSTS_MS, group="ms")
    vlib.validate_histories(ctx, jobs, "LinPQ", CONSTS_FC, group="fc")
    ctx.impl_runs.append({"driver": "pq", "variants": MSPQ + FCPQ, "programs": progs, "strategies": strategies(ctx)})
    return vlib.finish(ctx)
