"""C09 -- stacks are linearizable LIFO stacks, with or without elimination (DESIGN.md 6/C09)"""
import vlib
from props.common import make_jobs, strategies

VARIANTS = ["treiber_hp", "treiber_dhp", "treiber_hp_elim1", "treiber_hp_elim2", "treiber_dhp_elim4", "treiber_hp_elimdyn2",
            "intr_treiber_hp", "intr_treiber_dhp_elim1", "fcstack", "fcstack_elim", "fcstack_vector_elim"]
PROGRAMS = ["push:1,pop|push:2,pop;drain",
            "push:1,push:2,pop|pop,push:3,pop|push:4,pop;drain",
            "push:9;push:1,pop,pop|pop,push:2|pop,push:3;drain"]
CONSTS = ["AbsInit <- SInit", "Step <- SStep", "XStep <- SXStep", "FinalOk <- SFinal"]


def gen_program(rng):
    nt = rng.choice([2, 3, 3, 4]); v = 0; th = []
    for t in range(nt):
        ops = []
        for _ in range(rng.choice([2, 3])):
            if rng.random() < 0.5:
                v += 1; ops.append("push:%d" % v)
            else:
                ops.append("pop")
        th.append(",".join(ops))
    init = ",".join("push:%d" % (90 + i) for i in range(rng.choice([0, 1, 2])))
    return init + ";" + "|".join(th) + ";drain"


def run(ctx):
    # Tier B: Treiber.tla (push/pop with the hazard-pointer protocol, one label per atomic access, ghost abstract stack)
    vlib.model_check(ctx, "stack/TreiberMC.tla", "stack/Treiber_q.cfg", workers=4)
    # Elimination.tla (collision slot with spin lock, published operation record and status word, over an abstract stack); refuted: seeded change C09
    # (status read before the slot is locked), collision with an operation of the same kind
    vlib.model_check_many(ctx, [dict(module_rel="stack/EliminationMC.tla", cfg_rel="stack/Elimination_q.cfg", workers=4),
                                dict(module_rel="stack/EliminationMC.tla", cfg_rel="stack/Elimination_bad_statusbeforelock.cfg", workers=2, expect_violation="NoDup"),
                                dict(module_rel="stack/EliminationMC.tla", cfg_rel="stack/Elimination_bad_nokindcheck.cfg", workers=2, expect_violation="Conservation"),
                                # FCElim.tla (FCStack: elimination inside fc_process with re-used publication records); refuted: seeded change C09b
                                dict(module_rel="fc/FCElimMC.tla", cfg_rel="fc/FCElim_stack.cfg", workers=1),
                                dict(module_rel="fc/FCElimMC.tla", cfg_rel="fc/FCElim_bad_wrongflag.cfg", workers=1, expect_violation="Conservation")], par=5)
    progs = list(PROGRAMS) + [gen_program(ctx.rng) for _ in range(1 if ctx.quick() else 6)]
    jobs = make_jobs(ctx, "stack", VARIANTS, progs)
    vlib.run_jobs(ctx, jobs)
    vlib.validate_histories(ctx, jobs, "LinStack", CONSTS)
    ctx.impl_runs.append({"driver": "stack", "variants": VARIANTS, "programs": progs, "strategies": strategies(ctx)})
    return vlib.finish(ctx)
