"""C22 -- spin locks and node monitors provide mutual exclusion (DESIGN.md 6/C22)"""
import vlib
from props.common import make_jobs, strategies

PLAIN = ["spin_lock", "lock_array", "injecting_monitor", "pool_monitor", "pool_monitor_lazy"]
REENT = ["reentrant_spin32", "reentrant_spin64"]
PROGRAMS = ["with:0,with:1,with:0|with:0,with:1|with:1,with:0,with:1", "with:0,with:0|with:0,lock:1,with:0,unlock:1|with:1,with:0", "lock:0,with:1,unlock:0|lock:1,unlock:1,with:0|with:2,with:0,with:1"]
PROGRAMS_TRY = ["with:0,trylock:0|trylock:0,with:0|lock:0,trylock:1,unlock:0"]
PROGRAMS_RE = ["nest:0,with:1|nest:0,nest:1|with:0,nest:1", "lock:0,lock:0,unlock:0,with:1,unlock:0|nest:0,with:0|with:0,nest:0"]
DEEP = ["with:0,with:0|with:0,with:0", "with:0,with:1|with:1,with:0"]
DEEP_RE = ["nest:0,with:0|nest:0"]
BASE = ["AbsInit <- MInit", "Step <- MStep", "XStep <- MXStep", "FinalOk <- MFinal"]


def run(ctx):
    # Tier B: PoolMonitor.tla (refcount + spin bit word, lazy lock attachment from a pool; releasing on a stale count must fail)
    vlib.model_check_many(ctx, [dict(module_rel="sync/PoolMonitor.tla", cfg_rel="sync/PoolMonitor_q.cfg" if ctx.quick() else "sync/PoolMonitor_t.cfg", workers=6, timeout=3000),
                                dict(module_rel="sync/PoolMonitor.tla", cfg_rel="sync/PoolMonitor_bad_early.cfg", workers=2, expect_violation="Safe"),
                                dict(module_rel="sync/PoolMonitor.tla", cfg_rel="sync/PoolMonitor_bad_clearlate.cfg", workers=2, expect_violation="Safe"),      # seeded change C22
                                dict(module_rel="sync/ReentrantSpin.tla", cfg_rel="sync/ReentrantSpin_q.cfg", workers=4),
                                dict(module_rel="sync/ReentrantSpin.tla", cfg_rel="sync/ReentrantSpin_bad_order.cfg", workers=2, expect_violation="Safe"),
                                dict(module_rel="sync/ReentrantSpin.tla", cfg_rel="sync/ReentrantSpin_bad_exchange.cfg", workers=2, expect_violation="Safe")], par=5)      # seeded change C22b
    q = ctx.quick()
    deep = [("dfs", 6000 if q else 400000, 3)]
    jobs = make_jobs(ctx, "lock", PLAIN, PROGRAMS, group_of=lambda v: "plain") + make_jobs(ctx, "lock", ["spin_lock", "lock_array"], PROGRAMS_TRY, group_of=lambda v: "plain") + \
        make_jobs(ctx, "lock", REENT, PROGRAMS + PROGRAMS_RE + PROGRAMS_TRY, group_of=lambda v: "re") + \
        make_jobs(ctx, "lock", PLAIN, DEEP, group_of=lambda v: "plain", strat=deep) + make_jobs(ctx, "lock", REENT, DEEP + DEEP_RE, group_of=lambda v: "re", strat=deep)
    vlib.run_jobs(ctx, jobs)
    vlib.validate_histories(ctx, jobs, "Mutex", BASE + ["Reentrant = FALSE"], group="plain")
    vlib.validate_histories(ctx, jobs, "Mutex", BASE + ["Reentrant = TRUE"], group="re")
    ctx.impl_runs.append({"driver": "lock", "variants": PLAIN + REENT, "strategies": strategies(ctx)})
    return vlib.finish(ctx)
