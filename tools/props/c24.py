"""C24 -- object pools never hand one object to two holders (DESIGN.md 6/C24)"""
import vlib
from props.common import make_jobs, strategies

VARIANTS = ["vyukov_pool2", "vyukov_pool4", "lazy_pool2", "lazy_pool4", "bounded_pool2", "bounded_pool4", "pool_allocator2"]
PROGRAMS = ["alloc,alloc,free,alloc|alloc,free,alloc,free|alloc,alloc,free;drainq",
            "alloc,free,alloc,free,alloc|alloc,alloc,alloc,free|alloc,free;drainq",
            "alloc;alloc,alloc,free|free,alloc,alloc|alloc,free,alloc,free;drainq"]
DEEP = ["alloc,free,alloc|alloc,free,alloc;drainq", "alloc,alloc,free|alloc,free,alloc,free;drainq"]
# objects are identified by address: an object never seen before (or returned to the heap) is acceptable whenever nobody holds it
CONSTS = ["AbsInit <- BInit", "Step <- BStep", "XStep <- BXStep", "FinalOk <- BFinal", "Prefill = 0", "FreshBase = 1"]


def gen_program(rng):
    nt = rng.choice([2, 3, 3, 4]); th = []
    for t in range(nt):
        th.append(",".join(rng.choice(["alloc", "alloc", "free"]) for _ in range(rng.choice([3, 4, 5]))))
    return "|".join(th) + ";drainq"


def run(ctx):
    # Tier B: Vyukov.tla (enqueue_with / dequeue_with as coded, ghost abstract queue; the textbook variant must fail)
    vlib.model_check_many(ctx, [dict(module_rel="queue/VyukovMC.tla", cfg_rel="queue/Vyukov_q.cfg" if ctx.quick() else "queue/Vyukov_t.cfg", workers=8, timeout=3000),
                                dict(module_rel="queue/VyukovMC.tla", cfg_rel="queue/Vyukov_q2.cfg", workers=4),
                                dict(module_rel="queue/VyukovMC.tla", cfg_rel="queue/Vyukov_bad_textbook.cfg", workers=2, expect_violation="LinOK"),
                                dict(module_rel="queue/VyukovMC.tla", cfg_rel="queue/Vyukov_bad_stalecell.cfg", workers=2, expect_violation="LinOK")], par=3)
    q = ctx.quick()
    progs = PROGRAMS + [gen_program(ctx.rng) for _ in range(2 if q else 10)]
    deep = [("dfs", 5000 if q else 400000, 3)]
    jobs = make_jobs(ctx, "bag", VARIANTS, progs, strat=[("dfs", 1000, 1), ("pct", 90, 0), ("random", 45, 0)] if q else None) + make_jobs(ctx, "bag", VARIANTS, DEEP, strat=deep)
    vlib.run_jobs(ctx, jobs)
    vlib.validate_histories(ctx, jobs, "LinBag", CONSTS)
    ctx.impl_runs.append({"driver": "bag", "variants": VARIANTS, "programs": progs + DEEP, "strategies": strategies(ctx)})
    return vlib.finish(ctx)
