"""C01 -- hazard-pointer reclamation never frees an object a guard still protects (DESIGN.md 6/C01)"""
import vlib
from props.common import make_jobs, strategies
from props import smr_common as S


def run(ctx):
    # Tier B: HP.tla (attach with record reuse, protect, retire, classic/in-place scan, help_scan, detach, destructor)
    vlib.model_check_many(ctx, [dict(module_rel="smr/HPMC.tla", cfg_rel="smr/HP_q.cfg" if ctx.quick() else "smr/HP_t.cfg", workers=8, timeout=3000),
                                dict(module_rel="smr/HPMC.tla", cfg_rel="smr/HP_bad_scan.cfg", workers=4, expect_violation="Assert"),
                                dict(module_rel="smr/HPMC.tla", cfg_rel="smr/HP_bad_stopatempty.cfg", workers=4, expect_violation="Assert")], par=3)
    k1 = [v for v in S.HP_VARIANTS if "_k1" in v]
    k2 = [v for v in S.HP_VARIANTS if "_k1" not in v]
    n = 1 if ctx.quick() else 6
    jobs = make_jobs(ctx, "smr", k1, S.K1_PROGRAMS + [S.gen_program(ctx.rng, 1) for _ in range(n)]) + \
           make_jobs(ctx, "smr", k2, S.K1_PROGRAMS[:1] + S.K2_PROGRAMS + [S.gen_program(ctx.rng, 2) for _ in range(n)])
    vlib.run_jobs(ctx, jobs)
    vlib.validate_histories(ctx, jobs, "SmrSafety", S.CONSTS + ['Clause = "safety"'])
    ctx.impl_runs.append({"driver": "smr", "variants": S.HP_VARIANTS, "strategies": strategies(ctx)})
    return vlib.finish(ctx)
