"""C19 -- thread-safe iterators stay valid and complete under concurrent updates (DESIGN.md 6/C19)"""
import vlib
from props.common import make_jobs, strategies
from props import set_common as SC

ITERLIST = [("set_list", ["iterablelist_hp", "iterablelist_dhp"])]
ITERHASH = [("set_hash", ["michaelset_iterable_hp_h2", "splitlist_iterable_hp_h0"])]
FELDMAN = [("set_hash", ["feldman_hp_h0", "feldman_hp_h3", "feldman_dhp_h3"])]
# one iterating thread, updaters around it; keys 1 and 5 stay for the whole run
PROGRAMS = ["ins:1,ins:3,ins:5;iter|era:3,ins:2,ins:4|ins:6,era:2;trav",
            "ins:1,ins:2,ins:5;iter,iter|upd1:2,era:2,ins:3|ins:4,ext:4;trav",
            "ins:1,ins:3,ins:5;eraseat:3,iter|era:3,ins:3|ins:2,iter;trav",
            "ins:1,ins:2,ins:3,ins:4,ins:5;iter|eraseat:2,eraseat:4|era:3,ins:6;trav",
            # erase_at while the iterator's element is being replaced and a neighbour insertion temporarily marks its data pointer
            "ins:1,ins:2,ins:4;eraseat:2|upd1:2|ins:3;trav",
            "ins:1,ins:3,ins:5;eraseat:3,eraseat:1|upd1:3,upd1:1|ins:4,ins:2;trav"]
FELD_EXTRA = ["ins:1,ins:3,ins:5;riter|era:3,ins:2,ins:4|ins:6,era:2;trav", "ins:1,ins:2,ins:3,ins:4;iter,riter|ins:5,ins:6,ins:7|era:2,upd1:3;trav"]
DEEP = ["ins:1,ins:2,ins:3;iter|era:2,ins:2;trav", "ins:1,ins:2;eraseat:2|era:2,ins:2;trav"]


def run(ctx):
    q = ctx.quick()
    # Tier B: IterList.tla with the iterator-erase operation ("eat": iterate to the key, erase_at( iterator )) against replace-by-update and a neighbour
    # insertion that marks the data pointer; refuted: seeded change C19 (retry with the observed value)
    vlib.model_check_many(ctx, [dict(module_rel="list/IterListMC.tla", cfg_rel="list/IterList_q3c.cfg", workers=4),
                                dict(module_rel="list/IterListMC.tla", cfg_rel="list/IterList_bad_eraseat.cfg", workers=2, expect_violation="LinOK")], par=2)
    deep = [("dfs", 4000 if q else 300000, 2 if q else 3)]
    jobs = []
    for grp, sets, progs in (("list", ITERLIST, PROGRAMS), ("hash", ITERHASH, PROGRAMS), ("feldman", FELDMAN, PROGRAMS + FELD_EXTRA)):
        for drv, vs in sets:
            jobs += make_jobs(ctx, drv, vs, progs, group_of=lambda v, g=grp: g) + make_jobs(ctx, drv, vs, DEEP, group_of=lambda v, g=grp: g, strat=deep)
    vlib.run_jobs(ctx, jobs)
    vlib.validate_histories(ctx, jobs, "LinSet", SC.consts(replace=True, ordered=True, itermode="once"), group="list")
    vlib.validate_histories(ctx, jobs, "LinSet", SC.consts(replace=True, ordered=False, itermode="once"), group="hash")
    vlib.validate_histories(ctx, jobs, "LinSet", SC.consts(replace=True, ordered=False, itermode="atleast"), group="feldman")
    ctx.impl_runs.append({"variants": [v for g in (ITERLIST, ITERHASH, FELDMAN) for _, vs in g for v in vs], "programs": PROGRAMS + FELD_EXTRA + DEEP, "strategies": strategies(ctx)})
    return vlib.finish(ctx)
