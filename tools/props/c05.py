"""C05 -- RCU disposes every retired object exactly once (DESIGN.md 6/C05)"""
import vlib
from props.common import make_jobs, strategies
from props import rcu_common as R


def run(ctx):
    # Tier B: GPI.tla (general_instant: reader lock as three accesses, flip_and_wait over the thread list, two flips; one flip must fail)
    vlib.model_check_many(ctx, [dict(module_rel="smr/GPIMC.tla", cfg_rel="smr/GPI_q.cfg", workers=4),
                                dict(module_rel="smr/GPIMC.tla", cfg_rel="smr/GPI_bad_oneflip.cfg", workers=2, expect_violation="Assert"),
                                # GPB.tla (general_buffered: epoch-stamped buffer, push_buffer / synchronize / clear_buffer recursion; four refuted variants)
                                dict(module_rel="smr/GPBMC.tla", cfg_rel="smr/GPB_s.cfg" if ctx.quick() else "smr/GPB_t.cfg", workers=3 if ctx.quick() else 8, timeout=3000),
                                dict(module_rel="smr/GPBMC.tla", cfg_rel="smr/GPB_s_bad_EpochLate.cfg", workers=2, expect_violation="Assert"),
                                dict(module_rel="smr/GPBMC.tla", cfg_rel="smr/GPB_s_bad_NoEpochCheck.cfg", workers=2, expect_violation="Assert"),
                                dict(module_rel="smr/GPBMC.tla", cfg_rel="smr/GPB_s_bad_OneFlip.cfg", workers=2, expect_violation="Assert")] +
                               ([] if ctx.quick() else [dict(module_rel="smr/GPBMC.tla", cfg_rel="smr/GPB_bad_FreeRejected.cfg", workers=4, expect_violation="Assert", timeout=3000)]), par=6)
    progs = R.PROGRAMS + [R.gen_program(ctx.rng) for _ in range(1 if ctx.quick() else 8)]
    st = [("dfs", 600 if ctx.quick() else 50000, 1 if ctx.quick() else 2), ("pct", 80 if ctx.quick() else 3000, 0), ("random", 40 if ctx.quick() else 1500, 0)]
    deep = [("dfs", 7000 if ctx.quick() else 400000, 3 if ctx.quick() else 4)]
    jobs = make_jobs(ctx, "rcu", R.VARIANTS, progs, strat=st) + make_jobs(ctx, "rcu", R.DEEP_VARIANTS if ctx.quick() else R.VARIANTS, R.DEEP, strat=deep)
    vlib.run_jobs(ctx, jobs)
    vlib.validate_histories(ctx, jobs, "RcuSafety", R.CONSTS + ['Clause = "once"'])
    ctx.impl_runs.append({"driver": "rcu", "variants": R.VARIANTS, "programs": progs, "strategies": st})
    return vlib.finish(ctx)
