"""C16 -- lock-based hash containers are linearizable across concurrent resizes (DESIGN.md 6/C16)"""
import vlib
from props.common import make_jobs, strategies
from props import set_common as SC

CUCKOO = ["cuckoo_striping_list_h0", "cuckoo_refinable_list_h2", "cuckoo_striping_vector_h2", "cuckoo_refinable_vector_h0"]
STRIPED = ["striped_stdlist_striping_lf1_h0", "striped_stdlist_refinable_sb2_h2", "striped_stdvector_refinable_lf1_h0", "striped_stdset_striping_sb2_h2",
           "striped_stdunorderedset_refinable_lf1_h0", "striped_boostlist_refinable_lf1_h1", "striped_boostflatset_striping_lf1_h0"]
VOC = ["ins", "insf", "emp", "upd1", "upd0", "era", "eraf", "find", "findf"]
GROW = ["ins:1,ins:2,ins:3|ins:4,ins:5,era:1|find:3,ins:6,era:4;size", "ins:1,ins:2,ins:3,ins:4;ins:5,era:2|ins:6,find:5|era:3,ins:7;size",
        "ins:1,ins:2;insf:3,upd1:4,era:1|upd0:2,eraf:3,ins:5|findf:2,emp:6,find:4;size"]
DEEP = ["ins:1,ins:2;ins:3,era:1|ins:4,find:3;size", "ins:1;ins:2,ins:3|era:1,ins:1;size"]
# StripedSet never has fewer than 16 buckets: programs that really resize it.  lf1 variants (load factor 1) start with 15-16 keys,
# sb2 variants (bucket threshold 2, hash k mod 2) pile odd keys into one bucket.  Two threads insert the same key while a third
# one triggers the resize (thread order matters for the DFS rotation, so both orders are used).
INIT16 = ",".join("ins:%d" % k for k in range(10, 26))
STRIPED_LF1 = [v for v in STRIPED if "_lf1_" in v]
STRIPED_SB2 = [v for v in STRIPED if "_sb2_" in v]
GROW_LF1 = [INIT16 + ";ins:1,ins:2,era:10|ins:3,era:11,ins:4|find:12,ins:5,era:3;size", INIT16 + ";ins:1,upd1:2|ins:1,era:12|ins:3,ins:4,find:1;size"]
GROW_SB2 = ["ins:1,ins:3;ins:5,ins:7,era:1|ins:9,era:3,ins:11|find:5,ins:13,era:7;size", "ins:1;ins:5,ins:3|ins:5,era:1|ins:7,ins:9,ins:11;size"]
DEEP_LF1 = [INIT16[:-7] + ";ins:1|ins:1|ins:2,ins:3;size", INIT16[:-7] + ";ins:2,ins:3|ins:1|ins:1;size"]
DEEP_SB2 = ["ins:1;ins:5|ins:5|ins:3,ins:7,ins:9;size", "ins:1;ins:3,ins:7,ins:9|ins:5|ins:5;size"]


def run(ctx):
    q = ctx.quick()
    # Tier B: Refinable.tla (lock protocol of striped_set::refinable + StripedSet::resize: owner word, replaced lock array, re-validation in acquire(),
    # quiescing the old locks).  Refuted: seeded change C16 (no lock-array re-check), no owner re-check, no quiescing
    vlib.model_check_many(ctx, [dict(module_rel="set/Refinable.tla", cfg_rel="set/Refinable_q.cfg", workers=3),
                                dict(module_rel="set/Refinable.tla", cfg_rel="set/Refinable_bad_NoArrayRecheck.cfg", workers=3, expect_violation="Exclusion"),
                                dict(module_rel="set/Refinable.tla", cfg_rel="set/Refinable_bad_NoOwnerRecheck.cfg", workers=2, expect_violation="Exclusion"),
                                dict(module_rel="set/Refinable.tla", cfg_rel="set/Refinable_bad_NoQuiesce.cfg", workers=2, expect_violation="Exclusion")] +
                               ([] if q else [dict(module_rel="set/Refinable.tla", cfg_rel="set/Refinable_q3.cfg", workers=8, timeout=3000),
                                              dict(module_rel="set/Refinable.tla", cfg_rel="set/Refinable_t.cfg", workers=12, timeout=5000, heap="24g")]), par=4)
    n = 1 if q else 8
    deep = [("dfs", 3000 if q else 300000, 2 if q else 3)]
    ps = GROW + [SC.gen_program(ctx.rng, VOC, keys=6).replace(";trav,size,check", ";size") for _ in range(n)]
    allv = CUCKOO + STRIPED
    jobs = make_jobs(ctx, "set_lock", allv, ps) + make_jobs(ctx, "set_lock", allv, DEEP, strat=deep)
    deep2 = [("dfs", 3000 if q else 400000, 2)]
    jobs += make_jobs(ctx, "set_lock", STRIPED_LF1, GROW_LF1) + make_jobs(ctx, "set_lock", STRIPED_SB2, GROW_SB2)
    jobs += make_jobs(ctx, "set_lock", STRIPED_LF1, DEEP_LF1, strat=deep2) + make_jobs(ctx, "set_lock", STRIPED_SB2, DEEP_SB2, strat=deep2)
    # lock-based code: schedules that switch threads only at lock acquisitions and inside critical sections (--points locks) reach the
    # "stalled between reading the table state and taking the lock, while another thread completes a whole resize" interleavings
    # that uniform switching among all atomic accesses practically never produces (seeded change C16b)
    lockpts = [("random", 100 if q else 6000, 0), ("pct", 40 if q else 3000, 0)]
    RESIZE3 = ["ins:5,find:5|ins:1,ins:3,ins:7,ins:9,ins:11|ins:5,find:5;size", "ins:2,era:2,ins:2|ins:4,ins:6,ins:8,ins:10|era:2,ins:2,find:2;size"]
    jobs += make_jobs(ctx, "set_lock", allv, ps + RESIZE3, strat=lockpts, extra_of=lambda v: ["--points", "locks"])
    jobs += make_jobs(ctx, "set_lock", STRIPED_LF1, GROW_LF1, strat=lockpts, extra_of=lambda v: ["--points", "locks"]) + make_jobs(ctx, "set_lock", STRIPED_SB2, GROW_SB2, strat=lockpts, extra_of=lambda v: ["--points", "locks"])
    vlib.run_jobs(ctx, jobs)
    vlib.validate_histories(ctx, jobs, "LinSet", SC.consts(replace=False, ordered=False))
    ctx.impl_runs.append({"driver": "set_lock", "variants": allv, "programs": ps, "strategies": strategies(ctx)})
    return vlib.finish(ctx)
