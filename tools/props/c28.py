"""C28 -- Feldman hash addressing distinguishes every pair of distinct hashes (DESIGN.md 6/C28)"""
import vlib

CONSTS = ["St0 = 0", "Ok <- FmOk", "St <- FmSt"]


def run(ctx):
    q = ctx.quick()
    f = vlib.run_recorder(ctx, ("feldman", 1, 1), "fm.ndjson")
    # the model module (ASSUMEs: all configurations consume the hash bits exactly; slot paths of 8-bit hashes are injective) also validates the records
    vlib.validate_records(ctx, [f], "pure/FeldmanMCq.tla" if q else "pure/FeldmanMC.tla", CONSTS, "C28", "feldman_metrics", shards=1)
    ctx.model_runs.append({"spec": "pure/FeldmanMetrics.tla", "cfg": "ASSUME AllConfigsOK /\\ PathsOK (all 2108 configurations; hash pairs: %s)" % ("23 values" if q else "all 256x256"), "violation": None})
    import props.feldman_inserts as FI
    FI.run(ctx)
    return vlib.finish(ctx, extra={"exhaustive": True})
