"""shared by the set/map properties (C13-C16, C18): programs over a small key space and oracle constants"""
VOC_FULL = ["ins", "insf", "emp", "upd1", "upd0", "era", "eraf", "ext", "get", "find", "findf"]
VOC_NOGC = ["ins", "emp", "upd1", "upd0", "find", "findf"]
PROGRAMS = ["ins:2;ins:1,era:2,ins:3|ins:2,era:1,ins:1|era:2,ins:2,era:3;trav,size",
            "ins:1;insf:1,upd1:2,ext:1|upd0:1,eraf:2,findf:1|get:2,emp:3,find:3;trav,size",
            "ins:1,ins:3;era:1,ins:1,findf:3|upd1:3,ext:3,get:1|eraf:1,insf:3,find:1;trav,size,check"]
PROGRAMS_NOGC = ["ins:2;ins:1,find:2,ins:3|ins:2,upd1:1,findf:1|emp:3,upd0:2,find:3;trav,size",
                 "ins:1,ins:2|ins:2,ins:1|find:1,find:2,upd1:3;trav,size"]
DEEP = ["ins:1;era:1,ins:1|ins:1,era:1;trav,size", "ins:1,ins:2;era:1,find:2|era:2,ins:1;trav,size", "ins:2;upd1:2,ext:2|era:2,ins:2;trav,size"]
DEEP_NOGC = ["ins:1,ins:2|ins:2,ins:1;trav,size"]


def consts(replace=False, ordered=True, exact=False, itermode="none"):
    return ["AbsInit <- SetInit", "Step <- SetStep", "XStep <- SetXStep", "FinalOk <- SetFinal",
            "Replace = %s" % ("TRUE" if replace else "FALSE"), "Ordered = %s" % ("TRUE" if ordered else "FALSE"), "MinMaxExact = %s" % ("TRUE" if exact else "FALSE"), 'IterMode = "%s"' % itermode]


def gen_program(rng, voc, keys=3, minmax=False):
    nt = rng.choice([2, 3, 3]); th = []
    v = list(voc) + (["extmin", "extmax"] if minmax else [])
    for t in range(nt):
        ops = []
        for _ in range(rng.choice([2, 3, 3])):
            o = rng.choice(v)
            ops.append(o if o in ("extmin", "extmax") else "%s:%d" % (o, rng.randrange(1, keys + 1)))
        th.append(",".join(ops))
    init = ",".join("ins:%d" % k for k in rng.sample(range(1, keys + 1), rng.choice([0, 1, 2])))
    return init + ";" + "|".join(th) + ";trav,size,check"
