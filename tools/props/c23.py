"""C23 -- flat combining executes each request exactly once under mutual exclusion (DESIGN.md 6/C23)"""
import vlib
from props.common import make_jobs, strategies

VARIANTS = ["box_backoff_c1_p1", "box_backoff_c1_p2", "box_backoff_c2_p1", "box_backoff_c1024_p8", "box_empty_c2_p2",
            "box_single_mutex_single_condvar_c2_p1", "box_single_mutex_multi_condvar_c2_p1", "box_multi_mutex_multi_condvar_c2_p1"]
# threads that finish early leave their publication record to the compaction of the others
PROGRAMS = ["add|addn:3|addn:2;add", "addn:2|addn:2|addn:2;add", "add|add|addn:4;addn:2", "add;add|addn:3;add"]
DEEP = ["add|addn:3", "addn:2|addn:2"]
CONSTS = ["AbsInit <- FInit", "Step <- FStep", "XStep <- FXStep", "FinalOk <- FFinal"]


def run(ctx):
    q = ctx.quick()
    # Tier B: FCKernel.tla (publication list, combiner election, combining passes, compact_list).  Refuted: seeded change C23 (no republish when a
    # waiter takes over); freeing a 'removed' record that is still linked (the defect repaired by the is_published() fix) violates NoFreedLinked
    vlib.model_check_many(ctx, [dict(module_rel="fc/FCKernel.tla", cfg_rel="fc/FCKernel_q2.cfg", workers=3),
                                dict(module_rel="fc/FCKernel.tla", cfg_rel="fc/FCKernel_bad_norepublish.cfg", workers=2, expect_violation="Assert"),
                                dict(module_rel="fc/FCKernel.tla", cfg_rel="fc/FCKernel_bad_exit.cfg", workers=2, expect_violation="NoFreedLinked")] +
                               ([] if q else [dict(module_rel="fc/FCKernel.tla", cfg_rel="fc/FCKernel_q3.cfg", workers=6, timeout=3000),
                                              dict(module_rel="fc/FCKernel.tla", cfg_rel="fc/FCKernel_q3exit.cfg", workers=6, timeout=3000)]), par=4)
    deep = [("dfs", 6000 if q else 400000, 2 if q else 3)]
    jobs = make_jobs(ctx, "fc", VARIANTS, PROGRAMS) + make_jobs(ctx, "fc", VARIANTS[:4], DEEP, strat=deep)
    rmw = [("random", 100 if q else 4000, 0), ("pct", 40 if q else 2000, 0)]      # decision points: read-modify-write accesses (the kernel mutex, list CASes) only
    jobs += make_jobs(ctx, "fc", VARIANTS, PROGRAMS, strat=rmw, extra_of=lambda v: ["--points", "rmw"])
    vlib.run_jobs(ctx, jobs)
    vlib.validate_histories(ctx, jobs, "FcExec", CONSTS)
    ctx.impl_runs.append({"driver": "fc", "variants": VARIANTS, "programs": PROGRAMS + DEEP, "strategies": strategies(ctx)})
    return vlib.finish(ctx)
