"""C21 -- free lists never hand out a node twice and never lose one (DESIGN.md 6/C21)"""
import vlib
from props.common import make_jobs, strategies

VARIANTS = ["freelist", "taggedfreelist", "cachedfreelist", "cachedtaggedfreelist"]
PROGRAMS = ["put:1,put:2;get,reput,get|get,put:3,get|put:4,get,reput;drainq",
            "put:1;get,reput,get,reput|get,reput,get|put:2,get;drainq",
            "put:1,put:2,put:3;get,get,reput|get,reput,get,reput|get,put:4;drainq"]
DEEP = ["put:1;get,reput|get,reput;drainq", "put:1,put:2;get,reput,get|get,get,reput;drainq"]
CONSTS = ["AbsInit <- BInit", "Step <- BStep", "XStep <- BXStep", "FinalOk <- BFinal", "Prefill = 0", "FreshBase = 0"]


def gen_program(rng):
    nt = rng.choice([2, 3, 3, 4]); nid = 10; th = []
    for t in range(nt):
        ops = []
        for _ in range(rng.choice([3, 4])):
            x = rng.random()
            if x < 0.3:
                nid += 1; ops.append("put:%d" % nid)
            elif x < 0.7:
                ops.append("get")
            else:
                ops.append("reput")
        th.append(",".join(ops))
    return "put:1,put:2;" + "|".join(th) + ";drainq"


def run(ctx):
    # Tier B: FreeList.tla (reference-counted free list, refs word as [count, flag]; without the refs check a node is handed out twice)
    vlib.model_check_many(ctx, [dict(module_rel="mem/FreeListMC.tla", cfg_rel="mem/FreeList_q.cfg" if ctx.quick() else "mem/FreeList_t.cfg", workers=8, timeout=3000),
                                dict(module_rel="mem/FreeListMC.tla", cfg_rel="mem/FreeList_bad_norefcheck.cfg", workers=4, expect_violation="NoDoubleHandOut"),
                                # TaggedFreeList.tla ((pointer, tag) head with double-width CAS); refuted: no tag at all (textbook ABA) and -- thorough tier -- the seeded change C21b
                                dict(module_rel="mem/TaggedFreeListMC.tla", cfg_rel="mem/TaggedFreeList_q.cfg", workers=2),
                                dict(module_rel="mem/TaggedFreeListMC.tla", cfg_rel="mem/TaggedFreeList_bad_notag.cfg", workers=3, expect_violation="LinOK")] +
                               ([] if ctx.quick() else [dict(module_rel="mem/TaggedFreeListMC.tla", cfg_rel="mem/TaggedFreeList_q3.cfg", workers=8, timeout=3000),
                                                        dict(module_rel="mem/TaggedFreeListMC.tla", cfg_rel="mem/TaggedFreeList_bad_taghoisted.cfg", workers=8, expect_violation="LinOK", timeout=3000)]), par=4)
    q = ctx.quick()
    progs = PROGRAMS + [gen_program(ctx.rng) for _ in range(2 if q else 10)]
    deep = [("dfs", 6000 if q else 400000, 3)]
    jobs = make_jobs(ctx, "bag", VARIANTS, progs) + make_jobs(ctx, "bag", VARIANTS, DEEP, strat=deep)
    # ABA scenarios need one thread stalled right before its head CAS while another thread completes many operations: schedules whose decision
    # points are the read-modify-write accesses only (--points rmw), and one long "free" thread between a stalled put and a stalled get (seeded change C21b)
    LONG = ["put:1;get,get|put:2,put:3,get,get,reputf,get,get|put:5;drainq", "put:1,put:2;get,reput,get|put:3,get,get,reputf,put:4,get,reput|put:5,get;drainq"]
    rmw = [("random", 1200 if q else 30000, 0), ("pct", 300 if q else 8000, 0)]
    jobs += make_jobs(ctx, "bag", VARIANTS, LONG + PROGRAMS[:1], strat=rmw, extra_of=lambda v: ["--points", "rmw"])
    # exhaustive over the CAS points with 5 pre-emptions (the stalled put, the stalled get and the free thread need that many); ~45 000 executions
    jobs += make_jobs(ctx, "bag", ["freelist", "taggedfreelist"], LONG[:1], strat=[("dfs", 60000 if q else 3000000, 5 if q else 6)], extra_of=lambda v: ["--points", "rmw"], time_limit=400 if q else 2400)
    vlib.run_jobs(ctx, jobs)
    vlib.validate_histories(ctx, jobs, "LinBag", CONSTS)
    ctx.impl_runs.append({"driver": "bag", "variants": VARIANTS, "programs": progs + DEEP, "strategies": strategies(ctx)})
    return vlib.finish(ctx)
