"""C18 -- quiescent structure is well-formed and traversal is exact (DESIGN.md 6/C18)"""
import vlib
from props.common import make_jobs, strategies
from props import set_common as SC

ORDERED = [("set_list", ["michaellist_hp", "michaellist_dhp", "michaellist_rcu", "lazylist_hp", "lazylist_dhp", "lazylist_rcu"], False),
           ("set_list", ["iterablelist_hp", "iterablelist_dhp"], True),
           ("set_tree", ["skiplist_hp_low", "skiplist_hp_high", "skiplist_hp_mixed", "skiplist_dhp_alt", "skiplist_rcu_mixed", "ellen_hp", "ellen_dhp", "ellen_rcu", "bronson_injecting", "bronson_pool"], False)]
UNORDERED = [("set_hash", ["feldman_hp_h0", "feldman_hp_h3", "feldman_dhp_h3", "feldman_rcu_h3"], True)]
# every program ends at a quiescent point with: traversal (x events trbeg/tr/trend), size(), check_consistency()
PROGRAMS = ["ins:2;ins:1,era:2,ins:3|ins:2,era:1,ins:1|era:2,ins:2,era:3;trav,size,check",
            "ins:1,ins:3;era:1,ins:1,findf:3|upd1:3,ext:3,get:1|eraf:1,insf:3,find:1;trav,size,check",
            "ins:1,ins:2,ins:3,ins:4;era:2,ins:5|ext:4,ins:2|ins:6,era:1;trav,size,check",
            # an emptied (erased) node directly in front of a live one: re-use of the empty node against inserts / erases of neighbouring keys
            # (IterableList keeps erased nodes; the scenario of IterList_q2d.cfg, seeded changes C13 and C18b)
            "ins:4,ins:5,era:4;ins:2|ins:4,ins:3,era:4;trav,size,check",
            "ins:2,ins:3,ins:6,era:2,era:3;ins:4|ins:5,ins:4,era:5|ins:3,era:3;trav,size,check"]
SEQ = ["ins:3,ins:1,ins:4,ins:2,era:3,ins:5,era:1,ins:3,upd1:2,ins:6,era:4;find:1;trav,size,check",
       "ins:5,ins:4,ins:3,ins:2,ins:1,era:5,era:4,ins:7,ins:6,ext:1;find:2;trav,size,check"]


def run(ctx):
    q = ctx.quick()
    # Tier B: IterList.tla started from a list with an emptied node in front of a live one; quiescent invariant FinalSorted / ListMatches.
    # Refuted: seeded change C18b (find_prev re-check before the data pointers are marked)
    vlib.model_check_many(ctx, [dict(module_rel="list/IterListMC.tla", cfg_rel="list/IterList_q2e.cfg", workers=2),
                                dict(module_rel="list/IterListMC.tla", cfg_rel="list/IterList_bad_earlyfindprev.cfg", workers=2, expect_violation="ListMatches")], par=2)
    n = 1 if q else 8
    jobs = []
    groups = []
    for gi, (drv, vs, repl) in enumerate(ORDERED + UNORDERED):
        g = "g%d" % gi
        groups.append((g, repl, gi < len(ORDERED)))
        ps = PROGRAMS + [SC.gen_program(ctx.rng, SC.VOC_FULL, keys=5) for _ in range(n)]
        jobs += make_jobs(ctx, drv, vs, ps, group_of=lambda v, g=g: g, strat=[("dfs", 700, 1), ("pct", 70, 0), ("random", 40, 0)] if q else None)
        jobs += make_jobs(ctx, drv, vs, SEQ, group_of=lambda v, g=g: g, strat=[("seq", 1, 0)])
    vlib.run_jobs(ctx, jobs)
    for g, repl, ordered in groups:
        vlib.validate_histories(ctx, jobs, "LinSet", SC.consts(replace=repl, ordered=ordered), group=g)
    ctx.impl_runs.append({"variants": [v for _, vs, _ in ORDERED + UNORDERED for v in vs], "programs": PROGRAMS + SEQ, "strategies": strategies(ctx)})
    ctx.notes.append("quiescent observations: traversal (each present key exactly once, strictly increasing for ordered containers), size() = number of elements, check_consistency() of EllenBinTree and BronsonAVLTreeMap; they are part of the history, so they also constrain the linearization of the concurrent part")
    return vlib.finish(ctx)
