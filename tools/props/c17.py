"""C17 -- resize and rehash never lose or duplicate elements for any hash functions (DESIGN.md 6/C17, 7.4)"""
import re, os, vlib
from vlib import Job
from props import set_common as SC

CUCKOO = ["cuckoo_striping_list_h3", "cuckoo_refinable_list_h3", "cuckoo_striping_list4_h3"]
STRIPED = ["striped_stdlist_refinable_lf1_h3", "striped_stdvector_striping_sb2_h3", "striped_stdset_refinable_lf1_h3"]
HASHSETS = ["michaelset_michael_hp_ht", "splitlist_michael_hp_ht", "splitlist_iterable_hp_ht", "splitlist_michael_dhp_static_ht"]
FELDMAN = ["feldman_hp_ht", "feldman_dhp_ht"]


def seq_program(keys, h1, h2, erase=()):
    seth = ",".join("seth:%d:%d:%d" % (k, h1[k], h2[k]) for k in keys)
    ops = ["ins:%d" % k for k in keys] + ["era:%d" % k for k in erase] + ["find:%d" % k for k in keys] + ["size"]
    return seth + ",audit;" + ",".join(ops) + ";size"


def gen_tables(rng, nkeys, mode):
    keys = list(range(1, nkeys + 1))
    if mode == "const":      # cuckoo hashing cannot hold more than arity x probe-set-size keys with identical hashes (it grows forever): 4 collide
        h1 = {k: (1 if k <= 4 else k) for k in keys}; h2 = {k: (2 if k <= 4 else k + 1) for k in keys}
    elif mode == "low":
        m = rng.choice([2, 3, 4]); h1 = {k: rng.randrange(m) for k in keys}; h2 = {k: rng.randrange(m) for k in keys}
    elif mode == "prefix":    # shared low bits, differ only high up (split-list buckets / Feldman prefixes)
        h1 = {k: (rng.randrange(2) << 28) | 5 for k in keys}; h2 = {k: k for k in keys}
    else:
        h1 = {k: rng.randrange(1 << 16) for k in keys}; h2 = {k: rng.randrange(1 << 16) for k in keys}
    return keys, h1, h2


def injective(keys, h1, h2):
    # Feldman: the hash is the identity of an element, so distinct keys need distinct hashes: put the key in the top bits
    return {k: h1[k] for k in keys}, {k: (k << 20) | (h2[k] & 0xfffff) for k in keys}


def run(ctx):
    q = ctx.quick()
    # 1. model: all hash pairs for few keys (no loss possible yet), simulation for 7 keys: the code as written loses an element
    vlib.model_check_many(ctx, [
        dict(module_rel="set/CuckooResize.tla", cfg_text=open(os.path.join(vlib.SPEC, "set", "CuckooResize_coded.cfg")).read().replace("K = 7", "K = 4" if q else "K = 5"), name="CuckooResize_coded_small", workers=8, timeout=3000),
        dict(module_rel="set/CuckooResize.tla", cfg_rel="set/CuckooResize_intended.cfg", name="CuckooResize_intended", workers=8, timeout=3000)], par=2)
    r = vlib.model_check(ctx, "set/CuckooResize.tla", "set/CuckooResize_coded.cfg", simulate="num=2000000", expect_violation="NoLoss", workers=1, timeout=600, extra=("-seed", "7"))
    jobs = []
    # 2. the model's counter-example (hash functions chosen by TLC) replayed on the real CuckooSet
    st = re.findall(r"/\\ h1 = <<([\d, ]+)>>", r["out"]); st2 = re.findall(r"/\\ h2 = <<([\d, ]+)>>", r["out"])
    if st and st2:
        a = [int(x) for x in st[-1].split(",")]; b = [int(x) for x in st2[-1].split(",")]
        keys = list(range(1, len(a) + 1))
        prog = seq_program(keys, dict(zip(keys, a)), dict(zip(keys, b)))
        ctx.samples.append({"kind": "hash functions chosen by TLC (counter-example of CuckooResize as coded), replayed on the real CuckooSet", "h1": a, "h2": b})
        jobs += [Job("set_lock", v, prog, "seq", 1, 0, 1, group="cuckoo", extra=["--max-steps", "120000"]) for v in CUCKOO]
    else:
        ctx.machinery_errors.append("could not parse the counter-example of CuckooResize_coded.cfg")
    # 3. random degenerate hash functions on every growing hash container
    n = 20 if q else 400
    for i in range(n):
        mode = ["const", "low", "low", "prefix", "rand"][i % 5]
        keys, h1, h2 = gen_tables(ctx.rng, ctx.rng.choice([6, 8, 12, 18, 22]), mode)   # StripedSet starts with 16 buckets: > 16 keys to make it grow
        er = ctx.rng.sample(keys, 2)
        prog = seq_program(keys, h1, h2, er)
        for v in CUCKOO:
            jobs.append(Job("set_lock", v, prog, "seq", 1, 0, 1, group="cuckoo", extra=["--max-steps", "120000"]))
        for v in STRIPED:
            jobs.append(Job("set_lock", v, prog, "seq", 1, 0, 1, group="other", extra=["--max-steps", "120000"]))
        g1, g2 = injective(keys, h1, h2)
        progi = seq_program(keys, g1, g2, er)
        for v in HASHSETS + FELDMAN:
            jobs.append(Job("set_hash", v, progi if v in FELDMAN else prog, "seq", 1, 0, 1, group="repl" if ("iterable" in v or "feldman" in v) else "other"))
    # 4. as many fully colliding keys as the two probe sets can hold (2 x probe-set size): every insert beyond the threshold relocates, the last
    #    ones hit the "all probe sets full" roll-back branch of relocate(); nothing may be lost
    for v, cap in (("cuckoo_striping_list_h3", 4), ("cuckoo_refinable_list_h3", 4), ("cuckoo_striping_list4_h3", 8)):
        for ncoll in (cap - 1, cap):
            for extra in (0, 3):
                keys = list(range(1, ncoll + extra + 1)); rest = keys[ncoll:]
                h1 = {k: (1 if k <= ncoll else 10 + k) for k in keys}; h2 = {k: (2 if k <= ncoll else 20 + k) for k in keys}
                order = rest[:1] + keys[:ncoll] + rest[1:]
                seth = ",".join("seth:%d:%d:%d" % (k, h1[k], h2[k]) for k in keys)
                ops = ["ins:%d" % k for k in order] + ["find:%d" % k for k in keys] + ["size", "era:%d" % keys[0]] + ["find:%d" % k for k in keys] + ["size"]
                jobs.append(Job("set_lock", v, seth + ",audit;" + ",".join(ops) + ";size", "seq", 1, 0, 1, group="cuckoo"))
    # 5. the same growth paths while other threads insert (slot expansion / bucket initialisation racing with inserts into the slot being expanded);
    #    hash mode h3: hashes that differ only in a middle and the top bits (seeded change C17b)
    from props.common import make_jobs
    CONC = ["ins:1,ins:2,ins:3|ins:4,ins:5,era:1|find:3,ins:6,era:4;trav,size", "ins:1,ins:3|ins:5,ins:7,find:1|ins:2,ins:4,find:3;trav,size"]
    jobs += make_jobs(ctx, "set_hash", ["feldman_hp_h3", "feldman_dhp_h3"], CONC, group_of=lambda v: "repl") + \
            make_jobs(ctx, "set_hash", ["splitlist_michael_hp_h3"], CONC, group_of=lambda v: "other")
    vlib.run_jobs(ctx, jobs)
    vlib.validate_histories(ctx, jobs, "LinSet", SC.consts(replace=False, ordered=False), group="cuckoo")
    vlib.validate_histories(ctx, jobs, "LinSet", SC.consts(replace=False, ordered=False), group="other")
    vlib.validate_histories(ctx, jobs, "LinSet", SC.consts(replace=True, ordered=False), group="repl")
    ctx.impl_runs.append({"drivers": ["set_lock", "set_hash"], "variants": CUCKOO + STRIPED + HASHSETS + FELDMAN, "hash_tables": n, "modes": ["const", "low", "prefix", "rand"]})
    return vlib.finish(ctx)
