"""real FeldmanHashSet inserts of hashes sharing prefixes (C28 code level) -- filled in by the set driver (C14)"""


def run(ctx):
    ctx.notes.append("real FeldmanHashSet insert sequences are exercised by the C14/C20 drivers")
