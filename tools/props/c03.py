"""C03 -- HP/DHP dispose every retired object exactly once (DESIGN.md 6/C03)"""
import vlib
from props.common import make_jobs, strategies
from props import smr_common as S


def run(ctx):
    # Tier B: HP.tla (attach with record reuse, protect, retire, classic/in-place scan, help_scan, detach, destructor)
    vlib.model_check_many(ctx, [dict(module_rel="smr/HPMC.tla", cfg_rel="smr/HP_q.cfg" if ctx.quick() else "smr/HP_t.cfg", workers=8, timeout=3000),
                                dict(module_rel="smr/HPMC.tla", cfg_rel="smr/HP_bad_scan.cfg", workers=4, expect_violation="Assert"),
                                # DHP.tla (retired array of blocks, extension guard blocks, record reuse, help_scan adoption, destructor); refuted: seeded change C03
                                # (empty() without the list-head test -> leak) and the defect repaired by 5021641 (stale list_tail_ -> write past the block)
                                dict(module_rel="smr/DHPMC.tla", cfg_rel="smr/DHP_q.cfg" if ctx.quick() else "smr/DHP_t.cfg", workers=4, timeout=3000),
                                dict(module_rel="smr/DHPMC.tla", cfg_rel="smr/DHP_bad_EmptyNoHead.cfg", workers=3, expect_violation="NoLeak")] +
                               ([] if ctx.quick() else [dict(module_rel="smr/DHPMC.tla", cfg_rel="smr/DHP_bad_StaleTail.cfg", workers=4, expect_violation="NoOverflow", timeout=3000)]), par=5)
    n = 1 if ctx.quick() else 6
    k1 = [v for v in S.HP_VARIANTS if "_k1" in v]
    k2 = [v for v in S.HP_VARIANTS if "_k1" not in v] + ["dhp_k4", "dhp_k2"]
    st = [("dfs", 500 if ctx.quick() else 40000, 1 if ctx.quick() else 2), ("pct", 60 if ctx.quick() else 2000, 0), ("random", 20 if ctx.quick() else 1000, 0)]
    # retire counts below, at and above the retired-array capacity (K*T+1), threads exiting with pending retired objects
    extra_progs = ["retn:2|retn:3", "retn:4,scan|retn:5,detach,attach,retn:1", "prot:0:0,retn:7,deref:0|swapn:0:4,detach|retn:9;scan"]
    jobs = make_jobs(ctx, "smr", k1, S.K1_PROGRAMS[:2] + extra_progs + [S.gen_program(ctx.rng, 1) for _ in range(n)], strat=st) + \
           make_jobs(ctx, "smr", k2, S.K2_PROGRAMS[:2] + extra_progs + [S.gen_program(ctx.rng, 2) for _ in range(n)], strat=st) + \
           make_jobs(ctx, "smr", ["dhp_k4"], S.DHP_LONG[1:], strat=[("pct", 20 if ctx.quick() else 400, 0)], extra_of=lambda v: ["--max-steps", "3000000"])
    # a full retired block (256) of objects that are all guarded by another thread when the retiring thread detaches (below, at, above, 2 blocks)
    jobs += make_jobs(ctx, "smr", ["dhp_k4"], ["holdn:%d,signal,await:2|await:1,retpool,detach,signal" % n for n in (255, 256, 257, 512)], strat=[("pct", 6 if ctx.quick() else 60, 0)], extra_of=lambda v: ["--max-steps", "3000000"])
    # a detached thread's record with guarded retired objects is adopted by a detaching thread's help_scan while a thread WITHOUT a record attaches
    # (op noattach) and retires at once (seeded change C03b: the adopted record released before its retired pointers were copied)
    ADOPT = ["prot:0:0,signal,await:3,deref:0|await:1,swap:0,detach,signal|await:2,detach,signal|noattach,await:2,attach,retn:2,detach",
             "prot:0:0,prot:1:1,signal,await:3,deref:0,deref:1|await:1,swap:0,swap:1,detach,signal|await:2,retn:1,detach,signal|noattach,await:2,attach,retn:3,detach"]
    jobs += make_jobs(ctx, "smr", ["hp_inplace_k2", "hp_classic_k2", "hp_inplace_k2_r16", "dhp_k4"], ADOPT, strat=[("random", 300 if ctx.quick() else 8000, 0), ("pct", 150 if ctx.quick() else 4000, 0)])
    # a thread detaches with < 256 surviving retired objects in a two-block array, its record is reused and filled up again with guarded objects
    jobs += make_jobs(ctx, "smr", ["dhp_k4"], ["holdn:300,signal,await:2,relsome:100,signal,await:4,holdn:100,signal,await:6|await:1,retpool,signal,await:3,detach,attach,signal,await:5,retpool,signal"],
                      strat=[("pct", 4 if ctx.quick() else 40, 0)], extra_of=lambda v: ["--max-steps", "3000000"])
    vlib.run_jobs(ctx, jobs)
    vlib.validate_histories(ctx, jobs, "SmrSafety", S.CONSTS + ['Clause = "once"'])
    ctx.impl_runs.append({"driver": "smr", "variants": k1 + k2, "strategies": st})
    return vlib.finish(ctx)
