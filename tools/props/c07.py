"""C07 -- Vyukov bounded MPMC queue is a linearizable bounded FIFO (DESIGN.md 6/C07)"""
import vlib
from props.common import make_jobs, strategies

MPMC = ["vyukov_dyn2", "vyukov_dyn4", "vyukov_dyn8", "vyukov_static2", "vyukov_static4", "intr_vyukov2", "intr_vyukov4"]
SC = ["vyukov_sc2", "vyukov_sc4"]
PROGRAMS = ["enq:1,enq:2,enq:3|deq,deq|enq:4,deq;drain",
            "enq:1,deq,enq:2,deq|enq:3,enq:4,deq|deq,enq:5;drain",
            "enq:8,enq:9;enq:1,enq:2|deq,deq,deq|enq:3,empty;drain"]
SC_PROGRAMS = ["enq:1,enq:2|front,popfront,front,deq|enq:3,enq:4;drain",
               "enq:9;enq:1,enq:2,enq:3|front,popfront,front,popfront,front;drain"]
CONSTS = ["AbsInit <- QInit", "Step <- QStep", "XStep <- QXStep", "FinalOk <- QFinal", "Cap = 0"]


def gen_program(rng):
    nt = rng.choice([2, 3, 3]); v = 0; th = []
    for t in range(nt):
        ops = []
        for _ in range(rng.choice([3, 4])):
            if rng.random() < 0.6:
                v += 1; ops.append("enq:%d" % v)
            else:
                ops.append("deq")
        th.append(",".join(ops))
    return "|".join(th) + ";drain"


def run(ctx):
    # Tier B: Vyukov.tla (enqueue_with / dequeue_with as coded, ghost abstract queue; the textbook variant must fail)
    vlib.model_check_many(ctx, [dict(module_rel="queue/VyukovMC.tla", cfg_rel="queue/Vyukov_q.cfg" if ctx.quick() else "queue/Vyukov_t.cfg", workers=8, timeout=3000),
                                dict(module_rel="queue/VyukovMC.tla", cfg_rel="queue/Vyukov_q2.cfg", workers=4),
                                dict(module_rel="queue/VyukovMC.tla", cfg_rel="queue/Vyukov_bad_textbook.cfg", workers=2, expect_violation="LinOK"),
                                dict(module_rel="queue/VyukovMC.tla", cfg_rel="queue/Vyukov_bad_maskedfull.cfg", workers=2, expect_violation="LinOK")], par=3)
    progs = list(PROGRAMS) + [gen_program(ctx.rng) for _ in range(1 if ctx.quick() else 6)]
    jobs = make_jobs(ctx, "queue", MPMC, progs) + make_jobs(ctx, "queue", SC, SC_PROGRAMS)
    vlib.run_jobs(ctx, jobs)
    vlib.validate_histories(ctx, jobs, "LinQueue", CONSTS)
    ctx.impl_runs.append({"driver": "queue", "variants": MPMC + SC, "programs": progs + SC_PROGRAMS, "strategies": strategies(ctx)})
    return vlib.finish(ctx)
