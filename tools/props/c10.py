"""C10 -- FCDeque is a linearizable double-ended queue (DESIGN.md 6/C10)"""
import vlib
from props.common import make_jobs, strategies

VARIANTS = ["fcdeque", "fcdeque_elim_pass1", "fcdeque_elim_pass2", "fcdeque_elim_pass4", "fcdeque_boost_elim"]
PROGRAMS = ["pushf:1,popb|pushb:2,popf|popf,pushf:3;drainf",
            "pushb:1,popf,pushf:2|popb,pushb:3|popf,popb;drainb",
            "pushb:9;pushf:1,popb|pushb:2,popf|popb,popf;drainf",
            "pushf:1,pushf:2|popb,popb|pushb:3,popf;drainf"]
CONSTS = ["AbsInit <- DInit", "Step <- DStep", "XStep <- DXStep", "FinalOk <- DFinal"]


def gen_program(rng):
    nt = rng.choice([2, 3, 3, 4]); v = 0; th = []
    for t in range(nt):
        ops = []
        for _ in range(rng.choice([2, 3])):
            if rng.random() < 0.5:
                v += 1; ops.append("%s:%d" % (rng.choice(["pushf", "pushb"]), v))
            else:
                ops.append(rng.choice(["popf", "popb"]))
        th.append(",".join(ops))
    init = ",".join("pushb:%d" % (90 + i) for i in range(rng.choice([0, 0, 1, 2])))
    return init + ";" + "|".join(th) + ";" + rng.choice(["drainf", "drainb"])


def run(ctx):
    # Tier B: FCElim.tla (elimination of a push / pop pair inside fc_process, publication records re-used by their threads; stack order = same-end pair
    # of the deque); refuted: seeded change C10b (collide leaves the pop record's bEmpty alone)
    vlib.model_check_many(ctx, [dict(module_rel="fc/FCElimMC.tla", cfg_rel="fc/FCElim_stack.cfg", workers=1),
                                dict(module_rel="fc/FCElimMC.tla", cfg_rel="fc/FCElim_bad_noflag.cfg", workers=1, expect_violation="Conservation")], par=2)
    progs = list(PROGRAMS) + [gen_program(ctx.rng) for _ in range(2 if ctx.quick() else 8)]
    jobs = make_jobs(ctx, "stack", VARIANTS, progs)
    vlib.run_jobs(ctx, jobs)
    vlib.validate_histories(ctx, jobs, "LinDeque", CONSTS)
    ctx.impl_runs.append({"driver": "stack", "variants": VARIANTS, "programs": progs, "strategies": strategies(ctx)})
    return vlib.finish(ctx)
