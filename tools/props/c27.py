"""C27 -- split-order key encoding keeps each bucket contiguous (DESIGN.md 6/C27)"""
import vlib

CONSTS = ["W = 64", "St0 = 0", "Ok <- SoOk", "St <- SoSt"]


def run(ctx):
    q = ctx.quick()
    one = vlib.os.path.join(ctx.dir, "one.ndjson")
    open(one, "w").write('{"f":"parent","h":[2,0,0,0],"y":[0,0,0,0]}\n')
    widths = [4, 8] if q else [4, 5, 6, 7, 8, 9, 10]
    def mc(w):
        cfg = "SPECIFICATION Spec\nCONSTANTS\n  W = %d\n  St0 = 0\n  Ok <- SoOk\n  St <- SoSt\nCHECK_DEADLOCK FALSE\n" % w
        r = vlib.run_tlc(ctx, vlib.os.path.join(vlib.SPEC, "pure", "SplitOrderMC.tla"), cfg_text=cfg, env={"TRACE": one}, workers=1, name="splitorder_w%d" % w, timeout=3000)
        ctx.model_runs.append({"spec": "pure/SplitOrderMC.tla", "cfg": "W=%d (ASSUME ModelOK: all hashes x all table sizes)" % w, "states": r["states"], "wall_s": r["wall_s"], "violation": r["violation"]})
        if r["error"] or r["violation"]:
            ctx.machinery_errors.append("SplitOrder model W=%d: %s" % (w, r["error"] or r["violation"]))
        vlib.log("  model pure/SplitOrderMC.tla W=%d %.1fs %s" % (w, r["wall_s"], r["violation"] or r["error"] or "ok"))
    with vlib.concurrent.futures.ThreadPoolExecutor(max_workers=4) as ex:
        list(ex.map(mc, widths))
    f = vlib.run_recorder(ctx, ("splitorder", ctx.seed, 40 if q else 2000, 5 if q else 1), "so.ndjson")
    vlib.validate_records(ctx, [f], "pure/SplitOrder.tla", CONSTS, "C27", "split_order", classify_rec=lambda d: "%s/%s/%s" % (d.get("f"), d.get("impl", "").split(".")[0], "k>=31" if d.get("k", 0) >= 31 or (d.get("f") == "parent" and (d["h"][2] or d["h"][3] or d["h"][1] >= 32768)) else "small"))
    return vlib.finish(ctx, extra={"exhaustive": True})
