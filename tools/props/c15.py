"""C15 -- skip lists and trees are linearizable ordered sets and maps (DESIGN.md 6/C15)"""
import vlib
from props.common import make_jobs, strategies
from props import set_common as SC

SKIP = ["skiplist_hp_low", "skiplist_hp_high", "skiplist_hp_mixed", "skiplist_dhp_alt", "skiplist_rcu_mixed", "skiplist_rcu_high"]
ELLEN = ["ellen_hp", "ellen_dhp", "ellen_rcu"]
BRONSON = ["bronson_injecting", "bronson_pool", "bronson_relaxed_insert"]
MINMAX = ["ins:1,ins:2,ins:3;extmin,ins:1|extmax,era:2|ins:4,extmin;trav,size,check",
          "ins:2,ins:3;ins:1,extmin|extmin,ins:4|extmax,find:3;trav,size,check"]


def run(ctx):
    q = ctx.quick()
    # Tier B: Ellen.tla (EllenBinTree in the libcds variant without helping: Clean( counter ) / IFlag / DFlag / Mark update words, search with the update-word
    # re-check, try_insert, erase with check_delete_precondition, help_delete / help_marked); presence witnesses per running operation.
    # Refuted: seeded change C15 (the Clean value is renewed only on every fourth completed operation: ABA on the flag CAS)
    vlib.model_check_many(ctx, [dict(module_rel="set/EllenMC.tla", cfg_rel="set/Ellen_q.cfg", workers=3),
                                dict(module_rel="set/EllenMC.tla", cfg_rel="set/Ellen_q2c.cfg", workers=2),
                                dict(module_rel="set/EllenMC.tla", cfg_rel="set/Ellen_bad_cleanperiod.cfg", workers=2, expect_violation="LinOK"),
                                # SkipList.tla (towers of height 1 or 2: find_position with re-read and help_remove, insert_at_position, try_remove_at); refuted: seeded change C15b
                                dict(module_rel="set/SkipListMC.tla", cfg_rel="set/SkipList_q.cfg", workers=3),
                                dict(module_rel="set/SkipListMC.tla", cfg_rel="set/SkipList_bad_keepmark.cfg", workers=2, expect_violation="LinOK")] +
                               ([] if q else [dict(module_rel="set/EllenMC.tla", cfg_rel="set/Ellen_q3.cfg", workers=10, timeout=5000, heap="16g"),
                                              dict(module_rel="set/SkipListMC.tla", cfg_rel="set/SkipList_q3.cfg", workers=8, timeout=5000, heap="16g")]), par=5)
    n = 0 if q else 8
    deep = [("dfs", 1200 if q else 300000, 2 if q else 3)]
    ps = SC.PROGRAMS + MINMAX + [SC.gen_program(ctx.rng, SC.VOC_FULL, keys=4, minmax=True) for _ in range(n)]
    allv = SKIP + ELLEN + BRONSON
    jobs = make_jobs(ctx, "set_tree", allv, ps) + make_jobs(ctx, "set_tree", allv, SC.DEEP + ["ins:1,ins:2;extmin,ins:1|extmin,era:2;trav,size,check"], strat=deep)
    vlib.run_jobs(ctx, jobs)
    vlib.validate_histories(ctx, jobs, "LinSet", SC.consts(replace=False, ordered=True, exact=False))
    ctx.impl_runs.append({"driver": "set_tree", "variants": allv, "programs": ps, "strategies": strategies(ctx)})
    return vlib.finish(ctx)
