"""C14 -- hash sets and maps are linearizable, including during growth (DESIGN.md 6/C14)"""
import vlib
from props.common import make_jobs, strategies
from props import set_common as SC

STD = ["michaelset_michael_hp_h2", "michaelset_michael_dhp_h0", "michaelset_lazy_hp_h1", "michaelset_michael_rcu_h2", "michaelset_lazy_rcu_h0",
       "splitlist_michael_hp_h0", "splitlist_michael_hp_h3", "splitlist_michael_dhp_static_h0", "splitlist_lazy_hp_h2", "splitlist_michael_rcu_h0", "splitlist_lazy_rcu_static_h1"]
REPL = ["michaelset_iterable_hp_h2", "splitlist_iterable_hp_h0", "feldman_hp_h0", "feldman_hp_h3", "feldman_dhp_h3", "feldman_rcu_h3", "feldman_rcu_h0"]
GROW = ["ins:1,ins:2,ins:3|ins:4,ins:5,era:1|find:3,ins:6,era:4;trav,size", "ins:1,ins:2,ins:3,ins:4;ins:5,era:2|ins:6,find:5|era:3,ins:7;trav,size"]


def run(ctx):
    q = ctx.quick()
    # Tier B: SplitList.tla (split-order keys, lazy bucket initialisation parent first, slot published after linking, table growth) over an abstract ordered
    # list; an operation starting at a bucket's dummy must see the key's place.  Refuted: seeded change C27, early publication, no parent initialisation
    vlib.model_check_many(ctx, [dict(module_rel="set/SplitListMC.tla", cfg_rel="set/SplitList_q.cfg", workers=2),
                                dict(module_rel="set/SplitListMC.tla", cfg_rel="set/SplitList_bad_RegularPlusOne.cfg", workers=2, expect_violation="Parity"),
                                dict(module_rel="set/SplitListMC.tla", cfg_rel="set/SplitList_bad_PublishEarly.cfg", workers=2, expect_violation="LinOK"),
                                # Feldman.tla (trie of array nodes, traverse / insert / do_erase / search / expand_slot with the "converting" state; presence witnesses
                                # per running operation).  Refuted: seeded change C14 (erase gives up when the slot changed), expansion without the converting state
                                dict(module_rel="set/FeldmanMC2.tla", cfg_rel="set/Feldman_q.cfg", workers=2),
                                dict(module_rel="set/FeldmanMC2.tla", cfg_rel="set/Feldman_bad_erasegivesup.cfg", workers=2, expect_violation="LinOK"),
                                dict(module_rel="set/FeldmanMC2.tla", cfg_rel="set/Feldman_bad_noconverting.cfg", workers=2, expect_violation="Reachable")] +
                               ([] if q else [dict(module_rel="set/SplitListMC.tla", cfg_rel="set/SplitList_q3.cfg", workers=8, timeout=3000),
                                              dict(module_rel="set/SplitListMC.tla", cfg_rel="set/SplitList_bad_NoParentInit.cfg", workers=4, expect_violation="LinOK", timeout=3000),
                                              dict(module_rel="set/FeldmanMC2.tla", cfg_rel="set/Feldman_q3.cfg", workers=8, timeout=3000)]), par=6)
    n = 0 if q else 8
    deep = [("dfs", 900 if q else 300000, 2 if q else 3)]
    ps = SC.PROGRAMS + GROW + [SC.gen_program(ctx.rng, SC.VOC_FULL, keys=4) for _ in range(n)]
    jobs = make_jobs(ctx, "set_hash", STD, ps, group_of=lambda v: "std") + make_jobs(ctx, "set_hash", REPL, ps, group_of=lambda v: "repl")
    jobs += make_jobs(ctx, "set_hash", STD, SC.DEEP[:2], group_of=lambda v: "std", strat=deep) + make_jobs(ctx, "set_hash", REPL, SC.DEEP[:2], group_of=lambda v: "repl", strat=deep)
    vlib.run_jobs(ctx, jobs)
    vlib.validate_histories(ctx, jobs, "LinSet", SC.consts(replace=False, ordered=False), group="std")
    vlib.validate_histories(ctx, jobs, "LinSet", SC.consts(replace=True, ordered=False), group="repl")
    ctx.impl_runs.append({"driver": "set_hash", "variants": STD + REPL, "programs": ps, "strategies": strategies(ctx)})
    return vlib.finish(ctx)
