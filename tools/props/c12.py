"""C12 -- WeakRingBuffer is an exact SPSC FIFO for fixed and variable-size records (DESIGN.md 6/C12, 7.5, 7.11)"""
import vlib
from props.common import make_jobs, strategies

TYPED = ["ring_int_2", "ring_int_4", "ring_int_np2_3", "ring_int_np2_5", "ring_int_static_4"]
VOID = ["ring_void_64", "ring_void_128", "ring_void_np2_96", "ring_void_np2_100"]
# batch sizes stay below the capacity (documented precondition of the batch push / pop)
TYPED_PROGRAMS = ["push:1,push:2,push:3,push:4,push:5|pop,pop,pop,pop;drain",
                  "pushn:1:2,push:3,pushn:4:3,push:7|popn:2,pop,popn:3,pop;drain",
                  "push:1,pushn:2:3,push:5,push:6|front,popfront,popn:2,front,popfront,empty;drain",
                  "pushn:1:3,pushn:4:2,push:6|pop,popn:3,popn:2;drain"]
SMALL_PROGRAMS = ["push:1,push:2,push:3,push:4,push:5|pop,pop,pop,pop;drain", "push:1,push:2,push:3|front,popfront,pop,empty,pop;drain"]
SMALL = ["ring_int_2", "ring_int_np2_3"]
# record sizes: small, around the 8-byte rounding, wrapping the end; ids 1..63
VOID_PROGRAMS = ["pushv:1:9,pushv:2:20,pushv:3:9,pushv:4:16|popv,popv,popv,popv;drainv",
                 "pushv:1:1,pushv:2:8,pushv:3:7,pushv:4:17,pushv:5:24,pushv:6:3|popv,popv,popv,popv,popv,popv;drainv",
                 "pushv:1:16,pushv:2:16,pushv:3:16,pushv:4:16,pushv:5:16|popv,popv,popv,popv,popv;drainv"]
# a record larger than half the capacity pushed at an offset where it fits neither before nor after the wrap (finding 7.11)
# reserve / fill / publish as separate steps (back(), memcpy, push_back()), records that wrap the end while the consumer is caught up
POPS = ",".join(["popv"] * 12)   # the consumer polls: it must be caught up when the producer wraps
VOID2_PROGRAMS = ["pushv2:1:9,pushv2:2:17,pushv2:3:9,pushv2:4:17,pushv2:5:17,pushv2:6:9|%s;drainv" % POPS,   # real sizes 24/32: the tail is skipped at 56 (cap 64), 80 (cap 96), 112 (cap 128)
                  "pushv:1:9,pushv2:2:17,pushv2:3:9,pushv:4:17,pushv2:5:17|%s;drainv" % POPS,
                  "pushv2:1:40,pushv2:2:16,pushv2:3:40|%s;drainv" % POPS]
VOID_BIG = ["pushv:1:9,pushv:2:40,pushv:2:40|popv,popv;drainv"]
CONSTS = ["AbsInit <- RInit", "Step <- RStep", "XStep <- RXStep", "FinalOk <- RFinal"]


def gen_void(rng):
    n = rng.choice([4, 5, 6]); ops = []
    for i in range(1, n + 1):
        ops.append("pushv:%d:%d" % (i, rng.choice([1, 5, 8, 9, 15, 16, 17, 24])))
    return ",".join(ops) + "|" + ",".join(["popv"] * n) + ";drainv"


def run(ctx):
    q = ctx.quick()
    # Tier B: WeakRing.tla (the void ring at access granularity: back()/fill/push_back(), front()/pop_front(), tail markers).  Refuted: the seeded
    # change C12 (stale position in front()'s re-check); finding 7.11 as coded violates AllDelivered (liveness), with the tail published it holds
    vlib.model_check_many(ctx, [dict(module_rel="queue/WeakRingMC.tla", cfg_rel="queue/WeakRing_q.cfg", workers=2),
                                dict(module_rel="queue/WeakRingMC.tla", cfg_rel="queue/WeakRing_q2.cfg", workers=2),
                                dict(module_rel="queue/WeakRingMC.tla", cfg_rel="queue/WeakRing_bad_stalefront.cfg", workers=2, expect_violation="Assert"),
                                dict(module_rel="queue/WeakRingMC.tla", cfg_rel="queue/WeakRing_bad_bigrecord.cfg", workers=2, expect_violation="AllDelivered"),
                                dict(module_rel="queue/WeakRingMC.tla", cfg_rel="queue/WeakRing_intended_bigrecord.cfg", workers=2)], par=5)
    deep = [("dfs", 8000 if q else 500000, 3 if q else 4)]
    vp = VOID_PROGRAMS + [gen_void(ctx.rng) for _ in range(2 if q else 12)]
    jobs = make_jobs(ctx, "ring", [v for v in TYPED if v not in SMALL], TYPED_PROGRAMS) + make_jobs(ctx, "ring", SMALL, SMALL_PROGRAMS) + make_jobs(ctx, "ring", VOID, vp) + make_jobs(ctx, "ring", VOID[:3], VOID2_PROGRAMS) + make_jobs(ctx, "ring", ["ring_void_64"], VOID_BIG) + \
        make_jobs(ctx, "ring", TYPED[:3], ["push:1,push:2,push:3|pop,pop,pop;drain"], strat=deep) + make_jobs(ctx, "ring", ["ring_int_4", "ring_int_np2_5"], ["pushn:1:2,push:3|pop,popn:2;drain"], strat=deep) + \
        make_jobs(ctx, "ring", VOID[:1], ["pushv:1:9,pushv:2:20,pushv:3:9|popv,popv,popv;drainv", "pushv2:1:9,pushv2:2:17,pushv2:3:9|popv,popv,popv,popv,popv,popv;drainv"], strat=deep)
    vlib.run_jobs(ctx, jobs)
    vlib.validate_histories(ctx, jobs, "SpscRing", CONSTS, max_thread=2)
    ctx.impl_runs.append({"driver": "ring", "variants": TYPED + VOID, "strategies": strategies(ctx)})
    return vlib.finish(ctx)
