"""helpers shared by the per-property check definitions"""
import vlib
from vlib import Job


def strategies(ctx, quick_n=90, thorough_n=3000, dfs_quick=1, dfs_thorough=2, dfs_cap_quick=1000, dfs_cap_thorough=60000):
    """list of (strategy, n, bound) used for every (variant, program) pair"""
    if ctx.quick():
        return [("dfs", dfs_cap_quick, dfs_quick), ("pct", quick_n, 0), ("random", quick_n // 2, 0)]
    return [("dfs", dfs_cap_thorough, dfs_thorough), ("pct", thorough_n, 0), ("random", thorough_n // 2, 0)]


def make_jobs(ctx, driver, variants, programs, group_of=lambda v: "default", strat=None, extra_of=lambda v: (), time_limit=None):
    jobs = []
    st = strat or strategies(ctx)
    if time_limit is None and not ctx.quick():
        time_limit = 150          # thorough tier: no single exploration job runs longer than this (seconds)
    k = 0
    for v in variants:
        for p in programs:
            for (s, n, b) in st:
                k += 1
                jobs.append(Job(driver, v, p, s, n, b, seed=ctx.seed * 1000003 + k * 7919, group=group_of(v), extra=extra_of(v), time_limit=time_limit))
    return jobs


def rand_programs(ctx, gen, count):
    return [gen(ctx.rng) for _ in range(count)]
