"""C02 -- dynamic hazard pointers never free an object a guard still protects (DESIGN.md 6/C02)"""
import vlib
from props.common import make_jobs, strategies
from props import smr_common as S


def run(ctx):
    # Tier B: DHP.tla (guards in extension blocks, retired array of blocks, record reuse); refuted: seeded change C02 (scan copies only the first
    # initial_capacity_ slots of an extension guard block)
    vlib.model_check_many(ctx, [dict(module_rel="smr/DHPMC.tla", cfg_rel="smr/DHP_q.cfg" if ctx.quick() else "smr/DHP_t.cfg", workers=4, timeout=3000),
                                dict(module_rel="smr/DHPMC.tla", cfg_rel="smr/DHP_bad_ExtBound.cfg", workers=2, expect_violation="Assert")], par=2)
    n = 1 if ctx.quick() else 6
    small = ["dhp_k4", "dhp_k2"]
    big = ["dhp_k24_init4", "dhp_k40_init16"]
    st_long = [("pct", 30 if ctx.quick() else 600, 0), ("dfs", 150 if ctx.quick() else 5000, 1)]
    jobs = make_jobs(ctx, "smr", small, S.DHP_PROGRAMS + [S.gen_program(ctx.rng, 2) for _ in range(n)]) + \
           make_jobs(ctx, "smr", big, S.DHP_PROGRAMS[:1] + [S.gen_program(ctx.rng, 24) for _ in range(n)]) + \
           make_jobs(ctx, "smr", big, S.DHP_LONG[:1]) + \
           make_jobs(ctx, "smr", ["dhp_k4", "dhp_k24_init4"], S.DHP_LONG[1:], strat=st_long, extra_of=lambda v: ["--max-steps", "3000000"])
    # a thread uses a whole extension guard block, frees its guards, detaches; after re-attaching (record and block re-used) it holds more guards than
    # the block has and releases all but one: the remaining guard must still protect its object (seeded change C02b: unterminated free list of a recycled block)
    def recycle_prog(keep):
        prots = ",".join("prot:%d:0" % k for k in range(4, 23)); rels = ",".join("rel:%d" % k for k in range(4, 23) if k != keep)
        return "galloc:20,gfree,detach,attach,galloc:23,%s,%s,signal,await:2,deref:%d|await:1,swap:0,scan,signal" % (prots, rels, keep)
    jobs += make_jobs(ctx, "smr", ["dhp_k24_init4"], [recycle_prog(k) for k in (5, 19, 20, 22)], strat=[("pct", 6 if ctx.quick() else 80, 0)])
    vlib.run_jobs(ctx, jobs)
    vlib.validate_histories(ctx, jobs, "SmrSafety", S.CONSTS + ['Clause = "safety"'])
    ctx.impl_runs.append({"driver": "smr", "variants": S.DHP_VARIANTS, "strategies": strategies(ctx)})
    return vlib.finish(ctx)
