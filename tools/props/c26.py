"""C26 -- heap slot counter enumerates slots as Hunt's bit-reversed counter and undoes exactly (DESIGN.md 6/C26, 7.7)"""
import json, vlib

CONSTS = ["St0 <- C0", "Ok <- COk", "St <- CSt"]


def run(ctx):
    q = ctx.quick()
    vlib.model_check_many(ctx, [
        dict(module_rel="pure/BitRevCounter.tla", cfg_rel="pure/BitRevCounter.cfg", workers=2),
        dict(module_rel="pure/BitRevCounter.tla", cfg_rel="pure/BitRevCounter_literal.cfg", workers=1, expect_violation="LiteralStatement")] +
        ([] if q else [dict(module_rel="pure/BitRevCounter.tla", cfg_rel="pure/BitRevCounter_big.cfg", workers=8, timeout=3000)]), par=3)
    f = vlib.run_recorder(ctx, ("counter", ctx.seed, 200 if q else 4000, 70000 if q else 1048576), "counter.ndjson", timeout=3000)
    rej, design = vlib.validate_records(ctx, [f], "pure/CounterCheck.tla", CONSTS, "C26", "bitrev_counter", shards="reset")
    if design:
        # the literal statement of C26 does not hold for Hunt's counter although the code produces exactly Hunt's sequence
        detail = "literal prefix statement fails, recorded slots equal Hunt's sequence; first n=%d" % min(design)
        vlib.report_direct(ctx, "C26", "bitrev_counter", "prefix", "literal", detail, {"property": "C26", "component": "bitrev_counter", "n_values": sorted(design)[:40],
                           "explanation": "for these n the first n slots produced by the real counter are not a permutation of 1..n, while every slot equals Slot(n) of BitRevCounterDefs"})
    ctx.notes.append("literal-statement mismatches (by design) for n in %s" % sorted(design)[:20])
    return vlib.finish(ctx, extra={"exhaustive": True})
