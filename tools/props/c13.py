"""C13 -- ordered lists are linearizable sets and maps (DESIGN.md 6/C13)"""
import vlib
from props.common import make_jobs, strategies
from props import set_common as SC

STD = ["michaellist_hp", "michaellist_dhp", "michaellist_rcu", "lazylist_hp", "lazylist_dhp", "lazylist_rcu"]
ITER = ["iterablelist_hp", "iterablelist_dhp"]
NOGC = ["michaellist_nogc", "lazylist_nogc"]


def run(ctx):
    # Tier B: MichaelList.tla (search with helping, link / mark / unlink; ghost abstract set; without the pPrev re-check it fails)
    vlib.model_check_many(ctx, [dict(module_rel="list/MichaelListMC.tla", cfg_rel="list/MichaelList_q.cfg" if ctx.quick() else "list/MichaelList_t.cfg", workers=6, timeout=3000),
                                dict(module_rel="list/MichaelListMC.tla", cfg_rel="list/MichaelList_bad_norecheck.cfg", workers=4, expect_violation="LinOK"),
                                dict(module_rel="list/LazyListMC.tla", cfg_rel="list/LazyList_q.cfg" if ctx.quick() else "list/LazyList_t.cfg", workers=6, timeout=3000),
                                dict(module_rel="list/LazyListMC.tla", cfg_rel="list/LazyList_bad_novalidate.cfg", workers=2, expect_violation="StructureOK"),
                                dict(module_rel="list/LazyListMC.tla", cfg_rel="list/LazyList_bad_tailskip.cfg", workers=2, expect_violation="StructureOK"),      # seeded change C13b
                                # IterList.tla (IterableList: permanent nodes, marked data pointers, re-use of empty nodes, find_prev re-check); refuted: seeded change C13
                                dict(module_rel="list/IterListMC.tla", cfg_rel="list/IterList_q.cfg", workers=2),
                                dict(module_rel="list/IterListMC.tla", cfg_rel="list/IterList_q2d.cfg", workers=2),
                                dict(module_rel="list/IterListMC.tla", cfg_rel="list/IterList_bad_findprev.cfg", workers=2, expect_violation="ListMatches")] +
                               ([] if ctx.quick() else [dict(module_rel="list/IterListMC.tla", cfg_rel="list/IterList_q3.cfg", workers=8, timeout=3000)]), par=5)
    q = ctx.quick()
    n = 1 if q else 8
    deep = [("dfs", 2500 if q else 300000, 2 if q else 3)]
    jobs = []
    for (vs, grp, voc, progs, dp) in ((STD, "std", SC.VOC_FULL, SC.PROGRAMS, SC.DEEP), (ITER, "iter", SC.VOC_FULL, SC.PROGRAMS, SC.DEEP), (NOGC, "nogc", SC.VOC_NOGC, SC.PROGRAMS_NOGC, SC.DEEP_NOGC)):
        ps = progs + [SC.gen_program(ctx.rng, voc) for _ in range(n)]
        jobs += make_jobs(ctx, "set_list", vs, ps, group_of=lambda v, g=grp: g)
        jobs += make_jobs(ctx, "set_list", vs, dp, group_of=lambda v, g=grp: g, strat=deep)
    vlib.run_jobs(ctx, jobs)
    vlib.validate_histories(ctx, jobs, "LinSet", SC.consts(replace=False), group="std")
    vlib.validate_histories(ctx, jobs, "LinSet", SC.consts(replace=True), group="iter")
    vlib.validate_histories(ctx, jobs, "LinSet", SC.consts(replace=False), group="nogc")
    ctx.impl_runs.append({"driver": "set_list", "variants": STD + ITER + NOGC, "strategies": strategies(ctx)})
    return vlib.finish(ctx)
