"""C06 -- unbounded MPMC queues are linearizable FIFO queues (DESIGN.md 6/C06)"""
import vlib
from props.common import make_jobs, strategies

VARIANTS = ["msqueue_hp", "msqueue_dhp", "msqueue_hp_ic", "moirqueue_hp", "moirqueue_dhp", "basketqueue_hp", "basketqueue_dhp",
            "optimisticqueue_hp", "optimisticqueue_dhp", "rwqueue", "fcqueue", "fcqueue_elim", "fcqueue_list_elim",
            "intr_msqueue_hp", "intr_msqueue_dhp", "intr_moirqueue_hp", "intr_basketqueue_hp", "intr_optimisticqueue_hp"]
PROGRAMS = ["enq:1,deq|enq:2,deq;drain",
            "enq:1,enq:2,deq|deq,enq:3,deq|enq:4,deq;drain",
            "enq:9;enq:1,deq,deq|deq,enq:2|deq,empty;drain",
            ]


def gen_program(rng):
    nt = rng.choice([2, 3, 3, 4]); v = 0; th = []
    for t in range(nt):
        ops = []
        for _ in range(rng.choice([2, 3] if nt > 2 else [2, 3, 4])):
            if rng.random() < 0.5:
                v += 1; ops.append("enq:%d" % v)
            else:
                ops.append("deq" if rng.random() < 0.9 else "empty")
        th.append(",".join(ops))
    init = ",".join("enq:%d" % (90 + i) for i in range(rng.choice([0, 0, 1, 2])))
    return (init + ";" if init else ";") + "|".join(th) + ";drain"


def run(ctx):
    # Tier B: MSQueue.tla (enqueue / do_dequeue, one label per atomic access, ghost abstract queue; a plain store instead of the link CAS must fail)
    vlib.model_check_many(ctx, [dict(module_rel="queue/MSQueueMC.tla", cfg_rel="queue/MSQueue_q.cfg" if ctx.quick() else "queue/MSQueue_t.cfg", workers=6, timeout=3000),
                                dict(module_rel="queue/MSQueueMC.tla", cfg_rel="queue/MSQueue_bad_blindlink.cfg", workers=2, expect_violation="ListIsQueue"),
                                # OptQueue.tla (OptimisticQueue: optimistic prev links, fix_list); refuted: seeded change C06 (prev stored before the tail CAS), no fix_list
                                dict(module_rel="queue/OptQueueMC.tla", cfg_rel="queue/OptQueue_q.cfg", workers=2),
                                dict(module_rel="queue/OptQueueMC.tla", cfg_rel="queue/OptQueue_q3.cfg", workers=4),
                                dict(module_rel="queue/OptQueueMC.tla", cfg_rel="queue/OptQueue_bad_prevbeforecas.cfg", workers=2, expect_violation="LinOK"),
                                dict(module_rel="queue/OptQueueMC.tla", cfg_rel="queue/OptQueue_bad_nofix.cfg", workers=2, expect_violation="LinOK"),
                                # FCElim.tla (elimination inside fc_process with re-used publication records); refuted: seeded change C06b
                                dict(module_rel="fc/FCElimMC.tla", cfg_rel="fc/FCElim_queue.cfg", workers=1),
                                dict(module_rel="fc/FCElimMC.tla", cfg_rel="fc/FCElim_bad_wrongflag.cfg", workers=1, expect_violation="Conservation")] +
                               ([] if ctx.quick() else [dict(module_rel="queue/MSQueueMC.tla", cfg_rel="queue/MSQueue_notailcheck.cfg", workers=8, timeout=3000),
                                                        dict(module_rel="queue/OptQueueMC.tla", cfg_rel="queue/OptQueue_q3b.cfg", workers=4, timeout=3000)]), par=4)
    progs = list(PROGRAMS) + [gen_program(ctx.rng) for _ in range(1 if ctx.quick() else 6)]
    jobs = make_jobs(ctx, "queue", VARIANTS, progs)
    vlib.run_jobs(ctx, jobs)
    vlib.validate_histories(ctx, jobs, "LinQueue", ["AbsInit <- QInit", "Step <- QStep", "XStep <- QXStep", "FinalOk <- QFinal", "Cap = 0"])
    ctx.impl_runs.append({"driver": "queue", "variants": VARIANTS, "programs": progs, "strategies": strategies(ctx)})
    return vlib.finish(ctx)
