#!/usr/bin/env python3
"""Core of the libcds verification checks: running drivers in parallel, validating recorded histories with TLC,
running TLC model checks, known findings, evidence files.  See /verif/DESIGN.md sections 5 and 9."""
import itertools, json, os, re, subprocess, sys, time, shutil, hashlib, concurrent.futures, random

sys.path.insert(0, os.path.dirname(os.path.abspath(__file__)))
import build

VERIF = build.VERIF
SPEC = os.path.join(VERIF, "spec")
RUN = os.path.join(VERIF, "build", "run")
NCPU = min(16, os.cpu_count() or 4)
FATAL = ("uad", "crash", "hang", "deadlock")
DEADLOCK_IS_VIOLATION = ("C03", "C04", "C05")


def log(*a):
    print(*a, flush=True)


class Ctx:
    """state of one check run"""

    def __init__(self, prop, tier, seed):
        self.prop, self.tier, self.seed = prop, tier, seed
        self.t0 = time.time()
        self.dir = os.path.join(RUN, "%s_%s" % (prop, tier))
        shutil.rmtree(self.dir, ignore_errors=True)
        os.makedirs(self.dir, exist_ok=True)
        self.states = 0
        self.transitions = 0
        self.executions = 0
        self.distinct = 0
        self.validated = 0
        self.violations = []      # list of dict(kind, replay, text)
        self.known = []           # matched known findings (texts)
        self.samples = []
        self.model_runs = []
        self.impl_runs = []
        self.notes = []
        self.assumptions = []
        self.inconclusive = 0
        self.rng = random.Random(seed)
        self.machinery_errors = []
        self.anomalies = {}

    def quick(self):
        return self.tier == "quick"


# ---------------------------------------------------------------------------------------------------------------------
# TLC
# ---------------------------------------------------------------------------------------------------------------------
def run_tlc(ctx, module_path, cfg_text=None, cfg_path=None, env=None, workers=None, timeout=1200, extra=(), name=None, simulate=None, heap=None):
    """run TLC; returns dict(ok, out, states, distinct, violation, error)"""
    name = name or os.path.basename(module_path).replace(".tla", "")
    tag = "%s_%d" % (name, len(os.listdir(ctx.dir)))
    if cfg_text is not None:
        cfg_path = os.path.join(ctx.dir, tag + ".cfg")
        with open(cfg_path, "w") as f:
            f.write(cfg_text)
    meta = os.path.join(ctx.dir, "meta_" + tag)
    cmd = ["timeout", str(timeout), "java", "-XX:+UseParallelGC", "-Xss64m"]      # deep recursive operators over long histories (thorough tier)
    if heap:
        cmd.append("-Xmx" + heap)
    cmd += ["-cp", "/opt/veriftools/tla/tla2tools.jar:/opt/veriftools/tla/CommunityModules-deps.jar", "tlc2.TLC", "-noGenerateSpecTE",
            "-workers", str(workers or NCPU), "-metadir", meta, "-config", cfg_path]
    if simulate:
        cmd += ["-simulate", simulate]
    cmd += list(extra) + [module_path]
    e = dict(os.environ)
    if env:
        e.update(env)
    t = time.time()
    r = subprocess.run(cmd, stdout=subprocess.PIPE, stderr=subprocess.STDOUT, text=True, env=e, cwd=os.path.dirname(module_path))
    out = r.stdout
    shutil.rmtree(meta, ignore_errors=True)
    res = {"name": name, "rc": r.returncode, "out": out, "wall_s": round(time.time() - t, 1), "states": 0, "distinct": 0, "violation": None, "error": None}
    m = re.search(r"(\d[\d,]*) states generated, (\d[\d,]*) distinct states found", out)
    if m:
        res["states"] = int(m.group(1).replace(",", ""))
        res["distinct"] = int(m.group(2).replace(",", ""))
    else:
        m = re.search(r"The number of states generated: (\d[\d,]*)", out)
        if m:
            res["states"] = res["distinct"] = int(m.group(1).replace(",", ""))
    m = re.search(r"Error: (The invariant of \S+ is equal to FALSE|Assumption [^\n]* is false|Invariant (\S+) is violated|Action property (\S+) is violated|Temporal properties were violated|Temporal property \S+ was violated|Deadlock reached|The first argument of Assert evaluated to FALSE[^\n]*|Assertion failed[^\n]*)", out)
    if m:
        res["violation"] = m.group(1)
    elif r.returncode == 124:
        res["error"] = "timeout"
    elif "Model checking completed. No error has been found" not in out and not (simulate and r.returncode in (0,)):
        if "Error:" in out or r.returncode not in (0,):
            em = re.search(r"Error: ([^\n]*)", out)
            res["error"] = em.group(1) if em else "rc=%d" % r.returncode
    ctx.states += res["distinct"]
    ctx.transitions += res["states"]
    return res


def model_check(ctx, module_rel, cfg_rel=None, cfg_text=None, expect_violation=None, workers=None, timeout=1200, name=None, simulate=None, heap=None, extra=()):
    """Tier-B / Tier-P model check.  expect_violation=None: must be clean; a string: TLC must report that violation
    (non-vacuity check of an invariant with a deliberately broken variant)."""
    mp = os.path.join(SPEC, module_rel)
    cp = os.path.join(SPEC, cfg_rel) if cfg_rel else None
    r = run_tlc(ctx, mp, cfg_text=cfg_text, cfg_path=cp, workers=workers, timeout=timeout, name=name or (cfg_rel or module_rel), simulate=simulate, heap=heap, extra=extra)
    rec = {"spec": module_rel, "cfg": cfg_rel or "(generated)", "states": r["states"], "distinct": r["distinct"], "wall_s": r["wall_s"], "violation": r["violation"], "expected_violation": expect_violation, "mode": "simulate " + simulate if simulate else "bfs"}
    ctx.model_runs.append(rec)
    if r["error"] and not (r["error"] == "timeout" and simulate):
        ctx.machinery_errors.append("TLC error on %s: %s" % (rec["spec"] + " " + rec["cfg"], r["error"]))
        log("  TLC ERROR %s %s: %s" % (module_rel, cfg_rel, r["error"]))
        log(r["out"][-3000:])
    elif expect_violation is None and r["violation"]:
        log("  TLC: %s %s VIOLATES %s" % (module_rel, cfg_rel, r["violation"]))
        rec["trace_tail"] = r["out"][-4000:]
        ctx.machinery_errors.append("design-level model %s %s unexpectedly violates %s (the model does not read the code: this is a specification error, not a property violation)" % (module_rel, cfg_rel, r["violation"]))
    elif expect_violation is not None and not r["violation"]:
        ctx.machinery_errors.append("non-vacuity: %s %s did not produce the expected violation %s" % (module_rel, cfg_rel, expect_violation))
    log("  model %-40s %-28s %9d distinct %6.1fs %s" % (module_rel, os.path.basename(cfg_rel or "gen"), r["distinct"], r["wall_s"], ("violation: " + r["violation"]) if r["violation"] else "ok"))
    r["rec"] = rec
    return r


def model_check_many(ctx, specs, par=4):
    """run several model checks concurrently; specs = list of dicts of model_check keyword arguments"""
    with concurrent.futures.ThreadPoolExecutor(max_workers=par) as ex:
        return list(ex.map(lambda kw: model_check(ctx, **kw), specs))


# ---------------------------------------------------------------------------------------------------------------------
# drivers
# ---------------------------------------------------------------------------------------------------------------------
class Job:
    def __init__(self, driver, variant, program, strategy="random", n=200, bound=1, seed=1, group="default", extra=(), time_limit=None):
        self.driver, self.variant, self.program, self.strategy, self.n, self.bound, self.seed, self.group = driver, variant, program, strategy, n, bound, seed, group
        self.extra = list(extra)
        self.time_limit = time_limit
        self.out = None
        self.stats = None


def _run_job(args):
    exe, job, out, tmo = args
    cmd = [exe, "--variant", job.variant, "--prog", job.program, "--strategy", job.strategy, "--n", str(job.n), "--bound", str(job.bound), "--seed", str(job.seed), "--out", out] + job.extra
    if job.time_limit:
        cmd += ["--time", str(job.time_limit)]
    try:
        r = subprocess.run(cmd, stdout=subprocess.PIPE, stderr=subprocess.STDOUT, text=True, timeout=tmo)
        return r.returncode, r.stdout[-2000:]
    except subprocess.TimeoutExpired:
        return 124, "driver timeout"


def run_jobs(ctx, jobs, timeout=900):
    """build the needed drivers from the current /repo tree and run all jobs in parallel"""
    names = sorted(set(j.driver for j in jobs))
    t = time.time()
    exes = build.ensure_drivers(names)
    log("  built drivers %s in %.1fs (tree %s)" % (",".join(names), time.time() - t, build.tree_hash()))
    args = []
    for i, j in enumerate(jobs):
        j.out = os.path.join(ctx.dir, "j%04d" % i)
        args.append((exes[j.driver], j, j.out, timeout))
    t = time.time()
    with concurrent.futures.ThreadPoolExecutor(max_workers=NCPU) as ex:
        results = list(ex.map(_run_job, args))
    for j, (rc, out) in zip(jobs, results):
        try:
            j.stats = json.load(open(j.out + ".stats.json"))
        except Exception:
            j.stats = None
            ctx.machinery_errors.append("driver %s/%s failed rc=%s: %s" % (j.driver, j.variant, rc, out[-500:]))
            continue
        ctx.executions += j.stats["executions"]
        ctx.inconclusive += j.stats["inconclusive"]
    log("  ran %d driver jobs, %d executions in %.1fs" % (len(jobs), sum(j.stats["executions"] for j in jobs if j.stats), time.time() - t))
    return jobs


def _load_histories(job, base):
    """returns list of (gid, lines, schedrec)"""
    res = []
    try:
        lines = open(job.out + ".ndjson").read().splitlines()
    except OSError:
        return res
    scheds = {}
    try:
        for l in open(job.out + ".sched"):
            try:
                d = json.loads(l)
                scheds[d["id"]] = d
            except Exception:
                pass
    except OSError:
        pass
    i = 0
    while i < len(lines):
        try:
            d = json.loads(lines[i])
        except Exception:
            break
        if d.get("e") != "reset":
            i += 1
            continue
        n, lid = d["n"], d["id"]
        body = lines[i + 1:i + 1 + n]
        if len(body) < n:
            break   # truncated tail (process died while writing)
        res.append((base + lid, body, scheds.get(lid)))
        i += 1 + n
    return res


def validate_histories(ctx, jobs, lin_module, cfg_consts, group=None, prop=None, max_thread=4, chunk=4000, name=None):
    """Tier-A verdict: TLC decides for every distinct recorded history whether the abstract spec allows it.
    Returns list of rejected (job, gid, lines, sched)."""
    hist = []
    for ji, j in enumerate(jobs):
        if j.stats is None or (group is not None and j.group != group):
            continue
        for gid, body, sch in _load_histories(j, ji * 1000000):
            hist.append((j, gid, body, sch))
    if not hist:
        return []
    ctx.distinct += len(hist)
    # deadlocks: completion is part of the statement only for C03/C04/C05; elsewhere a deadlock / livelock is an anomaly, not a violation of
    # the (safety) property.  The partial history recorded up to that point is still judged: it is a violation iff NO completion of its
    # pending calls (each dropped, or given any result) is accepted (partial[gid] = candidate gids)
    partial = {}
    if (prop or ctx.prop) not in DEADLOCK_IS_VIOLATION:
        keep = []
        for rec in hist:
            if any('"op":"deadlock"' in l or '"op":"hang"' in l for l in rec[2]):
                ctx.anomalies.setdefault("deadlock", []).append({"variant": rec[0].variant, "program": rec[0].program, "schedule": rec[3]})
                cands = _completions(rec[2]) if len(rec[2]) > 1 else None
                if cands:
                    ids = []
                    for ci, body in enumerate(cands):
                        cg = 2000000000 - (len(partial) * 4000 + ci)
                        ids.append(cg); keep.append((rec[0], cg, body, rec[3]))
                    partial[rec[1]] = (rec, ids)
            else:
                keep.append(rec)
        ndead = sum(1 for rec in hist if any('"op":"deadlock"' in l or '"op":"hang"' in l for l in rec[2]))
        if ndead:
            seenv = sorted(set(a["variant"] for a in ctx.anomalies["deadlock"]))
            log("  ANOMALY (not a violation of %s): %d deadlocked / non-terminating executions in variants %s" % (prop or ctx.prop, ndead, ",".join(seenv)))
        hist = keep
        if not hist:
            return []
    # de-duplicate identical histories across jobs of the same group
    uniq = {}
    for rec in hist:
        key = "\n".join(rec[2])
        if any(('"op":"%s"' % k) in key for k in FATAL):
            key = rec[0].variant + "\n" + key      # crashes / hangs are reported per variant
        uniq.setdefault(key, rec)
    hl = list(uniq.values())
    cand_ids = set(c for (_, ids) in partial.values() for c in ids)
    cfg = "SPECIFICATION Spec\nCONSTANTS\n" + "".join("  %s\n" % c for c in cfg_consts) + "  MaxThread = %d\nCHECK_DEADLOCK FALSE\n" % max_thread
    rejected = []
    mp = os.path.join(SPEC, "lin", lin_module + ".tla")
    nm = name or (lin_module + ("_" + group if group else ""))
    # JSON loading dominates TLC's run time, so the batch is sharded over parallel single-worker TLC processes
    nsh = max(1, min(NCPU, len(hl) // 150))
    shards = [hl[i::nsh] for i in range(nsh)]
    t0 = time.time()

    def one(args):
        si, part = args
        tf = os.path.join(ctx.dir, "hist_%s_%d.ndjson" % (nm, si))
        with open(tf, "w") as f:
            for li, (_, gid, body, _) in enumerate(part):      # ids local to the shard: TLC integers are 32 bit, global history ids are not
                f.write('{"e":"reset","n":%d,"id":%d%s}\n' % (len(body), li + 1, ',"p":1' if gid in cand_ids else ""))
                f.write("\n".join(body) + "\n")
        return run_tlc(ctx, mp, cfg_text=cfg, env={"TRACE": tf}, name="lin_%s_%d" % (nm, si), timeout=1500, workers=2 if nsh > 4 else 4, heap="3g")

    with concurrent.futures.ThreadPoolExecutor(max_workers=NCPU) as ex:
        results = list(ex.map(one, list(enumerate(shards))))
    rej = []
    nstates = 0
    acc_all = set()
    shard_failed = False
    for part, r in zip(shards, results):
        if r["error"] or r["violation"]:
            ctx.machinery_errors.append("history validation %s failed: %s" % (nm, r["error"] or r["violation"]))
            log(r["out"][-3000:])
            shard_failed = True
            continue
        acc_local = set(int(x) for x in re.findall(r'<<"ACC", (\d+)>>', r["out"]))
        acc = set(part[li - 1][1] for li in acc_local if 1 <= li <= len(part))
        ctx.validated += len(part)
        nstates += r["distinct"]
        rej += [rec for rec in part if rec[1] not in acc and rec[1] not in cand_ids]
        acc_all |= acc
    if partial and not shard_failed:
        # a partial history none of whose completions is accepted (identical candidate bodies were merged by the de-duplication above: look them up by body)
        body_acc = set("\n".join(rec[2]) for rec in hl if rec[1] in acc_all)
        by_id = dict((rec[1], rec) for rec in keep)
        npart_rej = 0
        for gid0, (rec0, ids) in partial.items():
            if not any("\n".join(by_id[c][2]) in body_acc for c in ids):
                # reported as an ordinary rejection (kind "reject", so that the signature / known-finding rules apply): the hang marker is replaced
                body0 = [l for l in rec0[2] if '"op":"hang"' not in l and '"op":"deadlock"' not in l] + ['{"e":"x","t":0,"op":"partial","a":0,"b":0}']
                rej.append((rec0[0], rec0[1], body0, rec0[3])); npart_rej += 1
        log("  %d abandoned executions (deadlock / livelock) judged by the completions of their partial histories: %d have no acceptable completion" % (len(partial), npart_rej))
    log("  validated %d distinct histories against %s (%s): %d rejected; %d states, %d TLC shards, %.1fs" % (len(hl), lin_module, group or "-", len(rej), nstates, nsh, time.time() - t0))
    if len(ctx.samples) < 3 and hl:
        ctx.samples.append({"kind": "history accepted by " + lin_module, "variant": hl[0][0].variant, "program": hl[0][0].program, "events": [json.loads(x) for x in hl[0][2][:40]]})
    # confirm each rejection alone (rule out tooling noise) -- at most 8 per group are confirmed and reported
    rej.sort(key=lambda rec: (len(rec[2]), rec[1]))
    seen_variants = set()
    pick = []
    for rec in rej:      # one (shortest) rejected history per (variant, kind of failure), so that a known finding cannot hide another failure
        key = (rec[0].variant, classify(rec[2]))
        if key not in seen_variants:
            seen_variants.add(key)
            pick.append(rec)
    pick = pick[:16]
    for rec in rej:
        if len(pick) >= 8:
            break
        if rec not in pick:
            pick.append(rec)
    for rec in pick:
        j, gid, body, sch = rec
        tf1 = os.path.join(ctx.dir, "rej_%s_%d.ndjson" % (nm, gid))
        with open(tf1, "w") as f:
            f.write('{"e":"reset","n":%d,"id":1}\n' % len(body))
            f.write("\n".join(body) + "\n")
        r1 = run_tlc(ctx, mp, cfg_text=cfg, env={"TRACE": tf1}, name="rej_" + nm, workers=1, timeout=600)
        if re.search(r'<<"ACC", 1>>', r1["out"]):
            ctx.machinery_errors.append("history %d rejected in batch but accepted alone" % gid)
            continue
        rejected.append(rec)
    if len(rej) > len(pick):
        ctx.notes.append("%d rejected histories in %s; %d individually confirmed and reported" % (len(rej), nm, len(pick)))
    for rec in rejected:
        report_rejection(ctx, rec, lin_module, cfg_consts, prop or ctx.prop)
    return rejected


SIMPLE_OPS = {"enq", "deq", "deqq", "push", "pop", "pushf", "pushb", "popf", "popb", "get", "getq", "put", "ins", "insf", "emp", "upd0", "upd1", "era", "eraf", "ext", "unl",
              "find", "findf", "extmin", "extmax", "size", "empty", "clear", "lock", "unlock", "trylock", "with", "nest", "front", "popfront", "pushv", "popv", "eraseat"}


def _completions(body, cap=1200):
    """all completions of a partial history: every pending call is dropped or completed (response appended at the end) with any result
    r in 0..3 and any value that occurs in the history.  None: not judged (a pending call with a compound result, or too many candidates)"""
    evs = [json.loads(x) for x in body]
    evs = [e for e in evs if not (e["e"] == "x" and e.get("op") in ("hang", "deadlock"))]
    last = {}
    for i, e in enumerate(evs):
        if e["e"] == "inv":
            last[e["t"]] = i
        elif e["e"] == "ret":
            last.pop(e["t"], None)
    pend = sorted(last.values())
    vals = sorted(set([0, 1, 2, 3]) | set(e.get(k, 0) for e in evs if e["e"] in ("inv", "ret") for k in ("a", "b", "v")))
    opts = []
    total = 1
    for i in pend:
        e = evs[i]
        if e["op"] not in SIMPLE_OPS:
            return None
        if e["op"] in ("size", "empty", "find", "front"):
            o = [None]                       # read-only: dropping the call is always a legal completion
        else:
            rs = (0, 1, 2, 3) if e["op"].startswith("upd") else (0, 1)
            o = [None] + [(r, v) for r in rs for v in (vals if r else [0])]
        opts.append(o); total *= len(o)
        if total > cap:
            return None
    res = []
    for combo in itertools.product(*opts):
        new = []; tail = []
        ch = dict(zip(pend, combo))
        for i, e in enumerate(evs):
            if i in ch:
                if ch[i] is None:
                    continue
                e = dict(e); e["r"], e["v"] = ch[i]
                tail.append({"e": "ret", "t": e["t"], "r": e["r"], "v": e["v"]})
            new.append(e)
        res.append([json.dumps(x, separators=(",", ":")) for x in new + tail])
    return res


def classify(body):
    kinds = set()
    for l in body:
        d = json.loads(l)
        if d.get("e") == "x" and d.get("op") in FATAL:
            kinds.add(d["op"])
    for k in ("crash", "hang", "deadlock", "uad"):
        if k in kinds:
            return k
    return "reject"


_known = None


def known_findings():
    global _known
    if _known is None:
        try:
            _known = json.load(open(os.path.join(VERIF, "known_findings.json")))["findings"]
        except Exception:
            _known = []
    return _known


def match_known(prop, component, variant, kind, program="", detail=""):
    for k in known_findings():
        if k.get("kind") != "finding" or k.get("property") != prop:
            continue
        m = k.get("match", {})
        if m.get("component") and m["component"] != component:
            continue
        if m.get("variant") and not re.search(m["variant"], variant or ""):
            continue
        if m.get("signature") and not re.search(m["signature"], kind + ":" + detail):
            continue
        if m.get("program") and not re.search(m["program"], program or ""):
            continue
        return k
    return None


def report_rejection(ctx, rec, lin_module, cfg_consts, prop):
    j, gid, body, sch = rec
    kind = classify(body)
    rp = os.path.join(VERIF, "build", "replay")
    os.makedirs(rp, exist_ok=True)
    path = os.path.join(rp, "%s_%s_%d.json" % (prop, j.variant, gid))
    doc = {"property": prop, "driver": j.driver, "variant": j.variant, "program": j.program, "kind": kind, "oracle": lin_module, "oracle_constants": cfg_consts,
           "schedule": sch, "history": [json.loads(x) for x in body], "tree": build.tree_hash(), "extra": j.extra}
    with open(path, "w") as f:
        json.dump(doc, f, indent=1)
    # attribution events of the driver (x lost(key, cause), see drivers/set_lock.cpp) refine the signature: "reject:lost1", "reject:lost2,lost4", ...
    detail = ",".join(sorted(set("lost%d" % d.get("b", 0) for d in doc["history"] if d.get("e") == "x" and d.get("op") == "lost")))
    doc["signature"] = kind + ":" + detail
    k = match_known(prop, j.driver, j.variant, kind, j.program, detail)
    if k:
        txt = "KNOWN-FINDING: property=%s %s" % (prop, k["text"])
        if txt not in ctx.known:
            ctx.known.append(txt)
            log(txt)
        return
    ctx.violations.append({"kind": kind, "replay": path, "variant": j.variant, "program": j.program})
    log("VIOLATION property=%s replay=%s" % (prop, path))
    log("  (%s: variant %s program '%s' history rejected by %s)" % (kind, j.variant, j.program, lin_module))


def report_direct(ctx, prop, component, variant, kind, detail, replay_doc):
    """violation found by a deterministic TLC trace validation (Tier P / sequential refinement)"""
    rp = os.path.join(VERIF, "build", "replay")
    os.makedirs(rp, exist_ok=True)
    hid = hashlib.sha1(json.dumps(replay_doc, sort_keys=True).encode()).hexdigest()[:10]
    path = os.path.join(rp, "%s_%s_%s.json" % (prop, component, hid))
    with open(path, "w") as f:
        json.dump(replay_doc, f, indent=1)
    k = match_known(prop, component, variant, kind, "", detail)
    if k:
        txt = "KNOWN-FINDING: property=%s %s" % (prop, k["text"])
        if txt not in ctx.known:
            ctx.known.append(txt)
            log(txt)
        return False
    ctx.violations.append({"kind": kind, "replay": path, "variant": variant, "detail": detail})
    log("VIOLATION property=%s replay=%s" % (prop, path))
    log("  (%s %s: %s)" % (component, variant, detail))
    return True


def run_recorder(ctx, args, out_name, timeout=1200):
    """run the standalone recorder drivers/pure.cpp <mode> <seed> <n> <out> [extra]; returns the path of the ndjson file"""
    exe = build.ensure_driver("pure")
    out = os.path.join(ctx.dir, out_name)
    a = list(args)
    cmd = [exe, a[0], str(a[1]), str(a[2]), out] + [str(x) for x in a[3:]]
    r = subprocess.run(cmd, stdout=subprocess.PIPE, stderr=subprocess.STDOUT, text=True, timeout=timeout)
    if r.returncode != 0:
        ctx.machinery_errors.append("recorder %s failed rc=%d: %s" % (" ".join(map(str, args)), r.returncode, r.stdout[-400:]))
    return out


def validate_records(ctx, files, module_rel, cfg_consts, prop, component, name=None, shards=None, classify_rec=None):
    """Tier-P verdict: every recorded case is validated by TLC (PureCore) against the reference spec.
    Stateless record sets are sharded over parallel TLC processes (stateful=False) ; returns list of rejected records."""
    lines = []
    for f in files:
        try:
            lines += [l for l in open(f).read().splitlines() if l.strip()]
        except OSError:
            ctx.machinery_errors.append("missing record file " + f)
    if not lines:
        return []
    ctx.executions += len(lines)
    ctx.distinct += len(set(lines))
    mp = os.path.join(SPEC, module_rel)
    nm = name or os.path.basename(module_rel).replace(".tla", "")
    cfg = "SPECIFICATION Spec\nCONSTANTS\n" + "".join("  %s\n" % c for c in cfg_consts) + "CHECK_DEADLOCK FALSE\n"
    nsh = shards if shards is not None else max(1, min(NCPU, len(lines) // 3000))
    # stateful traces are split only at {"f":"reset"} boundaries
    if shards == "reset":
        chunks = [[]]
        for l in lines:
            if '"f":"reset"' in l and len(chunks[-1]) > max(2000, len(lines) // NCPU):
                chunks.append([])
            chunks[-1].append(l)
    else:
        per = (len(lines) + nsh - 1) // nsh
        chunks = [lines[i:i + per] for i in range(0, len(lines), per)]
    t0 = time.time()

    def one(args):
        si, part = args
        tf = os.path.join(ctx.dir, "rec_%s_%d.ndjson" % (nm, si))
        with open(tf, "w") as f:
            f.write("\n".join(part) + "\n")
        return run_tlc(ctx, mp, cfg_text=cfg, env={"TRACE": tf}, name="rec_%s_%d" % (nm, si), timeout=1500, workers=1, heap="3g")

    with concurrent.futures.ThreadPoolExecutor(max_workers=NCPU) as ex:
        results = list(ex.map(one, list(enumerate(chunks))))
    rejected = []
    design = []
    for part, r in zip(chunks, results):
        if r["error"] or r["violation"]:
            ctx.machinery_errors.append("record validation %s failed: %s" % (nm, r["error"] or r["violation"]))
            log(r["out"][-2000:])
            continue
        ctx.validated += len(part)
        for x in re.findall(r'<<"REJ", (\d+)>>', r["out"]):
            rejected.append(part[int(x) - 1])
        for x in re.findall(r'<<"LITERAL", (\d+)>>', r["out"]):
            design.append(int(x))
    log("  validated %d recorded cases against %s: %d rejected; %d TLC shards, %.1fs" % (len(lines), module_rel, len(rejected), len(chunks), time.time() - t0))
    if len(ctx.samples) < 4:
        ctx.samples.append({"kind": "recorded case accepted by " + module_rel, "case": json.loads(lines[len(lines) // 2])})
    # group rejections by a signature so that each distinct failure is reported once
    groups = {}
    for l in rejected:
        d = json.loads(l)
        sig = classify_rec(d) if classify_rec else "%s/%s" % (d.get("f"), d.get("impl", d.get("kind", "")))
        groups.setdefault(sig, []).append(d)
    for sig, ds in sorted(groups.items()):
        report_direct(ctx, prop, component, sig, "reject", sig, {"property": prop, "component": component, "signature": sig, "oracle": module_rel, "count": len(ds), "cases": ds[:10]})
    return rejected, design


# ---------------------------------------------------------------------------------------------------------------------
# evidence
# ---------------------------------------------------------------------------------------------------------------------
def write_evidence(ctx, level="model_checking", extra=None):
    os.makedirs(os.path.join(VERIF, "evidence"), exist_ok=True)
    cov = {
        "states": max(ctx.states, 0), "transitions": max(ctx.transitions, 0), "traces_validated_against_impl": ctx.validated,
        "samples": ctx.samples[:5] if ctx.samples else [{"note": "no sample recorded"}],
        "evaluations": max(ctx.executions, 1), "distinct_nontrivial": ctx.distinct,
        "rule": "evaluations = controlled executions of the real code (or recorded I/O cases); distinct_nontrivial = distinct recorded histories/cases (identical ones are merged before TLC validates them)",
        "executions": ctx.executions, "distinct_histories": ctx.distinct, "inconclusive_executions": ctx.inconclusive,
        "model_runs": ctx.model_runs, "impl_runs": ctx.impl_runs, "known_findings_matched": ctx.known, "notes": ctx.notes,
        "tree_hash": build.tree_hash(), "machinery_errors": ctx.machinery_errors,
        "anomalies": {k: {"count": len(v), "examples": v[:3]} for k, v in ctx.anomalies.items()},
    }
    if extra:
        cov.update(extra)
    ev = {"property_id": ctx.prop, "tier": ctx.tier, "seed": ctx.seed, "level": level, "coverage": cov,
          "assumptions": ctx.assumptions or ["sequentially consistent memory (the scheduler serialises all atomic accesses)", "bounded programs / constants as listed in coverage", "trusted: TLC, g++, the vsched interposition layer"],
          "wall_s": round(time.time() - ctx.t0, 1), "violations": len(ctx.violations)}
    with open(os.path.join(VERIF, "evidence", ctx.prop + ".json"), "w") as f:
        json.dump(ev, f, indent=1)


def finish(ctx, level="model_checking", extra=None):
    write_evidence(ctx, level, extra)
    log("%s %s: %d executions, %d distinct histories, %d validated, TLC %d distinct states; %d violations, %d known findings; %.0fs" % (
        ctx.prop, ctx.tier, ctx.executions, ctx.distinct, ctx.validated, ctx.states, len(ctx.violations), len(ctx.known), time.time() - ctx.t0))
    if ctx.violations:
        return 1
    if ctx.machinery_errors:
        for m in ctx.machinery_errors:
            log("MACHINERY ERROR: " + m)
        return 2
    return 0
