#!/usr/bin/env python3
"""Build the instrumented libcds core and the verification drivers from /repo's *current working tree*.

Objects are cached under /verif/build/<hash>/ where <hash> covers the contents of /repo/cds, /repo/src and the
harness sources; a change to any of them gives a new directory (older ones are pruned)."""
import hashlib, os, subprocess, sys, shutil, glob, concurrent.futures, time

VERIF = os.path.dirname(os.path.dirname(os.path.abspath(__file__)))
REPO = os.environ.get("VERIF_REPO", "/repo")
BUILD = os.path.join(VERIF, "build")
CXX = os.environ.get("CXX", "g++")
BOOST_INC = "/root/miniconda/include"
BOOST_LIB = "/root/miniconda/lib"
CXXFLAGS = ["-std=gnu++11", "-O1", "-g0", "-DKHIZMAX_LIBCDS_VERIF", "-mcx16", "-pthread", "-w",
            "-I" + os.path.join(VERIF, "include"), "-I" + REPO, "-isystem", BOOST_INC]
SRC_FILES = ["dhp.cpp", "dllmain.cpp", "hp.cpp", "hp_thread_local.cpp", "init.cpp", "thread_data.cpp", "topology_linux.cpp",
             "urcu_gp.cpp", "urcu_sh.cpp"]


def _hash_tree(paths, extra=b""):
    h = hashlib.sha1(extra)
    for root in paths:
        if os.path.isfile(root):
            files = [root]
        else:
            files = []
            for d, _, fs in os.walk(root):
                for f in fs:
                    files.append(os.path.join(d, f))
        for f in sorted(files):
            h.update(f.encode())
            try:
                with open(f, "rb") as fh:
                    h.update(fh.read())
            except OSError:
                pass
    return h.hexdigest()[:16]


_tree_hash = None


def tree_hash():
    global _tree_hash
    if _tree_hash is None:
        _tree_hash = _hash_tree([os.path.join(REPO, "cds"), os.path.join(REPO, "src"), os.path.join(VERIF, "include"),
                                 os.path.join(VERIF, "harness")], " ".join(CXXFLAGS).encode())
    return _tree_hash


def build_dir():
    d = os.path.join(BUILD, tree_hash())
    os.makedirs(d, exist_ok=True)
    return d


def prune(keep=2):
    if not os.path.isdir(BUILD):
        return
    ds = [os.path.join(BUILD, x) for x in os.listdir(BUILD) if len(x) == 16 and os.path.isdir(os.path.join(BUILD, x))]
    ds.sort(key=lambda p: os.path.getmtime(p), reverse=True)
    cur = build_dir()
    for d in ds[keep:]:
        if d != cur:
            shutil.rmtree(d, ignore_errors=True)


def _run(cmd, what):
    r = subprocess.run(cmd, stdout=subprocess.PIPE, stderr=subprocess.STDOUT, text=True)
    if r.returncode != 0:
        sys.stderr.write("BUILD FAILED: %s\n%s\n%s\n" % (what, " ".join(cmd), r.stdout[-6000:]))
        raise SystemExit(2)


def _compile(src, obj, extra=()):
    if os.path.exists(obj):
        return
    tmp = obj + ".tmp%d" % os.getpid()
    _run([CXX] + CXXFLAGS + list(extra) + ["-c", src, "-o", tmp], src)
    os.replace(tmp, obj)


def ensure_lib():
    """compile /repo/src/*.cpp (guard on) and the harness; returns list of objects"""
    d = build_dir()
    os.utime(d, None)
    jobs = []
    for f in SRC_FILES:
        jobs.append((os.path.join(REPO, "src", f), os.path.join(d, "src_" + f[:-4] + ".o")))
    jobs.append((os.path.join(VERIF, "harness", "vsched.cpp"), os.path.join(d, "vsched.o")))
    jobs.append((os.path.join(VERIF, "harness", "driver.cpp"), os.path.join(d, "driver.o")))
    with concurrent.futures.ThreadPoolExecutor(max_workers=12) as ex:
        list(ex.map(lambda j: _compile(*j), jobs))
    return [o for _, o in jobs]


STANDALONE = {"pure"}      # drivers with their own main(): linked without harness/driver.o


def ensure_driver(name, extra_flags=()):
    """build drivers/<name>.cpp -> executable path"""
    d = build_dir()
    src = os.path.join(VERIF, "drivers", name + ".cpp")
    dh = _hash_tree([src] + glob.glob(os.path.join(VERIF, "drivers", "*.h")), " ".join(extra_flags).encode())
    exe = os.path.join(d, "drv_%s_%s" % (name, dh))
    if os.path.exists(exe):
        return exe
    objs = ensure_lib()
    obj = exe + ".o"
    _compile(src, obj, extra_flags)
    tmp = exe + ".tmp%d" % os.getpid()
    if name in STANDALONE:
        objs = [o for o in objs if not o.endswith("driver.o")]
    _run([CXX, "-pthread", "-o", tmp, obj] + objs + ["-L" + BOOST_LIB, "-Wl,-rpath," + BOOST_LIB, "-lboost_thread", "-lboost_system", "-ldl", "-latomic"], "link " + name)
    os.replace(tmp, exe)
    os.remove(obj)
    return exe


def ensure_drivers(names):
    ensure_lib()
    with concurrent.futures.ThreadPoolExecutor(max_workers=8) as ex:
        return dict(zip(names, ex.map(ensure_driver, names)))


if __name__ == "__main__":
    t = time.time()
    prune()
    for n in sys.argv[1:]:
        print(ensure_driver(n))
    print("build dir", build_dir(), "%.1fs" % (time.time() - t))
