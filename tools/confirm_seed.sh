#!/bin/bash
# confirm_seed.sh <id>: the agent's demo must fail against the changed worktree and pass against the unchanged /repo
id=$1; wt=/tmp/mut_$id; out=$wt/_out
libm=$wt/_b/bin/libcds-s.a; [ -f $libm ] || libm=/repo/_build/bin/libcds-s.a
g++ -std=c++11 -O1 -g -pthread -mcx16 -I$wt -isystem /root/miniconda/include $out/demo.cpp $libm -L/root/miniconda/lib -Wl,-rpath,/root/miniconda/lib -lboost_thread -lboost_system -o /tmp/demo_${id}_mut 2>/tmp/demo_${id}_mut.err || { echo "$id: demo does not compile against the change"; tail -3 /tmp/demo_${id}_mut.err; }
g++ -std=c++11 -O1 -g -pthread -mcx16 -I/repo -isystem /root/miniconda/include $out/demo.cpp /repo/_build/bin/libcds-s.a -L/root/miniconda/lib -Wl,-rpath,/root/miniconda/lib -lboost_thread -lboost_system -o /tmp/demo_${id}_base 2>/tmp/demo_${id}_base.err || { echo "$id: demo does not compile against /repo"; tail -3 /tmp/demo_${id}_base.err; }
fm=0; fb=0; for i in 1 2 3; do timeout 120 /tmp/demo_${id}_mut >/dev/null 2>&1 || fm=$((fm+1)); timeout 120 /tmp/demo_${id}_base >/dev/null 2>&1 || fb=$((fb+1)); done
echo "$id: demo failed $fm/3 with the change, $fb/3 without"
