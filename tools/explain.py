#!/usr/bin/env python3
"""explain.py <replay.json> [module]: re-run the oracle alone on the recorded history and show the longest explained prefix"""
import json, os, re, subprocess, sys
d = json.load(open(sys.argv[1]))
h = d["history"]
tf = "/tmp/explain.ndjson"
open(tf, "w").write(json.dumps({"e": "reset", "n": len(h), "id": 1}) + "\n" + "\n".join(json.dumps(x) for x in h) + "\n")
cfg = "SPECIFICATION Spec\nCONSTANTS\n" + "".join("  %s\n" % c for c in d["oracle_constants"]) + "  MaxThread = 4\nCHECK_DEADLOCK FALSE\n"
open("/tmp/explain.cfg", "w").write(cfg)
env = dict(os.environ, TRACE=tf, VERBOSE="1")
r = subprocess.run(["tlc", "-workers", "1", "-metadir", "/tmp/tlc_explain", "-config", "/tmp/explain.cfg", "/verif/spec/lin/%s.tla" % d["oracle"]], env=env, stdout=subprocess.PIPE, text=True)
at = [int(x) for x in re.findall(r'<<"AT", (\d+)>>', r.stdout)]
m = max(at) if at else 0
print("variant", d["variant"], "program", d["program"], "accepted", "ACC" in r.stdout)
print("longest explained prefix: %d of %d events" % (m, len(h)))
for i, e in enumerate(h[:m + 2]):
    print(("   " if i < m else ">> ") + json.dumps(e))
