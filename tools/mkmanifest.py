#!/usr/bin/env python3
"""regenerate /verif/MANIFEST.json from the table below (claimed properties) + properties.jsonl (the rest -> not_applicable)"""
import json, os
V = os.path.dirname(os.path.dirname(os.path.abspath(__file__)))
NOTE_SC = "Assumes sequentially consistent memory (vsched serialises all atomic accesses); bounded client programs and schedules as listed in the evidence; trusted base: TLC, g++, the vsched interposition layer and the drivers' event recording."
MC = "model_checking"
CLAIMED = {
 "C01": ("TLA+ SmrSafety oracle (TLC trace validation) over controlled executions of real cds::gc::HP under DFS/PCT/random schedules", "Every recorded execution of the real HP (both scan types, odd addresses, K 1..4, minimal and large retired arrays) is validated by TLC against the SmrSafety specification: dispose of an object guarded since before the pass began, deref or guard of a disposed object, or any access to a quarantined object is rejected.", "6/C01"),
 "C02": ("TLA+ SmrSafety oracle (TLC trace validation) over controlled executions of real cds::gc::DHP", "As C01 for DHP, including guard extension blocks (24/40 guards over an initial block of 4/16), retired-block growth (>256 retired objects) and detach/re-attach record reuse.", "6/C02"),
 "C03": ("TLA+ SmrSafety oracle, exactly-once clauses, over controlled executions of real HP and DHP", "TLC validates for every recorded execution that each retired object is disposed exactly once and no later than destruction of the singleton, and that an explicit pass frees every unguarded object the caller retired.", "6/C03"),
 "C06": ("TLC linearizability validation (LinCore+LinQueue) of histories of the real queues under controlled schedules", "Every distinct history recorded from 18 queue variants (MS, Moir, Basket, Optimistic, RW, FC; value and intrusive; HP and DHP) under pre-emption-bounded DFS, PCT and random scheduling is checked by TLC for linearizability to the sequential FIFO specification; quarantine detects use of disposed nodes.", "6/C06"),
 "C07": ("TLC linearizability validation (LinQueue with capacity) of histories of the real Vyukov queue", "Histories of value/intrusive, static/dynamic Vyukov queues of capacity 2, 4, 8 are validated by TLC against the bounded FIFO specification (enqueue fails only when full, dequeue only when empty; single-consumer front/pop_front).", "6/C07"),
 "C09": ("TLC linearizability validation (LinStack) of histories of the real stacks", "Histories of Treiber stacks (HP/DHP, value/intrusive, elimination arrays 1,2,4 static and dynamic) and FCStack (elimination on/off) are validated by TLC against the sequential LIFO specification.", "6/C09"),
 "C10": ("TLC linearizability validation (LinDeque) of histories of the real FCDeque", "Histories of FCDeque (std::deque and boost deque, elimination on/off, combine pass count 1,2,3,4,8) under mixed-end programs are validated by TLC against the sequential deque specification.", "6/C10"),
 "C11": ("TLC linearizability validation (LinPQ) of histories of the real priority queues", "FCPriorityQueue histories must be linearizable to the max-priority queue; MSPriorityQueue histories to a bag with the capacity clause, and to the priority queue whenever TLC's history predicate finds no push overlapping a pop.", "6/C11"),
 "C04": ("TLA+ RcuSafety oracle (TLC trace validation) over controlled executions of the four real URCU flavours", "Every recorded execution of general_instant/buffered/threaded and signal_buffered (capacities 1, 2, 4, 256; real dispose thread and deterministic signal delivery under vsched) is validated by TLC against RcuSafety: no dispose while a reader that was inside its critical section at retire time is still inside, synchronize() returns only after pre-existing readers left, no deref of a disposed object. Tiny two-thread programs are explored exhaustively by DFS with pre-emption bound 3 (finds the single-flip grace-period mutant).", "6/C04"),
 "C05": ("TLA+ RcuSafety oracle, exactly-once clauses, over controlled executions of the four URCU flavours", "TLC validates that each retired object is disposed exactly once and no later than destruction of the RCU singleton, for retire / batch_retire / synchronize counts around the buffer capacity (including capacity 1 and overflow).", "6/C05"),
 "C25": ("TLC: lemmas + width-16 transcriptions exhaustively, splitter state machines for all cut sequences, TLC validation of recorded I/O cases; C++ 32-bit sweep against TLC-emitted tables", "Reference definitions in TLA+ (BitRef); limb-composition lemmas and the SWAR / binary-search / popcount algorithms transcribed at width 16 are proved for all 2^16 inputs by TLC; the three splitters are state machines checked for every cut sequence over 8/16-bit sources; >10^5 recorded cases of the real 32/64-bit functions and splitters are validated by TLC on 16-bit limbs; the 32-bit functions are swept (strided in quick, all 2^32 in thorough) against the 16-bit tables TLC emits.", "6/C25"),
 "C26": ("TLC model of the counter for all inc/dec walks + TLC validation of recorded walks of the real counter", "BitRevCounter.tla transcribes inc/dec; TLC explores every walk up to 255 (quick) / 16383 (thorough) and shows the state is a function of the count (Hunt's slot formula), dec undoes inc, slots distinct, in level, parent occupied. Recorded walks of the real counter (linear sweep to 70000 / 2^20 and random Dyck-like walks) are validated record by record. The literal statement of C26 is false by design and reported as a KNOWN-FINDING.", "6/C26"),
 "C27": ("TLC exhaustive at word widths 4..10 for all hashes x all table sizes + TLC validation of recorded 64-bit cases on limbs", "SplitOrder.tla proves parity, parent-before-child and bucket contiguity for every hash and every table size at small word widths, and validates recorded outputs of the real regular_hash/dummy_hash (three reversal algorithms) and bucket_no/parent_bucket (HP, nogc, RCU split lists) for structured and random 64-bit hashes and all k in 0..63.", "6/C27"),
 "C28": ("TLC enumeration of all 2108 configurations + validation of the real metrics::make output", "FeldmanMetrics.tla transcribes metrics::make; TLC checks for every configuration that the normalised layout consumes the hash bits exactly with at least one bit per level and that slot paths of 8-bit hashes are injective; the real metrics::make output for every configuration is validated against the transcription.", "6/C28"),
}


def main():
    props = [json.loads(l) for l in open(os.path.join(V, "properties.jsonl"))]
    try:
        hooks = [l.split()[0] for l in os.popen("git -C /repo log --format='%h %s' | grep 'verif hook'").read().splitlines()]
    except Exception:
        hooks = []
    checks = []
    for p in props:
        if p["id"] in CLAIMED:
            tech, text, ref = CLAIMED[p["id"]]
            checks.append({"property_id": p["id"], "quick_cmd": "python3 tools/check.py %s --tier quick" % p["id"], "thorough_cmd": "python3 tools/check.py %s --tier thorough" % p["id"],
                           "evidence_file": "/verif/evidence/%s.json" % p["id"], "replay_cmd_template": "python3 tools/check.py %s --replay {path}" % p["id"], "engine": "tlc+vsched",
                           "level_claimed": {"category": MC, "text": text, "design_ref": "DESIGN.md section " + ref}, "level_note": NOTE_SC, "technique": tech})
    m = {"version": 1,
         "setup_cmd": "python3 tools/setup.py",
         "hooks": {"guard": "KHIZMAX_LIBCDS_VERIF", "enable": "checks compile /repo/src/*.cpp and their drivers with -DKHIZMAX_LIBCDS_VERIF -I/verif/include (tools/build.py), cached by a hash of /repo/cds, /repo/src and the harness", "baseline_off_cmd": "cmake --build /repo/_build && ctest --test-dir /repo/_build -j8 --timeout 900", "source_commits": hooks, "add_only": True},
         "engines": [{"name": "tlc+vsched", "path": "/verif/tools/check.py", "serves_properties": sorted(CLAIMED), "kind_free_text": "TLA+ specifications checked by TLC (model checking and trace validation) bound to the real code by a deterministic scheduler (vsched) that records histories and replays schedules"}],
         "checks": checks,
         "not_applicable": [{"property_id": p["id"], "reason": "check not built yet (work in progress; see DESIGN.md section 6)"} for p in props if p["id"] not in CLAIMED],
         "notes": "see DESIGN.md; known_findings.json lists recorded findings and fixed defects"}
    json.dump(m, open(os.path.join(V, "MANIFEST.json"), "w"), indent=1)
    print("claimed", len(checks), "pending", len(m["not_applicable"]))


if __name__ == "__main__":
    main()
