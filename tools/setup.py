#!/usr/bin/env python3
"""setup: build the harness and all drivers from files on disk (offline); pre-parse the specifications"""
import os, sys, glob, subprocess
sys.path.insert(0, os.path.dirname(os.path.abspath(__file__)))
import build
build.prune()
names = sorted(os.path.basename(f)[:-4] for f in glob.glob(os.path.join(build.VERIF, "drivers", "*.cpp")))
build.ensure_drivers(names)
print("built", len(names), "drivers in", build.build_dir())
