#!/usr/bin/env python3
"""save_seed.py <id> <change> <needs> <unit-tests> <demo> <result>: copy a confirmed seeded change from /tmp/mut_<id>/_out to seeded/<id>/"""
import sys, os, shutil, json, subprocess
i, change, needs, unit, demo, result = sys.argv[1:7]
src = "/tmp/mut_%s/_out" % i
dst = os.path.join(os.path.dirname(os.path.dirname(os.path.abspath(__file__))), "seeded", i)
os.makedirs(dst, exist_ok=True)
open(os.path.join(dst, "patch.diff"), "w").write(subprocess.run(["git", "-C", "/tmp/mut_%s" % i, "diff"], stdout=subprocess.PIPE, text=True).stdout)
for f in os.listdir(src):
    if f.endswith((".cpp", ".md", ".h")):
        shutil.copy(os.path.join(src, f), dst)
prop = i[:3]
json.dump({"property": prop, "change": change, "needs_to_manifest": needs,
           "origin": "independent sub-agent given only the property text and a scratch worktree",
           "confirmed": {"compiles": True, "unit_tests_with_change": unit, "demo": demo},
           "checks_run": "VERIF_REPO=<worktree with the change> python3 tools/check.py %s --tier quick" % prop,
           "result": result}, open(os.path.join(dst, "meta.json"), "w"), indent=1)
print(os.listdir(dst))
