// rcu.cpp -- driver for C04, C05: the four user-space RCU flavours through their public API.
// ops: rlock | runlock | read:link | deref | swap:link | retn:count | batch:count | sync | detach | attach | yield
#include "common.h"
#include <cds/urcu/general_instant.h>
#include <cds/urcu/general_buffered.h>
#include <cds/urcu/general_threaded.h>
#include <cds/urcu/signal_buffered.h>
using namespace drv;
static CdsInit s_init;
struct Obj { char payload; };
static const int NLINK = 3;
struct World { atomics::atomic<Obj*> link[NLINK]; std::vector<Obj*> all; int next_id = 1;
  Obj* make() { Obj* o = (Obj*)malloc(8); o->payload = 1; all.push_back(o); vs::mem_register(o, 8, next_id++); return o; }
  ~World() { for (auto p : all) free(p); } };
static World* W = nullptr;
static int id_of(const void* p) { return p ? vs::mem_tag(p) : 0; }
static void disposer_fn(Obj* o);
struct ObjDisposer { void operator()(Obj* p) const { disposer_fn(p); } };
static void disposer_void(void* p) { disposer_fn((Obj*)p); }
static void disposer_fn(Obj* o) { if (vs::mem_state(o) == 2) vs::report_uad(o, 97); vs::mem_dispose(o); o->payload = 0; xev("dispose", id_of(o)); }

template <class RCU> static void run_rcu_program(const Program& P) {
  auto body = [&](const std::vector<Op>& ops, bool worker) {
    int depth = 0; Obj* cur = nullptr; bool attached = true;
    for (auto& o : ops) {
      if (!attached && o.name != "attach") continue;
      if (o.name == "rlock") { RCU::access_lock(); ++depth; xev("rlock"); }
      else if (o.name == "runlock") { if (depth > 0) { if (depth == 1) cur = nullptr; xev("runlock"); --depth; RCU::access_unlock(); } }
      else if (o.name == "read") { if (depth > 0) cur = W->link[o.arg(0) % NLINK].load(); }
      else if (o.name == "deref") { if (depth > 0 && cur) { if (vs::mem_state(cur) == 2) vs::report_uad(cur, 95); (void)cur->payload; xev("deref", id_of(cur)); } }
      else if (o.name == "swap") { if (depth == 0) { Obj* n = W->make(); Obj* old = W->link[o.arg(0) % NLINK].exchange(n); if (old) { xev("retire", id_of(old)); RCU::template retire_ptr<ObjDisposer>(old); } } }
      else if (o.name == "retn") { if (depth == 0) for (long i = 0; i < o.arg(0); ++i) { Obj* n = W->make(); xev("retire", id_of(n)); RCU::template retire_ptr<ObjDisposer>(n); } }
      else if (o.name == "batch") { if (depth == 0) { std::vector<cds::urcu::retired_ptr> v; for (long i = 0; i < o.arg(0); ++i) { Obj* n = W->make(); xev("retire", id_of(n)); v.push_back(cds::urcu::retired_ptr(n, disposer_void)); } RCU::batch_retire(v.begin(), v.end()); } }
      else if (o.name == "sync") { if (depth == 0) { xev("syncinv"); RCU::synchronize(); xev("syncret"); } }
      else if (o.name == "detach") { if (depth == 0) { detach(); attached = false; } }
      else if (o.name == "attach") { if (!attached) { attach(); attached = true; } }
      else if (o.name == "yield") sched_yield();
    }
    while (depth > 0) { xev("runlock"); --depth; RCU::access_unlock(); }
    if (worker && attached) detach();
  };
  body(P.init, false);
  std::vector<std::thread> th; vs::roi(true);
  for (size_t i = 0; i < P.threads.size(); ++i) th.emplace_back([&, i] { t_id = (int)i + 1; attach(); body(P.threads[i], true); });
  for (auto& t : th) t.join();
  vs::roi(false);
  body(P.fini, false);
}
template <class RCU, class Mk> static void rcu_variant(const Program& P, Mk mk) {
  World w; W = &w;
  { auto rcu = mk(); attach();
    for (int i = 0; i < NLINK; ++i) w.link[i].store(w.make());
    run_rcu_program<RCU>(P);
    for (int i = 0; i < NLINK; ++i) { Obj* o = w.link[i].exchange(nullptr); if (o) { xev("retire", id_of(o)); RCU::template retire_ptr<ObjDisposer>(o); } }
    detach(); }
  xev("destroyed"); W = nullptr; }
typedef cds::backoff::yield bk;
typedef cds::urcu::gc<cds::urcu::general_instant<std::mutex, bk>> GPI;
typedef cds::urcu::gc<cds::urcu::general_buffered<cds::urcu::general_buffered<>::buffer_type, std::mutex, bk>> GPB;
typedef cds::urcu::gc<cds::urcu::general_threaded<cds::urcu::general_threaded<>::buffer_type, std::mutex, cds::urcu::dispose_thread<cds::urcu::general_threaded<>::buffer_type>, bk>> GPT;
typedef cds::urcu::gc<cds::urcu::signal_buffered<cds::urcu::signal_buffered<>::buffer_type, std::mutex, bk>> SHB;
static const bool s_post_store = (vs::g_post_store_points = true);   // see vsched.h
DRV_VARIANT(v_gpi, "gpi") { rcu_variant<GPI>(P, [] { return std::unique_ptr<GPI>(new GPI); }); }
#define CAPV(ID, NAME, T, CAP) DRV_VARIANT(ID, NAME) { rcu_variant<T>(P, [] { return std::unique_ptr<T>(new T(CAP)); }); }
CAPV(v_gpb1, "gpb_cap1", GPB, 1)
CAPV(v_gpb2, "gpb_cap2", GPB, 2)
CAPV(v_gpb4, "gpb_cap4", GPB, 4)
CAPV(v_gpb256, "gpb_cap256", GPB, 256)
CAPV(v_gpt1, "gpt_cap1", GPT, 1)
CAPV(v_gpt2, "gpt_cap2", GPT, 2)
CAPV(v_gpt4, "gpt_cap4", GPT, 4)
CAPV(v_shb1, "shb_cap1", SHB, 1)
CAPV(v_shb2, "shb_cap2", SHB, 2)
CAPV(v_shb4, "shb_cap4", SHB, 4)
