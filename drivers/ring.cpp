// ring.cpp -- driver for C12: WeakRingBuffer (typed and void) with one producer (thread 1) and one consumer (thread 2)
// typed ops: push:v | pushn:v:count | pop | popn:count | front | popfront | empty     void ops: pushv:id:size | popv
#include "common.h"
#include <cds/container/weak_ringbuffer.h>
#include <cds/opt/buffer.h>
using namespace drv;
namespace cc = cds::container;
static CdsInit s_init;
template <class RB> static void typed_ring(const Program& P, RB& rb) {
  xev("cap", (long)rb.capacity());
  auto doop = [&](const Op& o) {
    if (o.name == "push") { inv("push", o.arg(0)); bool r = rb.push((int)o.arg(0)); ret(r); }
    else if (o.name == "pushn") { int n = (int)o.arg(1); std::vector<int> a(n); for (int i = 0; i < n; ++i) a[i] = (int)o.arg(0) + i; inv("pushn", o.arg(0), n); bool r = rb.push(a.data(), (size_t)n); ret(r); }
    else if (o.name == "pop") { inv("pop"); int v = 0; bool r = rb.pop(v); ret(r, r ? v : 0); }
    else if (o.name == "popn") { int n = (int)o.arg(0); std::vector<int> a(n, 0); inv("popn", 0, n); bool r = rb.pop(a.data(), (size_t)n); long code = 0; for (int i = n - 1; i >= 0; --i) code = code * 100 + (a[i] % 100); ret(r ? 1 : 0, r ? code : 0); }   // values < 100, n <= 4
    else if (o.name == "front") { inv("front"); int* p = rb.front(); ret(p != nullptr, p ? *p : 0); }
    else if (o.name == "popfront") { inv("popfront"); bool r = rb.pop_front(); ret(r); }
    else if (o.name == "empty") { inv("empty"); ret(rb.empty()); }
    else if (o.name == "drain") { for (;;) { inv("pop"); int v = 0; bool r = rb.pop(v); ret(r, r ? v : 0); if (!r) break; } } };
  for (auto& o : P.init) doop(o); run_threads(P, doop); for (auto& o : P.fini) doop(o); }
struct rb_t : public cc::weak_ringbuffer::traits {};
struct rb_np2_t : public cc::weak_ringbuffer::traits { typedef cds::opt::v::uninitialized_dynamic_buffer<void*, CDS_DEFAULT_ALLOCATOR, false> buffer; };
template <size_t N> struct rb_static_t : public cc::weak_ringbuffer::traits { typedef cds::opt::v::uninitialized_static_buffer<void*, N> buffer; };
DRV_VARIANT(v_rb2, "ring_int_2") { cc::WeakRingBuffer<int, rb_t> rb(2); typed_ring(P, rb); }
DRV_VARIANT(v_rb4, "ring_int_4") { cc::WeakRingBuffer<int, rb_t> rb(4); typed_ring(P, rb); }
DRV_VARIANT(v_rb3, "ring_int_np2_3") { cc::WeakRingBuffer<int, rb_np2_t> rb(3); typed_ring(P, rb); }
DRV_VARIANT(v_rb5, "ring_int_np2_5") { cc::WeakRingBuffer<int, rb_np2_t> rb(5); typed_ring(P, rb); }
DRV_VARIANT(v_rbs4, "ring_int_static_4") { cc::WeakRingBuffer<int, rb_static_t<4>> rb; typed_ring(P, rb); }
// WeakRingBuffer<void>
static unsigned char pat(long id, size_t i) { return (unsigned char)(id * 37 + i * 11 + 5); }
template <class RB> static void void_ring(const Program& P, RB& rb) {
  xev("cap", (long)rb.capacity());
  auto doop = [&](const Op& o) {
    if (o.name == "pushv") { long id = o.arg(0); size_t sz = (size_t)o.arg(1); std::vector<unsigned char> d(sz); for (size_t i = 0; i < sz; ++i) d[i] = pat(id, i); inv("pushv", id, (long)sz); bool r = rb.push_back(d.data(), sz); ret(r); }
    else if (o.name == "pushv2") {   // reserve with back( size ), fill after a scheduling point, publish with push_back(): the consumer must not see the record before push_back()
      long id = o.arg(0); size_t sz = (size_t)o.arg(1); inv("pushv", id, (long)sz); unsigned char* b = (unsigned char*)rb.back(sz);
      if (!b) { ret(false); return; } sched_yield(); for (size_t i = 0; i < sz; ++i) b[i] = pat(id, i); sched_yield(); rb.push_back(); ret(true); }
    else if (o.name == "popv") { inv("popv"); auto f = rb.front(); if (!f.first) { ret(0); return; } size_t sz = f.second; unsigned char* b = (unsigned char*)f.first; long id = -1;
      for (long cand = 1; cand < 64 && id < 0; ++cand) { bool ok = true; for (size_t i = 0; i < sz; ++i) if (b[i] != pat(cand, i)) { ok = false; break; } if (ok) id = cand; }
      bool r = rb.pop_front(); ret(1, !r ? -2 : id < 0 ? -1 : id * 1000 + (long)sz); }   // front() returned a record: it must be a pushed one (v=-1: unknown bytes, -2: pop_front() then failed)
    else if (o.name == "drainv") { for (;;) { inv("popv"); auto f = rb.front(); if (!f.first) { ret(0); break; } size_t sz = f.second; unsigned char* b = (unsigned char*)f.first; long id = -1;
      for (long cand = 1; cand < 64 && id < 0; ++cand) { bool ok = true; for (size_t i = 0; i < sz; ++i) if (b[i] != pat(cand, i)) { ok = false; break; } if (ok) id = cand; }
      rb.pop_front(); ret(1, id < 0 ? -1 : id * 1000 + (long)sz); } } };
  for (auto& o : P.init) doop(o); run_threads(P, doop); for (auto& o : P.fini) doop(o); }
struct rbv_np2_t : public cc::weak_ringbuffer::traits { typedef cds::opt::v::uninitialized_dynamic_buffer<uint8_t, CDS_DEFAULT_ALLOCATOR, false> buffer; };
DRV_VARIANT(v_rbv64, "ring_void_64") { cc::WeakRingBuffer<void, rb_t> rb(64); void_ring(P, rb); }
DRV_VARIANT(v_rbv128, "ring_void_128") { cc::WeakRingBuffer<void, rb_t> rb(128); void_ring(P, rb); }
DRV_VARIANT(v_rbv96, "ring_void_np2_96") { cc::WeakRingBuffer<void, rbv_np2_t> rb(96); void_ring(P, rb); }
DRV_VARIANT(v_rbv100, "ring_void_np2_100") { cc::WeakRingBuffer<void, rbv_np2_t> rb(100); void_ring(P, rb); }
