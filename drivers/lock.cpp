// lock.cpp -- driver for C22: spin locks, reentrant spin lock, lock_array, injecting_monitor, pool_monitor
// ops: lock:n | unlock:n | trylock:n | with:n (lock, work, unlock) | nest:n (lock, lock, work, unlock, unlock)
#include "common.h"
#include <cds/sync/spinlock.h>
#include <cds/sync/lock_array.h>
#include <cds/sync/injecting_monitor.h>
#include <cds/sync/pool_monitor.h>
#include <cds/memory/vyukov_queue_pool.h>
#include <map>
using namespace drv;
static CdsInit s_init;
static const int NL = 3;
typedef cds::backoff::yield bk;
// a shared plain counter per lock makes a mutual-exclusion failure visible to the history as well (lost update)
static int g_shared[NL];
template <class L> struct PlainLocks { L l[NL]; void lock(int n) { l[n].lock(); } void unlock(int n) { l[n].unlock(); } bool try_lock(int n) { return l[n].try_lock(); } void in_cs(int) {} };
template <class Locks> static void lock_program(const Program& P, Locks& L) {
  for (int i = 0; i < NL; ++i) g_shared[i] = 0;
  auto doop = [&](const Op& o) { int n = (int)o.arg(0) % NL;
    static thread_local int depth[NL];
    if (o.name == "begin") { for (int i = 0; i < NL; ++i) depth[i] = 0; return; }
    auto enter = [&] { xev("acq", n); L.in_cs(n); ++depth[n]; int v = g_shared[n]; sched_yield(); g_shared[n] = v + 1; };
    auto leave = [&] { --depth[n]; xev("rel", n); };
    if (o.name == "with") { L.lock(n); enter(); leave(); L.unlock(n); }
    else if (o.name == "nest") { L.lock(n); enter(); L.lock(n); enter(); leave(); L.unlock(n); leave(); L.unlock(n); }
    else if (o.name == "lock") { L.lock(n); enter(); }
    else if (o.name == "unlock") { if (depth[n] > 0) { leave(); L.unlock(n); } }
    else if (o.name == "trylock") { if (L.try_lock(n)) { enter(); leave(); L.unlock(n); } }
    else if (o.name == "finish") { for (int i = 0; i < NL; ++i) while (depth[i] > 0) { --depth[i]; xev("rel", i); L.unlock(i); } } };
  std::function<void()> pre = [&] { doop(Op{"begin", {}}); };
  std::function<void()> post = [&] { doop(Op{"finish", {}}); };
  pre(); run_threads(P, doop, pre, post); }
static const bool s_post_store = (vs::g_post_store_points = true);   // see vsched.h
DRV_VARIANT(v_spin, "spin_lock") { PlainLocks<cds::sync::spin_lock<bk>> L; lock_program(P, L); }
DRV_VARIANT(v_rspin32, "reentrant_spin32") { PlainLocks<cds::sync::reentrant_spin_lock<uint32_t, bk>> L; lock_program(P, L); }
DRV_VARIANT(v_rspin64, "reentrant_spin64") { PlainLocks<cds::sync::reentrant_spin_lock<uint64_t, bk>> L; lock_program(P, L); }
// lock_array: cells selected by index
struct ArrLocks { cds::sync::lock_array<cds::sync::spin_lock<bk>, cds::sync::pow2_select_policy> a; ArrLocks() : a(4, cds::sync::pow2_select_policy(4)) {}
  void lock(int n) { a.lock((size_t)n); } void unlock(int n) { a.unlock((size_t)n); } bool try_lock(int n) { return a.try_lock((size_t)n) != decltype(a)::c_nUnspecifiedCell; } void in_cs(int) {} };
DRV_VARIANT(v_larr, "lock_array") { ArrLocks L; lock_program(P, L); }
// monitors: nodes with an injection
template <class Mon> struct MNode { typename Mon::node_injection m_SyncMonitorInjection; };
template <class Mon> struct MonLocks { Mon mon; MNode<Mon> node[NL]; void lock(int n) { mon.lock(node[n]); } void unlock(int n) { mon.unlock(node[n]); } bool try_lock(int) { return false; } void in_cs(int) {} };
DRV_VARIANT(v_inj, "injecting_monitor") { MonLocks<cds::sync::injecting_monitor<cds::sync::spin_lock<bk>>> L; lock_program(P, L); }
// pool_monitor over a logging pool of spin locks
typedef cds::sync::spin_lock<bk> plock_t;
struct ppool_traits : public cds::memory::vyukov_queue_pool_traits { typedef bk back_off; };
static std::map<void*, int>* g_lock_ids = nullptr;
static int lock_id(void* p) { auto it = g_lock_ids->find(p); if (it != g_lock_ids->end()) return it->second; int id = (int)g_lock_ids->size() + 1; (*g_lock_ids)[p] = id; return id; }
template <class Base> struct LoggingPool { typedef plock_t value_type; Base base; LoggingPool(size_t cap = 2) : base(cap) {}
  plock_t* allocate(size_t n) { plock_t* p = base.allocate(n); xev("palloc", lock_id(p)); return p; }
  void deallocate(plock_t* p, size_t n) { xev("pfree", lock_id(p)); base.deallocate(p, n); } };
template <class Pool> struct PoolMonLocks { typedef cds::sync::pool_monitor<Pool, bk> Mon; Mon mon; MNode<Mon> node[NL]; PoolMonLocks() : mon(2) {}
  void lock(int n) { mon.lock(node[n]); } void unlock(int n) { mon.unlock(node[n]); } bool try_lock(int) { return false; }
  void in_cs(int n) { xev("nlock", n, lock_id(node[n].m_SyncMonitorInjection.m_pLock)); } };
DRV_VARIANT(v_pm, "pool_monitor") { std::map<void*, int> ids; g_lock_ids = &ids; { PoolMonLocks<LoggingPool<cds::memory::vyukov_queue_pool<plock_t, ppool_traits>>> L; lock_program(P, L); } g_lock_ids = nullptr; }
DRV_VARIANT(v_pml, "pool_monitor_lazy") { std::map<void*, int> ids; g_lock_ids = &ids; { PoolMonLocks<LoggingPool<cds::memory::lazy_vyukov_queue_pool<plock_t, ppool_traits>>> L; lock_program(P, L); } g_lock_ids = nullptr; }
