// set_hash.cpp -- driver for C14 (MichaelHashSet, SplitListSet, FeldmanHashSet), C17/C28 code level, C18/C19 facets
// --extra: hash mode is selected by the variant suffix (_h0 identity, _h1 constant, _h2 k%2, _h3 shared low bits / prefixes)
#include "setad.h"
#include <cds/urcu/general_buffered.h>
#include <cds/container/michael_list_hp.h>
#include <cds/container/michael_list_dhp.h>
#include <cds/container/michael_list_rcu.h>
#include <cds/container/lazy_list_hp.h>
#include <cds/container/lazy_list_rcu.h>
#include <cds/container/iterable_list_hp.h>
#include <cds/container/iterable_list_dhp.h>
#include <cds/container/michael_set.h>
#include <cds/container/michael_set_rcu.h>
#include <cds/container/split_list_set.h>
#include <cds/container/split_list_set_rcu.h>
#include <cds/container/feldman_hashset_hp.h>
#include <cds/container/feldman_hashset_dhp.h>
#include <cds/container/feldman_hashset_rcu.h>
using namespace drv;
namespace cc = cds::container;
static CdsInit s_init;
bool drv::g_cs_points = false;
static int g_hash_mode = 0; static size_t g_htab[64];
size_t drv::item_hash::hash_of(int k) {
  switch (g_hash_mode) { case 1: return 7; case 2: return (size_t)(k % 2); case 3: return ((size_t)k << 60) | ((size_t)(k & 1) << 8) | 5;   // differ only in the top bits / one middle bit
    case 4: return g_htab[k & 63];   // table set by the program's seth:k:lo:hi operations (hash = hi * 2^32 + lo)
    default: return (size_t)k; } }
typedef cds::urcu::gc<cds::urcu::general_buffered<cds::urcu::general_buffered<>::buffer_type, std::mutex, cds::backoff::yield>> RCU;
struct RcuFix { RCU rcu; RcuFix() : rcu(2) { attach(); } ~RcuFix() { detach(); } };
typedef cds::gc::HP HP; typedef cds::gc::DHP DHP;
struct ml_t : public cc::michael_list::traits { typedef drv::qallocator<int> allocator; typedef cds::backoff::yield back_off; typedef item_less less; };
struct ll_t : public cc::lazy_list::traits { typedef drv::qallocator<int> allocator; typedef cds::backoff::yield back_off; typedef item_less less; typedef cds::sync::spin_lock<cds::backoff::yield> lock_type; };
struct il_t : public cc::iterable_list::traits { typedef drv::qallocator<int> allocator; typedef cds::backoff::yield back_off; typedef item_less less; };
struct ms_t : public cc::michael_set::traits { typedef item_hash hash; typedef cds::atomicity::item_counter item_counter; typedef drv::qallocator<int> allocator; };
static void load_htab(const Program& P) { for (auto& o : P.init) if (o.name == "seth") g_htab[o.arg(0) & 63] = ((size_t)o.arg(2) << 32) | (size_t)o.arg(1); }
template <class GC, class S, class Ad, class... A> static void gc_set(const Program& P, size_t nHazard, int hm, A... a) { g_hash_mode = hm; load_htab(P); Smr<GC> smr(nHazard, P.threads.size() + 1); { S s(a...); Ad ad(s); run_set_program(P, ad, attach, detach); } }
template <class S, class Ad, class... A> static void rcu_set(const Program& P, int hm, A... a) { g_hash_mode = hm; RcuFix f; { S s(a...); Ad ad(s); run_set_program(P, ad, attach, detach); } }
// MichaelHashSet: static bucket table over ordered lists; (max item count, load factor) = (2,1) -> 2 buckets; hash modes force collisions
typedef cc::MichaelHashSet<HP, cc::MichaelList<HP, Item, ml_t>, ms_t> MS_ML_HP; typedef cc::MichaelHashSet<DHP, cc::MichaelList<DHP, Item, ml_t>, ms_t> MS_ML_DHP;
typedef cc::MichaelHashSet<HP, cc::LazyList<HP, Item, ll_t>, ms_t> MS_LL_HP; typedef cc::MichaelHashSet<HP, cc::IterableList<HP, Item, il_t>, ms_t> MS_IL_HP;
typedef cc::MichaelHashSet<RCU, cc::MichaelList<RCU, Item, ml_t>, ms_t> MS_ML_RCU; typedef cc::MichaelHashSet<RCU, cc::LazyList<RCU, Item, ll_t>, ms_t> MS_LL_RCU;
DRV_VARIANT(v_ms_ml_hp, "michaelset_michael_hp_h2") { gc_set<HP, MS_ML_HP, GcSetAd<MS_ML_HP, 0, C_TRAV>>(P, 4, 2, 2, 1); }
DRV_VARIANT(v_ms_ml_dhp, "michaelset_michael_dhp_h0") { gc_set<DHP, MS_ML_DHP, GcSetAd<MS_ML_DHP, 0, C_TRAV>>(P, 4, 0, 4, 1); }
DRV_VARIANT(v_ms_ll_hp, "michaelset_lazy_hp_h1") { gc_set<HP, MS_LL_HP, GcSetAd<MS_LL_HP, 0, C_TRAV>>(P, 4, 1, 2, 1); }
DRV_VARIANT(v_ms_il_hp, "michaelset_iterable_hp_h2") { gc_set<HP, MS_IL_HP, IterSetAd<MS_IL_HP, 0, C_TRAV>>(P, 6, 2, 2, 1); }
DRV_VARIANT(v_ms_ml_rcu, "michaelset_michael_rcu_h2") { rcu_set<MS_ML_RCU, RcuSetAd<MS_ML_RCU, RCU, 0, C_TRAV>>(P, 2, 2, 1); }
DRV_VARIANT(v_ms_ll_rcu, "michaelset_lazy_rcu_h0") { rcu_set<MS_LL_RCU, RcuSetAd<MS_LL_RCU, RCU, 0, C_TRAV, true>>(P, 0, 2, 1); }
// SplitListSet: initial item count 1-2, load factor 1 -> growth with almost every insert; static and expandable bucket tables
template <class LT, class LTR, bool DYN> struct sl_t : public cc::split_list::traits { typedef item_hash hash; typedef LT ordered_list; typedef LTR ordered_list_traits; typedef cds::atomicity::item_counter item_counter; typedef cds::backoff::yield back_off; typedef drv::qallocator<int> allocator;
  static constexpr const bool dynamic_bucket_table = DYN; };
struct sl_ml_tr : public cc::michael_list::traits { typedef item_less less; typedef cds::backoff::yield back_off; typedef drv::qallocator<int> allocator; };
struct sl_ll_tr : public cc::lazy_list::traits { typedef item_less less; typedef cds::backoff::yield back_off; typedef drv::qallocator<int> allocator; typedef cds::sync::spin_lock<cds::backoff::yield> lock_type; };
struct sl_il_tr : public cc::iterable_list::traits { typedef item_less less; typedef cds::backoff::yield back_off; typedef drv::qallocator<int> allocator; };
typedef cc::SplitListSet<HP, Item, sl_t<cc::michael_list_tag, sl_ml_tr, true>> SL_ML_HP; typedef cc::SplitListSet<DHP, Item, sl_t<cc::michael_list_tag, sl_ml_tr, false>> SL_ML_DHP_ST;
typedef cc::SplitListSet<HP, Item, sl_t<cc::lazy_list_tag, sl_ll_tr, true>> SL_LL_HP; typedef cc::SplitListSet<HP, Item, sl_t<cc::iterable_list_tag, sl_il_tr, true>> SL_IL_HP;
typedef cc::SplitListSet<RCU, Item, sl_t<cc::michael_list_tag, sl_ml_tr, true>> SL_ML_RCU; typedef cc::SplitListSet<RCU, Item, sl_t<cc::lazy_list_tag, sl_ll_tr, false>> SL_LL_RCU_ST;
DRV_VARIANT(v_sl_ml_hp, "splitlist_michael_hp_h0") { gc_set<HP, SL_ML_HP, GcSetAd<SL_ML_HP, 0, C_TRAV>>(P, 8, 0, 1, 1); }
DRV_VARIANT(v_sl_ml_hp3, "splitlist_michael_hp_h3") { gc_set<HP, SL_ML_HP, GcSetAd<SL_ML_HP, 0, C_TRAV>>(P, 8, 3, 1, 1); }
DRV_VARIANT(v_sl_ml_dhp, "splitlist_michael_dhp_static_h0") { gc_set<DHP, SL_ML_DHP_ST, GcSetAd<SL_ML_DHP_ST, 0, C_TRAV>>(P, 8, 0, 4, 1); }
DRV_VARIANT(v_sl_ll_hp, "splitlist_lazy_hp_h2") { gc_set<HP, SL_LL_HP, GcSetAd<SL_LL_HP, 0, C_TRAV>>(P, 8, 2, 2, 1); }
DRV_VARIANT(v_sl_il_hp, "splitlist_iterable_hp_h0") { gc_set<HP, SL_IL_HP, IterSetAd<SL_IL_HP, 0, C_TRAV>>(P, 10, 0, 1, 1); }
DRV_VARIANT(v_sl_ml_rcu, "splitlist_michael_rcu_h0") { rcu_set<SL_ML_RCU, RcuSetAd<SL_ML_RCU, RCU, 0, C_TRAV>>(P, 0, 1, 1); }
DRV_VARIANT(v_sl_ll_rcu, "splitlist_lazy_rcu_static_h1") { rcu_set<SL_LL_RCU_ST, RcuSetAd<SL_LL_RCU_ST, RCU, 0, C_TRAV, true>>(P, 1, 4, 1); }
// FeldmanHashSet: head bits / array bits at their minimums (4 / 2): keys sharing long prefixes force deep expansion
struct fh_t : public cc::feldman_hashset::traits { typedef fitem_accessor hash_accessor; typedef cds::atomicity::item_counter item_counter; typedef cds::backoff::yield back_off; typedef drv::qallocator<int> allocator; typedef drv::qallocator<int> node_allocator; };
typedef cc::FeldmanHashSet<HP, FItem, fh_t> FH_HP; typedef cc::FeldmanHashSet<DHP, FItem, fh_t> FH_DHP; typedef cc::FeldmanHashSet<RCU, FItem, fh_t> FH_RCU;
DRV_VARIANT(v_fh_hp0, "feldman_hp_h0") { gc_set<HP, FH_HP, FeldmanAd<FH_HP>>(P, 6, 0, 4, 2); }
DRV_VARIANT(v_fh_hp3, "feldman_hp_h3") { gc_set<HP, FH_HP, FeldmanAd<FH_HP>>(P, 6, 3, 4, 2); }
DRV_VARIANT(v_fh_dhp3, "feldman_dhp_h3") { gc_set<DHP, FH_DHP, FeldmanAd<FH_DHP>>(P, 6, 3, 4, 2); }
DRV_VARIANT(v_fh_rcu3, "feldman_rcu_h3") { rcu_set<FH_RCU, FeldmanAd<FH_RCU, true, RCU>>(P, 3, 4, 2); }
DRV_VARIANT(v_fh_rcu0, "feldman_rcu_h0") { rcu_set<FH_RCU, FeldmanAd<FH_RCU, true, RCU>>(P, 0, 4, 3); }
// table-driven hash functions (C17: growth keeps the contents for any hash function)
DRV_VARIANT(v_ms_ml_hp_ht, "michaelset_michael_hp_ht") { gc_set<HP, MS_ML_HP, GcSetAd<MS_ML_HP, 0, C_TRAV>>(P, 4, 4, 2, 1); }
DRV_VARIANT(v_sl_ml_hp_ht, "splitlist_michael_hp_ht") { gc_set<HP, SL_ML_HP, GcSetAd<SL_ML_HP, 0, C_TRAV>>(P, 8, 4, 1, 1); }
DRV_VARIANT(v_sl_il_hp_ht, "splitlist_iterable_hp_ht") { gc_set<HP, SL_IL_HP, IterSetAd<SL_IL_HP, 0, C_TRAV>>(P, 10, 4, 1, 1); }
DRV_VARIANT(v_sl_ml_dhp_ht, "splitlist_michael_dhp_static_ht") { gc_set<DHP, SL_ML_DHP_ST, GcSetAd<SL_ML_DHP_ST, 0, C_TRAV>>(P, 8, 4, 2, 1); }
DRV_VARIANT(v_fh_hp_ht, "feldman_hp_ht") { gc_set<HP, FH_HP, FeldmanAd<FH_HP>>(P, 6, 4, 4, 2); }
DRV_VARIANT(v_fh_dhp_ht, "feldman_dhp_ht") { gc_set<DHP, FH_DHP, FeldmanAd<FH_DHP>>(P, 6, 4, 5, 3); }
