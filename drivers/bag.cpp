// bag.cpp -- drivers for C21 (FreeList, TaggedFreeList, CachedFreeList) and C24 (Vyukov queue pools, pool_allocator)
// free-list ops: put:id (a fresh node owned by the thread) | get | reput (put back the node obtained last) | drainq (final)
// pool ops:      alloc | free (the object allocated longest ago by this thread) | freeall | drainq (final: allocate capacity times)
#include "common.h"
#include <cds/intrusive/free_list.h>
#include <cds/intrusive/free_list_tagged.h>
#include <cds/intrusive/free_list_cached.h>
#include <cds/memory/vyukov_queue_pool.h>
#include <cds/memory/pool_allocator.h>
#include <deque>
#include <map>
using namespace drv;
static CdsInit s_init;
template <class FL> struct FNode : public FL::node { int id; };
template <class FL> static void free_list_variant(const Program& P) {
  typedef FNode<FL> N; std::vector<N*> all;
  { FL fl;
    auto doop = [&](const Op& o) {
      static thread_local std::vector<N*> held;
      if (o.name == "begin") { held.clear(); return; }
      if (o.name == "put") { N* n = new N; n->id = (int)o.arg(0); all.push_back(n); vs::mem_register(n, sizeof(N), n->id); inv("put", n->id); fl.put(n); ret(1); }
      else if (o.name == "get") { inv("get"); N* n = static_cast<N*>(fl.get()); if (n) held.push_back(n); ret(n != nullptr, n ? n->id : 0); }
      else if (o.name == "reput") { if (held.empty()) return; N* n = held.back(); held.pop_back(); inv("put", n->id); fl.put(n); ret(1); }
      else if (o.name == "reputf") { if (held.empty()) return; N* n = held.front(); held.erase(held.begin()); inv("put", n->id); fl.put(n); ret(1); }   // put back the node obtained first
      else if (o.name == "drainq") { for (;;) { inv("getq"); N* n = static_cast<N*>(fl.get()); ret(n != nullptr, n ? n->id : 0); if (!n) break; } } };
    std::function<void()> pre = [&] { doop(Op{"begin", {}}); };
    pre(); for (auto& o : P.init) doop(o);
    run_threads(P, doop, pre);
    pre(); for (auto& o : P.fini) doop(o);
    fl.clear([](typename FL::node*) {}); }
  for (auto n : all) delete n; }
typedef cds::intrusive::FreeList FL; typedef cds::intrusive::TaggedFreeList TFL; typedef cds::intrusive::CachedFreeList<FL, 8> CFL; typedef cds::intrusive::CachedFreeList<TFL, 8> CTFL;
static const bool s_post_store = (vs::g_post_store_points = true);   // see vsched.h
DRV_VARIANT(v_fl, "freelist") { free_list_variant<FL>(P); }
DRV_VARIANT(v_tfl, "taggedfreelist") { free_list_variant<TFL>(P); }
DRV_VARIANT(v_cfl, "cachedfreelist") { Smr<cds::gc::HP> smr(1, P.threads.size() + 1); free_list_variant<CFL>(P); }
DRV_VARIANT(v_ctfl, "cachedtaggedfreelist") { Smr<cds::gc::HP> smr(1, P.threads.size() + 1); free_list_variant<CTFL>(P); }

// ---- C24: pools.  Objects are identified by address (ids assigned on first sight) -------------------------------------------
struct PObj { int payload[2]; PObj() { payload[0] = 1; } };
struct pool_traits : public cds::memory::vyukov_queue_pool_traits { typedef cds::backoff::yield back_off; };
static std::map<void*, int>* g_ids = nullptr;
static int id_of(void* p) { auto it = g_ids->find(p); if (it != g_ids->end()) return it->second; int id = (int)g_ids->size() + 1; (*g_ids)[p] = id; return id; }
template <class Pool> static void pool_variant(const Program& P, size_t cap, bool bounded) {
  std::map<void*, int> ids; g_ids = &ids;
  { Pool pool(cap);
    auto doop = [&](const Op& o) {
      static thread_local std::deque<PObj*> held;
      if (o.name == "begin") { held.clear(); return; }
      if (o.name == "alloc") { inv("get"); PObj* p = nullptr; try { p = pool.allocate(1); } catch (std::bad_alloc&) { p = nullptr; } if (p) held.push_back(p); ret(p != nullptr, p ? id_of(p) : 0); }
      else if (o.name == "free") { if (held.empty()) return; PObj* p = held.front(); held.pop_front(); inv("put", id_of(p)); pool.deallocate(p, 1); ret(1); }
      else if (o.name == "freeall") { while (!held.empty()) { PObj* p = held.front(); held.pop_front(); inv("put", id_of(p)); pool.deallocate(p, 1); ret(1); } }
      else if (o.name == "drainq") { for (size_t i = 0; i < cap + (bounded ? 1 : 0); ++i) { inv(bounded ? "getq" : "get"); PObj* p = nullptr; try { p = pool.allocate(1); } catch (std::bad_alloc&) { p = nullptr; } if (p) held.push_back(p); ret(p != nullptr, p ? id_of(p) : 0); }
                                     while (!held.empty()) { PObj* p = held.front(); held.pop_front(); inv("put", id_of(p)); pool.deallocate(p, 1); ret(1); } } };
    std::function<void()> pre = [&] { doop(Op{"begin", {}}); };
    std::function<void()> post = [&] { doop(Op{"freeall", {}}); };
    pre(); for (auto& o : P.init) doop(o);
    run_threads(P, doop, pre, post);
    pre(); for (auto& o : P.fini) doop(o); }
  g_ids = nullptr; }
DRV_VARIANT(v_vp2, "vyukov_pool2") { pool_variant<cds::memory::vyukov_queue_pool<PObj, pool_traits>>(P, 2, false); }
DRV_VARIANT(v_vp4, "vyukov_pool4") { pool_variant<cds::memory::vyukov_queue_pool<PObj, pool_traits>>(P, 4, false); }
DRV_VARIANT(v_lp2, "lazy_pool2") { pool_variant<cds::memory::lazy_vyukov_queue_pool<PObj, pool_traits>>(P, 2, false); }
DRV_VARIANT(v_lp4, "lazy_pool4") { pool_variant<cds::memory::lazy_vyukov_queue_pool<PObj, pool_traits>>(P, 4, false); }
DRV_VARIANT(v_bp2, "bounded_pool2") { pool_variant<cds::memory::bounded_vyukov_queue_pool<PObj, pool_traits>>(P, 2, true); }
DRV_VARIANT(v_bp4, "bounded_pool4") { pool_variant<cds::memory::bounded_vyukov_queue_pool<PObj, pool_traits>>(P, 4, true); }
// pool_allocator adapter over a static pool
typedef cds::memory::vyukov_queue_pool<PObj, pool_traits> adapter_pool_t;
static adapter_pool_t* g_adapter_pool = nullptr;
struct pool_accessor { typedef adapter_pool_t::value_type value_type; adapter_pool_t& operator()() const { return *g_adapter_pool; } };
struct AllocAd { cds::memory::pool_allocator<PObj, pool_accessor> a; AllocAd(size_t) {} PObj* allocate(size_t n) { return a.allocate(n); } void deallocate(PObj* p, size_t n) { a.deallocate(p, n); } };
DRV_VARIANT(v_pa2, "pool_allocator2") { adapter_pool_t pool(2); g_adapter_pool = &pool; pool_variant<AllocAd>(P, 2, false); g_adapter_pool = nullptr; }
