// set_tree.cpp -- driver for C15 (SkipListSet, EllenBinTreeSet, BronsonAVLTreeMap) and the structural checks of C18
#include "setad.h"
#include <cds/urcu/general_buffered.h>
#include <cds/container/skip_list_set_hp.h>
#include <cds/container/skip_list_set_dhp.h>
#include <cds/container/skip_list_set_rcu.h>
#include <cds/container/ellen_bintree_set_hp.h>
#include <cds/container/ellen_bintree_set_dhp.h>
#include <cds/container/ellen_bintree_set_rcu.h>
#include <cds/container/bronson_avltree_map_rcu.h>
#include <cds/sync/pool_monitor.h>
#include <cds/sync/injecting_monitor.h>
#include <cds/memory/vyukov_queue_pool.h>
using namespace drv;
namespace cc = cds::container;
static CdsInit s_init;
bool drv::g_cs_points = false;
size_t drv::item_hash::hash_of(int k) { return (size_t)k; }
typedef cds::urcu::gc<cds::urcu::general_buffered<cds::urcu::general_buffered<>::buffer_type, std::mutex, cds::backoff::yield>> RCU;
struct RcuFix { RCU rcu; RcuFix() : rcu(2) { attach(); } ~RcuFix() { detach(); } };
typedef cds::gc::HP HP; typedef cds::gc::DHP DHP;
// scripted tower heights: 0 = always lowest, 1 = always highest, 2 = alternating, 3 = 0,1,2,3,...
static int g_level_mode = 0; static unsigned g_level_ctr = 0;
struct level_gen { static unsigned int const c_nUpperBound = 8;
  unsigned int operator()() { unsigned c = g_level_ctr++; switch (g_level_mode) { case 1: return c_nUpperBound - 1; case 2: return (c & 1) ? c_nUpperBound - 1 : 0; case 3: return c % c_nUpperBound; default: return 0; } } };
struct sk_t : public cc::skip_list::traits { typedef item_less less; typedef cds::atomicity::item_counter item_counter; typedef cds::backoff::yield back_off; typedef level_gen random_level_generator; typedef drv::qallocator<int> allocator; };
typedef cc::SkipListSet<HP, Item, sk_t> SK_HP; typedef cc::SkipListSet<DHP, Item, sk_t> SK_DHP; typedef cc::SkipListSet<RCU, Item, sk_t> SK_RCU;
template <class GC, class S, class Ad> static void gc_set(const Program& P, size_t nHazard, int lm) { g_level_mode = lm; g_level_ctr = 0; Smr<GC> smr(nHazard, P.threads.size() + 1); { S s; Ad ad(s); run_set_program(P, ad, attach, detach); } }
template <class S, class Ad> static void rcu_set(const Program& P, int lm) { g_level_mode = lm; g_level_ctr = 0; RcuFix f; { S s; Ad ad(s); run_set_program(P, ad, attach, detach); } }
DRV_VARIANT(v_sk_hp0, "skiplist_hp_low") { gc_set<HP, SK_HP, GcSetAd<SK_HP, C_MINMAX>>(P, 40, 0); }
DRV_VARIANT(v_sk_hp1, "skiplist_hp_high") { gc_set<HP, SK_HP, GcSetAd<SK_HP, C_MINMAX>>(P, 40, 1); }
DRV_VARIANT(v_sk_hp3, "skiplist_hp_mixed") { gc_set<HP, SK_HP, GcSetAd<SK_HP, C_MINMAX>>(P, 40, 3); }
DRV_VARIANT(v_sk_dhp2, "skiplist_dhp_alt") { gc_set<DHP, SK_DHP, GcSetAd<SK_DHP, C_MINMAX>>(P, 40, 2); }
DRV_VARIANT(v_sk_rcu3, "skiplist_rcu_mixed") { rcu_set<SK_RCU, RcuSetAd<SK_RCU, RCU, C_MINMAX>>(P, 3); }
DRV_VARIANT(v_sk_rcu1, "skiplist_rcu_high") { rcu_set<SK_RCU, RcuSetAd<SK_RCU, RCU, C_MINMAX>>(P, 1); }
// Ellen binary tree
struct el_t : public cc::ellen_bintree::traits { typedef item_less less; typedef cds::atomicity::item_counter item_counter; typedef cds::backoff::yield back_off; typedef drv::qallocator<int> allocator;
  struct key_extractor { void operator()(int& d, Item const& s) const { d = s.key; } }; };
typedef cc::EllenBinTreeSet<HP, int, Item, el_t> EL_HP; typedef cc::EllenBinTreeSet<DHP, int, Item, el_t> EL_DHP; typedef cc::EllenBinTreeSet<RCU, int, Item, el_t> EL_RCU;
template <class S, unsigned E = 0, unsigned L = 0> struct EllenAd : public GcSetAd<S, E, L> { EllenAd(S& s) : GcSetAd<S, E, L>(s) {} bool consistent() { return this->s.check_consistency(); } };
template <class S> struct EllenRcuAd : public RcuSetAd<S, RCU, C_MINMAX | C_CHECK, C_TRAV> { EllenRcuAd(S& s) : RcuSetAd<S, RCU, C_MINMAX | C_CHECK, C_TRAV>(s) {} bool consistent() { return this->s.check_consistency(); } };
DRV_VARIANT(v_el_hp, "ellen_hp") { gc_set<HP, EL_HP, EllenAd<EL_HP, C_MINMAX | C_CHECK, C_TRAV>>(P, 8, 0); }
DRV_VARIANT(v_el_dhp, "ellen_dhp") { gc_set<DHP, EL_DHP, EllenAd<EL_DHP, C_MINMAX | C_CHECK, C_TRAV>>(P, 8, 0); }
DRV_VARIANT(v_el_rcu, "ellen_rcu") { rcu_set<EL_RCU, EllenRcuAd<EL_RCU>>(P, 0); }
// Bronson AVL tree map (RCU only): both monitors
struct br_inj_t : public cc::bronson_avltree::traits { typedef drv::qallocator<int> allocator; typedef drv::qallocator<int> node_allocator; typedef item_less less; typedef cds::atomicity::item_counter item_counter; typedef cds::backoff::yield back_off;
  typedef cds::sync::injecting_monitor<cds::sync::spin_lock<cds::backoff::yield>> sync_monitor; };
typedef cds::memory::vyukov_queue_pool<cds::sync::spin_lock<cds::backoff::yield>> br_lock_pool;
struct br_pool_t : public cc::bronson_avltree::traits { typedef drv::qallocator<int> allocator; typedef drv::qallocator<int> node_allocator; typedef item_less less; typedef cds::atomicity::item_counter item_counter; typedef cds::backoff::yield back_off;
  typedef cds::sync::pool_monitor<br_lock_pool, cds::backoff::yield> sync_monitor; };
struct br_relaxed_t : public br_inj_t { static bool const relaxed_insert = true; };
typedef cc::BronsonAVLTreeMap<RCU, int, MVal, br_inj_t> BR_INJ; typedef cc::BronsonAVLTreeMap<RCU, int, MVal, br_pool_t> BR_POOL; typedef cc::BronsonAVLTreeMap<RCU, int, MVal, br_relaxed_t> BR_RLX;
DRV_VARIANT(v_br_inj, "bronson_injecting") { rcu_set<BR_INJ, BronsonAd<BR_INJ>>(P, 0); }
DRV_VARIANT(v_br_pool, "bronson_pool") { rcu_set<BR_POOL, BronsonAd<BR_POOL>>(P, 0); }
DRV_VARIANT(v_br_rlx, "bronson_relaxed_insert") { rcu_set<BR_RLX, BronsonAd<BR_RLX>>(P, 0); }
