// common.h -- pieces shared by the container drivers
#pragma once
#include "../harness/driver.h"
#include <cds/init.h>
#include <cds/gc/hp.h>
#include <cds/gc/dhp.h>
#include <cds/threading/model.h>
namespace drv {
struct CdsInit { CdsInit() { cds::Initialize(); } ~CdsInit() { cds::Terminate(); } };
static const int DEAD = -777001;
// value stored in value-based containers: destructor poisons, copy detects reads of destroyed values
struct Val {
  int v; Val() : v(0) {} Val(int x) : v(x) {}
  Val(const Val& o) : v(o.v) { if (o.v == DEAD) vs::report_uad(&o, 98); }
  Val& operator=(const Val& o) { if (o.v == DEAD) vs::report_uad(&o, 98); v = o.v; return *this; }
  ~Val() { v = DEAD; }
  operator int() const { return v; }
};
inline bool operator<(const Val& a, const Val& b) { return a.v < b.v; }
inline bool operator==(const Val& a, const Val& b) { return a.v == b.v; }
// SMR fixtures: constructed inside the controlled execution so that attach/detach/scan/destruction are explored too
template <class GC> struct Smr;
template <> struct Smr<cds::gc::HP> {
  cds::gc::HP gc;
  Smr(size_t nHazard, size_t nThreads, size_t nRetired = 0, cds::gc::HP::scan_type st = cds::gc::HP::scan_type::inplace) : gc(nHazard, nThreads, nRetired ? nRetired : nHazard * nThreads + 1, st) { cds::threading::Manager::attachThread(); }
  ~Smr() { cds::threading::Manager::detachThread(); }
};
template <> struct Smr<cds::gc::DHP> {
  cds::gc::DHP gc;
  Smr(size_t nHazard, size_t, size_t = 0, int = 0) : gc(nHazard < 4 ? 4 : nHazard) { cds::threading::Manager::attachThread(); }
  ~Smr() { cds::threading::Manager::detachThread(); }
};
inline void attach() { cds::threading::Manager::attachThread(); }
inline void detach() { cds::threading::Manager::detachThread(); }
}
