// fc.cpp -- driver for C23: the flat-combining kernel under a minimal container (a counter) that logs publication,
// execution and response of every request; publication records come from the quarantine allocator.
// ops: add (one request) | addn:k | exit-implied: a thread's TLS record is released when the thread finishes
#include "common.h"
#include <cds/algo/flat_combining.h>
#include <cds/container/fcqueue.h>
#include <queue>
using namespace drv;
namespace fc = cds::algo::flat_combining;
static CdsInit s_init;
template <class WS> struct box_traits : public fc::traits { typedef WS wait_strategy; typedef drv::qallocator<int> allocator; typedef cds::sync::spin_lock<cds::backoff::yield> lock_type; };
template <class Traits> class FcBox {
public:
  struct fc_record : public fc::publication_record { int req; int res; };
  typedef fc::kernel<fc_record, Traits> kernel_t;
  enum { op_add = fc::req_Operation };
  FcBox(unsigned compact, unsigned pass) : m_FC(compact, pass), m_value(0), m_inside(0) {}
  int add(int req) { auto pRec = m_FC.acquire_record(); pRec->req = req; pRec->res = 0; xev("pub", req); m_FC.combine(op_add, pRec, *this); int r = pRec->res; xev("resp", req, r); m_FC.release_record(pRec); return r; }
  void fc_apply(fc_record* pRec) { xev("cbeg", pRec->req); if (++m_inside != 1) xev("crash", 2); sched_yield(); m_value += 1; pRec->res = m_value; xev("exec", pRec->req, m_value); --m_inside; xev("cend", pRec->req); }
private:
  kernel_t m_FC; int m_value; int m_inside;
};
template <class WS> static void box_variant(const Program& P, unsigned compact, unsigned pass) {
  Smr<cds::gc::HP> smr(1, P.threads.size() + 1);
  { FcBox<box_traits<WS>> box(compact, pass);
    auto doop = [&](const Op& o) { static thread_local int n = 0;
      if (o.name == "begin") { n = 0; return; }
      long k = o.name == "addn" ? o.arg(0) : 1; for (long i = 0; i < k; ++i) box.add(t_id * 100 + (++n)); };
    doop(Op{"begin", {}}); for (auto& o : P.init) doop(o);
    run_threads(P, doop, [&] { doop(Op{"begin", {}}); attach(); }, detach);
    doop(Op{"begin", {}}); t_id = 9; for (auto& o : P.fini) doop(o); t_id = 0; } }
typedef fc::wait_strategy::backoff<cds::backoff::yield> ws_bk; typedef fc::wait_strategy::empty ws_empty;
static const bool s_post_store = (vs::g_post_store_points = true);   // see vsched.h
DRV_VARIANT(v_b_c1p1, "box_backoff_c1_p1") { box_variant<ws_bk>(P, 1, 1); }
DRV_VARIANT(v_b_c1p2, "box_backoff_c1_p2") { box_variant<ws_bk>(P, 1, 2); }
DRV_VARIANT(v_b_c2p1, "box_backoff_c2_p1") { box_variant<ws_bk>(P, 2, 1); }
DRV_VARIANT(v_b_c1024, "box_backoff_c1024_p8") { box_variant<ws_bk>(P, 1024, 8); }
DRV_VARIANT(v_e_c2p2, "box_empty_c2_p2") { box_variant<ws_empty>(P, 2, 2); }
DRV_VARIANT(v_sm_c2p1, "box_single_mutex_single_condvar_c2_p1") { box_variant<fc::wait_strategy::single_mutex_single_condvar<2>>(P, 2, 1); }
DRV_VARIANT(v_smm_c2p1, "box_single_mutex_multi_condvar_c2_p1") { box_variant<fc::wait_strategy::single_mutex_multi_condvar<2>>(P, 2, 1); }
DRV_VARIANT(v_mm_c2p1, "box_multi_mutex_multi_condvar_c2_p1") { box_variant<fc::wait_strategy::multi_mutex_multi_condvar<2>>(P, 2, 1); }
