// setdrv.h -- shared by the set/map drivers (C13-C16, C18, C19, C20): operation dispatch and history recording.
// An adapter wraps one container variant behind a uniform interface; unsupported operations are skipped (caps).
// Elements are (key, id) with id = key*100 + unique, so that the oracle (LinSet.tla) can track element identity.
// ops: ins:k  insf:k  upd1:k  upd0:k  era:k  eraf:k  unl:k  ext:k  get:k  find:k  findf:k  emp:k  extmin  extmax
//      size empty clear | final: trav (quiescent traversal), check (consistency), size
#pragma once
#include "common.h"
namespace drv {
enum Caps { C_INSF = 1, C_UPD = 2, C_ERA = 4, C_ERAF = 8, C_EXT = 16, C_GET = 32, C_FINDF = 64, C_EMP = 128, C_MINMAX = 256, C_UNL = 512, C_CLEAR = 1024, C_TRAV = 2048, C_CHECK = 4096, C_SIZE = 8192, C_NOEMPTY = 16384, C_ITER = 32768, C_RITER = 65536 };
static thread_local int t_uniq = 0;
inline int new_id(int key) { return key * 100 + t_id * 10 + (++t_uniq % 10); }   // unique per (thread, counter) for up to 10 inserts per key and thread
// optional audit hook called after every operation (set_lock: attribution of lost elements, see set_lock.cpp)
inline std::function<void(const Op&)>& after_op_hook() { static std::function<void(const Op&)> f; return f; }
template <class Ad> void run_set_program(const Program& P, Ad& ad, std::function<void()> pre = nullptr, std::function<void()> post = nullptr) {
  const unsigned caps = ad.caps();
  std::function<void(const Op&)> doop = [&](const Op& o) {
    int k = (int)o.arg(0); const std::string& n = o.name;
    if (n == "ins") { int id = new_id(k); inv("ins", k, id); bool r = ad.ins(k, id); ret(r); }
    else if (n == "emp") { if (!(caps & C_EMP)) return; int id = new_id(k); inv("emp", k, id); bool r = ad.emp(k, id); ret(r); }
    else if (n == "insf") { if (!(caps & C_INSF)) return; int id = new_id(k); inv("insf", k, id); int calls = 0; bool r = ad.insf(k, id, calls); ret(r, calls); }
    else if (n == "upd1" || n == "upd0") { if (!(caps & C_UPD)) return; int id = new_id(k); inv(n == "upd1" ? "upd1" : "upd0", k, id); int seen = 0; int r = ad.upd(k, id, n == "upd1", seen); ret(r, seen); }
    else if (n == "era") { if (!(caps & C_ERA)) return; inv("era", k); bool r = ad.era(k); ret(r); }
    else if (n == "eraf") { if (!(caps & C_ERAF)) return; inv("eraf", k); int seen = 0; bool r = ad.eraf(k, seen); ret(r, r ? seen : 0); }
    else if (n == "ext") { if (!(caps & C_EXT)) return; inv("ext", k); int seen = 0; bool r = ad.ext(k, seen); ret(r, r ? seen : 0); }
    else if (n == "unl") { if (!(caps & C_UNL)) return; int id = (int)o.arg(1); inv("unl", k, id); bool r = ad.unl(k, id); ret(r); }
    else if (n == "get") { if (!(caps & C_GET)) return; inv("get", k); int seen = 0; bool r = ad.get(k, seen); ret(r, r ? seen : 0); }
    else if (n == "find") { inv("find", k); bool r = ad.find(k); ret(r); }
    else if (n == "findf") { if (!(caps & C_FINDF)) return; inv("findf", k); int seen = 0; bool r = ad.findf(k, seen); ret(r, r ? seen : 0); }
    else if (n == "extmin") { if (!(caps & C_MINMAX)) return; inv("extmin"); int id = 0; bool r = ad.extmin(id); ret(r, r ? id : 0); }
    else if (n == "extmax") { if (!(caps & C_MINMAX)) return; inv("extmax"); int id = 0; bool r = ad.extmax(id); ret(r, r ? id : 0); }
    else if (n == "size") { if (!(caps & C_SIZE)) return; inv("size"); ret((long)ad.size()); }
    else if (n == "empty") { if (caps & C_NOEMPTY) return; inv("empty"); ret(ad.empty()); }
    else if (n == "clear") { if (!(caps & C_CLEAR)) return; inv("clear"); ad.clear(); ret(1); }
    else if (n == "trav") { if (!(caps & C_TRAV)) return; xev("trbeg"); ad.traverse([](int key, int id) { xev("tr", key, id); }); xev("trend"); }
    else if (n == "iter" || n == "riter") {   // thread-safe iteration concurrent with updates (C19): every yield is an observation
      if (!(caps & (n == "iter" ? C_ITER : C_RITER))) return; xev("itbeg");
      ad.iterate(n == "riter", [](int key, int id, const void* p) { if (p && vs::mem_state(p) == 2) vs::report_uad(p, 94); xev("it", key, id); sched_yield(); if (p && vs::mem_state(p) == 2) vs::report_uad(p, 94); return false; }); xev("itend"); }
    else if (n == "eraseat") {                // iterate to key k, then erase_at( iterator )
      if (!(caps & C_ITER)) return; int found = 0, r = -1;
      ad.iterate(false, [&](int key, int id, const void*) { if (key == k) { found = id; return true; } return false; }, [&](bool b) { r = b ? 1 : 0; }, [&](int id) { inv("eraseat", k, id); });
      if (found) ret(r); }
    else if (n == "check") { if (!(caps & C_CHECK)) return; if (!ad.consistent()) xev("crash", 1); }
  };
  auto doop0 = doop;
  if (after_op_hook()) doop = [&, doop0](const Op& o) { doop0(o); after_op_hook()(o); };
  t_uniq = 0;
  for (auto& o : P.init) doop(o);
  run_threads(P, doop, [&] { t_uniq = 0; if (pre) pre(); }, post);
  for (auto& o : P.fini) doop(o);
}
// Critical sections of the lock-based containers contain only plain memory accesses.  To let the scheduler interleave two
// threads that are (wrongly) inside the same bucket at the same time, the user-supplied element operations (copy, compare,
// hash) are scheduling points when g_cs_points is set (set_lock driver).
extern bool g_cs_points;
inline void cs_point() { static char dummy; if (g_cs_points) vs::sched_point(&dummy, vs::K_USERPT, 0); }
// value type of the value-based sets: (key, id); destructor poisons so that reads of destroyed elements are detected
struct Item {
  int key; int id;
  Item() : key(0), id(0) {} Item(int k, int i) : key(k), id(i) {} explicit Item(int k) : key(k), id(0) {}
  Item(const Item& o) : key(o.key), id(o.id) { if (o.id == DEAD) vs::report_uad(&o, 98); cs_point(); }
  Item& operator=(const Item& o) { if (o.id == DEAD) vs::report_uad(&o, 98); key = o.key; id = o.id; return *this; }
  ~Item() { id = DEAD; }
};
struct item_less { template <class A, class B> bool operator()(A const& a, B const& b) const { cs_point(); return kof(a) < kof(b); }
  static int kof(Item const& i) { return i.key; } static int kof(int k) { return k; } };
struct item_cmp { template <class A, class B> int operator()(A const& a, B const& b) const { int x = item_less::kof(a), y = item_less::kof(b); return x < y ? -1 : (x > y ? 1 : 0); } };
struct item_hash { size_t operator()(Item const& i) const { return hash_of(i.key); } size_t operator()(int k) const { return hash_of(k); }
  static size_t hash_of(int k); };
}
