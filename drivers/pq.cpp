// pq.cpp -- driver for C11 (MSPriorityQueue, FCPriorityQueue).  Items are prio*100+uid.
// ops: push:v | pop | drain
#include "common.h"
#include <cds/container/mspriority_queue.h>
#include <cds/intrusive/mspriority_queue.h>
#include <cds/container/fcpriority_queue.h>
#include <cds/opt/buffer.h>
#include <queue>
#include <vector>
#include <deque>
using namespace drv;
namespace cc = cds::container; namespace ci = cds::intrusive;
static CdsInit s_init;
struct prio_less { bool operator()(const Val& a, const Val& b) const { return a.v / 100 < b.v / 100; } };
template <class Ad> static void run_pq_program(const Program& P, Ad& ad, bool threads_attach) {
  auto doop = [&](const Op& o) {
    if (o.name == "push") { inv("push", o.arg(0)); bool r = ad.push((int)o.arg(0)); ret(r); }
    else if (o.name == "pop") { inv("pop"); int v = 0; bool r = ad.pop(v); ret(r, r ? v : 0); }
    else if (o.name == "empty") { inv("empty"); bool r = ad.empty(); ret(r); }
    else if (o.name == "size") { inv("size"); ret((long)ad.size()); }
    else if (o.name == "drain") { for (;;) { inv("pop"); int v = 0; bool r = ad.pop(v); ret(r, r ? v : 0); if (!r) break; } } };
  for (auto& o : P.init) doop(o);
  run_threads(P, doop, threads_attach ? std::function<void()>(attach) : nullptr, threads_attach ? std::function<void()>(detach) : nullptr);
  for (auto& o : P.fini) doop(o); }
template <class Q> struct ValPqAd { Q& q; ValPqAd(Q& q_) : q(q_) {}
  bool push(int v) { return q.push(Val(v)); } bool pop(int& v) { Val x; bool ok = q.pop(x); if (ok) v = x.v; return ok; } bool empty() { return q.empty(); } size_t size() { return q.size(); } };
struct mspq_t : public cc::mspriority_queue::traits { typedef prio_less less; typedef cds::sync::spin_lock<cds::backoff::yield> lock_type; typedef cds::backoff::yield back_off; typedef drv::qallocator<int> allocator; };
template <size_t N> static void mspq(const Program& P) { typedef cc::MSPriorityQueue<Val, mspq_t> Q; Q q(N); xev("cap", (long)q.capacity()); ValPqAd<Q> ad(q); run_pq_program(P, ad, false); }
// the constructor argument is the heap buffer size; slot 0 is unused, so capacity() = (size rounded up to a power of two) - 1
DRV_VARIANT(v_mspq2, "mspq_buf2") { mspq<2>(P); }
DRV_VARIANT(v_mspq3, "mspq_buf3") { mspq<3>(P); }
DRV_VARIANT(v_mspq4, "mspq_buf4") { mspq<4>(P); }
DRV_VARIANT(v_mspq5, "mspq_buf5") { mspq<5>(P); }
DRV_VARIANT(v_mspq8, "mspq_buf8") { mspq<8>(P); }
DRV_VARIANT(v_mspq16, "mspq_buf16") { mspq<16>(P); }
template <size_t N> struct mspq_static_t : public mspq_t { typedef cds::opt::v::initialized_static_buffer<char, N> buffer; };
DRV_VARIANT(v_mspqs8, "mspq_static8") { typedef cc::MSPriorityQueue<Val, mspq_static_t<8>> Q; Q q(0); xev("cap", (long)q.capacity()); ValPqAd<Q> ad(q); run_pq_program(P, ad, false); }
// intrusive
struct ipq_item { int v; };
struct ipq_less { bool operator()(const ipq_item& a, const ipq_item& b) const { return a.v / 100 < b.v / 100; } };
struct impq_t : public ci::mspriority_queue::traits { typedef ipq_less less; typedef cds::sync::spin_lock<cds::backoff::yield> lock_type; typedef cds::backoff::yield back_off; };
template <class Q> struct IntrPqAd { Q& q; std::vector<ipq_item*>& ar; IntrPqAd(Q& q_, std::vector<ipq_item*>& a) : q(q_), ar(a) {}
  bool push(int v) { ipq_item* p = new ipq_item{v}; ar.push_back(p); return q.push(*p); } bool pop(int& v) { ipq_item* p = q.pop(); if (!p) return false; v = p->v; return true; } bool empty() { return q.empty(); } size_t size() { return q.size(); } };
template <size_t N> static void impq(const Program& P) { typedef ci::MSPriorityQueue<ipq_item, impq_t> Q; std::vector<ipq_item*> ar; { Q q(N); xev("cap", (long)q.capacity()); IntrPqAd<Q> ad(q, ar); run_pq_program(P, ad, false); } for (auto p : ar) delete p; }
DRV_VARIANT(v_impq3, "intr_mspq_buf4") { impq<4>(P); }
DRV_VARIANT(v_impq7, "intr_mspq_buf8") { impq<8>(P); }
// FCPriorityQueue
struct fcpq_t : public cc::fcpqueue::traits { typedef cds::algo::flat_combining::wait_strategy::backoff<cds::backoff::yield> wait_strategy; typedef drv::qallocator<int> allocator; };
template <class Q> static void fcpq(const Program& P, unsigned compact, unsigned pass) { Smr<cds::gc::HP> smr(1, P.threads.size() + 1); { Q q(compact, pass); ValPqAd<Q> ad(q); run_pq_program(P, ad, true); } }
DRV_VARIANT(v_fcpq, "fcpq") { fcpq<cc::FCPriorityQueue<Val, std::priority_queue<Val, std::vector<Val>, prio_less>, fcpq_t>>(P, 1024, 8); }
DRV_VARIANT(v_fcpq1, "fcpq_pass1") { fcpq<cc::FCPriorityQueue<Val, std::priority_queue<Val, std::vector<Val>, prio_less>, fcpq_t>>(P, 1024, 1); }
DRV_VARIANT(v_fcpqd, "fcpq_deque") { fcpq<cc::FCPriorityQueue<Val, std::priority_queue<Val, std::deque<Val>, prio_less>, fcpq_t>>(P, 1024, 2); }
