// pure.cpp -- recorders for the Tier-P properties (C25 bit helpers and splitters, C26 bit-reversed counter,
// C27 split-order encoding, C28 Feldman metrics).  Sequential; prints ndjson records that TLC validates.
#include <cstdio>
#include <cstdlib>
#include <cstdint>
#include <cstring>
#include <string>
#include <vector>
#include <random>
#include <thread>
#include <atomic>
#include <cds/algo/bit_reversal.h>
#include <cds/algo/bitop.h>
#include <cds/algo/int_algo.h>
#include <cds/algo/split_bitstring.h>
#include <cds/details/bit_reverse_counter.h>
#include <cds/init.h>
#include <cds/gc/hp.h>
#include <cds/gc/nogc.h>
#include <cds/urcu/general_instant.h>
#include <cds/intrusive/michael_list_hp.h>
#include <cds/intrusive/michael_list_nogc.h>
#include <cds/intrusive/michael_list_rcu.h>
#include <cds/intrusive/split_list.h>
#include <cds/intrusive/split_list_nogc.h>
#include <cds/intrusive/split_list_rcu.h>
#include <cds/intrusive/details/feldman_hashset_base.h>
// the generic (portable) implementations are compiled out on this platform: instantiate them in a private namespace
namespace gen {
#undef CDSLIB_DETAILS_BITOP_GENERIC_H
#undef cds_bitop_msb32_DEFINED
#undef cds_bitop_msb32nz_DEFINED
#undef cds_bitop_msb64_DEFINED
#undef cds_bitop_msb64nz_DEFINED
#undef cds_bitop_lsb32_DEFINED
#undef cds_bitop_lsb32nz_DEFINED
#undef cds_bitop_lsb64_DEFINED
#undef cds_bitop_lsb64nz_DEFINED
#undef cds_bitop_rbo32_DEFINED
#undef cds_bitop_rbo64_DEFINED
#undef cds_bitop_sbc32_DEFINED
#undef cds_bitop_sbc64_DEFINED
#undef cds_bitop_zbc32_DEFINED
#undef cds_bitop_zbc64_DEFINED
#undef cds_bitop_complement32_DEFINED
#undef cds_bitop_complement64_DEFINED
#include <cds/details/bitop_generic.h>
}
namespace G = gen::cds::bitop::platform;
static FILE* out = stdout;
static std::string limbs(uint64_t x, int w) { std::string s = "["; for (int i = 0; i < w / 16; ++i) { if (i) s += ","; s += std::to_string((unsigned)((x >> (16 * i)) & 0xffff)); } return s + "]"; }
template <class T> static std::vector<T> inputs(uint64_t seed, long nrand) {
  std::vector<T> v; const int W = sizeof(T) * 8; v.push_back(0); v.push_back((T)~(T)0);
  for (int i = 0; i < W; ++i) { v.push_back((T)1 << i); v.push_back(((T)1 << i) - 1); v.push_back(((T)1 << i) + 1); v.push_back(~((T)1 << i)); for (int j = 0; j < i; j += 5) v.push_back(((T)1 << i) | ((T)1 << j)); }
  for (int b = 0; b < 256; b += 17) { T x = 0; for (int k = 0; k < (int)sizeof(T); ++k) x |= (T)b << (8 * k); v.push_back(x); }
  std::mt19937_64 r(seed); for (long i = 0; i < nrand; ++i) { uint64_t x = r(); int m = r() % 4; if (m == 1) x &= r(); if (m == 2) x |= r(); if (m == 3) x >>= (r() % W); v.push_back((T)x); }
  return v; }
template <class T> static void rec_bitops(uint64_t seed, long nrand) {
  const int W = sizeof(T) * 8;
  for (T x : inputs<T>(seed, nrand)) {
    std::string X = limbs(x, W);
    fprintf(out, "{\"f\":\"rev\",\"impl\":\"swar\",\"x\":%s,\"y\":%s}\n", X.c_str(), limbs(cds::algo::bit_reversal::swar()(x), W).c_str());
    fprintf(out, "{\"f\":\"rev\",\"impl\":\"lookup\",\"x\":%s,\"y\":%s}\n", X.c_str(), limbs(cds::algo::bit_reversal::lookup()(x), W).c_str());
    fprintf(out, "{\"f\":\"rev\",\"impl\":\"muldiv\",\"x\":%s,\"y\":%s}\n", X.c_str(), limbs(cds::algo::bit_reversal::muldiv()(x), W).c_str());
    fprintf(out, "{\"f\":\"rev\",\"impl\":\"muldiv32\",\"x\":%s,\"y\":%s}\n", X.c_str(), limbs(cds::algo::bit_reversal::muldiv::muldiv32(x), W).c_str());
    fprintf(out, "{\"f\":\"rev\",\"impl\":\"rbo\",\"x\":%s,\"y\":%s}\n", X.c_str(), limbs(cds::bitop::RBO(x), W).c_str());
    fprintf(out, "{\"f\":\"rev\",\"impl\":\"rev(rev)\",\"x\":%s,\"y\":%s}\n", limbs(cds::algo::bit_reversal::swar()(x), W).c_str(), limbs(cds::algo::bit_reversal::swar()(cds::algo::bit_reversal::swar()(x)), W).c_str());
    fprintf(out, "{\"f\":\"msb\",\"x\":%s,\"r\":%d}\n", X.c_str(), cds::bitop::MSB(x));
    fprintf(out, "{\"f\":\"lsb\",\"x\":%s,\"r\":%d}\n", X.c_str(), cds::bitop::LSB(x));
    if (x) { fprintf(out, "{\"f\":\"msbnz\",\"x\":%s,\"r\":%d}\n", X.c_str(), cds::bitop::MSBnz(x)); fprintf(out, "{\"f\":\"lsbnz\",\"x\":%s,\"r\":%d}\n", X.c_str(), cds::bitop::LSBnz(x)); }
    fprintf(out, "{\"f\":\"sbc\",\"x\":%s,\"r\":%d}\n", X.c_str(), cds::bitop::SBC(x));
    fprintf(out, "{\"f\":\"zbc\",\"x\":%s,\"r\":%d}\n", X.c_str(), cds::bitop::ZBC(x));
    int k = (int)((x * 2654435761u) % W); T y = x; bool old = cds::bitop::complement(y, k);
    fprintf(out, "{\"f\":\"compl\",\"x\":%s,\"k\":%d,\"y\":%s,\"r\":%d}\n", X.c_str(), k, limbs(y, W).c_str(), old ? 1 : 0);
  } }
static void rec_generic(uint64_t seed, long nrand) {
  for (uint32_t x : inputs<uint32_t>(seed, nrand)) { std::string X = limbs(x, 32);
    fprintf(out, "{\"f\":\"msb\",\"impl\":\"generic\",\"x\":%s,\"r\":%d}\n", X.c_str(), G::msb32(x)); fprintf(out, "{\"f\":\"lsb\",\"impl\":\"generic\",\"x\":%s,\"r\":%d}\n", X.c_str(), G::lsb32(x));
    fprintf(out, "{\"f\":\"sbc\",\"impl\":\"generic\",\"x\":%s,\"r\":%d}\n", X.c_str(), G::sbc32(x)); fprintf(out, "{\"f\":\"rev\",\"impl\":\"generic\",\"x\":%s,\"y\":%s}\n", X.c_str(), limbs(G::rbo32(x), 32).c_str()); }
  for (uint64_t x : inputs<uint64_t>(seed + 1, nrand)) { std::string X = limbs(x, 64);
    fprintf(out, "{\"f\":\"msb\",\"impl\":\"generic\",\"x\":%s,\"r\":%d}\n", X.c_str(), G::msb64(x)); fprintf(out, "{\"f\":\"lsb\",\"impl\":\"generic\",\"x\":%s,\"r\":%d}\n", X.c_str(), G::lsb64(x));
    fprintf(out, "{\"f\":\"sbc\",\"impl\":\"generic\",\"x\":%s,\"r\":%d}\n", X.c_str(), G::sbc64(x)); fprintf(out, "{\"f\":\"rev\",\"impl\":\"generic\",\"x\":%s,\"y\":%s}\n", X.c_str(), limbs(G::rbo64(x), 64).c_str()); } }
static void rec_bytes() { for (int b = 0; b < 256; ++b) {
    fprintf(out, "{\"f\":\"byte\",\"impl\":\"muldiv32_byte\",\"x\":%d,\"r\":%d}\n", b, (int)cds::algo::bit_reversal::muldiv::muldiv32_byte((uint8_t)b));
    fprintf(out, "{\"f\":\"byte\",\"impl\":\"muldiv64_byte\",\"x\":%d,\"r\":%d}\n", b, (int)cds::algo::bit_reversal::muldiv::muldiv64_byte((uint8_t)b));
    fprintf(out, "{\"f\":\"byte\",\"impl\":\"lookup\",\"x\":%d,\"r\":%d}\n", b, (int)(cds::algo::bit_reversal::lookup()((uint32_t)b) >> 24)); } }
static void rec_intalgo(uint64_t seed, long nrand) {
  for (uint64_t x : inputs<uint64_t>(seed, nrand)) { std::string X = limbs(x, 64); size_t n = (size_t)x;
    fprintf(out, "{\"f\":\"log2floor\",\"x\":%s,\"r\":%zu}\n", X.c_str(), cds::beans::log2floor(n));
    fprintf(out, "{\"f\":\"ispow2\",\"x\":%s,\"r\":%d}\n", X.c_str(), cds::beans::is_power2(n) ? 1 : 0);
    fprintf(out, "{\"f\":\"log2\",\"x\":%s,\"r\":%zu}\n", X.c_str(), cds::beans::log2(n));
    fprintf(out, "{\"f\":\"floor2\",\"x\":%s,\"y\":%s}\n", X.c_str(), limbs(cds::beans::floor2(n), 64).c_str());
    if (x <= (uint64_t(1) << 63)) { fprintf(out, "{\"f\":\"log2ceil\",\"x\":%s,\"r\":%zu}\n", X.c_str(), cds::beans::log2ceil(n)); fprintf(out, "{\"f\":\"ceil2\",\"x\":%s,\"y\":%s}\n", X.c_str(), limbs(cds::beans::ceil2(n), 64).c_str()); } }
  for (uint32_t x : inputs<uint32_t>(seed + 7, nrand)) { std::string X = limbs(x, 64); uint64_t n = x;
    fprintf(out, "{\"f\":\"log2floor\",\"x\":%s,\"r\":%llu}\n", X.c_str(), (unsigned long long)cds::beans::log2floor(n)); fprintf(out, "{\"f\":\"log2ceil\",\"x\":%s,\"r\":%llu}\n", X.c_str(), (unsigned long long)cds::beans::log2ceil(n));
    fprintf(out, "{\"f\":\"ceil2\",\"x\":%s,\"y\":%s}\n", X.c_str(), limbs(cds::beans::ceil2(n), 64).c_str()); } }
// ---- splitters: walk cut-width sequences; every cut is one record -------------------------------------------------------
template <class Sp, class Src> static void walk_splitter(const char* kind, Src src, int wbits, const std::vector<int>& widths, bool safe, int start_off) {
  Sp sp(src, (size_t)start_off); uint64_t srcbits = 0; memcpy(&srcbits, &src, sizeof(Src) < 8 ? sizeof(Src) : 8);
  for (int n : widths) {
    size_t off = sp.bit_offset(); if (!safe && (off + n > (size_t)wbits || sp.eos())) break; if (!Sp::is_correct((unsigned)n)) continue;
    uint64_t y = safe ? (uint64_t)sp.safe_cut((unsigned)n) : (uint64_t)sp.cut((unsigned)n);
    if (sizeof(typename Sp::uint_type) < 8) y &= (uint64_t(1) << (8 * sizeof(typename Sp::uint_type))) - 1;
    fprintf(out, "{\"f\":\"cut\",\"kind\":\"%s\",\"w\":%d,\"x\":%s,\"off\":%zu,\"n\":%d,\"safe\":%d,\"y\":%s,\"off2\":%zu}\n", kind, wbits, limbs(srcbits, 64).c_str(), off, n, safe ? 1 : 0, limbs(y, 64).c_str(), sp.bit_offset()); } }
template <class Src> static void rec_splitters_for(uint64_t seed, long nseq, const char* suffix) {
  const int W = sizeof(Src) * 8; std::mt19937_64 r(seed); char k1[32], k2[32], k3[32]; snprintf(k1, 32, "bitstring%s", suffix); snprintf(k2, 32, "byte%s", suffix); snprintf(k3, 32, "number%s", suffix);
  for (long s = 0; s < nseq; ++s) {
    Src src = (Src)((s % 3 == 0) ? (uint64_t(1) << (r() % W)) : r()); bool safe = (s & 1);
    std::vector<int> w; int total = 0; while (total < W + 24) { int n = 1 + (int)(r() % ((s % 5 == 0) ? 32 : 12)); w.push_back(n); total += n; }
    int off0 = (s % 4 == 0) ? (int)(r() % W) : 0;
    walk_splitter<cds::algo::split_bitstring<Src, sizeof(Src), unsigned>, Src>(k1, src, W, w, safe, off0);
    walk_splitter<cds::algo::split_bitstring<Src, sizeof(Src), uint64_t>, Src>(k1, src, W, w, safe, off0);
    std::vector<int> wb; for (int n : w) wb.push_back(((n % 4) + 1) * 8); 
    walk_splitter<cds::algo::byte_splitter<Src, sizeof(Src), uint64_t>, Src>(k2, src, W, wb, safe, (off0 / 8) * 8);
    walk_splitter<cds::algo::number_splitter<Src>, Src>(k3, src, W, w, safe, off0);
    std::vector<int> wl; int t2 = 0; while (t2 < W + 8) { int n = 1 + (int)(r() % (W - 1)); wl.push_back(n); t2 += n; }    // wide cuts (up to W-1 bits)
    walk_splitter<cds::algo::number_splitter<Src>, Src>(k3, src, W, wl, safe, 0); } }

// ---- exhaustive / strided 32-bit sweep against the tables emitted by the TLA+ reference (Tables.tla) ------------------------
static std::vector<int> T_rev, T_msb, T_lsb, T_pop;
static bool load_tables(const char* path) {
  FILE* f = fopen(path, "r"); if (!f) return false; std::string s; char buf[65536]; size_t n; while ((n = fread(buf, 1, sizeof buf, f)) > 0) s.append(buf, n); fclose(f);
  auto grab = [&](const char* key, std::vector<int>& v) { size_t p = s.find(std::string("\"") + key + "\""); if (p == std::string::npos) return; p = s.find('[', p); size_t e = s.find(']', p);
    const char* c = s.c_str() + p + 1; const char* end = s.c_str() + e; while (c < end) { v.push_back((int)strtol(c, (char**)&c, 10)); while (c < end && (*c == ',' || *c == ' ')) ++c; } };
  grab("rev16", T_rev); grab("msb16", T_msb); grab("lsb16", T_lsb); grab("pop16", T_pop);
  return T_rev.size() == 65536 && T_msb.size() == 65536 && T_lsb.size() == 65536 && T_pop.size() == 65536; }
static void sweep32(const char* tables, uint64_t stride, uint64_t phase) {
  if (!load_tables(tables)) { fprintf(out, "{\"f\":\"summary\",\"what\":\"tables missing\",\"n\":0,\"bad\":1}\n"); return; }
  const int NT = 16; std::atomic<uint64_t> bad(0), cnt(0); std::vector<std::vector<uint32_t>> badx(NT);
  auto work = [&](int tid) { uint64_t lb = 0, lc = 0;
    for (uint64_t xi = phase + (uint64_t)tid * stride; xi < (uint64_t(1) << 32); xi += stride * NT) { uint32_t x = (uint32_t)xi; uint32_t lo = x & 0xffff, hi = x >> 16; ++lc;
      uint32_t rev = ((uint32_t)T_rev[lo] << 16) | (uint32_t)T_rev[hi];
      int msb = hi ? 16 + T_msb[hi] : T_msb[lo]; int lsb = lo ? T_lsb[lo] : (hi ? 16 + T_lsb[hi] : 0); int pop = T_pop[lo] + T_pop[hi];
      bool ok = cds::algo::bit_reversal::swar()(x) == rev && cds::algo::bit_reversal::lookup()(x) == rev && cds::algo::bit_reversal::muldiv()(x) == rev && cds::algo::bit_reversal::muldiv::muldiv32(x) == rev
             && cds::bitop::RBO(x) == rev && G::rbo32(x) == rev && cds::bitop::MSB(x) == msb && G::msb32(x) == msb && cds::bitop::LSB(x) == lsb && G::lsb32(x) == lsb
             && cds::bitop::SBC(x) == pop && G::sbc32(x) == pop && cds::bitop::ZBC(x) == 32 - pop
             && cds::beans::log2floor((uint64_t)x) == (uint64_t)(x ? msb - 1 : 0) && cds::beans::is_power2((uint64_t)x) == (pop == 1)
             && cds::beans::log2ceil((uint64_t)x) == (uint64_t)(x ? (pop == 1 ? msb - 1 : msb) : 0)
             && (uint32_t)cds::algo::bit_reversal::swar()(rev) == x;
      if (!ok) { ++lb; if (badx[tid].size() < 4) badx[tid].push_back(x); } }
    bad += lb; cnt += lc; };
  std::vector<std::thread> th; for (int t = 0; t < NT; ++t) th.emplace_back(work, t); for (auto& t : th) t.join();
  // every disagreeing input is re-recorded as ordinary cases so that the TLA+ reference, not this loop, gives the verdict
  for (auto& v : badx) for (uint32_t x : v) { std::string X = limbs(x, 32);
    fprintf(out, "{\"f\":\"rev\",\"impl\":\"swar\",\"x\":%s,\"y\":%s}\n", X.c_str(), limbs(cds::algo::bit_reversal::swar()(x), 32).c_str());
    fprintf(out, "{\"f\":\"rev\",\"impl\":\"lookup\",\"x\":%s,\"y\":%s}\n", X.c_str(), limbs(cds::algo::bit_reversal::lookup()(x), 32).c_str());
    fprintf(out, "{\"f\":\"rev\",\"impl\":\"muldiv\",\"x\":%s,\"y\":%s}\n", X.c_str(), limbs(cds::algo::bit_reversal::muldiv()(x), 32).c_str());
    fprintf(out, "{\"f\":\"rev\",\"impl\":\"muldiv32\",\"x\":%s,\"y\":%s}\n", X.c_str(), limbs(cds::algo::bit_reversal::muldiv::muldiv32(x), 32).c_str());
    fprintf(out, "{\"f\":\"rev\",\"impl\":\"rbo\",\"x\":%s,\"y\":%s}\n", X.c_str(), limbs(cds::bitop::RBO(x), 32).c_str());
    fprintf(out, "{\"f\":\"rev\",\"impl\":\"generic\",\"x\":%s,\"y\":%s}\n", X.c_str(), limbs(G::rbo32(x), 32).c_str());
    fprintf(out, "{\"f\":\"msb\",\"x\":%s,\"r\":%d}\n{\"f\":\"msb\",\"impl\":\"generic\",\"x\":%s,\"r\":%d}\n", X.c_str(), cds::bitop::MSB(x), X.c_str(), G::msb32(x));
    fprintf(out, "{\"f\":\"lsb\",\"x\":%s,\"r\":%d}\n{\"f\":\"lsb\",\"impl\":\"generic\",\"x\":%s,\"r\":%d}\n", X.c_str(), cds::bitop::LSB(x), X.c_str(), G::lsb32(x));
    fprintf(out, "{\"f\":\"sbc\",\"x\":%s,\"r\":%d}\n{\"f\":\"sbc\",\"impl\":\"generic\",\"x\":%s,\"r\":%d}\n", X.c_str(), cds::bitop::SBC(x), X.c_str(), G::sbc32(x));
    fprintf(out, "{\"f\":\"zbc\",\"x\":%s,\"r\":%d}\n", X.c_str(), cds::bitop::ZBC(x));
    std::string X64 = limbs(x, 64); fprintf(out, "{\"f\":\"log2floor\",\"x\":%s,\"r\":%llu}\n{\"f\":\"log2ceil\",\"x\":%s,\"r\":%llu}\n{\"f\":\"ispow2\",\"x\":%s,\"r\":%d}\n", X64.c_str(), (unsigned long long)cds::beans::log2floor((uint64_t)x), X64.c_str(), (unsigned long long)cds::beans::log2ceil((uint64_t)x), X64.c_str(), cds::beans::is_power2((uint64_t)x) ? 1 : 0); }
  fprintf(out, "{\"f\":\"summary\",\"what\":\"sweep32 stride %llu\",\"n\":%llu,\"bad\":%llu}\n", (unsigned long long)stride, (unsigned long long)cnt.load(), (unsigned long long)bad.load()); }
// ---- C26: bit-reversed counter walks ---------------------------------------------------------------------------------
static void rec_counter(uint64_t seed, long nwalk, long sweep_to) {
  { cds::bitop::bit_reverse_counter<size_t> c; fprintf(out, "{\"f\":\"reset\"}\n");     // linear sweep up, then down
    for (long i = 0; i < sweep_to; ++i) { size_t r = c.inc(); fprintf(out, "{\"f\":\"inc\",\"r\":%zu,\"cnt\":%zu,\"rev\":%zu,\"hb\":%d}\n", r, c.value(), c.reversed_value(), c.high_bit()); }
    for (long i = 0; i < sweep_to; ++i) { size_t r = c.dec(); fprintf(out, "{\"f\":\"dec\",\"r\":%zu,\"cnt\":%zu,\"rev\":%zu,\"hb\":%d}\n", r, c.value(), c.reversed_value(), c.high_bit()); } }
  // Dyck probes (dec,inc,inc,dec,dec,inc) around every count up to 2^20 with a long carry / borrow chain (k*256 - 1, k*256, k*256 + 1);
  // the increments in between are not recorded one by one: a "jump" record carries the state reached, validated in closed form
  { cds::bitop::bit_reverse_counter<size_t> c; fprintf(out, "{\"f\":\"reset\"}\n");
    auto rec = [&](const char* f, size_t r) { fprintf(out, "{\"f\":\"%s\",\"r\":%zu,\"cnt\":%zu,\"rev\":%zu,\"hb\":%d}\n", f, r, c.value(), c.reversed_value(), c.high_bit()); };
    for (long k = 1; k <= 4096; ++k) for (long d = -1; d <= 1; ++d) { long t = k * 256 + d; if (t > 1048576) break;
      while ((long)c.value() < t) c.inc(); rec("jump", 0);
      rec("dec", c.dec()); rec("inc", c.inc()); rec("inc", c.inc()); rec("dec", c.dec()); rec("dec", c.dec()); rec("inc", c.inc()); } }
  for (int n = 1; n <= 70; ++n) { cds::bitop::bit_reverse_counter<size_t> c; std::string sl = "["; for (int i = 1; i <= n; ++i) { if (i > 1) sl += ","; sl += std::to_string(c.inc()); }
    fprintf(out, "{\"f\":\"prefix\",\"n\":%d,\"slots\":%s]}\n", n, sl.c_str()); }
  std::mt19937_64 r(seed);
  for (long w = 0; w < nwalk; ++w) { cds::bitop::bit_reverse_counter<size_t> c; fprintf(out, "{\"f\":\"reset\"}\n"); long len = 20 + (long)(r() % 200); int bias = 40 + (int)(r() % 40);
    for (long i = 0; i < len; ++i) { bool up = c.value() == 0 || (int)(r() % 100) < bias;
      if (up) { size_t v = c.inc(); fprintf(out, "{\"f\":\"inc\",\"r\":%zu,\"cnt\":%zu,\"rev\":%zu,\"hb\":%d}\n", v, c.value(), c.reversed_value(), c.high_bit()); }
      else { size_t v = c.dec(); fprintf(out, "{\"f\":\"dec\",\"r\":%zu,\"cnt\":%zu,\"rev\":%zu,\"hb\":%d}\n", v, c.value(), c.reversed_value(), c.high_bit()); } } } }
// ---- C27: split-order encoding ------------------------------------------------------------------------------------------
namespace ci = cds::intrusive;
struct sl_item_hp : public ci::split_list::node<ci::michael_list::node<cds::gc::HP>> { int k; };
struct sl_hash { size_t operator()(int k) const { return (size_t)k; } size_t operator()(sl_item_hp const& i) const { return (size_t)i.k; } };
struct sl_cmp { template <class A, class B> int operator()(A const& a, B const& b) const { return 0; } };
template <class BR> struct sl_traits_hp : public ci::split_list::traits { typedef sl_hash hash; typedef BR bit_reversal; };
struct ml_traits_hp : public ci::michael_list::traits { typedef ci::michael_list::base_hook<cds::opt::gc<cds::gc::HP>> hook; typedef sl_cmp compare; };
template <class BR> struct ProbeHP : public ci::SplitListSet<cds::gc::HP, ci::MichaelList<cds::gc::HP, sl_item_hp, ml_traits_hp>, sl_traits_hp<BR>> {
  typedef ci::SplitListSet<cds::gc::HP, ci::MichaelList<cds::gc::HP, sl_item_hp, ml_traits_hp>, sl_traits_hp<BR>> base;
  size_t bn(size_t h, size_t k) { this->m_nBucketCountLog2.store(k); size_t r = this->bucket_no(h); this->m_nBucketCountLog2.store(1); return r; }
  static size_t pb(size_t b) { return base::parent_bucket(b); } };
struct sl_item_ng : public ci::split_list::node<ci::michael_list::node<cds::gc::nogc>> { int k; };
struct ml_traits_ng : public ci::michael_list::traits { typedef ci::michael_list::base_hook<cds::opt::gc<cds::gc::nogc>> hook; typedef sl_cmp compare; };
struct sl_traits_ng : public ci::split_list::traits { typedef sl_hash hash; };
struct ProbeNG : public ci::SplitListSet<cds::gc::nogc, ci::MichaelList<cds::gc::nogc, sl_item_ng, ml_traits_ng>, sl_traits_ng> {
  typedef ci::SplitListSet<cds::gc::nogc, ci::MichaelList<cds::gc::nogc, sl_item_ng, ml_traits_ng>, sl_traits_ng> base;
  size_t bn(size_t h, size_t k) { this->m_nBucketCountLog2.store(k); size_t r = this->bucket_no(h); this->m_nBucketCountLog2.store(1); return r; }
  static size_t pb(size_t b) { return base::parent_bucket(b); } };
typedef cds::urcu::gc<cds::urcu::general_instant<>> RCUI;
struct sl_item_rcu : public ci::split_list::node<ci::michael_list::node<RCUI>> { int k; };
struct ml_traits_rcu : public ci::michael_list::traits { typedef ci::michael_list::base_hook<cds::opt::gc<RCUI>> hook; typedef sl_cmp compare; };
struct ProbeRCU : public ci::SplitListSet<RCUI, ci::MichaelList<RCUI, sl_item_rcu, ml_traits_rcu>, sl_traits_ng> {
  typedef ci::SplitListSet<RCUI, ci::MichaelList<RCUI, sl_item_rcu, ml_traits_rcu>, sl_traits_ng> base;
  size_t bn(size_t h, size_t k) { this->m_nBucketCountLog2.store(k); size_t r = this->bucket_no(h); this->m_nBucketCountLog2.store(1); return r; }
  static size_t pb(size_t b) { return base::parent_bucket(b); } };
template <class BR> static void rec_so_impl(const char* impl, const std::vector<uint64_t>& hs) {
  ProbeHP<BR> p;
  for (uint64_t h : hs) {
    fprintf(out, "{\"f\":\"regular\",\"impl\":\"%s\",\"h\":%s,\"y\":%s}\n", impl, limbs(h, 64).c_str(), limbs(ci::split_list::regular_hash<BR>((size_t)h), 64).c_str());
    fprintf(out, "{\"f\":\"dummy\",\"impl\":\"%s\",\"h\":%s,\"y\":%s}\n", impl, limbs(h, 64).c_str(), limbs(ci::split_list::dummy_hash<BR>((size_t)h), 64).c_str());
    for (int k = 0; k < 64; k += (h % 3 == 0 ? 1 : 5)) { fprintf(out, "{\"f\":\"bucket\",\"impl\":\"%s\",\"h\":%s,\"k\":%d,\"y\":%s}\n", impl, limbs(h, 64).c_str(), k, limbs(p.bn((size_t)h, (size_t)k), 64).c_str()); }
    if (h) fprintf(out, "{\"f\":\"parent\",\"impl\":\"%s\",\"h\":%s,\"y\":%s}\n", impl, limbs(h, 64).c_str(), limbs(ProbeHP<BR>::pb((size_t)h), 64).c_str()); } }
static void rec_splitorder(uint64_t seed, long nrand, long stride) {
  std::vector<uint64_t> all = inputs<uint64_t>(seed, nrand), hs; for (size_t i = 0; i < all.size(); ++i) if (i < 2 || (long)(i % stride) == (long)(seed % stride)) hs.push_back(all[i]);
  cds::Initialize(); { cds::gc::HP hp(8, 4, 64); RCUI rcu; cds::threading::Manager::attachThread();
    rec_so_impl<cds::algo::bit_reversal::lookup>("hp.lookup", hs); rec_so_impl<cds::algo::bit_reversal::swar>("hp.swar", hs); rec_so_impl<cds::algo::bit_reversal::muldiv>("hp.muldiv", hs);
    { ProbeNG p; for (uint64_t h : hs) { for (int k = 0; k < 64; k += 7) fprintf(out, "{\"f\":\"bucket\",\"impl\":\"nogc\",\"h\":%s,\"k\":%d,\"y\":%s}\n", limbs(h, 64).c_str(), k, limbs(p.bn((size_t)h, (size_t)k), 64).c_str());
        if (h) fprintf(out, "{\"f\":\"parent\",\"impl\":\"nogc\",\"h\":%s,\"y\":%s}\n", limbs(h, 64).c_str(), limbs(ProbeNG::pb((size_t)h), 64).c_str()); } }
    { { ProbeRCU p; for (uint64_t h : hs) { for (int k = 0; k < 64; k += 7) fprintf(out, "{\"f\":\"bucket\",\"impl\":\"rcu\",\"h\":%s,\"k\":%d,\"y\":%s}\n", limbs(h, 64).c_str(), k, limbs(p.bn((size_t)h, (size_t)k), 64).c_str());
        if (h) fprintf(out, "{\"f\":\"parent\",\"impl\":\"rcu\",\"h\":%s,\"y\":%s}\n", limbs(h, 64).c_str(), limbs(ProbeRCU::pb((size_t)h), 64).c_str()); } } }
    cds::threading::Manager::detachThread();
  } cds::Terminate(); }
// ---- C28: Feldman metrics for all configurations ---------------------------------------------------------------------------
static void rec_feldman() {
  const size_t sizes[] = {1, 2, 4, 8};
  for (size_t hs : sizes) for (size_t hb = 0; hb <= hs * 8; ++hb) for (size_t ab = 0; ab <= 16; ++ab) {
    auto m = ci::feldman_hashset::details::metrics::make(hb, ab, hs);
    fprintf(out, "{\"f\":\"metrics\",\"hs\":%zu,\"hb\":%zu,\"ab\":%zu,\"hlog\":%zu,\"alog\":%zu,\"hsize\":%s,\"asize\":%s}\n", hs, hb, ab, m.head_node_size_log, m.array_node_size_log, limbs(m.head_node_size_log < 64 ? m.head_node_size : 0, 64).c_str(), limbs(m.array_node_size, 64).c_str()); } }
int main(int argc, char** argv) {
  std::string mode = argc > 1 ? argv[1] : ""; uint64_t seed = argc > 2 ? strtoull(argv[2], 0, 10) : 1; long n = argc > 3 ? atol(argv[3]) : 1000;
  if (argc > 4) out = fopen(argv[4], "w");
  if (mode == "bitops") { rec_bytes(); rec_bitops<uint32_t>(seed, n); rec_bitops<uint64_t>(seed + 3, n); rec_generic(seed + 5, n); rec_intalgo(seed + 9, n); }
  else if (mode == "split") { rec_splitters_for<uint8_t>(seed, n / 4 + 1, "8"); rec_splitters_for<uint16_t>(seed + 1, n / 4 + 1, "16"); rec_splitters_for<uint32_t>(seed + 2, n, "32"); rec_splitters_for<uint64_t>(seed + 3, n, "64"); }
  else if (mode == "sweep32") { sweep32(argc > 5 ? argv[5] : "", (uint64_t)n, seed); }
  else if (mode == "counter") { rec_counter(seed, n, argc > 5 ? atol(argv[5]) : 70000); }
  else if (mode == "splitorder") { rec_splitorder(seed, n, argc > 5 ? atol(argv[5]) : 1); }
  else if (mode == "feldman") { rec_feldman(); }
  else { fprintf(stderr, "unknown mode\n"); return 2; }
  if (out != stdout) fclose(out); return 0; }
