// set_lock.cpp -- driver for C16 (CuckooSet, StripedSet: linearizable across concurrent resizes) and C17 (resize keeps the
// contents for any hash functions): tiny initial capacities and thresholds so that resizes interleave with every operation
#include <cstring>
#include "setad.h"
#include <cds/container/cuckoo_set.h>
#include <cds/container/striped_set/std_list.h>
#include <cds/container/striped_set/std_vector.h>
#include <cds/container/striped_set/std_set.h>
#include <cds/container/striped_set/std_hash_set.h>
#include <cds/container/striped_set/boost_list.h>
#include <cds/container/striped_set/boost_flat_set.h>
#include <cds/container/striped_set.h>
#include <mutex>
using namespace drv;
namespace cc = cds::container;
static CdsInit s_init;
bool drv::g_cs_points = true;
// table-driven hash functions: mode 0: (k, k/2), 1: constant pair, 2: (k%2, k%3), 3: from the table set by "--extra" programs (seth op)
static int g_hash_mode = 0; static int g_h1[64], g_h2[64];
size_t drv::item_hash::hash_of(int k) { switch (g_hash_mode) { case 1: return 1; case 2: return (size_t)(k % 2); case 3: return (size_t)g_h1[k & 63]; default: return (size_t)k; } }
struct hash2 { size_t operator()(Item const& i) const { return h(i.key); } size_t operator()(int k) const { return h(k); }
  static size_t h(int k) { switch (g_hash_mode) { case 1: return 3; case 2: return (size_t)(k % 3); case 3: return (size_t)g_h2[k & 63]; default: return (size_t)(k / 2 + 1); } } };
struct item_eq { template <class A, class B> bool operator()(A const& a, B const& b) const { cs_point(); return item_less::kof(a) == item_less::kof(b); } };
typedef cds::sync::spin_lock<cds::backoff::yield> spin_t;
// Attribution of lost elements (programs whose init section contains the op "audit", single-threaded): after every operation and at
// the start of every resize() the driver probes all keys; a key that vanished without being erased is logged as
//   x lost(key, cause)   cause 1: vanished during an operation that resized, after resize() had started (finding 7.4)
//                        cause 2: already gone when resize() started (lost by the relocation before it)
//                        cause 4: vanished in an operation that did not resize
// The oracle ignores these events; they only refine the signature under which a rejected history is reported.
static std::function<void(int)> g_audit; static int g_op_flags = 0;
struct ck_stat : public cds::intrusive::cuckoo::empty_stat { void onResizeCall() const { if (g_audit) g_audit((g_op_flags & 1) ? 1 : 2); g_op_flags |= 1;   /* a second resize of the same operation: what is missing now was lost by the first one */ if (g_audit) xev("resize"); } };   // audited runs: the resize is visible in the history (ignored by the oracle)
template <class MP, class PS, unsigned SH, bool ORD> struct ck_t : public cc::cuckoo::traits { typedef ck_stat stat; typedef cds::opt::hash_tuple<item_hash, hash2> hash; typedef MP mutex_policy; typedef PS probeset_type; static unsigned int const store_hash = SH;
  typedef typename std::conditional<ORD, item_less, cds::opt::none>::type less; typedef typename std::conditional<ORD, cds::opt::none, item_eq>::type equal_to; typedef cds::atomicity::item_counter item_counter; };
template <class S, class... A> static void lock_set(const Program& P, int hm, A... a) { g_hash_mode = hm;
  for (auto& o : P.init) if (o.name == "seth") { g_h1[o.arg(0) & 63] = (int)o.arg(1); g_h2[o.arg(0) & 63] = (int)o.arg(2); }
  bool audit = false; for (auto& o : P.init) if (o.name == "audit") audit = true;
  Smr<cds::gc::HP> smr(1, P.threads.size() + 1); { S s(a...); LockSetAd<S> ad(s);
    bool was[64] = {false}; int removing = -1;
    if (audit && P.threads.size() <= 1) {
      g_audit = [&](int cause) { for (int k = 1; k < 64; ++k) if (was[k] && k != removing && !ad.find(k)) { xev("lost", k, cause); was[k] = false; } };
      after_op_hook() = [&](const Op& o) { removing = (o.name == "era" || o.name == "eraf") ? (int)o.arg(0) : -1; if (o.name == "clear") for (int k = 0; k < 64; ++k) was[k] = false;
        g_audit((g_op_flags & 1) ? 1 : 4);
        // the key of an insert-like operation must be present afterwards (insert fails only if the key exists): the element being inserted can be the one that is lost
        if (o.name == "ins" || o.name == "emp" || o.name == "insf" || o.name == "upd1") { int k = (int)o.arg(0); if (k > 0 && k < 64 && !ad.find(k)) xev("lost", k, (g_op_flags & 1) ? 1 : 4); }
        for (int k = 1; k < 64; ++k) was[k] = ad.find(k); g_op_flags = 0; removing = -1; }; }
    run_set_program(P, ad, attach, detach); g_audit = nullptr; after_op_hook() = nullptr; } }
typedef cc::CuckooSet<Item, ck_t<cc::cuckoo::striping<std::recursive_mutex, 2>, cc::cuckoo::list, 0, false>> CK_ST_L; typedef cc::CuckooSet<Item, ck_t<cc::cuckoo::refinable<std::recursive_mutex, 2>, cc::cuckoo::list, 0, true>> CK_RF_L;
typedef cc::CuckooSet<Item, ck_t<cc::cuckoo::striping<std::recursive_mutex, 2>, cc::cuckoo::vector<2>, 2, false>> CK_ST_V; typedef cc::CuckooSet<Item, ck_t<cc::cuckoo::refinable<std::recursive_mutex, 2>, cc::cuckoo::vector<2>, 2, true>> CK_RF_V;
// (initial size, probe-set size, probe-set threshold)
DRV_VARIANT(v_ck_st_l, "cuckoo_striping_list_h0") { lock_set<CK_ST_L>(P, 0, 2, 2, 1); }
DRV_VARIANT(v_ck_rf_l, "cuckoo_refinable_list_h2") { lock_set<CK_RF_L>(P, 2, 2, 2, 1); }
DRV_VARIANT(v_ck_st_v, "cuckoo_striping_vector_h2") { lock_set<CK_ST_V>(P, 2, 2, 2); }
DRV_VARIANT(v_ck_rf_v, "cuckoo_refinable_vector_h0") { lock_set<CK_RF_V>(P, 0, 2, 2); }
DRV_VARIANT(v_ck_rf_l3, "cuckoo_refinable_list_h3") { lock_set<CK_RF_L>(P, 3, 2, 2, 1); }
DRV_VARIANT(v_ck_st_l3, "cuckoo_striping_list_h3") { lock_set<CK_ST_L>(P, 3, 2, 2, 1); }
DRV_VARIANT(v_ck_st_l34, "cuckoo_striping_list4_h3") { lock_set<CK_ST_L>(P, 3, 2, 4, 2); }
// StripedSet: striping / refinable mutex policies x bucket containers; load factor 1 or bucket threshold 2, initial capacity 2
struct copy_list { template <class C, class It> void operator()(C& l, It itInsert, It itWhat) { l.insert(itInsert, *itWhat); } };
template <class C, class MP, class RP> struct SS { typedef cc::StripedSet<C, cds::opt::hash<item_hash>, cds::opt::less<item_less>, cds::opt::mutex_policy<MP>, cds::opt::resizing_policy<RP>> type; };
typedef cc::striped_set::striping<spin_t> st_spin; typedef cc::striped_set::refinable<std::recursive_mutex> rf_mtx; typedef cc::striped_set::striping<std::mutex> st_mtx; typedef cc::striped_set::refinable<cds::sync::reentrant_spin_lock<uint32_t, cds::backoff::yield>> rf_spin;
typedef cc::striped_set::load_factor_resizing<1> lf1; typedef cc::striped_set::single_bucket_size_threshold<2> sb2;
DRV_VARIANT(v_ss_list_st, "striped_stdlist_striping_lf1_h0") { lock_set<SS<std::list<Item>, st_spin, lf1>::type>(P, 0, 2); }
DRV_VARIANT(v_ss_list_rf, "striped_stdlist_refinable_sb2_h2") { lock_set<SS<std::list<Item>, rf_mtx, sb2>::type>(P, 2, 2); }
DRV_VARIANT(v_ss_vec_rf, "striped_stdvector_refinable_lf1_h0") { lock_set<SS<std::vector<Item>, rf_spin, lf1>::type>(P, 0, 2); }
DRV_VARIANT(v_ss_set_st, "striped_stdset_striping_sb2_h2") { lock_set<SS<std::set<Item, item_less>, st_mtx, sb2>::type>(P, 2, 2); }
DRV_VARIANT(v_ss_uset_rf, "striped_stdunorderedset_refinable_lf1_h0") { lock_set<SS<std::unordered_set<Item, item_hash, item_eq>, rf_mtx, lf1>::type>(P, 0, 2); }
DRV_VARIANT(v_ss_blist_rf, "striped_boostlist_refinable_lf1_h1") { lock_set<SS<boost::container::list<Item>, rf_mtx, lf1>::type>(P, 1, 2); }
DRV_VARIANT(v_ss_bflat_st, "striped_boostflatset_striping_lf1_h0") { lock_set<SS<boost::container::flat_set<Item, item_less>, st_spin, lf1>::type>(P, 0, 2); }
DRV_VARIANT(v_ss_list_rf3, "striped_stdlist_refinable_lf1_h3") { lock_set<SS<std::list<Item>, rf_mtx, lf1>::type>(P, 3, 2); }
DRV_VARIANT(v_ss_vec_st3, "striped_stdvector_striping_sb2_h3") { lock_set<SS<std::vector<Item>, st_spin, sb2>::type>(P, 3, 2); }
DRV_VARIANT(v_ss_set_rf3, "striped_stdset_refinable_lf1_h3") { lock_set<SS<std::set<Item, item_less>, rf_mtx, lf1>::type>(P, 3, 1); }
