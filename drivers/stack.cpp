// stack.cpp -- drivers for C09 (Treiber stack with/without elimination, FCStack) and C10 (FCDeque)
// ops: push:v | pop | empty | drain ; deque: pushf:v pushb:v popf popb drainf drainb
#include "common.h"
#include <cds/container/treiber_stack.h>
#include <cds/intrusive/treiber_stack.h>
#include <cds/container/fcstack.h>
#include <cds/container/fcdeque.h>
#include <boost/container/deque.hpp>
#include <stack>
#include <deque>
#include <list>
#include <vector>
using namespace drv;
namespace cc = cds::container; namespace ci = cds::intrusive;
static CdsInit s_init;
static unsigned g_rand_val = 0;
struct det_rand { typedef unsigned result_type; result_type operator()() { return g_rand_val; } static constexpr result_type min() { return 0; } static constexpr result_type max() { return 0xffffffffu; } };

template <class Ad> static void run_stack_program(const Program& P, Ad& ad, bool threads_attach) {
  auto doop = [&](const Op& o) {
    if (o.name == "push") { inv("push", o.arg(0)); bool r = ad.push((int)o.arg(0)); ret(r); }
    else if (o.name == "pop") { inv("pop"); int v = 0; bool r = ad.pop(v); ret(r, r ? v : 0); }
    else if (o.name == "empty") { inv("empty"); bool r = ad.empty(); ret(r); }
    else if (o.name == "drain") { for (;;) { inv("pop"); int v = 0; bool r = ad.pop(v); ret(r, r ? v : 0); if (!r) break; } } };
  for (auto& o : P.init) doop(o);
  run_threads(P, doop, threads_attach ? std::function<void()>(attach) : nullptr, threads_attach ? std::function<void()>(detach) : nullptr);
  for (auto& o : P.fini) doop(o); }
template <class S> struct ValStackAd { S& s; ValStackAd(S& s_) : s(s_) {}
  bool push(int v) { return s.push(Val(v)); } bool pop(int& v) { Val x; bool ok = s.pop(x); if (ok) v = x.v; return ok; } bool empty() { return s.empty(); } };

struct ts_t : public cc::treiber_stack::traits { typedef drv::qallocator<int> allocator; typedef cds::backoff::yield back_off; };
struct ts_ic_t : public ts_t { typedef cds::atomicity::item_counter item_counter; typedef cds::opt::v::sequential_consistent memory_model; };
template <size_t N> struct ts_el_t : public ts_t { static constexpr const bool enable_elimination = true; typedef cds::opt::v::initialized_static_buffer<int, N> buffer; typedef det_rand random_engine;
  typedef cds::sync::spin_lock<cds::backoff::yield> lock_type; };
struct ts_eld_t : public ts_t { static constexpr const bool enable_elimination = true; typedef cds::opt::v::initialized_dynamic_buffer<int> buffer; typedef det_rand random_engine; typedef cds::sync::spin_lock<cds::backoff::yield> lock_type; };
template <class GC, class S> static void gc_stack(const Program& P) { g_rand_val = 0; Smr<GC> smr(2, P.threads.size() + 1); { S s; ValStackAd<S> ad(s); run_stack_program(P, ad, true); } }
template <class GC, class S> static void gc_stack_dyn(const Program& P, size_t cap) { g_rand_val = 0; Smr<GC> smr(2, P.threads.size() + 1); { S s(cap); ValStackAd<S> ad(s); run_stack_program(P, ad, true); } }
DRV_VARIANT(v_ts_hp, "treiber_hp") { gc_stack<cds::gc::HP, cc::TreiberStack<cds::gc::HP, Val, ts_t>>(P); }
DRV_VARIANT(v_ts_dhp, "treiber_dhp") { gc_stack<cds::gc::DHP, cc::TreiberStack<cds::gc::DHP, Val, ts_ic_t>>(P); }
DRV_VARIANT(v_ts_el1, "treiber_hp_elim1") { gc_stack<cds::gc::HP, cc::TreiberStack<cds::gc::HP, Val, ts_el_t<1>>>(P); }
DRV_VARIANT(v_ts_el2, "treiber_hp_elim2") { gc_stack<cds::gc::HP, cc::TreiberStack<cds::gc::HP, Val, ts_el_t<2>>>(P); }
DRV_VARIANT(v_ts_el4, "treiber_dhp_elim4") { gc_stack<cds::gc::DHP, cc::TreiberStack<cds::gc::DHP, Val, ts_el_t<4>>>(P); }
DRV_VARIANT(v_ts_eld, "treiber_hp_elimdyn2") { gc_stack_dyn<cds::gc::HP, cc::TreiberStack<cds::gc::HP, Val, ts_eld_t>>(P, 2); }

// intrusive Treiber
template <class Node> struct Arena { std::vector<Node*> items; ~Arena() { for (auto p : items) delete p; }
  Node* make(int v) { Node* n = new Node; n->v = v; items.push_back(n); vs::mem_register(n, sizeof(Node), v); return n; } };
struct mark_disposer { template <class T> void operator()(T* p) { if (vs::mem_state(p) == 2) vs::report_uad(p, 97); vs::mem_dispose(p); xev("dispose", p->v); } };
template <class GC> struct its_node : public ci::treiber_stack::node<GC> { int v; };
template <class GC> struct its_t : public ci::treiber_stack::traits { typedef ci::treiber_stack::base_hook<cds::opt::gc<GC>> hook; typedef cds::backoff::yield back_off; typedef mark_disposer disposer; };
template <class GC> struct its_el_t : public its_t<GC> { static constexpr const bool enable_elimination = true; typedef cds::opt::v::initialized_static_buffer<int, 1> buffer; typedef det_rand random_engine; typedef cds::sync::spin_lock<cds::backoff::yield> lock_type; };
template <class S, class Node> struct IntrStackAd { S& s; Arena<Node>& ar; IntrStackAd(S& s_, Arena<Node>& a) : s(s_), ar(a) {}
  bool push(int v) { return s.push(*ar.make(v)); }
  bool pop(int& v) { Node* p = s.pop(); if (!p) return false; v = p->v; return true; } bool empty() { return s.empty(); } };
template <class GC, class S, class Node> static void gc_intr_stack(const Program& P) { g_rand_val = 0; Arena<Node> ar; Smr<GC> smr(2, P.threads.size() + 1); { S s; IntrStackAd<S, Node> ad(s, ar); run_stack_program(P, ad, true); } }
DRV_VARIANT(v_its_hp, "intr_treiber_hp") { gc_intr_stack<cds::gc::HP, ci::TreiberStack<cds::gc::HP, its_node<cds::gc::HP>, its_t<cds::gc::HP>>, its_node<cds::gc::HP>>(P); }
DRV_VARIANT(v_its_dhp_el, "intr_treiber_dhp_elim1") { gc_intr_stack<cds::gc::DHP, ci::TreiberStack<cds::gc::DHP, its_node<cds::gc::DHP>, its_el_t<cds::gc::DHP>>, its_node<cds::gc::DHP>>(P); }

// FCStack
struct fcs_t : public cc::fcstack::traits { typedef cds::algo::flat_combining::wait_strategy::backoff<cds::backoff::yield> wait_strategy; typedef drv::qallocator<int> allocator; };
struct fcs_el_t : public fcs_t { static constexpr const bool enable_elimination = true; };
template <class S> static void fc_stack(const Program& P, unsigned compact, unsigned pass) { Smr<cds::gc::HP> smr(1, P.threads.size() + 1); { S s(compact, pass); ValStackAd<S> ad(s); run_stack_program(P, ad, true); } }
DRV_VARIANT(v_fcs, "fcstack") { fc_stack<cc::FCStack<Val, std::stack<Val>, fcs_t>>(P, 1024, 8); }
DRV_VARIANT(v_fcs_el, "fcstack_elim") { fc_stack<cc::FCStack<Val, std::stack<Val>, fcs_el_t>>(P, 1024, 2); }
DRV_VARIANT(v_fcs_vec, "fcstack_vector_elim") { fc_stack<cc::FCStack<Val, std::stack<Val, std::vector<Val>>, fcs_el_t>>(P, 1024, 1); }

// ---- C10: FCDeque ---------------------------------------------------------------------------------------------------
struct fcd_t : public cc::fcdeque::traits { typedef cds::algo::flat_combining::wait_strategy::backoff<cds::backoff::yield> wait_strategy; typedef drv::qallocator<int> allocator; };
struct fcd_el_t : public fcd_t { static constexpr const bool enable_elimination = true; };
template <class D> static void fc_deque(const Program& P, unsigned compact, unsigned pass) {
  Smr<cds::gc::HP> smr(1, P.threads.size() + 1);
  { D d(compact, pass);
    auto doop = [&](const Op& o) {
      if (o.name == "pushf") { inv("pushf", o.arg(0)); bool r = d.push_front(Val((int)o.arg(0))); ret(r); }
      else if (o.name == "pushb") { inv("pushb", o.arg(0)); bool r = d.push_back(Val((int)o.arg(0))); ret(r); }
      else if (o.name == "popf") { inv("popf"); Val x; bool r = d.pop_front(x); ret(r, r ? x.v : 0); }
      else if (o.name == "popb") { inv("popb"); Val x; bool r = d.pop_back(x); ret(r, r ? x.v : 0); }
      else if (o.name == "empty") { inv("empty"); bool r = d.empty(); ret(r); }
      else if (o.name == "drainf") { for (;;) { inv("popf"); Val x; bool r = d.pop_front(x); ret(r, r ? x.v : 0); if (!r) break; } }
      else if (o.name == "drainb") { for (;;) { inv("popb"); Val x; bool r = d.pop_back(x); ret(r, r ? x.v : 0); if (!r) break; } } };
    for (auto& o : P.init) doop(o);
    run_threads(P, doop, attach, detach);
    for (auto& o : P.fini) doop(o); } }
DRV_VARIANT(v_fcd, "fcdeque") { fc_deque<cc::FCDeque<Val, std::deque<Val>, fcd_t>>(P, 1024, 8); }
DRV_VARIANT(v_fcd_el1, "fcdeque_elim_pass1") { fc_deque<cc::FCDeque<Val, std::deque<Val>, fcd_el_t>>(P, 1024, 1); }
DRV_VARIANT(v_fcd_el2, "fcdeque_elim_pass2") { fc_deque<cc::FCDeque<Val, std::deque<Val>, fcd_el_t>>(P, 1024, 2); }
DRV_VARIANT(v_fcd_el4, "fcdeque_elim_pass4") { fc_deque<cc::FCDeque<Val, std::deque<Val>, fcd_el_t>>(P, 1024, 4); }
DRV_VARIANT(v_fcd_boost, "fcdeque_boost_elim") { fc_deque<cc::FCDeque<Val, boost::container::deque<Val>, fcd_el_t>>(P, 1024, 3); }
