// set_list.cpp -- driver for C13 (ordered lists as sets/maps), with quiescent traversal for C18
#include "setad.h"
#include <cds/urcu/general_buffered.h>
#include <cds/container/michael_list_hp.h>
#include <cds/container/michael_list_dhp.h>
#include <cds/container/michael_list_rcu.h>
#include <cds/container/michael_list_nogc.h>
#include <cds/container/lazy_list_hp.h>
#include <cds/container/lazy_list_dhp.h>
#include <cds/container/lazy_list_rcu.h>
#include <cds/container/lazy_list_nogc.h>
#include <cds/container/iterable_list_hp.h>
#include <cds/container/iterable_list_dhp.h>
using namespace drv;
namespace cc = cds::container;
static CdsInit s_init;
bool drv::g_cs_points = false;
size_t drv::item_hash::hash_of(int k) { return (size_t)k; }
typedef cds::urcu::gc<cds::urcu::general_buffered<cds::urcu::general_buffered<>::buffer_type, std::mutex, cds::backoff::yield>> RCU;
struct RcuFix { RCU rcu; RcuFix() : rcu(2) { attach(); } ~RcuFix() { detach(); } };

struct ml_less_t : public cc::michael_list::traits { typedef drv::qallocator<int> allocator; typedef cds::backoff::yield back_off; typedef item_less less; typedef cds::atomicity::item_counter item_counter; };
struct ml_cmp_t : public cc::michael_list::traits { typedef drv::qallocator<int> allocator; typedef cds::backoff::yield back_off; typedef item_cmp compare; };
struct ll_less_t : public cc::lazy_list::traits { typedef drv::qallocator<int> allocator; typedef cds::backoff::yield back_off; typedef item_less less; typedef cds::atomicity::item_counter item_counter; typedef cds::sync::spin_lock<cds::backoff::yield> lock_type; };
struct ll_cmp_t : public cc::lazy_list::traits { typedef drv::qallocator<int> allocator; typedef cds::backoff::yield back_off; typedef item_cmp compare; typedef cds::sync::spin_lock<cds::backoff::yield> lock_type; };
struct il_less_t : public cc::iterable_list::traits { typedef drv::qallocator<int> allocator; typedef cds::backoff::yield back_off; typedef item_less less; typedef cds::atomicity::item_counter item_counter; };
struct il_cmp_t : public cc::iterable_list::traits { typedef drv::qallocator<int> allocator; typedef cds::backoff::yield back_off; typedef item_cmp compare; };

template <class GC, class S, class Ad> static void gc_set(const Program& P, size_t nHazard) { Smr<GC> smr(nHazard, P.threads.size() + 1); { S s; Ad ad(s); run_set_program(P, ad, attach, detach); } }
template <class S, class Ad> static void rcu_set(const Program& P) { RcuFix f; { S s; Ad ad(s); run_set_program(P, ad, attach, detach); } }
template <class S, class Ad> static void plain_set(const Program& P) { S s; Ad ad(s); run_set_program(P, ad); }
typedef cds::gc::HP HP; typedef cds::gc::DHP DHP;
typedef cc::MichaelList<HP, Item, ml_less_t> ML_HP; typedef cc::MichaelList<DHP, Item, ml_cmp_t> ML_DHP; typedef cc::MichaelList<RCU, Item, ml_less_t> ML_RCU; typedef cc::MichaelList<cds::gc::nogc, Item, ml_less_t> ML_NG;
typedef cc::LazyList<HP, Item, ll_less_t> LL_HP; typedef cc::LazyList<DHP, Item, ll_cmp_t> LL_DHP; typedef cc::LazyList<RCU, Item, ll_less_t> LL_RCU; typedef cc::LazyList<cds::gc::nogc, Item, ll_less_t> LL_NG;
typedef cc::IterableList<HP, Item, il_less_t> IL_HP; typedef cc::IterableList<DHP, Item, il_cmp_t> IL_DHP;
DRV_VARIANT(v_ml_hp, "michaellist_hp") { gc_set<HP, ML_HP, GcSetAd<ML_HP>>(P, 4); }
DRV_VARIANT(v_ml_dhp, "michaellist_dhp") { gc_set<DHP, ML_DHP, GcSetAd<ML_DHP>>(P, 4); }
DRV_VARIANT(v_ml_rcu, "michaellist_rcu") { rcu_set<ML_RCU, RcuSetAd<ML_RCU, RCU>>(P); }
DRV_VARIANT(v_ml_ng, "michaellist_nogc") { plain_set<ML_NG, NogcSetAd<ML_NG>>(P); }
DRV_VARIANT(v_ll_hp, "lazylist_hp") { gc_set<HP, LL_HP, GcSetAd<LL_HP>>(P, 4); }
DRV_VARIANT(v_ll_dhp, "lazylist_dhp") { gc_set<DHP, LL_DHP, GcSetAd<LL_DHP>>(P, 4); }
DRV_VARIANT(v_ll_rcu, "lazylist_rcu") { rcu_set<LL_RCU, RcuSetAd<LL_RCU, RCU, 0, 0, true>>(P); }
DRV_VARIANT(v_ll_ng, "lazylist_nogc") { plain_set<LL_NG, NogcSetAd<LL_NG>>(P); }
DRV_VARIANT(v_il_hp, "iterablelist_hp") { gc_set<HP, IL_HP, IterSetAd<IL_HP>>(P, 6); }
DRV_VARIANT(v_il_dhp, "iterablelist_dhp") { gc_set<DHP, IL_DHP, IterSetAd<IL_DHP>>(P, 6); }
