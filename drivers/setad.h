// setad.h -- adapters from libcds set/map variants to the uniform interface of setdrv.h
#pragma once
#include "setdrv.h"
namespace drv {
inline void chk_live(const void* p) { if (p && vs::mem_state(p) == 2) vs::report_uad(p, 96); }
template <class P> inline void rp_release(P& p) { p.release(); }
template <class T> inline void rp_release(T*&) {}
template <bool MM> struct MinMaxHelp { template <class S> static bool mn(S&, int&) { return false; } template <class S> static bool mx(S&, int&) { return false; } };
template <> struct MinMaxHelp<true> {
  template <class S> static bool mn(S& s, int& id) { auto p = s.extract_min(); if (!p) return false; chk_live(&*p); id = p->id; return true; }
  template <class S> static bool mx(S& s, int& id) { auto p = s.extract_max(); if (!p) return false; chk_live(&*p); id = p->id; return true; } };
template <bool T> struct TravHelp { template <class S, class F> static void go(S&, F) {} };
template <> struct TravHelp<true> { template <class S, class F> static void go(S& s, F f) { for (auto it = s.begin(); it != s.end(); ++it) f(it->key, it->id); } };
// G1: value-based set over HP / DHP (lists, MichaelHashSet, SplitListSet, SkipListSet, EllenBinTreeSet)
template <class S, unsigned EXTRA = 0, unsigned LESS = 0> struct GcSetAd {
  S& s; GcSetAd(S& s_) : s(s_) {}
  static unsigned size_cap() { return std::is_same<typename S::item_counter, cds::atomicity::empty_item_counter>::value ? 0u : (unsigned)C_SIZE; }
  unsigned caps() const { return (C_INSF | C_UPD | C_ERA | C_ERAF | C_EXT | C_GET | C_FINDF | C_EMP | C_TRAV | size_cap() | C_CLEAR | EXTRA) & ~LESS; }
  bool ins(int k, int id) { return s.insert(Item(k, id)); }
  bool emp(int k, int id) { return s.emplace(k, id); }
  bool insf(int k, int id, int& calls) { return s.insert(Item(k, id), [&](Item&) { ++calls; }); }
  int upd(int k, int id, bool allow, int& seen) { auto r = s.update(Item(k, id), [&](bool bNew, Item& item, Item const&) { if (!bNew) seen = item.id; }, allow); return r.first ? (r.second ? 3 : 2) : 0; }
  bool era(int k) { return s.erase(k); }
  bool eraf(int k, int& seen) { return s.erase(k, [&](Item const& it) { seen = it.id; }); }
  bool ext(int k, int& seen) { auto gp = s.extract(k); if (!gp) return false; chk_live(&*gp); seen = gp->id; return true; }
  bool get(int k, int& seen) { auto gp = s.get(k); if (!gp) return false; chk_live(&*gp); seen = gp->id; return true; }
  bool find(int k) { return s.contains(k); }
  bool findf(int k, int& seen) { return s.find(k, [&](Item& it, int const&) { seen = it.id; }); }
  bool extmin(int& id) { return MinMaxHelp<(EXTRA & C_MINMAX) != 0>::mn(s, id); }
  bool extmax(int& id) { return MinMaxHelp<(EXTRA & C_MINMAX) != 0>::mx(s, id); }
  bool unl(int, int) { return false; }
  size_t size() { return s.size(); } bool empty() { return s.empty(); } void clear() { s.clear(); }
  template <class F> void traverse(F f) { TravHelp<(LESS & C_TRAV) == 0>::go(s, f); }
  template <class F> void iterate(bool, F) {} template <class F, class R, class I> void iterate(bool, F, R, I) {}
  bool consistent() { return true; }
};
// G2: the same containers over RCU: extract -> exempt_ptr (outside the lock), get -> raw_ptr / pointer (inside the lock)
// EXT_LOCKED: the container's extract() must be called with the RCU lock held (LazyList and what is built on it)
template <class S, class RCU, unsigned EXTRA = 0, unsigned LESS = 0, bool EXT_LOCKED = false> struct RcuSetAd : public GcSetAd<S, EXTRA, LESS> {
  typedef GcSetAd<S, EXTRA, LESS> base; using base::s; RcuSetAd(S& s_) : base(s_) {}
  bool ext(int k, int& seen) { typename S::exempt_ptr ep; if (EXT_LOCKED) { typename RCU::scoped_lock l; ep = s.extract(k); } else ep = s.extract(k);
    if (!ep) return false; chk_live(&*ep); seen = ep->id; ep.release(); return true; }
  bool get(int k, int& seen) { bool r = false; decltype(s.get(k)) rp = decltype(s.get(k))(); { typename RCU::scoped_lock l; rp = s.get(k); if (rp) { chk_live(&*rp); seen = rp->id; r = true; } } rp_release(rp); return r; }
};
// G3: iterable family: update replaces the element (functor sees the old one), upsert, thread-safe iterators
template <class S, unsigned EXTRA = 0, unsigned LESS = 0> struct IterSetAd : public GcSetAd<S, EXTRA, LESS> {
  typedef GcSetAd<S, EXTRA, LESS> base; using base::s; IterSetAd(S& s_) : base(s_) {}
  // documented: emptiness of the iterable family is decided by the item counter, so empty() is meaningful only with a real counter
  unsigned caps() const { return base::caps() | (base::size_cap() ? 0u : (unsigned)C_NOEMPTY) | C_ITER; }
  // f(key, id, element address) returns true to stop at this element; if it stops and on_erase is given, erase_at( it ) is called
  template <class F> void iterate(bool, F f) { for (auto it = s.begin(); it != s.end(); ++it) if (f(it->key, it->id, &*it)) break; }
  template <class F, class R, class I> void iterate(bool, F f, R on_result, I on_inv) { for (auto it = s.begin(); it != s.end(); ++it) if (f(it->key, it->id, &*it)) { on_inv(it->id); on_result(s.erase_at(it)); break; } }
  int upd(int k, int id, bool allow, int& seen) { auto r = s.update(Item(k, id), [&](Item&, Item* old) { if (old) seen = old->id; }, allow); return r.first ? (r.second ? 3 : 2) : 0; }
};
// G7: insert-only nogc variants
template <class S> struct NogcSetAd {
  S& s; NogcSetAd(S& s_) : s(s_) {}
  unsigned caps() const { return C_UPD | C_FINDF | C_EMP | C_TRAV | (std::is_same<typename S::item_counter, cds::atomicity::empty_item_counter>::value ? 0u : (unsigned)C_SIZE); }
  bool ins(int k, int id) { return s.insert(Item(k, id)) != s.end(); }
  bool emp(int k, int id) { return s.emplace(k, id) != s.end(); }
  bool insf(int, int, int&) { return false; }
  int upd(int k, int id, bool allow, int& seen) { bool had = s.contains(k) != s.end(); auto r = s.update(Item(k, id), allow); if (r.first == s.end()) return 0; if (!r.second) seen = r.first->id; (void)had; return r.second ? 3 : 2; }
  bool era(int) { return false; } bool eraf(int, int&) { return false; } bool ext(int, int&) { return false; } bool get(int, int&) { return false; } bool unl(int, int) { return false; }
  template <class F> void iterate(bool, F) {} template <class F, class R, class I> void iterate(bool, F, R, I) {}
  bool find(int k) { return s.contains(k) != s.end(); }
  bool findf(int k, int& seen) { auto it = s.contains(k); if (it == s.end()) return false; seen = it->id; return true; }
  bool extmin(int&) { return false; } bool extmax(int&) { return false; }
  size_t size() { return s.size(); } bool empty() { return s.empty(); } void clear() {}
  template <class F> void traverse(F f) { for (auto it = s.begin(); it != s.end(); ++it) f(it->key, it->id); }
  bool consistent() { return true; }
};
}
namespace drv {
// G4: FeldmanHashSet: elements addressed by their hash (here: a table-driven function of the key)
struct FItem { size_t hash; int key; int id; FItem() : hash(0), key(0), id(0) {} FItem(size_t h, int k, int i) : hash(h), key(k), id(i) {}
  FItem(const FItem& o) : hash(o.hash), key(o.key), id(o.id) { if (o.id == DEAD) vs::report_uad(&o, 98); } ~FItem() { id = DEAD; } };
struct fitem_accessor { size_t const& operator()(FItem const& v) const { return v.hash; } };
template <class S, bool RCUV = false, class RCU = void> struct FeldmanAd {
  S& s; FeldmanAd(S& s_) : s(s_) {}
  static size_t hf(int k) { return item_hash::hash_of(k); }
  unsigned caps() const { return C_INSF | C_UPD | C_ERA | C_ERAF | C_EXT | C_GET | C_FINDF | C_EMP | C_TRAV | C_CLEAR | (RCUV ? 0u : (unsigned)(C_ITER | C_RITER)) | (std::is_same<typename S::item_counter, cds::atomicity::empty_item_counter>::value ? 0u : (unsigned)C_SIZE); }
  template <bool R, class F> typename std::enable_if<!R>::type iter_impl(bool rev, F f) { if (rev) { for (auto it = s.rbegin(); it != s.rend(); ++it) if (f(it->key, it->id, &*it)) break; } else { for (auto it = s.begin(); it != s.end(); ++it) if (f(it->key, it->id, &*it)) break; } }
  template <bool R, class F> typename std::enable_if<R>::type iter_impl(bool, F) {}
  template <class F> void iterate(bool rev, F f) { iter_impl<RCUV>(rev, f); if (getenv("FH_DEBUG")) { fprintf(stderr, "[dbg t%d size=%zu again:", t_id, s.size()); iter_impl<RCUV>(rev, [](int k, int, const void*) { fprintf(stderr, " %d", k); return false; }); fprintf(stderr, "]\n"); } }
  template <bool R, class F, class Rs, class I> typename std::enable_if<!R>::type iter_erase_impl(F f, Rs on_result, I on_inv) { for (auto it = s.begin(); it != s.end(); ++it) if (f(it->key, it->id, &*it)) { on_inv(it->id); on_result(s.erase_at(it)); break; } }
  template <bool R, class F, class Rs, class I> typename std::enable_if<R>::type iter_erase_impl(F, Rs, I) {}
  template <class F, class Rs, class I> void iterate(bool, F f, Rs on_result, I on_inv) { iter_erase_impl<RCUV>(f, on_result, on_inv); }
  bool ins(int k, int id) { return s.insert(FItem(hf(k), k, id)); }
  bool emp(int k, int id) { return s.emplace(hf(k), k, id); }
  bool insf(int k, int id, int& calls) { return s.insert(FItem(hf(k), k, id), [&](FItem&) { ++calls; }); }
  int upd(int k, int id, bool allow, int& seen) { auto r = s.update(FItem(hf(k), k, id), [&](FItem&, FItem* old) { if (old) seen = old->id; }, allow); return r.first ? (r.second ? 3 : 2) : 0; }
  bool era(int k) { return s.erase(hf(k)); }
  bool eraf(int k, int& seen) { return s.erase(hf(k), [&](FItem const& it) { seen = it.id; }); }
  bool ext(int k, int& seen) { auto gp = s.extract(hf(k)); if (!gp) return false; chk_live(&*gp); seen = gp->id; return true; }
  template <bool R> typename std::enable_if<!R, bool>::type get_impl(int k, int& seen) { auto gp = s.get(hf(k)); if (!gp) return false; chk_live(&*gp); seen = gp->id; return true; }
  template <bool R> typename std::enable_if<R, bool>::type get_impl(int k, int& seen) { typename RCU::scoped_lock l; auto* p = s.get(hf(k)); if (!p) return false; chk_live(p); seen = p->id; return true; }
  bool get(int k, int& seen) { return get_impl<RCUV>(k, seen); }
  bool find(int k) { return s.contains(hf(k)); }
  bool findf(int k, int& seen) { return s.find(hf(k), [&](FItem& it) { seen = it.id; }); }
  bool extmin(int&) { return false; } bool extmax(int&) { return false; } bool unl(int, int) { return false; }
  size_t size() { return s.size(); } bool empty() { return s.empty(); } void clear() { s.clear(); }
  template <bool R, class F> typename std::enable_if<!R>::type trav_impl(F f) { for (auto it = s.begin(); it != s.end(); ++it) f(it->key, it->id); }
  template <bool R, class F> typename std::enable_if<R>::type trav_impl(F f) { typename RCU::scoped_lock l; for (auto it = s.begin(); it != s.end(); ++it) f(it->key, it->id); }
  template <class F> void traverse(F f) { trav_impl<RCUV>(f); }
  bool consistent() { return true; }
};
}
namespace drv {
// G5: BronsonAVLTreeMap<RCU, int, MVal>
struct MVal { int id; MVal() : id(0) {} MVal(int i) : id(i) {} MVal(const MVal& o) : id(o.id) { if (o.id == DEAD) vs::report_uad(&o, 98); } ~MVal() { id = DEAD; } };
template <class S> struct BronsonAd {
  S& s; BronsonAd(S& s_) : s(s_) {}
  unsigned caps() const { return C_INSF | C_UPD | C_ERA | C_ERAF | C_EXT | C_FINDF | C_EMP | C_MINMAX | C_CHECK | C_CLEAR | (std::is_same<typename S::item_counter, cds::atomicity::empty_item_counter>::value ? 0u : (unsigned)C_SIZE); }
  bool ins(int k, int id) { return s.insert(k, MVal(id)); }
  bool emp(int k, int id) { return s.emplace(int(k), id); }
  bool insf(int k, int id, int& calls) { return s.insert_with(k, [&](int const&, MVal& v) { v.id = id; ++calls; }); }
  int upd(int k, int id, bool allow, int& seen) { auto r = s.update(k, [&](bool bNew, int const&, MVal& v) { if (bNew) v.id = id; else seen = v.id; }, allow); return r.first ? (r.second ? 3 : 2) : 0; }
  bool era(int k) { return s.erase(k); }
  bool eraf(int k, int& seen) { return s.erase(k, [&](int const&, MVal& v) { seen = v.id; }); }
  bool ext(int k, int& seen) { auto ep = s.extract(k); if (!ep) return false; seen = ep->id; return true; }
  bool get(int, int&) { return false; }
  bool find(int k) { return s.contains(k); }
  bool findf(int k, int& seen) { return s.find(k, [&](int const&, MVal& v) { seen = v.id; }); }
  bool extmin(int& id) { auto ep = s.extract_min(); if (!ep) return false; id = ep->id; return true; }
  bool extmax(int& id) { auto ep = s.extract_max(); if (!ep) return false; id = ep->id; return true; }
  bool unl(int, int) { return false; }
  size_t size() { return s.size(); } bool empty() { return s.empty(); } void clear() { s.clear(); }
  template <class F> void traverse(F) {}
  template <class F> void iterate(bool, F) {} template <class F, class R, class I> void iterate(bool, F, R, I) {}
  bool consistent() { return s.check_consistency(); }
};
}
namespace drv {
// G6: lock-based hash sets (CuckooSet, StripedSet): no extract / get
template <class S, unsigned LESS = 0> struct LockSetAd {
  S& s; LockSetAd(S& s_) : s(s_) {}
  unsigned caps() const { return (C_INSF | C_UPD | C_ERA | C_ERAF | C_FINDF | C_EMP | C_SIZE | C_CLEAR) & ~LESS; }
  bool ins(int k, int id) { return s.insert(Item(k, id)); }
  bool emp(int k, int id) { return s.emplace(k, id); }
  bool insf(int k, int id, int& calls) { return s.insert(Item(k, id), [&](Item&) { ++calls; }); }
  int upd(int k, int id, bool allow, int& seen) { auto r = s.update(Item(k, id), [&](bool bNew, Item& item, Item const&) { if (!bNew) seen = item.id; }, allow); return r.first ? (r.second ? 3 : 2) : 0; }
  bool era(int k) { return s.erase(k); }
  bool eraf(int k, int& seen) { return s.erase(k, [&](Item const& it) { seen = it.id; }); }
  bool ext(int, int&) { return false; } bool get(int, int&) { return false; } bool unl(int, int) { return false; } bool extmin(int&) { return false; } bool extmax(int&) { return false; }
  bool find(int k) { return s.contains(k); }
  bool findf(int k, int& seen) { return s.find(k, [&](Item& it, int const&) { seen = it.id; }); }
  size_t size() { return s.size(); } bool empty() { return s.empty(); } void clear() { s.clear(); }
  template <class F> void traverse(F) {}
  template <class F> void iterate(bool, F) {} template <class F, class R, class I> void iterate(bool, F, R, I) {}
  bool consistent() { return true; }
};
}
