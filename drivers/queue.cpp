// queue.cpp -- drivers for C06 (unbounded MPMC queues) and C07 (Vyukov bounded queue)
// ops: enq:v | deq | empty | drain (final; dequeues until empty as thread 0)
#include "common.h"
#include <cds/container/msqueue.h>
#include <cds/container/moir_queue.h>
#include <cds/container/basket_queue.h>
#include <cds/container/optimistic_queue.h>
#include <cds/container/rwqueue.h>
#include <cds/container/fcqueue.h>
#include <cds/intrusive/fcqueue.h>
#include <cds/container/vyukov_mpmc_cycle_queue.h>
#include <cds/intrusive/msqueue.h>
#include <cds/intrusive/moir_queue.h>
#include <cds/intrusive/basket_queue.h>
#include <cds/intrusive/optimistic_queue.h>
#include <cds/intrusive/vyukov_mpmc_cycle_queue.h>
#include <cds/container/segmented_queue.h>
#include <cds/intrusive/segmented_queue.h>
#include <queue>
#include <list>
using namespace drv;
namespace cc = cds::container; namespace ci = cds::intrusive;
static CdsInit s_init;

// ---- generic adapters ---------------------------------------------------------------------------------------------
template <class Q> struct ValAd {   // value-based queue of Val
  Q& q; ValAd(Q& q_) : q(q_) {}
  bool enq(int v) { return q.enqueue(Val(v)); }
  bool deq(int& v) { Val x; bool ok = q.dequeue(x); if (ok) v = x.v; return ok; }
  bool empty() { return q.empty(); }
  size_t size() { return q.size(); }
};
// OptimisticQueue::empty() compares two separately loaded pointers (m_pTail, m_pHead) and can report "empty" for a queue that was never
// empty during the call; C06 speaks about enqueue and dequeue only, so concurrent empty() calls are not issued for these variants (the
// sequential ones of C20 are).
static bool g_skip_concurrent_empty = false;
template <class Ad> static void run_queue_program(const Program& P, Ad& ad, bool threads_attach) {
  auto doop = [&](const Op& o) {
    if (o.name == "enq") { inv("enq", o.arg(0)); bool r = ad.enq((int)o.arg(0)); ret(r); }
    else if (o.name == "deq") { inv("deq"); int v = 0; bool r = ad.deq(v); ret(r, r ? v : 0); }
    else if (o.name == "empty") { if (g_skip_concurrent_empty && t_id != 0) return; inv("empty"); bool r = ad.empty(); ret(r); }
    else if (o.name == "drain") { for (;;) { inv("deq"); int v = 0; bool r = ad.deq(v); ret(r, r ? v : 0); if (!r) break; } }
    else if (o.name == "size") { inv("size"); ret((long)ad.size()); }
  };
  for (auto& o : P.init) doop(o);
  run_threads(P, doop, threads_attach ? std::function<void()>(attach) : nullptr, threads_attach ? std::function<void()>(detach) : nullptr);
  for (auto& o : P.fini) doop(o);
}
// value-based queue over a GC
template <class GC, class Q> static void gc_value_queue(const Program& P, size_t nHazard) {
  Smr<GC> smr(nHazard, P.threads.size() + 1);
  { Q q; ValAd<Q> ad(q); run_queue_program(P, ad, true); }
}
#define QTRAITS(NAME, BASE, ...) struct NAME : public BASE { typedef drv::qallocator<int> allocator; typedef cds::backoff::yield back_off; __VA_ARGS__ };
QTRAITS(ms_t, cc::msqueue::traits, )
QTRAITS(ms_ic_t, cc::msqueue::traits, typedef cds::atomicity::item_counter item_counter; typedef cds::opt::v::sequential_consistent memory_model;)
QTRAITS(bq_t, cc::basket_queue::traits, )
QTRAITS(bq_ic_t, cc::basket_queue::traits, typedef cds::atomicity::item_counter item_counter; typedef cds::opt::v::sequential_consistent memory_model;)
QTRAITS(oq_t, cc::optimistic_queue::traits, )
QTRAITS(oq_ic_t, cc::optimistic_queue::traits, typedef cds::atomicity::item_counter item_counter; typedef cds::opt::v::sequential_consistent memory_model;)

DRV_VARIANT(v_ms_hp, "msqueue_hp") { gc_value_queue<cds::gc::HP, cc::MSQueue<cds::gc::HP, Val, ms_t>>(P, 2); }
DRV_VARIANT(v_ms_dhp, "msqueue_dhp") { gc_value_queue<cds::gc::DHP, cc::MSQueue<cds::gc::DHP, Val, ms_t>>(P, 2); }
DRV_VARIANT(v_ms_hp_ic, "msqueue_hp_ic") { gc_value_queue<cds::gc::HP, cc::MSQueue<cds::gc::HP, Val, ms_ic_t>>(P, 2); }
DRV_VARIANT(v_moir_hp, "moirqueue_hp") { gc_value_queue<cds::gc::HP, cc::MoirQueue<cds::gc::HP, Val, ms_t>>(P, 2); }
DRV_VARIANT(v_moir_dhp, "moirqueue_dhp") { gc_value_queue<cds::gc::DHP, cc::MoirQueue<cds::gc::DHP, Val, ms_ic_t>>(P, 2); }
DRV_VARIANT(v_bq_hp, "basketqueue_hp") { gc_value_queue<cds::gc::HP, cc::BasketQueue<cds::gc::HP, Val, bq_t>>(P, 6); }
DRV_VARIANT(v_bq_dhp, "basketqueue_dhp") { gc_value_queue<cds::gc::DHP, cc::BasketQueue<cds::gc::DHP, Val, bq_ic_t>>(P, 6); }
DRV_VARIANT(v_oq_hp, "optimisticqueue_hp") { g_skip_concurrent_empty = true; gc_value_queue<cds::gc::HP, cc::OptimisticQueue<cds::gc::HP, Val, oq_t>>(P, 5); }
DRV_VARIANT(v_oq_dhp, "optimisticqueue_dhp") { g_skip_concurrent_empty = true; gc_value_queue<cds::gc::DHP, cc::OptimisticQueue<cds::gc::DHP, Val, oq_ic_t>>(P, 5); }

// RWQueue (two spin locks, no GC)
struct rw_t : public cc::rwqueue::traits { typedef drv::qallocator<int> allocator; typedef cds::sync::spin_lock<cds::backoff::yield> lock_type; typedef cds::atomicity::item_counter item_counter; };
DRV_VARIANT(v_rw, "rwqueue") { typedef cc::RWQueue<Val, rw_t> Q; Q q; ValAd<Q> ad(q); run_queue_program(P, ad, false); }

// FCQueue (flat combining; needs cds thread attachment only for its TLS)
struct fc_t : public cc::fcqueue::traits { typedef cds::algo::flat_combining::wait_strategy::backoff<cds::backoff::yield> wait_strategy; typedef drv::qallocator<int> allocator; };
struct fc_elim_t : public fc_t { static constexpr const bool enable_elimination = true; };
template <class Q> static void fc_queue(const Program& P, unsigned compact, unsigned pass) {
  Smr<cds::gc::HP> smr(1, P.threads.size() + 1);   // FC kernel does not need a GC; the fixture only attaches threads
  { Q q(compact, pass); ValAd<Q> ad(q); run_queue_program(P, ad, true); } }
DRV_VARIANT(v_fc, "fcqueue") { fc_queue<cc::FCQueue<Val, std::queue<Val>, fc_t>>(P, 1024, 8); }
DRV_VARIANT(v_fc_elim, "fcqueue_elim") { fc_queue<cc::FCQueue<Val, std::queue<Val>, fc_elim_t>>(P, 1024, 2); }
DRV_VARIANT(v_fc_list, "fcqueue_list_elim") { fc_queue<cc::FCQueue<Val, std::queue<Val, std::list<Val>>, fc_elim_t>>(P, 1024, 1); }

// ---- intrusive variants ---------------------------------------------------------------------------------------------
// items live in an arena owned by the driver; the disposer only marks them disposed (quarantine)
template <class Node> struct Arena { std::vector<Node*> items; ~Arena() { for (auto p : items) delete p; }
  Node* make(int v) { Node* n = new Node; n->v = v; items.push_back(n); vs::mem_register(n, sizeof(Node), v); return n; } };
struct mark_disposer { template <class T> void operator()(T* p) { if (vs::mem_state(p) == 2) vs::report_uad(p, 97); vs::mem_dispose(p); xev("dispose", p->v); } };
template <class Q, class Node> struct IntrAd {
  Q& q; Arena<Node>& ar; IntrAd(Q& q_, Arena<Node>& a) : q(q_), ar(a) {}
  bool enq(int v) { return q.enqueue(*ar.make(v)); }
  bool deq(int& v) { Node* p = q.dequeue(); if (!p) return false; v = p->v; return true; }   // no liveness check here: the raw pointer is unguarded once dequeue() has returned, a later dequeue of any thread may already have disposed the node (documented)
  bool empty() { return q.empty(); } size_t size() { return q.size(); } };
template <class GC, class Q, class Node> static void gc_intr_queue(const Program& P, size_t nHazard) {
  Arena<Node> ar;   // must outlive the SMR singleton: pending retired items are disposed (and their links cleared) by its destructor
  Smr<GC> smr(nHazard, P.threads.size() + 1);
  { Q q; IntrAd<Q, Node> ad(q, ar); run_queue_program(P, ad, true); } }
template <class GC> struct ims_node : public ci::msqueue::node<GC> { int v; };
template <class GC> struct ims_t : public ci::msqueue::traits { typedef ci::msqueue::base_hook<cds::opt::gc<GC>> hook; typedef mark_disposer disposer; typedef cds::backoff::yield back_off; typedef cds::atomicity::item_counter item_counter; };
DRV_VARIANT(v_ims_hp, "intr_msqueue_hp") { gc_intr_queue<cds::gc::HP, ci::MSQueue<cds::gc::HP, ims_node<cds::gc::HP>, ims_t<cds::gc::HP>>, ims_node<cds::gc::HP>>(P, 2); }
DRV_VARIANT(v_ims_dhp, "intr_msqueue_dhp") { gc_intr_queue<cds::gc::DHP, ci::MSQueue<cds::gc::DHP, ims_node<cds::gc::DHP>, ims_t<cds::gc::DHP>>, ims_node<cds::gc::DHP>>(P, 2); }
DRV_VARIANT(v_imoir_hp, "intr_moirqueue_hp") { gc_intr_queue<cds::gc::HP, ci::MoirQueue<cds::gc::HP, ims_node<cds::gc::HP>, ims_t<cds::gc::HP>>, ims_node<cds::gc::HP>>(P, 2); }
template <class GC> struct ibq_node : public ci::basket_queue::node<GC> { int v; };
template <class GC> struct ibq_t : public ci::basket_queue::traits { typedef ci::basket_queue::base_hook<cds::opt::gc<GC>> hook; typedef mark_disposer disposer; typedef cds::backoff::yield back_off; };
DRV_VARIANT(v_ibq_hp, "intr_basketqueue_hp") { gc_intr_queue<cds::gc::HP, ci::BasketQueue<cds::gc::HP, ibq_node<cds::gc::HP>, ibq_t<cds::gc::HP>>, ibq_node<cds::gc::HP>>(P, 6); }
template <class GC> struct ioq_node : public ci::optimistic_queue::node<GC> { int v; };
template <class GC> struct ioq_t : public ci::optimistic_queue::traits { typedef ci::optimistic_queue::base_hook<cds::opt::gc<GC>> hook; typedef mark_disposer disposer; typedef cds::backoff::yield back_off; };
DRV_VARIANT(v_ioq_hp, "intr_optimisticqueue_hp") { g_skip_concurrent_empty = true; gc_intr_queue<cds::gc::HP, ci::OptimisticQueue<cds::gc::HP, ioq_node<cds::gc::HP>, ioq_t<cds::gc::HP>>, ioq_node<cds::gc::HP>>(P, 5); }

// ---- C07: Vyukov bounded queue ---------------------------------------------------------------------------------------
struct vy_t : public cc::vyukov_queue::traits { typedef cds::backoff::yield back_off; typedef cds::atomicity::item_counter item_counter; };
template <size_t N> struct vy_static_t : public vy_t { typedef cds::opt::v::initialized_static_buffer<int, N> buffer; };
template <class Q> struct VyAd : public ValAd<Q> { VyAd(Q& q) : ValAd<Q>(q) {} };
template <class Q> static void vy_queue(const Program& P, Q& q, long cap) { xev("cap", cap); ValAd<Q> ad(q); run_queue_program(P, ad, false); }
template <class Q> static void vy_sc_queue(const Program& P, Q& q, long cap) { xev("cap", cap); ValAd<Q> ad(q);
  auto doop = [&](const Op& o) {
    if (o.name == "front") { inv("front"); Val* p = q.front(); ret(p != nullptr, p ? p->v : 0); }
    else if (o.name == "popfront") { inv("popfront"); bool r = q.pop_front(); ret(r); }
    else if (o.name == "enq") { inv("enq", o.arg(0)); bool r = ad.enq((int)o.arg(0)); ret(r); }
    else if (o.name == "deq") { inv("deq"); int v = 0; bool r = ad.deq(v); ret(r, r ? v : 0); }
    else if (o.name == "empty") { if (g_skip_concurrent_empty && t_id != 0) return; inv("empty"); bool r = ad.empty(); ret(r); }
    else if (o.name == "drain") { for (;;) { inv("deq"); int v = 0; bool r = ad.deq(v); ret(r, r ? v : 0); if (!r) break; } } };
  for (auto& o : P.init) doop(o); run_threads(P, doop); for (auto& o : P.fini) doop(o); }
DRV_VARIANT(v_vy2, "vyukov_dyn2") { cc::VyukovMPMCCycleQueue<Val, vy_t> q(2); vy_queue(P, q, 2); }
DRV_VARIANT(v_vy4, "vyukov_dyn4") { cc::VyukovMPMCCycleQueue<Val, vy_t> q(4); vy_queue(P, q, 4); }
DRV_VARIANT(v_vy8, "vyukov_dyn8") { cc::VyukovMPMCCycleQueue<Val, vy_t> q(8); vy_queue(P, q, 8); }
DRV_VARIANT(v_vys2, "vyukov_static2") { cc::VyukovMPMCCycleQueue<Val, vy_static_t<2>> q; vy_queue(P, q, 2); }
DRV_VARIANT(v_vys4, "vyukov_static4") { cc::VyukovMPMCCycleQueue<Val, vy_static_t<4>> q; vy_queue(P, q, 4); }
DRV_VARIANT(v_vysc2, "vyukov_sc2") { cc::VyukovMPSCCycleQueue<Val, vy_t> q(2); vy_sc_queue(P, q, 2); }
DRV_VARIANT(v_vysc4, "vyukov_sc4") { cc::VyukovMPSCCycleQueue<Val, vy_t> q(4); vy_sc_queue(P, q, 4); }
// intrusive Vyukov: stores pointers
struct ivy_item { int v; };
struct ivy_t : public ci::vyukov_queue::traits { typedef cds::backoff::yield back_off; typedef cds::atomicity::item_counter item_counter; };
template <class Q> struct IvyAd { Q& q; std::vector<ivy_item*>& ar; IvyAd(Q& q_, std::vector<ivy_item*>& a) : q(q_), ar(a) {}
  bool enq(int v) { ivy_item* p = new ivy_item{v}; ar.push_back(p); return q.enqueue(*p); }
  bool deq(int& v) { ivy_item* p = q.dequeue(); if (!p) return false; v = p->v; return true; } bool empty() { return q.empty(); } size_t size() { return q.size(); } };
template <size_t N> static void ivy_queue(const Program& P) { typedef ci::VyukovMPMCCycleQueue<ivy_item, ivy_t> Q; std::vector<ivy_item*> ar; { Q q(N); xev("cap", (long)N); IvyAd<Q> ad(q, ar); run_queue_program(P, ad, false); } for (auto p : ar) delete p; }
DRV_VARIANT(v_ivy2, "intr_vyukov2") { ivy_queue<2>(P); }
DRV_VARIANT(v_ivy4, "intr_vyukov4") { ivy_queue<4>(P); }

// ---- C08: SegmentedQueue ------------------------------------------------------------------------------------------------------
// deterministic permutation generators (the default uses rand()): identity and reversed order of the cells of a segment
template <bool REV> struct det_permutation { typedef int integer_type; size_t n, i; det_permutation(size_t len) : n(len), i(0) {}
  operator integer_type() const { return (integer_type)(REV ? n - 1 - i : i); } bool next() { return ++i < n; } void reset() { i = 0; } };
template <bool REV> struct sq_t : public cc::segmented_queue::traits { typedef drv::qallocator<int> allocator; typedef drv::qallocator<int> node_allocator; typedef cds::sync::spin_lock<cds::backoff::yield> lock_type; typedef det_permutation<REV> permutation_generator; typedef cds::atomicity::item_counter item_counter; };
template <class GC, class Q> static void seg_queue(const Program& P, size_t quasi) {
  Smr<GC> smr(4, P.threads.size() + 1);
  { Q q(quasi); xev("cap", (long)q.quasi_factor()); ValAd<Q> ad(q);
    auto doop = [&](const Op& o) {
      if (o.name == "enq") { inv("enq", o.arg(0)); bool r = ad.enq((int)o.arg(0)); ret(r); }
      else if (o.name == "deq") { inv("deq"); int v = 0; bool r = ad.deq(v); ret(r, r ? v : 0); }
      else if (o.name == "drain") { for (;;) { inv("deqq"); int v = 0; bool r = ad.deq(v); ret(r, r ? v : 0); if (!r) break; } } };
    for (auto& o : P.init) doop(o); run_threads(P, doop, attach, detach); for (auto& o : P.fini) doop(o); } }
typedef cc::SegmentedQueue<cds::gc::HP, Val, sq_t<false>> SQ_HP; typedef cc::SegmentedQueue<cds::gc::DHP, Val, sq_t<true>> SQ_DHP; typedef cc::SegmentedQueue<cds::gc::HP, Val, sq_t<true>> SQ_HP_R;
DRV_VARIANT(v_sq2, "segmented_hp_q2") { seg_queue<cds::gc::HP, SQ_HP>(P, 2); }
DRV_VARIANT(v_sq3, "segmented_hp_q3") { seg_queue<cds::gc::HP, SQ_HP_R>(P, 3); }
DRV_VARIANT(v_sq4, "segmented_dhp_q4") { seg_queue<cds::gc::DHP, SQ_DHP>(P, 4); }
DRV_VARIANT(v_sq8, "segmented_hp_q8") { seg_queue<cds::gc::HP, SQ_HP_R>(P, 8); }
