// smr.cpp -- driver for C01, C02, C03: the HP and DHP reclamation schemes exercised through their public API.
// Shared "links" hold objects; threads protect a link, dereference, swap in a new object and retire the old one,
// scan, detach and re-attach.  All observations are "x" events for the SmrSafety oracle.
// ops: prot:slot:link | deref:slot | rel:slot | swap:link | swapn:link:count | retn:count | scan | detach | attach | yield
#include "common.h"
using namespace drv;
static CdsInit s_init;

struct Obj { char payload; };
static const int NLINK = 4;
struct World {
  atomics::atomic<Obj*> link[NLINK];
  static const int NPOOL = 600; atomics::atomic<Obj*> pool[NPOOL]; atomics::atomic<int> signals; int pool_used = 0;   // holdn / retpool / signal / await
  std::vector<char*> slabs; int next_id = 1; bool odd = false;
  Obj* make() { char* m = (char*)malloc(16); slabs.push_back(m); Obj* o = (Obj*)(m + (odd ? 9 : 8)); o->payload = 1; vs::mem_register(o, 1, next_id++); return o; }
  ~World() { for (auto p : slabs) free(p); }
};
static World* W = nullptr;
static int id_of(const void* p) { return p ? vs::mem_tag(p) : 0; }
static void disposer_fn(void* p) { Obj* o = (Obj*)p; if (vs::mem_state(o) == 2) vs::report_uad(o, 97); vs::mem_dispose(o); o->payload = 0; xev("dispose", id_of(o)); }
struct ObjDisposer { void operator()(Obj* p) const { disposer_fn(p); } };
static void user_sink(const char* name, const void*) { if (strstr(name, "scan")) xev("pass"); }

template <class GC> struct ThreadState { std::vector<typename GC::Guard*> g; std::vector<Obj*> held; bool attached = true; std::vector<typename GC::Guard*> extra;
  ThreadState(int n) : g(n, nullptr), held(n, nullptr) {}
  // the guard-release window is bracketed by pbeg/pend: the hazard slot still holds the pointer until the release completes
  void drop_all() { xev("pbeg"); for (size_t i = 0; i < g.size(); ++i) if (g[i]) { if (held[i]) xev("gclr", (long)i); held[i] = nullptr; delete g[i]; g[i] = nullptr; }
    for (size_t i = 0; i < extra.size(); ++i) if (extra[i]) { xev("gclr", (long)(1000 + i)); delete extra[i]; } extra.clear(); xev("pend"); } };

template <class GC> static void run_smr_program(const Program& P, int nslots, bool func_retire) {
  auto retire_obj = [&](Obj* o) { if (!o) return; xev("retire", id_of(o)); xev("pass"); if (func_retire) GC::template retire<Obj>(o, disposer_fn); else GC::template retire<ObjDisposer>(o); };
  auto thread_body = [&](const std::vector<Op>& ops, bool is_worker) {
    ThreadState<GC> ts(nslots);
    if (!ops.empty() && ops[0].name == "noattach") ts.attached = false;
    bool manual = false; for (auto& o : ops) if (o.name == "galloc") manual = true;   // galloc:n / gfree: the program allocates and frees the guards itself
    if (nslots > 8 && !manual) for (int k = 0; k < nslots; ++k) ts.g[k] = new typename GC::Guard;   // "many guards" variants: guard k really is the k-th guard of the thread (extension blocks for DHP)
    for (auto& o : ops) {
      if (o.name == "prot") { size_t k = (size_t)o.arg(0); if (!ts.attached) continue; if (!ts.g[k]) ts.g[k] = new typename GC::Guard;
        // re-protecting an occupied slot: the old pointer is overwritten somewhere inside protect(); it stops counting as guarded when the window opens
        xev("pbeg"); if (ts.held[k]) { xev("gclr", (long)k); ts.held[k] = nullptr; } Obj* p = ts.g[k]->protect(W->link[o.arg(1) % NLINK]); xev("pend");
        if (p) xev("gset", (long)k, id_of(p)); ts.held[k] = p; }
      else if (o.name == "deref") { size_t k = (size_t)o.arg(0); if (ts.held[k]) { Obj* p = ts.held[k]; if (vs::mem_state(p) == 2) vs::report_uad(p, 95); (void)p->payload; xev("deref", id_of(p)); } }
      else if (o.name == "rel") { size_t k = (size_t)o.arg(0); if (ts.g[k]) { xev("pbeg"); xev("gclr", (long)k); ts.g[k]->clear(); ts.held[k] = nullptr; xev("pend"); } }
      else if (o.name == "swap") { if (!ts.attached) continue; Obj* n = W->make(); Obj* old = W->link[o.arg(0) % NLINK].exchange(n); retire_obj(old); }
      else if (o.name == "swapn") { if (!ts.attached) continue; for (long i = 0; i < o.arg(1); ++i) { Obj* n = W->make(); Obj* old = W->link[o.arg(0) % NLINK].exchange(n); retire_obj(old); } }
      else if (o.name == "retn") { if (!ts.attached) continue; for (long i = 0; i < o.arg(0); ++i) retire_obj(W->make()); }
      else if (o.name == "scan") { if (!ts.attached) continue; xev("scanbeg"); xev("pass"); GC::scan(); xev("scanend"); }
      else if (o.name == "detach") { if (ts.attached) { ts.drop_all(); xev("pass"); detach(); xev("detach"); ts.attached = false; } }
      else if (o.name == "attach") { if (!ts.attached) { attach(); ts.attached = true;
          if (nslots > 8 && !manual) for (int k = 0; k < nslots; ++k) if (!ts.g[k]) ts.g[k] = new typename GC::Guard; } }   // many-guard variants: all guards again (recycled extension blocks)
      else if (o.name == "yield") { sched_yield(); }
      else if (o.name == "galloc") { if (!ts.attached) continue; for (int k = 0; k < (int)o.arg(0) && k < nslots; ++k) if (!ts.g[k]) ts.g[k] = new typename GC::Guard; }
      else if (o.name == "gfree") { ts.drop_all(); }
      // holdn:n  -- create n objects in the pool links, each protected by a guard of its own (DHP: any number of guards)
      else if (o.name == "holdn") { if (!ts.attached) continue; for (long i = 0; i < o.arg(0) && W->pool_used < World::NPOOL; ++i) { int slot = W->pool_used++; W->pool[slot].store(W->make()); typename GC::Guard* g = new typename GC::Guard;
          xev("pbeg"); Obj* p = g->protect(W->pool[slot]); xev("pend"); xev("gset", (long)(1000 + ts.extra.size()), id_of(p)); ts.extra.push_back(g); } }
      // relsome:n -- release the first n still held pool guards
      else if (o.name == "relsome") { long n = o.arg(0); xev("pbeg"); for (size_t i = 0; i < ts.extra.size() && n > 0; ++i) if (ts.extra[i]) { xev("gclr", (long)(1000 + i)); delete ts.extra[i]; ts.extra[i] = nullptr; --n; } xev("pend"); }
      else if (o.name == "retpool") { if (!ts.attached) continue; for (int i = 0; i < World::NPOOL; ++i) { Obj* old = W->pool[i].exchange(nullptr); retire_obj(old); } }
      else if (o.name == "signal") { W->signals.fetch_add(1); }
      else if (o.name == "await") { while (W->signals.load() < (int)o.arg(0)) sched_yield(); }
    }
    ts.drop_all();
    if (is_worker && ts.attached) { xev("pass"); detach(); xev("detach"); }
  };
  thread_body(P.init, false);
  std::vector<std::thread> th; vs::roi(true);
  for (size_t i = 0; i < P.threads.size(); ++i) th.emplace_back([&, i] { t_id = (int)i + 1; bool na = !P.threads[i].empty() && P.threads[i][0].name == "noattach"; if (!na) attach(); thread_body(P.threads[i], true); });   // "noattach": the thread starts without an SMR record
  for (auto& t : th) t.join();
  vs::roi(false);
  thread_body(P.fini, false);
}
template <class GC, class Mk> static void smr_variant(const Program& P, int nslots, bool odd, bool func_retire, Mk mk) {
  World w; w.odd = odd; W = &w; vs::g_user_sink = user_sink;
  for (int i = 0; i < World::NPOOL; ++i) w.pool[i].store(nullptr); w.signals.store(0);
  { auto smr = mk(); for (int i = 0; i < NLINK; ++i) w.link[i].store(w.make());
    run_smr_program<GC>(P, nslots, func_retire);
    for (int i = 0; i < NLINK; ++i) { Obj* o = w.link[i].exchange(nullptr); if (o) { xev("retire", id_of(o)); GC::template retire<ObjDisposer>(o); } }
    for (int i = 0; i < World::NPOOL; ++i) { Obj* o = w.pool[i].exchange(nullptr); if (o) { xev("retire", id_of(o)); GC::template retire<ObjDisposer>(o); } }
    xev("pass"); }
  xev("destroyed"); W = nullptr; vs::g_user_sink = nullptr; }
typedef cds::gc::HP HP; typedef cds::gc::DHP DHP;
#define HPV(ID, NAME, K, R, ST, ODD, FN) DRV_VARIANT(ID, NAME) { size_t T = P.threads.size() + 1; smr_variant<HP>(P, K, ODD, FN, [&] { return std::unique_ptr<Smr<HP>>(new Smr<HP>(K, T, (R) ? (R) : K * T + 1, HP::scan_type::ST)); }); }
HPV(v_hp_in_k1, "hp_inplace_k1", 1, 0, inplace, false, false)
HPV(v_hp_in_k2, "hp_inplace_k2", 2, 0, inplace, false, true)
HPV(v_hp_in_k2_big, "hp_inplace_k2_r16", 2, 16, inplace, false, false)
HPV(v_hp_cl_k1, "hp_classic_k1", 1, 0, classic, false, false)
HPV(v_hp_cl_k2, "hp_classic_k2", 2, 0, classic, false, true)
HPV(v_hp_cl_k2_big, "hp_classic_k2_r16", 2, 16, classic, false, false)
HPV(v_hp_odd_k1, "hp_inplace_odd_k1", 1, 0, inplace, true, false)
HPV(v_hp_odd_k2, "hp_inplace_odd_k2", 2, 0, inplace, true, false)
HPV(v_hp_in_k4, "hp_inplace_k4", 4, 0, inplace, false, false)
#define DHPV(ID, NAME, K, INIT, FN) DRV_VARIANT(ID, NAME) { smr_variant<DHP>(P, K, false, FN, [&] { return std::unique_ptr<Smr<DHP>>(new Smr<DHP>(INIT, 0)); }); }
DHPV(v_dhp_4, "dhp_k4", 4, 4, false)
DHPV(v_dhp_2, "dhp_k2", 2, 4, true)
DHPV(v_dhp_24, "dhp_k24_init4", 24, 4, false)     // more guards than the initial block: extension blocks
DHPV(v_dhp_40, "dhp_k40_init16", 40, 16, false)
