---- MODULE MSPQMC ----
EXTENDS MSPQ
Slots7 == <<1, 2, 3, 4, 6, 5, 7>>
\* two pushers and a popper on a 3-level heap
ScriptA == [p \in {1, 2, 3} |-> CASE p = 1 -> << <<"push", 5>>, <<"push", 2>>, <<"pop">> >>
                                  [] p = 2 -> << <<"push", 7>>, <<"pop">>, <<"push", 4>> >>
                                  [] p = 3 -> << <<"pop">>, <<"push", 6>> >> ]
ScriptB == [p \in {1, 2} |-> CASE p = 1 -> << <<"push", 5>>, <<"push", 2>>, <<"pop">>, <<"push", 8>>, <<"pop">> >>
                               [] p = 2 -> << <<"push", 7>>, <<"pop">>, <<"push", 4>>, <<"pop">> >> ]
====
