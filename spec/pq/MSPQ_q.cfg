SPECIFICATION Spec
CONSTANTS
  Procs = {1, 2}
  M = 7
  Script <- ScriptB
  SlotOf <- Slots7
  EarlyUnlock = FALSE
INVARIANT Quiescent
