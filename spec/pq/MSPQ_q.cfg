SPECIFICATION Spec
CONSTANTS
  Procs = {1, 2}
  M = 7
  Script <- ScriptB
  SlotOf <- Slots7
  ParentNotEmpty = FALSE
  EarlyUnlock = FALSE
INVARIANT Quiescent
