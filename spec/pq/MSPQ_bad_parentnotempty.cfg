SPECIFICATION Spec
CONSTANTS
  Procs = {1, 2, 3}
  M = 7
  Script <- ScriptA
  SlotOf <- Slots7
  ParentNotEmpty = TRUE
  EarlyUnlock = FALSE
INVARIANT Quiescent
