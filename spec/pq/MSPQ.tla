---- MODULE MSPQ ----
\* Tier B: cds::intrusive::MSPriorityQueue (cds/intrusive/mspriority_queue.h) -- Hunt et al.'s array heap with a lock per node,
\* a heap-size lock and the bit-reversed slot counter.  One label per lock acquisition; what a thread does to nodes it has
\* locked is part of the step that follows the acquisition.
\*   EarlyUnlock -- seeded change C11: pop() releases the heap-size lock before it has locked the bottom node
EXTENDS Naturals, Sequences, FiniteSets, TLC
CONSTANTS Procs, M, Script, SlotOf, EarlyUnlock,
          ParentNotEmpty    \* seeded change C11b: heapify_after_push tests "parent tag != Empty" instead of "== Available"
NIL == 0
TagE == 0      \* node tags: Empty, Available, or the id of the pushing thread
TagA == 100
(* --algorithm MSPQ {
variables
  tag = [j \in 1..M |-> TagE], val = [j \in 1..M |-> 0], lk = [j \in 1..M |-> NIL],
  glock = NIL, cnt = 0,
  pushed = {}, popped = {}, emptyPops = 0;

macro Lock(j) { await lk[j] = NIL; lk[j] := self; }

process (P \in Procs)
  variables k = 1, i = 0, par = 0, v = 0, bottom = 0, pv = 0, child = 0, right = 0, parent = 0, tt = TagE, tv = 0;
{
L0: while (k <= Len(Script[self])) {
      if (Script[self][k][1] = "push") {
        v := Script[self][k][2];
PU1:    await glock = NIL; glock := self;
PU2:    if (cnt >= M) { glock := NIL; goto NX; }                       \* full: push fails
        else { i := SlotOf[cnt + 1]; cnt := cnt + 1; };                 \* m_ItemCounter.inc()
PU3:    Lock(i);
PU4:    glock := NIL;
PU5:    assert tag[i] = TagE /\ val[i] = 0;
        val[i] := v; tag[i] := self; lk[i] := NIL; pushed := pushed \cup {v};
HP1:    while (i > 1) {                                                 \* heapify_after_push
          par := i \div 2;
HP2:      Lock(par);
HP3:      Lock(i);
HP4:      if (((~ParentNotEmpty /\ tag[par] = TagA) \/ (ParentNotEmpty /\ tag[par] # TagE)) /\ tag[i] = self) {
            if (val[i] > val[par]) {
              tag[i] := tag[par] || tag[par] := tag[i]; val[i] := val[par] || val[par] := val[i];
              lk[i] := NIL || lk[par] := NIL; i := par;
            } else { tag[i] := TagA; lk[i] := NIL || lk[par] := NIL; i := 0; };
          }
          else if (tag[par] = TagE) { lk[i] := NIL || lk[par] := NIL; i := 0; }
          else if (tag[i] # self) { lk[i] := NIL || lk[par] := NIL; i := par; }
          else { lk[i] := NIL || lk[par] := NIL; };                    \* parent is being moved by another thread: try again
        };
HP5:    if (i = 1) {
          Lock(1);
HP6:      if (tag[1] = self) { tag[1] := TagA; };
          lk[1] := NIL;
        };
      } else {
PO1:    await glock = NIL; glock := self;
PO2:    if (cnt = 0) { glock := NIL; emptyPops := emptyPops + 1; goto NX; }
        else { bottom := SlotOf[cnt]; cnt := cnt - 1; };                \* m_ItemCounter.dec()
PO3:    Lock(1);
PO4:    if (bottom = 1) {
          tag[1] := TagE; pv := val[1]; val[1] := 0; lk[1] := NIL; glock := NIL;
          goto PO9;
        } else if (EarlyUnlock) { glock := NIL; };
PO5:    Lock(bottom);
PO6:    if (~EarlyUnlock) { glock := NIL; };
        tag[bottom] := TagE; pv := val[bottom]; val[bottom] := 0; lk[bottom] := NIL;
PO7:    if (tag[1] = TagE) { lk[1] := NIL; goto PO9; }
        else { tv := val[1]; val[1] := pv; pv := tv; tag[1] := TagA; parent := 1; child := 2; };
HQ0:    while (child <= M) {                                            \* heapify_after_pop, the parent is locked
HQ1:      Lock(child);
HQ2:      if (tag[child] = TagE) { lk[child] := NIL; goto HQ9; };
HQ3:      right := child + 1;
          if (right <= M) {
            Lock(right);
HQ4:        if (tag[right] # TagE /\ val[right] > val[child]) { lk[child] := NIL; child := right; } else { lk[right] := NIL; };
          };
HQ5:      if (val[child] > val[parent]) {
            tag[parent] := tag[child] || tag[child] := tag[parent]; val[parent] := val[child] || val[child] := val[parent];
            lk[parent] := NIL; parent := child; child := child * 2;
          } else { lk[child] := NIL; goto HQ9; };
        };
HQ9:    lk[parent] := NIL;
PO9:    assert pv \in pushed /\ pv \notin popped;                       \* every pop returns an item that was pushed and not yet returned
        popped := popped \cup {pv};
      };
NX:   k := k + 1;
    };
}
} *)
\* BEGIN TRANSLATION
VARIABLES pc, tag, val, lk, glock, cnt, pushed, popped, emptyPops, k, i, par, 
          v, bottom, pv, child, right, parent, tt, tv

vars == << pc, tag, val, lk, glock, cnt, pushed, popped, emptyPops, k, i, par, 
           v, bottom, pv, child, right, parent, tt, tv >>

ProcSet == (Procs)

Init == (* Global variables *)
        /\ tag = [j \in 1..M |-> TagE]
        /\ val = [j \in 1..M |-> 0]
        /\ lk = [j \in 1..M |-> NIL]
        /\ glock = NIL
        /\ cnt = 0
        /\ pushed = {}
        /\ popped = {}
        /\ emptyPops = 0
        (* Process P *)
        /\ k = [self \in Procs |-> 1]
        /\ i = [self \in Procs |-> 0]
        /\ par = [self \in Procs |-> 0]
        /\ v = [self \in Procs |-> 0]
        /\ bottom = [self \in Procs |-> 0]
        /\ pv = [self \in Procs |-> 0]
        /\ child = [self \in Procs |-> 0]
        /\ right = [self \in Procs |-> 0]
        /\ parent = [self \in Procs |-> 0]
        /\ tt = [self \in Procs |-> TagE]
        /\ tv = [self \in Procs |-> 0]
        /\ pc = [self \in ProcSet |-> "L0"]

L0(self) == /\ pc[self] = "L0"
            /\ IF k[self] <= Len(Script[self])
                  THEN /\ IF Script[self][k[self]][1] = "push"
                             THEN /\ v' = [v EXCEPT ![self] = Script[self][k[self]][2]]
                                  /\ pc' = [pc EXCEPT ![self] = "PU1"]
                             ELSE /\ pc' = [pc EXCEPT ![self] = "PO1"]
                                  /\ v' = v
                  ELSE /\ pc' = [pc EXCEPT ![self] = "Done"]
                       /\ v' = v
            /\ UNCHANGED << tag, val, lk, glock, cnt, pushed, popped, 
                            emptyPops, k, i, par, bottom, pv, child, right, 
                            parent, tt, tv >>

NX(self) == /\ pc[self] = "NX"
            /\ k' = [k EXCEPT ![self] = k[self] + 1]
            /\ pc' = [pc EXCEPT ![self] = "L0"]
            /\ UNCHANGED << tag, val, lk, glock, cnt, pushed, popped, 
                            emptyPops, i, par, v, bottom, pv, child, right, 
                            parent, tt, tv >>

PU1(self) == /\ pc[self] = "PU1"
             /\ glock = NIL
             /\ glock' = self
             /\ pc' = [pc EXCEPT ![self] = "PU2"]
             /\ UNCHANGED << tag, val, lk, cnt, pushed, popped, emptyPops, k, 
                             i, par, v, bottom, pv, child, right, parent, tt, 
                             tv >>

PU2(self) == /\ pc[self] = "PU2"
             /\ IF cnt >= M
                   THEN /\ glock' = NIL
                        /\ pc' = [pc EXCEPT ![self] = "NX"]
                        /\ UNCHANGED << cnt, i >>
                   ELSE /\ i' = [i EXCEPT ![self] = SlotOf[cnt + 1]]
                        /\ cnt' = cnt + 1
                        /\ pc' = [pc EXCEPT ![self] = "PU3"]
                        /\ glock' = glock
             /\ UNCHANGED << tag, val, lk, pushed, popped, emptyPops, k, par, 
                             v, bottom, pv, child, right, parent, tt, tv >>

PU3(self) == /\ pc[self] = "PU3"
             /\ lk[i[self]] = NIL
             /\ lk' = [lk EXCEPT ![i[self]] = self]
             /\ pc' = [pc EXCEPT ![self] = "PU4"]
             /\ UNCHANGED << tag, val, glock, cnt, pushed, popped, emptyPops, 
                             k, i, par, v, bottom, pv, child, right, parent, 
                             tt, tv >>

PU4(self) == /\ pc[self] = "PU4"
             /\ glock' = NIL
             /\ pc' = [pc EXCEPT ![self] = "PU5"]
             /\ UNCHANGED << tag, val, lk, cnt, pushed, popped, emptyPops, k, 
                             i, par, v, bottom, pv, child, right, parent, tt, 
                             tv >>

PU5(self) == /\ pc[self] = "PU5"
             /\ Assert(tag[i[self]] = TagE /\ val[i[self]] = 0, 
                       "Failure of assertion at line 31, column 9.")
             /\ val' = [val EXCEPT ![i[self]] = v[self]]
             /\ tag' = [tag EXCEPT ![i[self]] = self]
             /\ lk' = [lk EXCEPT ![i[self]] = NIL]
             /\ pushed' = (pushed \cup {v[self]})
             /\ pc' = [pc EXCEPT ![self] = "HP1"]
             /\ UNCHANGED << glock, cnt, popped, emptyPops, k, i, par, v, 
                             bottom, pv, child, right, parent, tt, tv >>

HP1(self) == /\ pc[self] = "HP1"
             /\ IF i[self] > 1
                   THEN /\ par' = [par EXCEPT ![self] = i[self] \div 2]
                        /\ pc' = [pc EXCEPT ![self] = "HP2"]
                   ELSE /\ pc' = [pc EXCEPT ![self] = "HP5"]
                        /\ par' = par
             /\ UNCHANGED << tag, val, lk, glock, cnt, pushed, popped, 
                             emptyPops, k, i, v, bottom, pv, child, right, 
                             parent, tt, tv >>

HP2(self) == /\ pc[self] = "HP2"
             /\ lk[par[self]] = NIL
             /\ lk' = [lk EXCEPT ![par[self]] = self]
             /\ pc' = [pc EXCEPT ![self] = "HP3"]
             /\ UNCHANGED << tag, val, glock, cnt, pushed, popped, emptyPops, 
                             k, i, par, v, bottom, pv, child, right, parent, 
                             tt, tv >>

HP3(self) == /\ pc[self] = "HP3"
             /\ lk[i[self]] = NIL
             /\ lk' = [lk EXCEPT ![i[self]] = self]
             /\ pc' = [pc EXCEPT ![self] = "HP4"]
             /\ UNCHANGED << tag, val, glock, cnt, pushed, popped, emptyPops, 
                             k, i, par, v, bottom, pv, child, right, parent, 
                             tt, tv >>

HP4(self) == /\ pc[self] = "HP4"
             /\ IF ((~ParentNotEmpty /\ tag[par[self]] = TagA) \/ (ParentNotEmpty /\ tag[par[self]] # TagE)) /\ tag[i[self]] = self
                   THEN /\ IF val[i[self]] > val[par[self]]
                              THEN /\ tag' = [tag EXCEPT ![i[self]] = tag[par[self]],
                                                         ![par[self]] = tag[i[self]]]
                                   /\ val' = [val EXCEPT ![i[self]] = val[par[self]],
                                                         ![par[self]] = val[i[self]]]
                                   /\ lk' = [lk EXCEPT ![i[self]] = NIL,
                                                       ![par[self]] = NIL]
                                   /\ i' = [i EXCEPT ![self] = par[self]]
                              ELSE /\ tag' = [tag EXCEPT ![i[self]] = TagA]
                                   /\ lk' = [lk EXCEPT ![i[self]] = NIL,
                                                       ![par[self]] = NIL]
                                   /\ i' = [i EXCEPT ![self] = 0]
                                   /\ val' = val
                   ELSE /\ IF tag[par[self]] = TagE
                              THEN /\ lk' = [lk EXCEPT ![i[self]] = NIL,
                                                       ![par[self]] = NIL]
                                   /\ i' = [i EXCEPT ![self] = 0]
                              ELSE /\ IF tag[i[self]] # self
                                         THEN /\ lk' = [lk EXCEPT ![i[self]] = NIL,
                                                                  ![par[self]] = NIL]
                                              /\ i' = [i EXCEPT ![self] = par[self]]
                                         ELSE /\ lk' = [lk EXCEPT ![i[self]] = NIL,
                                                                  ![par[self]] = NIL]
                                              /\ i' = i
                        /\ UNCHANGED << tag, val >>
             /\ pc' = [pc EXCEPT ![self] = "HP1"]
             /\ UNCHANGED << glock, cnt, pushed, popped, emptyPops, k, par, v, 
                             bottom, pv, child, right, parent, tt, tv >>

HP5(self) == /\ pc[self] = "HP5"
             /\ IF i[self] = 1
                   THEN /\ lk[1] = NIL
                        /\ lk' = [lk EXCEPT ![1] = self]
                        /\ pc' = [pc EXCEPT ![self] = "HP6"]
                   ELSE /\ pc' = [pc EXCEPT ![self] = "NX"]
                        /\ lk' = lk
             /\ UNCHANGED << tag, val, glock, cnt, pushed, popped, emptyPops, 
                             k, i, par, v, bottom, pv, child, right, parent, 
                             tt, tv >>

HP6(self) == /\ pc[self] = "HP6"
             /\ IF tag[1] = self
                   THEN /\ tag' = [tag EXCEPT ![1] = TagA]
                   ELSE /\ TRUE
                        /\ tag' = tag
             /\ lk' = [lk EXCEPT ![1] = NIL]
             /\ pc' = [pc EXCEPT ![self] = "NX"]
             /\ UNCHANGED << val, glock, cnt, pushed, popped, emptyPops, k, i, 
                             par, v, bottom, pv, child, right, parent, tt, tv >>

PO1(self) == /\ pc[self] = "PO1"
             /\ glock = NIL
             /\ glock' = self
             /\ pc' = [pc EXCEPT ![self] = "PO2"]
             /\ UNCHANGED << tag, val, lk, cnt, pushed, popped, emptyPops, k, 
                             i, par, v, bottom, pv, child, right, parent, tt, 
                             tv >>

PO2(self) == /\ pc[self] = "PO2"
             /\ IF cnt = 0
                   THEN /\ glock' = NIL
                        /\ emptyPops' = emptyPops + 1
                        /\ pc' = [pc EXCEPT ![self] = "NX"]
                        /\ UNCHANGED << cnt, bottom >>
                   ELSE /\ bottom' = [bottom EXCEPT ![self] = SlotOf[cnt]]
                        /\ cnt' = cnt - 1
                        /\ pc' = [pc EXCEPT ![self] = "PO3"]
                        /\ UNCHANGED << glock, emptyPops >>
             /\ UNCHANGED << tag, val, lk, pushed, popped, k, i, par, v, pv, 
                             child, right, parent, tt, tv >>

PO3(self) == /\ pc[self] = "PO3"
             /\ lk[1] = NIL
             /\ lk' = [lk EXCEPT ![1] = self]
             /\ pc' = [pc EXCEPT ![self] = "PO4"]
             /\ UNCHANGED << tag, val, glock, cnt, pushed, popped, emptyPops, 
                             k, i, par, v, bottom, pv, child, right, parent, 
                             tt, tv >>

PO4(self) == /\ pc[self] = "PO4"
             /\ IF bottom[self] = 1
                   THEN /\ tag' = [tag EXCEPT ![1] = TagE]
                        /\ pv' = [pv EXCEPT ![self] = val[1]]
                        /\ val' = [val EXCEPT ![1] = 0]
                        /\ lk' = [lk EXCEPT ![1] = NIL]
                        /\ glock' = NIL
                        /\ pc' = [pc EXCEPT ![self] = "PO9"]
                   ELSE /\ IF EarlyUnlock
                              THEN /\ glock' = NIL
                              ELSE /\ TRUE
                                   /\ glock' = glock
                        /\ pc' = [pc EXCEPT ![self] = "PO5"]
                        /\ UNCHANGED << tag, val, lk, pv >>
             /\ UNCHANGED << cnt, pushed, popped, emptyPops, k, i, par, v, 
                             bottom, child, right, parent, tt, tv >>

PO5(self) == /\ pc[self] = "PO5"
             /\ lk[bottom[self]] = NIL
             /\ lk' = [lk EXCEPT ![bottom[self]] = self]
             /\ pc' = [pc EXCEPT ![self] = "PO6"]
             /\ UNCHANGED << tag, val, glock, cnt, pushed, popped, emptyPops, 
                             k, i, par, v, bottom, pv, child, right, parent, 
                             tt, tv >>

PO6(self) == /\ pc[self] = "PO6"
             /\ IF ~EarlyUnlock
                   THEN /\ glock' = NIL
                   ELSE /\ TRUE
                        /\ glock' = glock
             /\ tag' = [tag EXCEPT ![bottom[self]] = TagE]
             /\ pv' = [pv EXCEPT ![self] = val[bottom[self]]]
             /\ val' = [val EXCEPT ![bottom[self]] = 0]
             /\ lk' = [lk EXCEPT ![bottom[self]] = NIL]
             /\ pc' = [pc EXCEPT ![self] = "PO7"]
             /\ UNCHANGED << cnt, pushed, popped, emptyPops, k, i, par, v, 
                             bottom, child, right, parent, tt, tv >>

PO7(self) == /\ pc[self] = "PO7"
             /\ IF tag[1] = TagE
                   THEN /\ lk' = [lk EXCEPT ![1] = NIL]
                        /\ pc' = [pc EXCEPT ![self] = "PO9"]
                        /\ UNCHANGED << tag, val, pv, child, parent, tv >>
                   ELSE /\ tv' = [tv EXCEPT ![self] = val[1]]
                        /\ val' = [val EXCEPT ![1] = pv[self]]
                        /\ pv' = [pv EXCEPT ![self] = tv'[self]]
                        /\ tag' = [tag EXCEPT ![1] = TagA]
                        /\ parent' = [parent EXCEPT ![self] = 1]
                        /\ child' = [child EXCEPT ![self] = 2]
                        /\ pc' = [pc EXCEPT ![self] = "HQ0"]
                        /\ lk' = lk
             /\ UNCHANGED << glock, cnt, pushed, popped, emptyPops, k, i, par, 
                             v, bottom, right, tt >>

HQ0(self) == /\ pc[self] = "HQ0"
             /\ IF child[self] <= M
                   THEN /\ pc' = [pc EXCEPT ![self] = "HQ1"]
                   ELSE /\ pc' = [pc EXCEPT ![self] = "HQ9"]
             /\ UNCHANGED << tag, val, lk, glock, cnt, pushed, popped, 
                             emptyPops, k, i, par, v, bottom, pv, child, right, 
                             parent, tt, tv >>

HQ1(self) == /\ pc[self] = "HQ1"
             /\ lk[child[self]] = NIL
             /\ lk' = [lk EXCEPT ![child[self]] = self]
             /\ pc' = [pc EXCEPT ![self] = "HQ2"]
             /\ UNCHANGED << tag, val, glock, cnt, pushed, popped, emptyPops, 
                             k, i, par, v, bottom, pv, child, right, parent, 
                             tt, tv >>

HQ2(self) == /\ pc[self] = "HQ2"
             /\ IF tag[child[self]] = TagE
                   THEN /\ lk' = [lk EXCEPT ![child[self]] = NIL]
                        /\ pc' = [pc EXCEPT ![self] = "HQ9"]
                   ELSE /\ pc' = [pc EXCEPT ![self] = "HQ3"]
                        /\ lk' = lk
             /\ UNCHANGED << tag, val, glock, cnt, pushed, popped, emptyPops, 
                             k, i, par, v, bottom, pv, child, right, parent, 
                             tt, tv >>

HQ3(self) == /\ pc[self] = "HQ3"
             /\ right' = [right EXCEPT ![self] = child[self] + 1]
             /\ IF right'[self] <= M
                   THEN /\ lk[right'[self]] = NIL
                        /\ lk' = [lk EXCEPT ![right'[self]] = self]
                        /\ pc' = [pc EXCEPT ![self] = "HQ4"]
                   ELSE /\ pc' = [pc EXCEPT ![self] = "HQ5"]
                        /\ lk' = lk
             /\ UNCHANGED << tag, val, glock, cnt, pushed, popped, emptyPops, 
                             k, i, par, v, bottom, pv, child, parent, tt, tv >>

HQ4(self) == /\ pc[self] = "HQ4"
             /\ IF tag[right[self]] # TagE /\ val[right[self]] > val[child[self]]
                   THEN /\ lk' = [lk EXCEPT ![child[self]] = NIL]
                        /\ child' = [child EXCEPT ![self] = right[self]]
                   ELSE /\ lk' = [lk EXCEPT ![right[self]] = NIL]
                        /\ child' = child
             /\ pc' = [pc EXCEPT ![self] = "HQ5"]
             /\ UNCHANGED << tag, val, glock, cnt, pushed, popped, emptyPops, 
                             k, i, par, v, bottom, pv, right, parent, tt, tv >>

HQ5(self) == /\ pc[self] = "HQ5"
             /\ IF val[child[self]] > val[parent[self]]
                   THEN /\ tag' = [tag EXCEPT ![parent[self]] = tag[child[self]],
                                              ![child[self]] = tag[parent[self]]]
                        /\ val' = [val EXCEPT ![parent[self]] = val[child[self]],
                                              ![child[self]] = val[parent[self]]]
                        /\ lk' = [lk EXCEPT ![parent[self]] = NIL]
                        /\ parent' = [parent EXCEPT ![self] = child[self]]
                        /\ child' = [child EXCEPT ![self] = child[self] * 2]
                        /\ pc' = [pc EXCEPT ![self] = "HQ0"]
                   ELSE /\ lk' = [lk EXCEPT ![child[self]] = NIL]
                        /\ pc' = [pc EXCEPT ![self] = "HQ9"]
                        /\ UNCHANGED << tag, val, child, parent >>
             /\ UNCHANGED << glock, cnt, pushed, popped, emptyPops, k, i, par, 
                             v, bottom, pv, right, tt, tv >>

HQ9(self) == /\ pc[self] = "HQ9"
             /\ lk' = [lk EXCEPT ![parent[self]] = NIL]
             /\ pc' = [pc EXCEPT ![self] = "PO9"]
             /\ UNCHANGED << tag, val, glock, cnt, pushed, popped, emptyPops, 
                             k, i, par, v, bottom, pv, child, right, parent, 
                             tt, tv >>

PO9(self) == /\ pc[self] = "PO9"
             /\ Assert(pv[self] \in pushed /\ pv[self] \notin popped, 
                       "Failure of assertion at line 80, column 9.")
             /\ popped' = (popped \cup {pv[self]})
             /\ pc' = [pc EXCEPT ![self] = "NX"]
             /\ UNCHANGED << tag, val, lk, glock, cnt, pushed, emptyPops, k, i, 
                             par, v, bottom, pv, child, right, parent, tt, tv >>

P(self) == L0(self) \/ NX(self) \/ PU1(self) \/ PU2(self) \/ PU3(self)
              \/ PU4(self) \/ PU5(self) \/ HP1(self) \/ HP2(self)
              \/ HP3(self) \/ HP4(self) \/ HP5(self) \/ HP6(self)
              \/ PO1(self) \/ PO2(self) \/ PO3(self) \/ PO4(self)
              \/ PO5(self) \/ PO6(self) \/ PO7(self) \/ HQ0(self)
              \/ HQ1(self) \/ HQ2(self) \/ HQ3(self) \/ HQ4(self)
              \/ HQ5(self) \/ HQ9(self) \/ PO9(self)

(* Allow infinite stuttering to prevent deadlock on termination. *)
Terminating == /\ \A self \in ProcSet: pc[self] = "Done"
               /\ UNCHANGED vars

Next == (\E self \in Procs: P(self))
           \/ Terminating

Spec == Init /\ [][Next]_vars

Termination == <>(\A self \in ProcSet: pc[self] = "Done")

\* END TRANSLATION
AllDone == \A p \in Procs : pc[p] = "Done"
InHeap == { val[j] : j \in { jj \in 1..M : tag[jj] # TagE } }
Quiescent == AllDone =>
  /\ glock = NIL /\ \A j \in 1..M : lk[j] = NIL /\ tag[j] \in {TagE, TagA}
  /\ InHeap \cup popped = pushed /\ InHeap \cap popped = {}
  /\ Cardinality({ j \in 1..M : tag[j] # TagE }) = cnt
  /\ \A j \in 2..M : tag[j] = TagA => (tag[j \div 2] = TagA /\ val[j \div 2] >= val[j])      \* heap order
  /\ { j \in 1..M : tag[j] # TagE } = { SlotOf[n] : n \in 1..cnt }                              \* occupied slots = first cnt slots of the counter
====
