---- MODULE TaggedFreeList ----
\* Tier B: cds::intrusive::TaggedFreeList (free_list_tagged.h): a Treiber-style free list whose head is a (pointer, tag) pair updated by a
\* double-width CAS; every successful put and get increments the tag, which protects get() against ABA.  One label per atomic access.
\*   TagHoisted -- seeded change C21b: put() computes the new tag once, before its CAS retry loop
\*   NoTag      -- the tag is never incremented (plain Treiber list with node re-use: the textbook ABA)
EXTENDS Naturals, Sequences, FiniteSets, TLC
CONSTANTS Procs, Prog, Nodes, TagHoisted, NoTag
NIL == 0
H(p, t) == [p |-> p, t |-> t]
(* --algorithm TaggedFreeList {
variables
  head = H(NIL, 0), nxt = [n \in Nodes |-> NIL],
  inlist = {},                                  \* ghost: nodes logically in the list
  owned = [p \in Procs |-> <<>>],               \* nodes a thread holds (obtained by get, or its own fresh ones), oldest first
  ok = TRUE;

process (P \in Procs)
  variables i = 1, op = <<>>, cur = H(NIL, 0), nh = H(NIL, 0), node = NIL, nx = NIL;
{
L0: while (i <= Len(Prog[self])) {
      op := Prog[self][i];
      if (op[1] = "put" \/ (op[1] = "reputf" /\ owned[self] # <<>>)) {
        if (op[1] = "put") { node := op[2]; } else { node := Head(owned[self]); owned[self] := Tail(owned[self]); };
P1:     cur := head;                                               \* currentHead = m_Head.load()
        nh := H(node, IF NoTag THEN cur.t ELSE cur.t + 1);
P2:     if (~TagHoisted) { nh := H(node, IF NoTag THEN cur.t ELSE cur.t + 1); };
        nxt[node] := cur.p;                                        \* pNode->m_freeListNext.store( currentHead.ptr )
P3:     if (head = cur) { head := nh; ok := ok /\ node \notin inlist; inlist := inlist \cup {node}; }      \* CAS( m_Head, currentHead -> newHead )
        else { cur := head; goto P2; };                            \* a failed CAS reloads currentHead
      } else if (op[1] = "get") {
G1:     cur := head;
G2:     if (cur.p = NIL) { ok := ok /\ TRUE; goto NX; };            \* empty
G3:     nx := nxt[cur.p];                                          \* current.ptr->m_freeListNext.load()
G4:     if (head = cur) {                                          \* CAS( m_Head, current -> ( next, tag + 1 ))
          head := H(nx, IF NoTag THEN cur.t ELSE cur.t + 1);
          ok := ok /\ cur.p \in inlist /\ (nx = NIL \/ nx \in inlist);      \* the node handed out was in the list, and so is the new first node
          inlist := inlist \ {cur.p}; owned[self] := Append(owned[self], cur.p);
        } else { goto G1; };
      };
NX:   i := i + 1;
    };
}
} *)
\* BEGIN TRANSLATION
VARIABLES pc, head, nxt, inlist, owned, ok, i, op, cur, nh, node, nx

vars == << pc, head, nxt, inlist, owned, ok, i, op, cur, nh, node, nx >>

ProcSet == (Procs)

Init == (* Global variables *)
        /\ head = H(NIL, 0)
        /\ nxt = [n \in Nodes |-> NIL]
        /\ inlist = {}
        /\ owned = [p \in Procs |-> <<>>]
        /\ ok = TRUE
        (* Process P *)
        /\ i = [self \in Procs |-> 1]
        /\ op = [self \in Procs |-> <<>>]
        /\ cur = [self \in Procs |-> H(NIL, 0)]
        /\ nh = [self \in Procs |-> H(NIL, 0)]
        /\ node = [self \in Procs |-> NIL]
        /\ nx = [self \in Procs |-> NIL]
        /\ pc = [self \in ProcSet |-> "L0"]

L0(self) == /\ pc[self] = "L0"
            /\ IF i[self] <= Len(Prog[self])
                  THEN /\ op' = [op EXCEPT ![self] = Prog[self][i[self]]]
                       /\ IF op'[self][1] = "put" \/ (op'[self][1] = "reputf" /\ owned[self] # <<>>)
                             THEN /\ IF op'[self][1] = "put"
                                        THEN /\ node' = [node EXCEPT ![self] = op'[self][2]]
                                             /\ owned' = owned
                                        ELSE /\ node' = [node EXCEPT ![self] = Head(owned[self])]
                                             /\ owned' = [owned EXCEPT ![self] = Tail(owned[self])]
                                  /\ pc' = [pc EXCEPT ![self] = "P1"]
                             ELSE /\ IF op'[self][1] = "get"
                                        THEN /\ pc' = [pc EXCEPT ![self] = "G1"]
                                        ELSE /\ pc' = [pc EXCEPT ![self] = "NX"]
                                  /\ UNCHANGED << owned, node >>
                  ELSE /\ pc' = [pc EXCEPT ![self] = "Done"]
                       /\ UNCHANGED << owned, op, node >>
            /\ UNCHANGED << head, nxt, inlist, ok, i, cur, nh, nx >>

NX(self) == /\ pc[self] = "NX"
            /\ i' = [i EXCEPT ![self] = i[self] + 1]
            /\ pc' = [pc EXCEPT ![self] = "L0"]
            /\ UNCHANGED << head, nxt, inlist, owned, ok, op, cur, nh, node, 
                            nx >>

P1(self) == /\ pc[self] = "P1"
            /\ cur' = [cur EXCEPT ![self] = head]
            /\ nh' = [nh EXCEPT ![self] = H(node[self], IF NoTag THEN cur'[self].t ELSE cur'[self].t + 1)]
            /\ pc' = [pc EXCEPT ![self] = "P2"]
            /\ UNCHANGED << head, nxt, inlist, owned, ok, i, op, node, nx >>

P2(self) == /\ pc[self] = "P2"
            /\ IF ~TagHoisted
                  THEN /\ nh' = [nh EXCEPT ![self] = H(node[self], IF NoTag THEN cur[self].t ELSE cur[self].t + 1)]
                  ELSE /\ TRUE
                       /\ nh' = nh
            /\ nxt' = [nxt EXCEPT ![node[self]] = cur[self].p]
            /\ pc' = [pc EXCEPT ![self] = "P3"]
            /\ UNCHANGED << head, inlist, owned, ok, i, op, cur, node, nx >>

P3(self) == /\ pc[self] = "P3"
            /\ IF head = cur[self]
                  THEN /\ head' = nh[self]
                       /\ ok' = (ok /\ node[self] \notin inlist)
                       /\ inlist' = (inlist \cup {node[self]})
                       /\ pc' = [pc EXCEPT ![self] = "NX"]
                       /\ cur' = cur
                  ELSE /\ cur' = [cur EXCEPT ![self] = head]
                       /\ pc' = [pc EXCEPT ![self] = "P2"]
                       /\ UNCHANGED << head, inlist, ok >>
            /\ UNCHANGED << nxt, owned, i, op, nh, node, nx >>

G1(self) == /\ pc[self] = "G1"
            /\ cur' = [cur EXCEPT ![self] = head]
            /\ pc' = [pc EXCEPT ![self] = "G2"]
            /\ UNCHANGED << head, nxt, inlist, owned, ok, i, op, nh, node, nx >>

G2(self) == /\ pc[self] = "G2"
            /\ IF cur[self].p = NIL
                  THEN /\ ok' = (ok /\ TRUE)
                       /\ pc' = [pc EXCEPT ![self] = "NX"]
                  ELSE /\ pc' = [pc EXCEPT ![self] = "G3"]
                       /\ ok' = ok
            /\ UNCHANGED << head, nxt, inlist, owned, i, op, cur, nh, node, nx >>

G3(self) == /\ pc[self] = "G3"
            /\ nx' = [nx EXCEPT ![self] = nxt[cur[self].p]]
            /\ pc' = [pc EXCEPT ![self] = "G4"]
            /\ UNCHANGED << head, nxt, inlist, owned, ok, i, op, cur, nh, node >>

G4(self) == /\ pc[self] = "G4"
            /\ IF head = cur[self]
                  THEN /\ head' = H(nx[self], IF NoTag THEN cur[self].t ELSE cur[self].t + 1)
                       /\ ok' = (ok /\ cur[self].p \in inlist /\ (nx[self] = NIL \/ nx[self] \in inlist))
                       /\ inlist' = inlist \ {cur[self].p}
                       /\ owned' = [owned EXCEPT ![self] = Append(owned[self], cur[self].p)]
                       /\ pc' = [pc EXCEPT ![self] = "NX"]
                  ELSE /\ pc' = [pc EXCEPT ![self] = "G1"]
                       /\ UNCHANGED << head, inlist, owned, ok >>
            /\ UNCHANGED << nxt, i, op, cur, nh, node, nx >>

P(self) == L0(self) \/ NX(self) \/ P1(self) \/ P2(self) \/ P3(self)
              \/ G1(self) \/ G2(self) \/ G3(self) \/ G4(self)

(* Allow infinite stuttering to prevent deadlock on termination. *)
Terminating == /\ \A self \in ProcSet: pc[self] = "Done"
               /\ UNCHANGED vars

Next == (\E self \in Procs: P(self))
           \/ Terminating

Spec == Init /\ [][Next]_vars

Termination == <>(\A self \in ProcSet: pc[self] = "Done")

\* END TRANSLATION
LinOK == ok
\* the chain from the head holds exactly the nodes that are logically in the list (no node lost, none handed out twice)
Chain == LET C[k \in 0..Cardinality(Nodes)] == IF k = 0 THEN (IF head.p = NIL THEN <<>> ELSE <<head.p>>)
                                               ELSE LET c == C[k - 1] IN IF c = <<>> \/ nxt[c[Len(c)]] = NIL \/ Len(c) > Cardinality(Nodes) THEN c ELSE Append(c, nxt[c[Len(c)]]) IN C[Cardinality(Nodes)]
Quiet == \A p \in Procs : pc[p] \in {"L0", "Done"}
ChainOK == Quiet => LET c == Chain IN { c[j] : j \in 1..Len(c) } = inlist /\ Len(c) = Cardinality(inlist)
NoDoubleOwner == \A p, q \in Procs : \A a \in 1..Len(owned[p]), b \in 1..Len(owned[q]) : (p # q \/ a # b) => owned[p][a] # owned[q][b]
====
