---- MODULE FreeListMC ----
EXTENDS FreeList
P2 == (1 :> <<"put", "get", "put", "get">>) @@ (2 :> <<"put", "get", "get", "put">>)
P3 == (1 :> <<"put", "get", "put">>) @@ (2 :> <<"get", "put", "get">>) @@ (3 :> <<"put", "get">>)
====
