---- MODULE TaggedFreeListMC ----
EXTENDS TaggedFreeList
\* the schedule of seeded change C21b: a stalled get, a free thread, a stalled put (node 1 is put first by thread 2)
TA == (1 :> << <<"get">>, <<"get">> >>) @@ (2 :> << <<"put", 1>>, <<"put", 2>>, <<"put", 3>>, <<"get">>, <<"get">>, <<"reputf">>, <<"get">>, <<"get">> >>) @@ (3 :> << <<"put", 5>> >>)
TB == (1 :> << <<"put", 1>>, <<"get">>, <<"reputf">> >>) @@ (2 :> << <<"put", 2>>, <<"get">>, <<"get">> >>)
====
