SPECIFICATION Spec
CONSTANTS
  Procs = {1, 2, 3}
  Prog <- TA
  Nodes = {1, 2, 3, 5}
  TagHoisted = FALSE
  NoTag = FALSE
INVARIANTS LinOK ChainOK NoDoubleOwner
CHECK_DEADLOCK FALSE
