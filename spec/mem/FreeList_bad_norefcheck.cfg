SPECIFICATION Spec
CONSTANTS
  defaultInitValue = 0
  Procs = {1, 2}
  Nodes = {1, 2}
  Prog <- P2
  NoRefCheck = TRUE
INVARIANT NoDoubleHandOut
INVARIANT NothingLost
CHECK_DEADLOCK FALSE
