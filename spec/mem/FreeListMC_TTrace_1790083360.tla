---- MODULE FreeListMC_TTrace_1790083360 ----
EXTENDS Sequences, TLCExt, Toolbox, FreeListMC, Naturals, TLC

_expression ==
    LET FreeListMC_TEExpression == INSTANCE FreeListMC_TEExpression
    IN FreeListMC_TEExpression!expression
----

_trace ==
    LET FreeListMC_TETrace == INSTANCE FreeListMC_TETrace
    IN FreeListMC_TETrace!trace
----

_inv ==
    ~(
        TLCGet("level") = Len(_TETrace)
        /\
        mine = (<<{1}, {1}>>)
        /\
        owner = (<<1, 0>>)
        /\
        stack = (<<<<>>, <<[pc |-> "L1", node |-> 0, h |-> 0, old |-> [n |-> 0, f |-> FALSE], procedure |-> "add_zero"]>>>>)
        /\
        old = (<<[n |-> 0, f |-> FALSE], [n |-> 0, f |-> FALSE]>>)
        /\
        prev = (<<1, 1>>)
        /\
        h = (<<0, 0>>)
        /\
        i = (<<4, 4>>)
        /\
        nx = (<<0, 0>>)
        /\
        nxt = (<<0, 0>>)
        /\
        head = (0)
        /\
        node = (<<0, 2>>)
        /\
        r = (<<[n |-> 0, f |-> FALSE], [n |-> 0, f |-> FALSE]>>)
        /\
        pc = (<<"G6", "A9">>)
        /\
        refs = (<<[n |-> 1, f |-> FALSE], [n |-> -1, f |-> TRUE]>>)
        /\
        fresh = (<<{}, {}>>)
        /\
        ok = (FALSE)
        /\
        hd = (<<1, 2>>)
    )
----

_init ==
    /\ mine = _TETrace[1].mine
    /\ nxt = _TETrace[1].nxt
    /\ node = _TETrace[1].node
    /\ fresh = _TETrace[1].fresh
    /\ nx = _TETrace[1].nx
    /\ prev = _TETrace[1].prev
    /\ ok = _TETrace[1].ok
    /\ h = _TETrace[1].h
    /\ i = _TETrace[1].i
    /\ refs = _TETrace[1].refs
    /\ r = _TETrace[1].r
    /\ pc = _TETrace[1].pc
    /\ old = _TETrace[1].old
    /\ hd = _TETrace[1].hd
    /\ stack = _TETrace[1].stack
    /\ owner = _TETrace[1].owner
    /\ head = _TETrace[1].head
----

_next ==
    /\ \E i,j \in DOMAIN _TETrace:
        /\ \/ /\ j = i + 1
              /\ i = TLCGet("level")
        /\ mine  = _TETrace[i].mine
        /\ mine' = _TETrace[j].mine
        /\ nxt  = _TETrace[i].nxt
        /\ nxt' = _TETrace[j].nxt
        /\ node  = _TETrace[i].node
        /\ node' = _TETrace[j].node
        /\ fresh  = _TETrace[i].fresh
        /\ fresh' = _TETrace[j].fresh
        /\ nx  = _TETrace[i].nx
        /\ nx' = _TETrace[j].nx
        /\ prev  = _TETrace[i].prev
        /\ prev' = _TETrace[j].prev
        /\ ok  = _TETrace[i].ok
        /\ ok' = _TETrace[j].ok
        /\ h  = _TETrace[i].h
        /\ h' = _TETrace[j].h
        /\ i  = _TETrace[i].i
        /\ i' = _TETrace[j].i
        /\ refs  = _TETrace[i].refs
        /\ refs' = _TETrace[j].refs
        /\ r  = _TETrace[i].r
        /\ r' = _TETrace[j].r
        /\ pc  = _TETrace[i].pc
        /\ pc' = _TETrace[j].pc
        /\ old  = _TETrace[i].old
        /\ old' = _TETrace[j].old
        /\ hd  = _TETrace[i].hd
        /\ hd' = _TETrace[j].hd
        /\ stack  = _TETrace[i].stack
        /\ stack' = _TETrace[j].stack
        /\ owner  = _TETrace[i].owner
        /\ owner' = _TETrace[j].owner
        /\ head  = _TETrace[i].head
        /\ head' = _TETrace[j].head

\* Uncomment the ASSUME below to write the states of the error trace
\* to the given file in Json format. Note that you can pass any tuple
\* to `JsonSerialize`. For example, a sub-sequence of _TETrace.
    \* ASSUME
    \*     LET J == INSTANCE Json
    \*         IN J!JsonSerialize("FreeListMC_TTrace_1790083360.json", _TETrace)

=============================================================================

 Note that you can extract this module `FreeListMC_TEExpression`
  to a dedicated file to reuse `expression` (the module in the 
  dedicated `FreeListMC_TEExpression.tla` file takes precedence 
  over the module `FreeListMC_TEExpression` below).

---- MODULE FreeListMC_TEExpression ----
EXTENDS Sequences, TLCExt, Toolbox, FreeListMC, Naturals, TLC

expression == 
    [
        \* To hide variables of the `FreeListMC` spec from the error trace,
        \* remove the variables below.  The trace will be written in the order
        \* of the fields of this record.
        mine |-> mine
        ,nxt |-> nxt
        ,node |-> node
        ,fresh |-> fresh
        ,nx |-> nx
        ,prev |-> prev
        ,ok |-> ok
        ,h |-> h
        ,i |-> i
        ,refs |-> refs
        ,r |-> r
        ,pc |-> pc
        ,old |-> old
        ,hd |-> hd
        ,stack |-> stack
        ,owner |-> owner
        ,head |-> head
        
        \* Put additional constant-, state-, and action-level expressions here:
        \* ,_stateNumber |-> _TEPosition
        \* ,_mineUnchanged |-> mine = mine'
        
        \* Format the `mine` variable as Json value.
        \* ,_mineJson |->
        \*     LET J == INSTANCE Json
        \*     IN J!ToJson(mine)
        
        \* Lastly, you may build expressions over arbitrary sets of states by
        \* leveraging the _TETrace operator.  For example, this is how to
        \* count the number of times a spec variable changed up to the current
        \* state in the trace.
        \* ,_mineModCount |->
        \*     LET F[s \in DOMAIN _TETrace] ==
        \*         IF s = 1 THEN 0
        \*         ELSE IF _TETrace[s].mine # _TETrace[s-1].mine
        \*             THEN 1 + F[s-1] ELSE F[s-1]
        \*     IN F[_TEPosition - 1]
    ]

=============================================================================



Parsing and semantic processing can take forever if the trace below is long.
 In this case, it is advised to uncomment the module below to deserialize the
 trace from a generated binary file.

\*
\*---- MODULE FreeListMC_TETrace ----
\*EXTENDS IOUtils, FreeListMC, TLC
\*
\*trace == IODeserialize("FreeListMC_TTrace_1790083360.bin", TRUE)
\*
\*=============================================================================
\*

---- MODULE FreeListMC_TETrace ----
EXTENDS FreeListMC, TLC

trace == 
    <<
    ([mine |-> <<{}, {}>>,owner |-> <<-1, -1>>,stack |-> <<<<>>, <<>>>>,old |-> <<[n |-> 0, f |-> FALSE], [n |-> 0, f |-> FALSE]>>,prev |-> <<0, 0>>,h |-> <<0, 0>>,i |-> <<1, 1>>,nx |-> <<0, 0>>,nxt |-> <<0, 0>>,head |-> 0,node |-> <<0, 0>>,r |-> <<[n |-> 0, f |-> FALSE], [n |-> 0, f |-> FALSE]>>,pc |-> <<"L0", "L0">>,refs |-> <<[n |-> 0, f |-> FALSE], [n |-> 0, f |-> FALSE]>>,fresh |-> <<{}, {}>>,ok |-> TRUE,hd |-> <<0, 0>>]),
    ([mine |-> <<{}, {}>>,owner |-> <<0, -1>>,stack |-> <<<<>>, <<>>>>,old |-> <<[n |-> 0, f |-> FALSE], [n |-> 0, f |-> FALSE]>>,prev |-> <<0, 0>>,h |-> <<0, 0>>,i |-> <<1, 1>>,nx |-> <<0, 0>>,nxt |-> <<0, 0>>,head |-> 0,node |-> <<0, 0>>,r |-> <<[n |-> 0, f |-> FALSE], [n |-> 0, f |-> FALSE]>>,pc |-> <<"P1", "L0">>,refs |-> <<[n |-> 0, f |-> FALSE], [n |-> 0, f |-> FALSE]>>,fresh |-> <<{}, {}>>,ok |-> TRUE,hd |-> <<1, 0>>]),
    ([mine |-> <<{}, {}>>,owner |-> <<0, 0>>,stack |-> <<<<>>, <<>>>>,old |-> <<[n |-> 0, f |-> FALSE], [n |-> 0, f |-> FALSE]>>,prev |-> <<0, 0>>,h |-> <<0, 0>>,i |-> <<1, 1>>,nx |-> <<0, 0>>,nxt |-> <<0, 0>>,head |-> 0,node |-> <<0, 0>>,r |-> <<[n |-> 0, f |-> FALSE], [n |-> 0, f |-> FALSE]>>,pc |-> <<"P1", "P1">>,refs |-> <<[n |-> 0, f |-> FALSE], [n |-> 0, f |-> FALSE]>>,fresh |-> <<{}, {}>>,ok |-> TRUE,hd |-> <<1, 2>>]),
    ([mine |-> <<{}, {}>>,owner |-> <<0, 0>>,stack |-> <<<<[pc |-> "L1", node |-> 0, h |-> 0, old |-> [n |-> 0, f |-> FALSE], procedure |-> "add_zero"]>>, <<>>>>,old |-> <<[n |-> 0, f |-> FALSE], [n |-> 0, f |-> FALSE]>>,prev |-> <<0, 0>>,h |-> <<0, 0>>,i |-> <<1, 1>>,nx |-> <<0, 0>>,nxt |-> <<0, 0>>,head |-> 0,node |-> <<1, 0>>,r |-> <<[n |-> 0, f |-> FALSE], [n |-> 0, f |-> FALSE]>>,pc |-> <<"A1", "P1">>,refs |-> <<[n |-> 0, f |-> TRUE], [n |-> 0, f |-> FALSE]>>,fresh |-> <<{}, {}>>,ok |-> TRUE,hd |-> <<1, 2>>]),
    ([mine |-> <<{}, {}>>,owner |-> <<0, 0>>,stack |-> <<<<[pc |-> "L1", node |-> 0, h |-> 0, old |-> [n |-> 0, f |-> FALSE], procedure |-> "add_zero"]>>, <<[pc |-> "L1", node |-> 0, h |-> 0, old |-> [n |-> 0, f |-> FALSE], procedure |-> "add_zero"]>>>>,old |-> <<[n |-> 0, f |-> FALSE], [n |-> 0, f |-> FALSE]>>,prev |-> <<0, 0>>,h |-> <<0, 0>>,i |-> <<1, 1>>,nx |-> <<0, 0>>,nxt |-> <<0, 0>>,head |-> 0,node |-> <<1, 2>>,r |-> <<[n |-> 0, f |-> FALSE], [n |-> 0, f |-> FALSE]>>,pc |-> <<"A1", "A1">>,refs |-> <<[n |-> 0, f |-> TRUE], [n |-> 0, f |-> TRUE]>>,fresh |-> <<{}, {}>>,ok |-> TRUE,hd |-> <<1, 2>>]),
    ([mine |-> <<{}, {}>>,owner |-> <<0, 0>>,stack |-> <<<<[pc |-> "L1", node |-> 0, h |-> 0, old |-> [n |-> 0, f |-> FALSE], procedure |-> "add_zero"]>>, <<[pc |-> "L1", node |-> 0, h |-> 0, old |-> [n |-> 0, f |-> FALSE], procedure |-> "add_zero"]>>>>,old |-> <<[n |-> 0, f |-> FALSE], [n |-> 0, f |-> FALSE]>>,prev |-> <<0, 0>>,h |-> <<0, 0>>,i |-> <<1, 1>>,nx |-> <<0, 0>>,nxt |-> <<0, 0>>,head |-> 0,node |-> <<1, 2>>,r |-> <<[n |-> 0, f |-> FALSE], [n |-> 0, f |-> FALSE]>>,pc |-> <<"A2", "A1">>,refs |-> <<[n |-> 0, f |-> TRUE], [n |-> 0, f |-> TRUE]>>,fresh |-> <<{}, {}>>,ok |-> TRUE,hd |-> <<1, 2>>]),
    ([mine |-> <<{}, {}>>,owner |-> <<0, 0>>,stack |-> <<<<[pc |-> "L1", node |-> 0, h |-> 0, old |-> [n |-> 0, f |-> FALSE], procedure |-> "add_zero"]>>, <<[pc |-> "L1", node |-> 0, h |-> 0, old |-> [n |-> 0, f |-> FALSE], procedure |-> "add_zero"]>>>>,old |-> <<[n |-> 0, f |-> FALSE], [n |-> 0, f |-> FALSE]>>,prev |-> <<0, 0>>,h |-> <<0, 0>>,i |-> <<1, 1>>,nx |-> <<0, 0>>,nxt |-> <<0, 0>>,head |-> 0,node |-> <<1, 2>>,r |-> <<[n |-> 0, f |-> FALSE], [n |-> 0, f |-> FALSE]>>,pc |-> <<"A3", "A1">>,refs |-> <<[n |-> 0, f |-> TRUE], [n |-> 0, f |-> TRUE]>>,fresh |-> <<{}, {}>>,ok |-> TRUE,hd |-> <<1, 2>>]),
    ([mine |-> <<{}, {}>>,owner |-> <<0, 0>>,stack |-> <<<<[pc |-> "L1", node |-> 0, h |-> 0, old |-> [n |-> 0, f |-> FALSE], procedure |-> "add_zero"]>>, <<[pc |-> "L1", node |-> 0, h |-> 0, old |-> [n |-> 0, f |-> FALSE], procedure |-> "add_zero"]>>>>,old |-> <<[n |-> 0, f |-> FALSE], [n |-> 0, f |-> FALSE]>>,prev |-> <<0, 0>>,h |-> <<0, 0>>,i |-> <<1, 1>>,nx |-> <<0, 0>>,nxt |-> <<0, 0>>,head |-> 0,node |-> <<1, 2>>,r |-> <<[n |-> 0, f |-> FALSE], [n |-> 0, f |-> FALSE]>>,pc |-> <<"A4", "A1">>,refs |-> <<[n |-> 1, f |-> FALSE], [n |-> 0, f |-> TRUE]>>,fresh |-> <<{}, {}>>,ok |-> TRUE,hd |-> <<1, 2>>]),
    ([mine |-> <<{}, {}>>,owner |-> <<0, 0>>,stack |-> <<<<[pc |-> "L1", node |-> 0, h |-> 0, old |-> [n |-> 0, f |-> FALSE], procedure |-> "add_zero"]>>, <<[pc |-> "L1", node |-> 0, h |-> 0, old |-> [n |-> 0, f |-> FALSE], procedure |-> "add_zero"]>>>>,old |-> <<[n |-> 0, f |-> FALSE], [n |-> 0, f |-> FALSE]>>,prev |-> <<0, 0>>,h |-> <<0, 0>>,i |-> <<1, 1>>,nx |-> <<0, 0>>,nxt |-> <<0, 0>>,head |-> 1,node |-> <<1, 2>>,r |-> <<[n |-> 0, f |-> FALSE], [n |-> 0, f |-> FALSE]>>,pc |-> <<"A9", "A1">>,refs |-> <<[n |-> 1, f |-> FALSE], [n |-> 0, f |-> TRUE]>>,fresh |-> <<{}, {}>>,ok |-> TRUE,hd |-> <<1, 2>>]),
    ([mine |-> <<{}, {}>>,owner |-> <<0, 0>>,stack |-> <<<<[pc |-> "L1", node |-> 0, h |-> 0, old |-> [n |-> 0, f |-> FALSE], procedure |-> "add_zero"]>>, <<[pc |-> "L1", node |-> 0, h |-> 0, old |-> [n |-> 0, f |-> FALSE], procedure |-> "add_zero"]>>>>,old |-> <<[n |-> 0, f |-> FALSE], [n |-> 0, f |-> FALSE]>>,prev |-> <<0, 0>>,h |-> <<0, 1>>,i |-> <<1, 1>>,nx |-> <<0, 0>>,nxt |-> <<0, 0>>,head |-> 1,node |-> <<1, 2>>,r |-> <<[n |-> 0, f |-> FALSE], [n |-> 0, f |-> FALSE]>>,pc |-> <<"A9", "A2">>,refs |-> <<[n |-> 1, f |-> FALSE], [n |-> 0, f |-> TRUE]>>,fresh |-> <<{}, {}>>,ok |-> TRUE,hd |-> <<1, 2>>]),
    ([mine |-> <<{}, {}>>,owner |-> <<0, 0>>,stack |-> <<<<[pc |-> "L1", node |-> 0, h |-> 0, old |-> [n |-> 0, f |-> FALSE], procedure |-> "add_zero"]>>, <<[pc |-> "L1", node |-> 0, h |-> 0, old |-> [n |-> 0, f |-> FALSE], procedure |-> "add_zero"]>>>>,old |-> <<[n |-> 0, f |-> FALSE], [n |-> 0, f |-> FALSE]>>,prev |-> <<0, 0>>,h |-> <<0, 1>>,i |-> <<1, 1>>,nx |-> <<0, 0>>,nxt |-> <<0, 1>>,head |-> 1,node |-> <<1, 2>>,r |-> <<[n |-> 0, f |-> FALSE], [n |-> 0, f |-> FALSE]>>,pc |-> <<"A9", "A3">>,refs |-> <<[n |-> 1, f |-> FALSE], [n |-> 0, f |-> TRUE]>>,fresh |-> <<{}, {}>>,ok |-> TRUE,hd |-> <<1, 2>>]),
    ([mine |-> <<{}, {}>>,owner |-> <<0, 0>>,stack |-> <<<<>>, <<[pc |-> "L1", node |-> 0, h |-> 0, old |-> [n |-> 0, f |-> FALSE], procedure |-> "add_zero"]>>>>,old |-> <<[n |-> 0, f |-> FALSE], [n |-> 0, f |-> FALSE]>>,prev |-> <<0, 0>>,h |-> <<0, 1>>,i |-> <<1, 1>>,nx |-> <<0, 0>>,nxt |-> <<0, 1>>,head |-> 1,node |-> <<0, 2>>,r |-> <<[n |-> 0, f |-> FALSE], [n |-> 0, f |-> FALSE]>>,pc |-> <<"L1", "A3">>,refs |-> <<[n |-> 1, f |-> FALSE], [n |-> 0, f |-> TRUE]>>,fresh |-> <<{}, {}>>,ok |-> TRUE,hd |-> <<1, 2>>]),
    ([mine |-> <<{}, {}>>,owner |-> <<0, 0>>,stack |-> <<<<>>, <<[pc |-> "L1", node |-> 0, h |-> 0, old |-> [n |-> 0, f |-> FALSE], procedure |-> "add_zero"]>>>>,old |-> <<[n |-> 0, f |-> FALSE], [n |-> 0, f |-> FALSE]>>,prev |-> <<0, 0>>,h |-> <<0, 1>>,i |-> <<1, 1>>,nx |-> <<0, 0>>,nxt |-> <<0, 1>>,head |-> 1,node |-> <<0, 2>>,r |-> <<[n |-> 0, f |-> FALSE], [n |-> 0, f |-> FALSE]>>,pc |-> <<"L1", "A4">>,refs |-> <<[n |-> 1, f |-> FALSE], [n |-> 1, f |-> FALSE]>>,fresh |-> <<{}, {}>>,ok |-> TRUE,hd |-> <<1, 2>>]),
    ([mine |-> <<{}, {}>>,owner |-> <<0, 0>>,stack |-> <<<<>>, <<[pc |-> "L1", node |-> 0, h |-> 0, old |-> [n |-> 0, f |-> FALSE], procedure |-> "add_zero"]>>>>,old |-> <<[n |-> 0, f |-> FALSE], [n |-> 0, f |-> FALSE]>>,prev |-> <<0, 0>>,h |-> <<0, 1>>,i |-> <<2, 1>>,nx |-> <<0, 0>>,nxt |-> <<0, 1>>,head |-> 1,node |-> <<0, 2>>,r |-> <<[n |-> 0, f |-> FALSE], [n |-> 0, f |-> FALSE]>>,pc |-> <<"L0", "A4">>,refs |-> <<[n |-> 1, f |-> FALSE], [n |-> 1, f |-> FALSE]>>,fresh |-> <<{}, {}>>,ok |-> TRUE,hd |-> <<1, 2>>]),
    ([mine |-> <<{}, {}>>,owner |-> <<0, 0>>,stack |-> <<<<>>, <<[pc |-> "L1", node |-> 0, h |-> 0, old |-> [n |-> 0, f |-> FALSE], procedure |-> "add_zero"]>>>>,old |-> <<[n |-> 0, f |-> FALSE], [n |-> 0, f |-> FALSE]>>,prev |-> <<0, 0>>,h |-> <<0, 1>>,i |-> <<2, 1>>,nx |-> <<0, 0>>,nxt |-> <<0, 1>>,head |-> 2,node |-> <<0, 2>>,r |-> <<[n |-> 0, f |-> FALSE], [n |-> 0, f |-> FALSE]>>,pc |-> <<"L0", "A9">>,refs |-> <<[n |-> 1, f |-> FALSE], [n |-> 1, f |-> FALSE]>>,fresh |-> <<{}, {}>>,ok |-> TRUE,hd |-> <<1, 2>>]),
    ([mine |-> <<{}, {}>>,owner |-> <<0, 0>>,stack |-> <<<<>>, <<>>>>,old |-> <<[n |-> 0, f |-> FALSE], [n |-> 0, f |-> FALSE]>>,prev |-> <<0, 0>>,h |-> <<0, 0>>,i |-> <<2, 1>>,nx |-> <<0, 0>>,nxt |-> <<0, 1>>,head |-> 2,node |-> <<0, 0>>,r |-> <<[n |-> 0, f |-> FALSE], [n |-> 0, f |-> FALSE]>>,pc |-> <<"L0", "L1">>,refs |-> <<[n |-> 1, f |-> FALSE], [n |-> 1, f |-> FALSE]>>,fresh |-> <<{}, {}>>,ok |-> TRUE,hd |-> <<1, 2>>]),
    ([mine |-> <<{}, {}>>,owner |-> <<0, 0>>,stack |-> <<<<>>, <<>>>>,old |-> <<[n |-> 0, f |-> FALSE], [n |-> 0, f |-> FALSE]>>,prev |-> <<0, 0>>,h |-> <<0, 0>>,i |-> <<2, 2>>,nx |-> <<0, 0>>,nxt |-> <<0, 1>>,head |-> 2,node |-> <<0, 0>>,r |-> <<[n |-> 0, f |-> FALSE], [n |-> 0, f |-> FALSE]>>,pc |-> <<"L0", "L0">>,refs |-> <<[n |-> 1, f |-> FALSE], [n |-> 1, f |-> FALSE]>>,fresh |-> <<{}, {}>>,ok |-> TRUE,hd |-> <<1, 2>>]),
    ([mine |-> <<{}, {}>>,owner |-> <<0, 0>>,stack |-> <<<<>>, <<>>>>,old |-> <<[n |-> 0, f |-> FALSE], [n |-> 0, f |-> FALSE]>>,prev |-> <<0, 0>>,h |-> <<0, 0>>,i |-> <<2, 2>>,nx |-> <<0, 0>>,nxt |-> <<0, 1>>,head |-> 2,node |-> <<0, 0>>,r |-> <<[n |-> 0, f |-> FALSE], [n |-> 0, f |-> FALSE]>>,pc |-> <<"L0", "G1">>,refs |-> <<[n |-> 1, f |-> FALSE], [n |-> 1, f |-> FALSE]>>,fresh |-> <<{}, {}>>,ok |-> TRUE,hd |-> <<1, 2>>]),
    ([mine |-> <<{}, {}>>,owner |-> <<0, 0>>,stack |-> <<<<>>, <<>>>>,old |-> <<[n |-> 0, f |-> FALSE], [n |-> 0, f |-> FALSE]>>,prev |-> <<0, 0>>,h |-> <<0, 0>>,i |-> <<2, 2>>,nx |-> <<0, 0>>,nxt |-> <<0, 1>>,head |-> 2,node |-> <<0, 0>>,r |-> <<[n |-> 0, f |-> FALSE], [n |-> 0, f |-> FALSE]>>,pc |-> <<"L0", "G2">>,refs |-> <<[n |-> 1, f |-> FALSE], [n |-> 1, f |-> FALSE]>>,fresh |-> <<{}, {}>>,ok |-> TRUE,hd |-> <<1, 2>>]),
    ([mine |-> <<{}, {}>>,owner |-> <<0, 0>>,stack |-> <<<<>>, <<>>>>,old |-> <<[n |-> 0, f |-> FALSE], [n |-> 0, f |-> FALSE]>>,prev |-> <<0, 2>>,h |-> <<0, 0>>,i |-> <<2, 2>>,nx |-> <<0, 0>>,nxt |-> <<0, 1>>,head |-> 2,node |-> <<0, 0>>,r |-> <<[n |-> 0, f |-> FALSE], [n |-> 1, f |-> FALSE]>>,pc |-> <<"L0", "G3">>,refs |-> <<[n |-> 1, f |-> FALSE], [n |-> 1, f |-> FALSE]>>,fresh |-> <<{}, {}>>,ok |-> TRUE,hd |-> <<1, 2>>]),
    ([mine |-> <<{}, {}>>,owner |-> <<0, 0>>,stack |-> <<<<>>, <<>>>>,old |-> <<[n |-> 0, f |-> FALSE], [n |-> 0, f |-> FALSE]>>,prev |-> <<0, 2>>,h |-> <<0, 0>>,i |-> <<2, 2>>,nx |-> <<0, 0>>,nxt |-> <<0, 1>>,head |-> 2,node |-> <<0, 0>>,r |-> <<[n |-> 0, f |-> FALSE], [n |-> 1, f |-> FALSE]>>,pc |-> <<"G1", "G3">>,refs |-> <<[n |-> 1, f |-> FALSE], [n |-> 1, f |-> FALSE]>>,fresh |-> <<{}, {}>>,ok |-> TRUE,hd |-> <<1, 2>>]),
    ([mine |-> <<{}, {}>>,owner |-> <<0, 0>>,stack |-> <<<<>>, <<>>>>,old |-> <<[n |-> 0, f |-> FALSE], [n |-> 0, f |-> FALSE]>>,prev |-> <<0, 2>>,h |-> <<0, 0>>,i |-> <<2, 2>>,nx |-> <<0, 0>>,nxt |-> <<0, 1>>,head |-> 2,node |-> <<0, 0>>,r |-> <<[n |-> 0, f |-> FALSE], [n |-> 1, f |-> FALSE]>>,pc |-> <<"G1", "G4">>,refs |-> <<[n |-> 1, f |-> FALSE], [n |-> 2, f |-> FALSE]>>,fresh |-> <<{}, {}>>,ok |-> TRUE,hd |-> <<1, 2>>]),
    ([mine |-> <<{}, {}>>,owner |-> <<0, 0>>,stack |-> <<<<>>, <<>>>>,old |-> <<[n |-> 0, f |-> FALSE], [n |-> 0, f |-> FALSE]>>,prev |-> <<0, 2>>,h |-> <<0, 0>>,i |-> <<2, 2>>,nx |-> <<0, 1>>,nxt |-> <<0, 1>>,head |-> 2,node |-> <<0, 0>>,r |-> <<[n |-> 0, f |-> FALSE], [n |-> 1, f |-> FALSE]>>,pc |-> <<"G1", "G5">>,refs |-> <<[n |-> 1, f |-> FALSE], [n |-> 2, f |-> FALSE]>>,fresh |-> <<{}, {}>>,ok |-> TRUE,hd |-> <<1, 2>>]),
    ([mine |-> <<{}, {}>>,owner |-> <<0, 0>>,stack |-> <<<<>>, <<>>>>,old |-> <<[n |-> 0, f |-> FALSE], [n |-> 0, f |-> FALSE]>>,prev |-> <<0, 2>>,h |-> <<0, 0>>,i |-> <<2, 2>>,nx |-> <<0, 1>>,nxt |-> <<0, 1>>,head |-> 2,node |-> <<0, 0>>,r |-> <<[n |-> 0, f |-> FALSE], [n |-> 1, f |-> FALSE]>>,pc |-> <<"G2", "G5">>,refs |-> <<[n |-> 1, f |-> FALSE], [n |-> 2, f |-> FALSE]>>,fresh |-> <<{}, {}>>,ok |-> TRUE,hd |-> <<2, 2>>]),
    ([mine |-> <<{}, {2}>>,owner |-> <<0, 2>>,stack |-> <<<<>>, <<>>>>,old |-> <<[n |-> 0, f |-> FALSE], [n |-> 0, f |-> FALSE]>>,prev |-> <<0, 2>>,h |-> <<0, 0>>,i |-> <<2, 2>>,nx |-> <<0, 1>>,nxt |-> <<0, 1>>,head |-> 1,node |-> <<0, 0>>,r |-> <<[n |-> 0, f |-> FALSE], [n |-> 1, f |-> FALSE]>>,pc |-> <<"G2", "G6">>,refs |-> <<[n |-> 1, f |-> FALSE], [n |-> 2, f |-> FALSE]>>,fresh |-> <<{}, {}>>,ok |-> TRUE,hd |-> <<2, 2>>]),
    ([mine |-> <<{}, {2}>>,owner |-> <<0, 2>>,stack |-> <<<<>>, <<>>>>,old |-> <<[n |-> 0, f |-> FALSE], [n |-> 0, f |-> FALSE]>>,prev |-> <<0, 2>>,h |-> <<0, 0>>,i |-> <<2, 2>>,nx |-> <<0, 1>>,nxt |-> <<0, 1>>,head |-> 1,node |-> <<0, 0>>,r |-> <<[n |-> 0, f |-> FALSE], [n |-> 1, f |-> FALSE]>>,pc |-> <<"G2", "G2">>,refs |-> <<[n |-> 1, f |-> FALSE], [n |-> 0, f |-> FALSE]>>,fresh |-> <<{}, {}>>,ok |-> TRUE,hd |-> <<2, 0>>]),
    ([mine |-> <<{}, {2}>>,owner |-> <<0, 2>>,stack |-> <<<<>>, <<>>>>,old |-> <<[n |-> 0, f |-> FALSE], [n |-> 0, f |-> FALSE]>>,prev |-> <<0, 2>>,h |-> <<0, 0>>,i |-> <<2, 2>>,nx |-> <<0, 1>>,nxt |-> <<0, 1>>,head |-> 1,node |-> <<0, 0>>,r |-> <<[n |-> 0, f |-> FALSE], [n |-> 1, f |-> FALSE]>>,pc |-> <<"G2", "L1">>,refs |-> <<[n |-> 1, f |-> FALSE], [n |-> 0, f |-> FALSE]>>,fresh |-> <<{}, {}>>,ok |-> TRUE,hd |-> <<2, 0>>]),
    ([mine |-> <<{}, {2}>>,owner |-> <<0, 2>>,stack |-> <<<<>>, <<>>>>,old |-> <<[n |-> 0, f |-> FALSE], [n |-> 0, f |-> FALSE]>>,prev |-> <<0, 2>>,h |-> <<0, 0>>,i |-> <<2, 3>>,nx |-> <<0, 1>>,nxt |-> <<0, 1>>,head |-> 1,node |-> <<0, 0>>,r |-> <<[n |-> 0, f |-> FALSE], [n |-> 1, f |-> FALSE]>>,pc |-> <<"G2", "L0">>,refs |-> <<[n |-> 1, f |-> FALSE], [n |-> 0, f |-> FALSE]>>,fresh |-> <<{}, {}>>,ok |-> TRUE,hd |-> <<2, 0>>]),
    ([mine |-> <<{}, {2}>>,owner |-> <<0, 2>>,stack |-> <<<<>>, <<>>>>,old |-> <<[n |-> 0, f |-> FALSE], [n |-> 0, f |-> FALSE]>>,prev |-> <<0, 2>>,h |-> <<0, 0>>,i |-> <<2, 3>>,nx |-> <<0, 1>>,nxt |-> <<0, 1>>,head |-> 1,node |-> <<0, 0>>,r |-> <<[n |-> 0, f |-> FALSE], [n |-> 1, f |-> FALSE]>>,pc |-> <<"G2", "G1">>,refs |-> <<[n |-> 1, f |-> FALSE], [n |-> 0, f |-> FALSE]>>,fresh |-> <<{}, {}>>,ok |-> TRUE,hd |-> <<2, 0>>]),
    ([mine |-> <<{}, {2}>>,owner |-> <<0, 2>>,stack |-> <<<<>>, <<>>>>,old |-> <<[n |-> 0, f |-> FALSE], [n |-> 0, f |-> FALSE]>>,prev |-> <<0, 2>>,h |-> <<0, 0>>,i |-> <<2, 3>>,nx |-> <<0, 1>>,nxt |-> <<0, 1>>,head |-> 1,node |-> <<0, 0>>,r |-> <<[n |-> 0, f |-> FALSE], [n |-> 1, f |-> FALSE]>>,pc |-> <<"G2", "G2">>,refs |-> <<[n |-> 1, f |-> FALSE], [n |-> 0, f |-> FALSE]>>,fresh |-> <<{}, {}>>,ok |-> TRUE,hd |-> <<2, 1>>]),
    ([mine |-> <<{}, {2}>>,owner |-> <<0, 2>>,stack |-> <<<<>>, <<>>>>,old |-> <<[n |-> 0, f |-> FALSE], [n |-> 0, f |-> FALSE]>>,prev |-> <<0, 1>>,h |-> <<0, 0>>,i |-> <<2, 3>>,nx |-> <<0, 1>>,nxt |-> <<0, 1>>,head |-> 1,node |-> <<0, 0>>,r |-> <<[n |-> 0, f |-> FALSE], [n |-> 1, f |-> FALSE]>>,pc |-> <<"G2", "G3">>,refs |-> <<[n |-> 1, f |-> FALSE], [n |-> 0, f |-> FALSE]>>,fresh |-> <<{}, {}>>,ok |-> TRUE,hd |-> <<2, 1>>]),
    ([mine |-> <<{}, {2}>>,owner |-> <<0, 2>>,stack |-> <<<<>>, <<>>>>,old |-> <<[n |-> 0, f |-> FALSE], [n |-> 0, f |-> FALSE]>>,prev |-> <<0, 1>>,h |-> <<0, 0>>,i |-> <<2, 3>>,nx |-> <<0, 1>>,nxt |-> <<0, 1>>,head |-> 1,node |-> <<0, 0>>,r |-> <<[n |-> 0, f |-> FALSE], [n |-> 1, f |-> FALSE]>>,pc |-> <<"G2", "G4">>,refs |-> <<[n |-> 2, f |-> FALSE], [n |-> 0, f |-> FALSE]>>,fresh |-> <<{}, {}>>,ok |-> TRUE,hd |-> <<2, 1>>]),
    ([mine |-> <<{}, {2}>>,owner |-> <<0, 2>>,stack |-> <<<<>>, <<>>>>,old |-> <<[n |-> 0, f |-> FALSE], [n |-> 0, f |-> FALSE]>>,prev |-> <<0, 1>>,h |-> <<0, 0>>,i |-> <<2, 3>>,nx |-> <<0, 0>>,nxt |-> <<0, 1>>,head |-> 1,node |-> <<0, 0>>,r |-> <<[n |-> 0, f |-> FALSE], [n |-> 1, f |-> FALSE]>>,pc |-> <<"G2", "G5">>,refs |-> <<[n |-> 2, f |-> FALSE], [n |-> 0, f |-> FALSE]>>,fresh |-> <<{}, {}>>,ok |-> TRUE,hd |-> <<2, 1>>]),
    ([mine |-> <<{}, {1, 2}>>,owner |-> <<2, 2>>,stack |-> <<<<>>, <<>>>>,old |-> <<[n |-> 0, f |-> FALSE], [n |-> 0, f |-> FALSE]>>,prev |-> <<0, 1>>,h |-> <<0, 0>>,i |-> <<2, 3>>,nx |-> <<0, 0>>,nxt |-> <<0, 1>>,head |-> 0,node |-> <<0, 0>>,r |-> <<[n |-> 0, f |-> FALSE], [n |-> 1, f |-> FALSE]>>,pc |-> <<"G2", "G6">>,refs |-> <<[n |-> 2, f |-> FALSE], [n |-> 0, f |-> FALSE]>>,fresh |-> <<{}, {}>>,ok |-> TRUE,hd |-> <<2, 1>>]),
    ([mine |-> <<{}, {1, 2}>>,owner |-> <<2, 2>>,stack |-> <<<<>>, <<>>>>,old |-> <<[n |-> 0, f |-> FALSE], [n |-> 0, f |-> FALSE]>>,prev |-> <<0, 1>>,h |-> <<0, 0>>,i |-> <<2, 3>>,nx |-> <<0, 0>>,nxt |-> <<0, 1>>,head |-> 0,node |-> <<0, 0>>,r |-> <<[n |-> 0, f |-> FALSE], [n |-> 1, f |-> FALSE]>>,pc |-> <<"G2", "G2">>,refs |-> <<[n |-> 0, f |-> FALSE], [n |-> 0, f |-> FALSE]>>,fresh |-> <<{}, {}>>,ok |-> TRUE,hd |-> <<2, 0>>]),
    ([mine |-> <<{}, {1, 2}>>,owner |-> <<2, 2>>,stack |-> <<<<>>, <<>>>>,old |-> <<[n |-> 0, f |-> FALSE], [n |-> 0, f |-> FALSE]>>,prev |-> <<0, 1>>,h |-> <<0, 0>>,i |-> <<2, 3>>,nx |-> <<0, 0>>,nxt |-> <<0, 1>>,head |-> 0,node |-> <<0, 0>>,r |-> <<[n |-> 0, f |-> FALSE], [n |-> 1, f |-> FALSE]>>,pc |-> <<"G2", "L1">>,refs |-> <<[n |-> 0, f |-> FALSE], [n |-> 0, f |-> FALSE]>>,fresh |-> <<{}, {}>>,ok |-> TRUE,hd |-> <<2, 0>>]),
    ([mine |-> <<{}, {1, 2}>>,owner |-> <<2, 2>>,stack |-> <<<<>>, <<>>>>,old |-> <<[n |-> 0, f |-> FALSE], [n |-> 0, f |-> FALSE]>>,prev |-> <<0, 1>>,h |-> <<0, 0>>,i |-> <<2, 4>>,nx |-> <<0, 0>>,nxt |-> <<0, 1>>,head |-> 0,node |-> <<0, 0>>,r |-> <<[n |-> 0, f |-> FALSE], [n |-> 1, f |-> FALSE]>>,pc |-> <<"G2", "L0">>,refs |-> <<[n |-> 0, f |-> FALSE], [n |-> 0, f |-> FALSE]>>,fresh |-> <<{}, {}>>,ok |-> TRUE,hd |-> <<2, 0>>]),
    ([mine |-> <<{}, {1}>>,owner |-> <<2, 0>>,stack |-> <<<<>>, <<>>>>,old |-> <<[n |-> 0, f |-> FALSE], [n |-> 0, f |-> FALSE]>>,prev |-> <<0, 1>>,h |-> <<0, 0>>,i |-> <<2, 4>>,nx |-> <<0, 0>>,nxt |-> <<0, 1>>,head |-> 0,node |-> <<0, 0>>,r |-> <<[n |-> 0, f |-> FALSE], [n |-> 1, f |-> FALSE]>>,pc |-> <<"G2", "P1">>,refs |-> <<[n |-> 0, f |-> FALSE], [n |-> 0, f |-> FALSE]>>,fresh |-> <<{}, {}>>,ok |-> TRUE,hd |-> <<2, 2>>]),
    ([mine |-> <<{}, {1}>>,owner |-> <<2, 0>>,stack |-> <<<<>>, <<[pc |-> "L1", node |-> 0, h |-> 0, old |-> [n |-> 0, f |-> FALSE], procedure |-> "add_zero"]>>>>,old |-> <<[n |-> 0, f |-> FALSE], [n |-> 0, f |-> FALSE]>>,prev |-> <<0, 1>>,h |-> <<0, 0>>,i |-> <<2, 4>>,nx |-> <<0, 0>>,nxt |-> <<0, 1>>,head |-> 0,node |-> <<0, 2>>,r |-> <<[n |-> 0, f |-> FALSE], [n |-> 0, f |-> FALSE]>>,pc |-> <<"G2", "A1">>,refs |-> <<[n |-> 0, f |-> FALSE], [n |-> 0, f |-> TRUE]>>,fresh |-> <<{}, {}>>,ok |-> TRUE,hd |-> <<2, 2>>]),
    ([mine |-> <<{}, {1}>>,owner |-> <<2, 0>>,stack |-> <<<<>>, <<[pc |-> "L1", node |-> 0, h |-> 0, old |-> [n |-> 0, f |-> FALSE], procedure |-> "add_zero"]>>>>,old |-> <<[n |-> 0, f |-> FALSE], [n |-> 0, f |-> FALSE]>>,prev |-> <<0, 1>>,h |-> <<0, 0>>,i |-> <<2, 4>>,nx |-> <<0, 0>>,nxt |-> <<0, 1>>,head |-> 0,node |-> <<0, 2>>,r |-> <<[n |-> 0, f |-> FALSE], [n |-> 0, f |-> FALSE]>>,pc |-> <<"G2", "A2">>,refs |-> <<[n |-> 0, f |-> FALSE], [n |-> 0, f |-> TRUE]>>,fresh |-> <<{}, {}>>,ok |-> TRUE,hd |-> <<2, 2>>]),
    ([mine |-> <<{}, {1}>>,owner |-> <<2, 0>>,stack |-> <<<<>>, <<[pc |-> "L1", node |-> 0, h |-> 0, old |-> [n |-> 0, f |-> FALSE], procedure |-> "add_zero"]>>>>,old |-> <<[n |-> 0, f |-> FALSE], [n |-> 0, f |-> FALSE]>>,prev |-> <<2, 1>>,h |-> <<0, 0>>,i |-> <<2, 4>>,nx |-> <<0, 0>>,nxt |-> <<0, 1>>,head |-> 0,node |-> <<0, 2>>,r |-> <<[n |-> 0, f |-> TRUE], [n |-> 0, f |-> FALSE]>>,pc |-> <<"G3", "A2">>,refs |-> <<[n |-> 0, f |-> FALSE], [n |-> 0, f |-> TRUE]>>,fresh |-> <<{}, {}>>,ok |-> TRUE,hd |-> <<2, 2>>]),
    ([mine |-> <<{}, {1}>>,owner |-> <<2, 0>>,stack |-> <<<<>>, <<[pc |-> "L1", node |-> 0, h |-> 0, old |-> [n |-> 0, f |-> FALSE], procedure |-> "add_zero"]>>>>,old |-> <<[n |-> 0, f |-> FALSE], [n |-> 0, f |-> FALSE]>>,prev |-> <<2, 1>>,h |-> <<0, 0>>,i |-> <<2, 4>>,nx |-> <<0, 0>>,nxt |-> <<0, 1>>,head |-> 0,node |-> <<0, 2>>,r |-> <<[n |-> 0, f |-> TRUE], [n |-> 0, f |-> FALSE]>>,pc |-> <<"G4", "A2">>,refs |-> <<[n |-> 0, f |-> FALSE], [n |-> 1, f |-> TRUE]>>,fresh |-> <<{}, {}>>,ok |-> TRUE,hd |-> <<2, 2>>]),
    ([mine |-> <<{}, {1}>>,owner |-> <<2, 0>>,stack |-> <<<<>>, <<[pc |-> "L1", node |-> 0, h |-> 0, old |-> [n |-> 0, f |-> FALSE], procedure |-> "add_zero"]>>>>,old |-> <<[n |-> 0, f |-> FALSE], [n |-> 0, f |-> FALSE]>>,prev |-> <<2, 1>>,h |-> <<0, 0>>,i |-> <<2, 4>>,nx |-> <<1, 0>>,nxt |-> <<0, 1>>,head |-> 0,node |-> <<0, 2>>,r |-> <<[n |-> 0, f |-> TRUE], [n |-> 0, f |-> FALSE]>>,pc |-> <<"G5", "A2">>,refs |-> <<[n |-> 0, f |-> FALSE], [n |-> 1, f |-> TRUE]>>,fresh |-> <<{}, {}>>,ok |-> TRUE,hd |-> <<2, 2>>]),
    ([mine |-> <<{}, {1}>>,owner |-> <<2, 0>>,stack |-> <<<<>>, <<[pc |-> "L1", node |-> 0, h |-> 0, old |-> [n |-> 0, f |-> FALSE], procedure |-> "add_zero"]>>>>,old |-> <<[n |-> 0, f |-> FALSE], [n |-> 0, f |-> FALSE]>>,prev |-> <<2, 1>>,h |-> <<0, 0>>,i |-> <<2, 4>>,nx |-> <<1, 0>>,nxt |-> <<0, 0>>,head |-> 0,node |-> <<0, 2>>,r |-> <<[n |-> 0, f |-> TRUE], [n |-> 0, f |-> FALSE]>>,pc |-> <<"G5", "A3">>,refs |-> <<[n |-> 0, f |-> FALSE], [n |-> 1, f |-> TRUE]>>,fresh |-> <<{}, {}>>,ok |-> TRUE,hd |-> <<2, 2>>]),
    ([mine |-> <<{}, {1}>>,owner |-> <<2, 0>>,stack |-> <<<<>>, <<[pc |-> "L1", node |-> 0, h |-> 0, old |-> [n |-> 0, f |-> FALSE], procedure |-> "add_zero"]>>>>,old |-> <<[n |-> 0, f |-> FALSE], [n |-> 0, f |-> FALSE]>>,prev |-> <<2, 1>>,h |-> <<0, 0>>,i |-> <<2, 4>>,nx |-> <<1, 0>>,nxt |-> <<0, 0>>,head |-> 0,node |-> <<0, 2>>,r |-> <<[n |-> 0, f |-> TRUE], [n |-> 0, f |-> FALSE]>>,pc |-> <<"G5", "A4">>,refs |-> <<[n |-> 0, f |-> FALSE], [n |-> 1, f |-> FALSE]>>,fresh |-> <<{}, {}>>,ok |-> TRUE,hd |-> <<2, 2>>]),
    ([mine |-> <<{}, {1}>>,owner |-> <<2, 0>>,stack |-> <<<<>>, <<[pc |-> "L1", node |-> 0, h |-> 0, old |-> [n |-> 0, f |-> FALSE], procedure |-> "add_zero"]>>>>,old |-> <<[n |-> 0, f |-> FALSE], [n |-> 0, f |-> FALSE]>>,prev |-> <<2, 1>>,h |-> <<0, 0>>,i |-> <<2, 4>>,nx |-> <<1, 0>>,nxt |-> <<0, 0>>,head |-> 2,node |-> <<0, 2>>,r |-> <<[n |-> 0, f |-> TRUE], [n |-> 0, f |-> FALSE]>>,pc |-> <<"G5", "A9">>,refs |-> <<[n |-> 0, f |-> FALSE], [n |-> 1, f |-> FALSE]>>,fresh |-> <<{}, {}>>,ok |-> TRUE,hd |-> <<2, 2>>]),
    ([mine |-> <<{2}, {1}>>,owner |-> <<2, 1>>,stack |-> <<<<>>, <<[pc |-> "L1", node |-> 0, h |-> 0, old |-> [n |-> 0, f |-> FALSE], procedure |-> "add_zero"]>>>>,old |-> <<[n |-> 0, f |-> FALSE], [n |-> 0, f |-> FALSE]>>,prev |-> <<2, 1>>,h |-> <<0, 0>>,i |-> <<2, 4>>,nx |-> <<1, 0>>,nxt |-> <<0, 0>>,head |-> 1,node |-> <<0, 2>>,r |-> <<[n |-> 0, f |-> TRUE], [n |-> 0, f |-> FALSE]>>,pc |-> <<"G6", "A9">>,refs |-> <<[n |-> 0, f |-> FALSE], [n |-> 1, f |-> FALSE]>>,fresh |-> <<{}, {}>>,ok |-> TRUE,hd |-> <<2, 2>>]),
    ([mine |-> <<{2}, {1}>>,owner |-> <<2, 1>>,stack |-> <<<<>>, <<[pc |-> "L1", node |-> 0, h |-> 0, old |-> [n |-> 0, f |-> FALSE], procedure |-> "add_zero"]>>>>,old |-> <<[n |-> 0, f |-> FALSE], [n |-> 0, f |-> FALSE]>>,prev |-> <<2, 1>>,h |-> <<0, 0>>,i |-> <<2, 4>>,nx |-> <<1, 0>>,nxt |-> <<0, 0>>,head |-> 1,node |-> <<0, 2>>,r |-> <<[n |-> 0, f |-> TRUE], [n |-> 0, f |-> FALSE]>>,pc |-> <<"G2", "A9">>,refs |-> <<[n |-> 0, f |-> FALSE], [n |-> -1, f |-> FALSE]>>,fresh |-> <<{}, {}>>,ok |-> TRUE,hd |-> <<0, 2>>]),
    ([mine |-> <<{2}, {1}>>,owner |-> <<2, 1>>,stack |-> <<<<>>, <<[pc |-> "L1", node |-> 0, h |-> 0, old |-> [n |-> 0, f |-> FALSE], procedure |-> "add_zero"]>>>>,old |-> <<[n |-> 0, f |-> FALSE], [n |-> 0, f |-> FALSE]>>,prev |-> <<2, 1>>,h |-> <<0, 0>>,i |-> <<2, 4>>,nx |-> <<1, 0>>,nxt |-> <<0, 0>>,head |-> 1,node |-> <<0, 2>>,r |-> <<[n |-> 0, f |-> TRUE], [n |-> 0, f |-> FALSE]>>,pc |-> <<"L1", "A9">>,refs |-> <<[n |-> 0, f |-> FALSE], [n |-> -1, f |-> FALSE]>>,fresh |-> <<{}, {}>>,ok |-> TRUE,hd |-> <<0, 2>>]),
    ([mine |-> <<{2}, {1}>>,owner |-> <<2, 1>>,stack |-> <<<<>>, <<[pc |-> "L1", node |-> 0, h |-> 0, old |-> [n |-> 0, f |-> FALSE], procedure |-> "add_zero"]>>>>,old |-> <<[n |-> 0, f |-> FALSE], [n |-> 0, f |-> FALSE]>>,prev |-> <<2, 1>>,h |-> <<0, 0>>,i |-> <<3, 4>>,nx |-> <<1, 0>>,nxt |-> <<0, 0>>,head |-> 1,node |-> <<0, 2>>,r |-> <<[n |-> 0, f |-> TRUE], [n |-> 0, f |-> FALSE]>>,pc |-> <<"L0", "A9">>,refs |-> <<[n |-> 0, f |-> FALSE], [n |-> -1, f |-> FALSE]>>,fresh |-> <<{}, {}>>,ok |-> TRUE,hd |-> <<0, 2>>]),
    ([mine |-> <<{}, {1}>>,owner |-> <<2, 0>>,stack |-> <<<<>>, <<[pc |-> "L1", node |-> 0, h |-> 0, old |-> [n |-> 0, f |-> FALSE], procedure |-> "add_zero"]>>>>,old |-> <<[n |-> 0, f |-> FALSE], [n |-> 0, f |-> FALSE]>>,prev |-> <<2, 1>>,h |-> <<0, 0>>,i |-> <<3, 4>>,nx |-> <<1, 0>>,nxt |-> <<0, 0>>,head |-> 1,node |-> <<0, 2>>,r |-> <<[n |-> 0, f |-> TRUE], [n |-> 0, f |-> FALSE]>>,pc |-> <<"P1", "A9">>,refs |-> <<[n |-> 0, f |-> FALSE], [n |-> -1, f |-> FALSE]>>,fresh |-> <<{}, {}>>,ok |-> TRUE,hd |-> <<2, 2>>]),
    ([mine |-> <<{}, {1}>>,owner |-> <<2, 0>>,stack |-> <<<<>>, <<[pc |-> "L1", node |-> 0, h |-> 0, old |-> [n |-> 0, f |-> FALSE], procedure |-> "add_zero"]>>>>,old |-> <<[n |-> 0, f |-> FALSE], [n |-> 0, f |-> FALSE]>>,prev |-> <<2, 1>>,h |-> <<0, 0>>,i |-> <<3, 4>>,nx |-> <<1, 0>>,nxt |-> <<0, 0>>,head |-> 1,node |-> <<0, 2>>,r |-> <<[n |-> -1, f |-> FALSE], [n |-> 0, f |-> FALSE]>>,pc |-> <<"L1", "A9">>,refs |-> <<[n |-> 0, f |-> FALSE], [n |-> -1, f |-> TRUE]>>,fresh |-> <<{}, {}>>,ok |-> TRUE,hd |-> <<2, 2>>]),
    ([mine |-> <<{}, {1}>>,owner |-> <<2, 0>>,stack |-> <<<<>>, <<[pc |-> "L1", node |-> 0, h |-> 0, old |-> [n |-> 0, f |-> FALSE], procedure |-> "add_zero"]>>>>,old |-> <<[n |-> 0, f |-> FALSE], [n |-> 0, f |-> FALSE]>>,prev |-> <<2, 1>>,h |-> <<0, 0>>,i |-> <<4, 4>>,nx |-> <<1, 0>>,nxt |-> <<0, 0>>,head |-> 1,node |-> <<0, 2>>,r |-> <<[n |-> -1, f |-> FALSE], [n |-> 0, f |-> FALSE]>>,pc |-> <<"L0", "A9">>,refs |-> <<[n |-> 0, f |-> FALSE], [n |-> -1, f |-> TRUE]>>,fresh |-> <<{}, {}>>,ok |-> TRUE,hd |-> <<2, 2>>]),
    ([mine |-> <<{}, {1}>>,owner |-> <<2, 0>>,stack |-> <<<<>>, <<[pc |-> "L1", node |-> 0, h |-> 0, old |-> [n |-> 0, f |-> FALSE], procedure |-> "add_zero"]>>>>,old |-> <<[n |-> 0, f |-> FALSE], [n |-> 0, f |-> FALSE]>>,prev |-> <<2, 1>>,h |-> <<0, 0>>,i |-> <<4, 4>>,nx |-> <<1, 0>>,nxt |-> <<0, 0>>,head |-> 1,node |-> <<0, 2>>,r |-> <<[n |-> -1, f |-> FALSE], [n |-> 0, f |-> FALSE]>>,pc |-> <<"G1", "A9">>,refs |-> <<[n |-> 0, f |-> FALSE], [n |-> -1, f |-> TRUE]>>,fresh |-> <<{}, {}>>,ok |-> TRUE,hd |-> <<2, 2>>]),
    ([mine |-> <<{}, {1}>>,owner |-> <<2, 0>>,stack |-> <<<<>>, <<[pc |-> "L1", node |-> 0, h |-> 0, old |-> [n |-> 0, f |-> FALSE], procedure |-> "add_zero"]>>>>,old |-> <<[n |-> 0, f |-> FALSE], [n |-> 0, f |-> FALSE]>>,prev |-> <<2, 1>>,h |-> <<0, 0>>,i |-> <<4, 4>>,nx |-> <<1, 0>>,nxt |-> <<0, 0>>,head |-> 1,node |-> <<0, 2>>,r |-> <<[n |-> -1, f |-> FALSE], [n |-> 0, f |-> FALSE]>>,pc |-> <<"G2", "A9">>,refs |-> <<[n |-> 0, f |-> FALSE], [n |-> -1, f |-> TRUE]>>,fresh |-> <<{}, {}>>,ok |-> TRUE,hd |-> <<1, 2>>]),
    ([mine |-> <<{}, {1}>>,owner |-> <<2, 0>>,stack |-> <<<<>>, <<[pc |-> "L1", node |-> 0, h |-> 0, old |-> [n |-> 0, f |-> FALSE], procedure |-> "add_zero"]>>>>,old |-> <<[n |-> 0, f |-> FALSE], [n |-> 0, f |-> FALSE]>>,prev |-> <<1, 1>>,h |-> <<0, 0>>,i |-> <<4, 4>>,nx |-> <<1, 0>>,nxt |-> <<0, 0>>,head |-> 1,node |-> <<0, 2>>,r |-> <<[n |-> 0, f |-> FALSE], [n |-> 0, f |-> FALSE]>>,pc |-> <<"G3", "A9">>,refs |-> <<[n |-> 0, f |-> FALSE], [n |-> -1, f |-> TRUE]>>,fresh |-> <<{}, {}>>,ok |-> TRUE,hd |-> <<1, 2>>]),
    ([mine |-> <<{}, {1}>>,owner |-> <<2, 0>>,stack |-> <<<<>>, <<[pc |-> "L1", node |-> 0, h |-> 0, old |-> [n |-> 0, f |-> FALSE], procedure |-> "add_zero"]>>>>,old |-> <<[n |-> 0, f |-> FALSE], [n |-> 0, f |-> FALSE]>>,prev |-> <<1, 1>>,h |-> <<0, 0>>,i |-> <<4, 4>>,nx |-> <<1, 0>>,nxt |-> <<0, 0>>,head |-> 1,node |-> <<0, 2>>,r |-> <<[n |-> 0, f |-> FALSE], [n |-> 0, f |-> FALSE]>>,pc |-> <<"G4", "A9">>,refs |-> <<[n |-> 1, f |-> FALSE], [n |-> -1, f |-> TRUE]>>,fresh |-> <<{}, {}>>,ok |-> TRUE,hd |-> <<1, 2>>]),
    ([mine |-> <<{}, {1}>>,owner |-> <<2, 0>>,stack |-> <<<<>>, <<[pc |-> "L1", node |-> 0, h |-> 0, old |-> [n |-> 0, f |-> FALSE], procedure |-> "add_zero"]>>>>,old |-> <<[n |-> 0, f |-> FALSE], [n |-> 0, f |-> FALSE]>>,prev |-> <<1, 1>>,h |-> <<0, 0>>,i |-> <<4, 4>>,nx |-> <<0, 0>>,nxt |-> <<0, 0>>,head |-> 1,node |-> <<0, 2>>,r |-> <<[n |-> 0, f |-> FALSE], [n |-> 0, f |-> FALSE]>>,pc |-> <<"G5", "A9">>,refs |-> <<[n |-> 1, f |-> FALSE], [n |-> -1, f |-> TRUE]>>,fresh |-> <<{}, {}>>,ok |-> TRUE,hd |-> <<1, 2>>]),
    ([mine |-> <<{1}, {1}>>,owner |-> <<1, 0>>,stack |-> <<<<>>, <<[pc |-> "L1", node |-> 0, h |-> 0, old |-> [n |-> 0, f |-> FALSE], procedure |-> "add_zero"]>>>>,old |-> <<[n |-> 0, f |-> FALSE], [n |-> 0, f |-> FALSE]>>,prev |-> <<1, 1>>,h |-> <<0, 0>>,i |-> <<4, 4>>,nx |-> <<0, 0>>,nxt |-> <<0, 0>>,head |-> 0,node |-> <<0, 2>>,r |-> <<[n |-> 0, f |-> FALSE], [n |-> 0, f |-> FALSE]>>,pc |-> <<"G6", "A9">>,refs |-> <<[n |-> 1, f |-> FALSE], [n |-> -1, f |-> TRUE]>>,fresh |-> <<{}, {}>>,ok |-> FALSE,hd |-> <<1, 2>>])
    >>
----


=============================================================================

---- CONFIG FreeListMC_TTrace_1790083360 ----
CONSTANTS
    defaultInitValue = 0
    Procs = { 1 , 2 }
    Nodes = { 1 , 2 }
    Prog <- P2
    NoRefCheck = TRUE

INVARIANT
    _inv

CHECK_DEADLOCK
    \* CHECK_DEADLOCK off because of PROPERTY or INVARIANT above.
    FALSE

INIT
    _init

NEXT
    _next

CONSTANT
    _TETrace <- _trace

ALIAS
    _expression
=============================================================================
\* Generated on Tue Sep 22 13:22:49 UTC 2026