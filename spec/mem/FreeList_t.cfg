SPECIFICATION Spec
CONSTANTS
  defaultInitValue = 0
  Procs = {1, 2, 3}
  Nodes = {1, 2, 3}
  Prog <- P3
  NoRefCheck = FALSE
INVARIANT NoDoubleHandOut
INVARIANT NothingLost
CHECK_DEADLOCK FALSE
