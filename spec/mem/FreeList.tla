------------------------------- MODULE FreeList -------------------------------
(* Tier B: cds::intrusive::FreeList (the reference-counted lock-free free list after moodycamel), one label per atomic     *)
(* access.  The 32-bit word m_freeListRefs is modelled as [n |-> reference count, f |-> SHOULD_BE_ON_FREELIST flag].          *)
(* Clients own nodes (ghost owner): put(n) gives an owned node to the list, get() takes one.                                 *)
(* Invariants (C21): a node returned by get() is owned by nobody else (never handed out twice), and at quiescence every      *)
(* node that was put and not taken is reachable from the head exactly once (nothing lost).                                    *)
EXTENDS Naturals, Integers, Sequences, FiniteSets, TLC
CONSTANTS Procs, Nodes, Prog, NoRefCheck     \* NoRefCheck = TRUE: get() skips the "refs & mask == 0" test (broken variant)
NULL == 0
FREE == -1      \* ghost owner values: never used yet / in the list / a process id (>= 1)
LIST == 0
(* --algorithm FreeList {
variables
  head = NULL,
  refs = [n \in Nodes |-> [n |-> 0, f |-> FALSE]],
  nxt = [n \in Nodes |-> NULL],
  owner = [n \in Nodes |-> FREE],              \* ghost: FREE (never used), LIST, or the owning process
  ok = TRUE;

procedure add_zero(node)                       \* add_knowing_refcount_is_zero
  variables h = NULL, old = [n |-> 0, f |-> FALSE];
{
A1: h := head;                                                     \* m_Head.load
A2: nxt[node] := h;                                                \* m_freeListNext.store
A3: refs[node] := [n |-> 1, f |-> FALSE];                          \* m_freeListRefs.store( 1 )
A4: if (head = h) { head := node; goto A9; }                       \* CAS( head, pNode ) succeeded
    else { h := head; };
A5: old := refs[node];                                             \* fetch_add( SHOULD_BE_ON_FREELIST - 1 )
    refs[node] := [n |-> old.n - 1, f |-> TRUE];
    if (old.n = 1 /\ ~old.f) { goto A2; };
A9: return;
}

process (P \in Procs)
  variables i = 1, hd = NULL, prev = NULL, r = [n |-> 0, f |-> FALSE], nx = NULL, mine = {}, fresh = {};
{
L0: while (i <= Len(Prog[self])) {
      if (Prog[self][i] = "put") {
        \* put a node this process owns (a fresh one if it owns none)
        if (mine = {}) { with (x \in { y \in Nodes : owner[y] = FREE }) { hd := x; }; } else { with (x \in mine) { hd := x; }; };
        mine := mine \ {hd}; owner[hd] := LIST;
P1:     r := refs[hd]; refs[hd] := [n |-> r.n, f |-> TRUE];        \* fetch_add( SHOULD_BE_ON_FREELIST )
        if (r.n = 0 /\ ~r.f) { call add_zero(hd); };
      } else {
G1:     hd := head;                                                \* m_Head.load
G2:     while (hd # NULL) {
          prev := hd;
          r := refs[hd];                                           \* m_freeListRefs.load
G3:       if ((r.n = 0 /\ ~NoRefCheck) \/ refs[hd] # r) {          \* (refs & mask) == 0 || !CAS( refs, refs + 1 )
            hd := head;                                            \* reload m_Head (same label: the failed CAS and the load are two accesses)
          } else {
            refs[hd] := [n |-> r.n + 1, f |-> r.f];
G4:         nx := nxt[hd];                                         \* m_freeListNext.load
G5:         if (head = hd) {                                       \* CAS( m_Head, head, next ) succeeded: the node is ours
              head := nx;
              ok := ok /\ owner[hd] = LIST;
              owner[hd] := self; mine := mine \cup {hd};
G6:           refs[hd] := [n |-> refs[hd].n - 2, f |-> refs[hd].f];   \* fetch_sub( 2 )
              hd := NULL;
            } else {
              hd := head;
G7:           r := refs[prev]; refs[prev] := [n |-> r.n - 1, f |-> r.f];    \* fetch_sub( 1 )
              if (r.n = 1 /\ r.f) { call add_zero(prev); };
            };
          };
        };
      };
L1:   i := i + 1;
    };
}
} *)
\* BEGIN TRANSLATION
CONSTANT defaultInitValue
VARIABLES pc, head, refs, nxt, owner, ok, stack, node, h, old, i, hd, prev, r, 
          nx, mine, fresh

vars == << pc, head, refs, nxt, owner, ok, stack, node, h, old, i, hd, prev, 
           r, nx, mine, fresh >>

ProcSet == (Procs)

Init == (* Global variables *)
        /\ head = NULL
        /\ refs = [n \in Nodes |-> [n |-> 0, f |-> FALSE]]
        /\ nxt = [n \in Nodes |-> NULL]
        /\ owner = [n \in Nodes |-> FREE]
        /\ ok = TRUE
        (* Procedure add_zero *)
        /\ node = [ self \in ProcSet |-> defaultInitValue]
        /\ h = [ self \in ProcSet |-> NULL]
        /\ old = [ self \in ProcSet |-> [n |-> 0, f |-> FALSE]]
        (* Process P *)
        /\ i = [self \in Procs |-> 1]
        /\ hd = [self \in Procs |-> NULL]
        /\ prev = [self \in Procs |-> NULL]
        /\ r = [self \in Procs |-> [n |-> 0, f |-> FALSE]]
        /\ nx = [self \in Procs |-> NULL]
        /\ mine = [self \in Procs |-> {}]
        /\ fresh = [self \in Procs |-> {}]
        /\ stack = [self \in ProcSet |-> << >>]
        /\ pc = [self \in ProcSet |-> "L0"]

A1(self) == /\ pc[self] = "A1"
            /\ h' = [h EXCEPT ![self] = head]
            /\ pc' = [pc EXCEPT ![self] = "A2"]
            /\ UNCHANGED << head, refs, nxt, owner, ok, stack, node, old, i, 
                            hd, prev, r, nx, mine, fresh >>

A2(self) == /\ pc[self] = "A2"
            /\ nxt' = [nxt EXCEPT ![node[self]] = h[self]]
            /\ pc' = [pc EXCEPT ![self] = "A3"]
            /\ UNCHANGED << head, refs, owner, ok, stack, node, h, old, i, hd, 
                            prev, r, nx, mine, fresh >>

A3(self) == /\ pc[self] = "A3"
            /\ refs' = [refs EXCEPT ![node[self]] = [n |-> 1, f |-> FALSE]]
            /\ pc' = [pc EXCEPT ![self] = "A4"]
            /\ UNCHANGED << head, nxt, owner, ok, stack, node, h, old, i, hd, 
                            prev, r, nx, mine, fresh >>

A4(self) == /\ pc[self] = "A4"
            /\ IF head = h[self]
                  THEN /\ head' = node[self]
                       /\ pc' = [pc EXCEPT ![self] = "A9"]
                       /\ h' = h
                  ELSE /\ h' = [h EXCEPT ![self] = head]
                       /\ pc' = [pc EXCEPT ![self] = "A5"]
                       /\ head' = head
            /\ UNCHANGED << refs, nxt, owner, ok, stack, node, old, i, hd, 
                            prev, r, nx, mine, fresh >>

A5(self) == /\ pc[self] = "A5"
            /\ old' = [old EXCEPT ![self] = refs[node[self]]]
            /\ refs' = [refs EXCEPT ![node[self]] = [n |-> old'[self].n - 1, f |-> TRUE]]
            /\ IF old'[self].n = 1 /\ ~old'[self].f
                  THEN /\ pc' = [pc EXCEPT ![self] = "A2"]
                  ELSE /\ pc' = [pc EXCEPT ![self] = "A9"]
            /\ UNCHANGED << head, nxt, owner, ok, stack, node, h, i, hd, prev, 
                            r, nx, mine, fresh >>

A9(self) == /\ pc[self] = "A9"
            /\ pc' = [pc EXCEPT ![self] = Head(stack[self]).pc]
            /\ h' = [h EXCEPT ![self] = Head(stack[self]).h]
            /\ old' = [old EXCEPT ![self] = Head(stack[self]).old]
            /\ node' = [node EXCEPT ![self] = Head(stack[self]).node]
            /\ stack' = [stack EXCEPT ![self] = Tail(stack[self])]
            /\ UNCHANGED << head, refs, nxt, owner, ok, i, hd, prev, r, nx, 
                            mine, fresh >>

add_zero(self) == A1(self) \/ A2(self) \/ A3(self) \/ A4(self) \/ A5(self)
                     \/ A9(self)

L0(self) == /\ pc[self] = "L0"
            /\ IF i[self] <= Len(Prog[self])
                  THEN /\ IF Prog[self][i[self]] = "put"
                             THEN /\ IF mine[self] = {}
                                        THEN /\ \E x \in { y \in Nodes : owner[y] = FREE }:
                                                  hd' = [hd EXCEPT ![self] = x]
                                        ELSE /\ \E x \in mine[self]:
                                                  hd' = [hd EXCEPT ![self] = x]
                                  /\ mine' = [mine EXCEPT ![self] = mine[self] \ {hd'[self]}]
                                  /\ owner' = [owner EXCEPT ![hd'[self]] = LIST]
                                  /\ pc' = [pc EXCEPT ![self] = "P1"]
                             ELSE /\ pc' = [pc EXCEPT ![self] = "G1"]
                                  /\ UNCHANGED << owner, hd, mine >>
                  ELSE /\ pc' = [pc EXCEPT ![self] = "Done"]
                       /\ UNCHANGED << owner, hd, mine >>
            /\ UNCHANGED << head, refs, nxt, ok, stack, node, h, old, i, prev, 
                            r, nx, fresh >>

L1(self) == /\ pc[self] = "L1"
            /\ i' = [i EXCEPT ![self] = i[self] + 1]
            /\ pc' = [pc EXCEPT ![self] = "L0"]
            /\ UNCHANGED << head, refs, nxt, owner, ok, stack, node, h, old, 
                            hd, prev, r, nx, mine, fresh >>

P1(self) == /\ pc[self] = "P1"
            /\ r' = [r EXCEPT ![self] = refs[hd[self]]]
            /\ refs' = [refs EXCEPT ![hd[self]] = [n |-> r'[self].n, f |-> TRUE]]
            /\ IF r'[self].n = 0 /\ ~r'[self].f
                  THEN /\ /\ node' = [node EXCEPT ![self] = hd[self]]
                          /\ stack' = [stack EXCEPT ![self] = << [ procedure |->  "add_zero",
                                                                   pc        |->  "L1",
                                                                   h         |->  h[self],
                                                                   old       |->  old[self],
                                                                   node      |->  node[self] ] >>
                                                               \o stack[self]]
                       /\ h' = [h EXCEPT ![self] = NULL]
                       /\ old' = [old EXCEPT ![self] = [n |-> 0, f |-> FALSE]]
                       /\ pc' = [pc EXCEPT ![self] = "A1"]
                  ELSE /\ pc' = [pc EXCEPT ![self] = "L1"]
                       /\ UNCHANGED << stack, node, h, old >>
            /\ UNCHANGED << head, nxt, owner, ok, i, hd, prev, nx, mine, fresh >>

G1(self) == /\ pc[self] = "G1"
            /\ hd' = [hd EXCEPT ![self] = head]
            /\ pc' = [pc EXCEPT ![self] = "G2"]
            /\ UNCHANGED << head, refs, nxt, owner, ok, stack, node, h, old, i, 
                            prev, r, nx, mine, fresh >>

G2(self) == /\ pc[self] = "G2"
            /\ IF hd[self] # NULL
                  THEN /\ prev' = [prev EXCEPT ![self] = hd[self]]
                       /\ r' = [r EXCEPT ![self] = refs[hd[self]]]
                       /\ pc' = [pc EXCEPT ![self] = "G3"]
                  ELSE /\ pc' = [pc EXCEPT ![self] = "L1"]
                       /\ UNCHANGED << prev, r >>
            /\ UNCHANGED << head, refs, nxt, owner, ok, stack, node, h, old, i, 
                            hd, nx, mine, fresh >>

G3(self) == /\ pc[self] = "G3"
            /\ IF (r[self].n = 0 /\ ~NoRefCheck) \/ refs[hd[self]] # r[self]
                  THEN /\ hd' = [hd EXCEPT ![self] = head]
                       /\ pc' = [pc EXCEPT ![self] = "G2"]
                       /\ refs' = refs
                  ELSE /\ refs' = [refs EXCEPT ![hd[self]] = [n |-> r[self].n + 1, f |-> r[self].f]]
                       /\ pc' = [pc EXCEPT ![self] = "G4"]
                       /\ hd' = hd
            /\ UNCHANGED << head, nxt, owner, ok, stack, node, h, old, i, prev, 
                            r, nx, mine, fresh >>

G4(self) == /\ pc[self] = "G4"
            /\ nx' = [nx EXCEPT ![self] = nxt[hd[self]]]
            /\ pc' = [pc EXCEPT ![self] = "G5"]
            /\ UNCHANGED << head, refs, nxt, owner, ok, stack, node, h, old, i, 
                            hd, prev, r, mine, fresh >>

G5(self) == /\ pc[self] = "G5"
            /\ IF head = hd[self]
                  THEN /\ head' = nx[self]
                       /\ ok' = (ok /\ owner[hd[self]] = LIST)
                       /\ owner' = [owner EXCEPT ![hd[self]] = self]
                       /\ mine' = [mine EXCEPT ![self] = mine[self] \cup {hd[self]}]
                       /\ pc' = [pc EXCEPT ![self] = "G6"]
                       /\ hd' = hd
                  ELSE /\ hd' = [hd EXCEPT ![self] = head]
                       /\ pc' = [pc EXCEPT ![self] = "G7"]
                       /\ UNCHANGED << head, owner, ok, mine >>
            /\ UNCHANGED << refs, nxt, stack, node, h, old, i, prev, r, nx, 
                            fresh >>

G6(self) == /\ pc[self] = "G6"
            /\ refs' = [refs EXCEPT ![hd[self]] = [n |-> refs[hd[self]].n - 2, f |-> refs[hd[self]].f]]
            /\ hd' = [hd EXCEPT ![self] = NULL]
            /\ pc' = [pc EXCEPT ![self] = "G2"]
            /\ UNCHANGED << head, nxt, owner, ok, stack, node, h, old, i, prev, 
                            r, nx, mine, fresh >>

G7(self) == /\ pc[self] = "G7"
            /\ r' = [r EXCEPT ![self] = refs[prev[self]]]
            /\ refs' = [refs EXCEPT ![prev[self]] = [n |-> r'[self].n - 1, f |-> r'[self].f]]
            /\ IF r'[self].n = 1 /\ r'[self].f
                  THEN /\ /\ node' = [node EXCEPT ![self] = prev[self]]
                          /\ stack' = [stack EXCEPT ![self] = << [ procedure |->  "add_zero",
                                                                   pc        |->  "G2",
                                                                   h         |->  h[self],
                                                                   old       |->  old[self],
                                                                   node      |->  node[self] ] >>
                                                               \o stack[self]]
                       /\ h' = [h EXCEPT ![self] = NULL]
                       /\ old' = [old EXCEPT ![self] = [n |-> 0, f |-> FALSE]]
                       /\ pc' = [pc EXCEPT ![self] = "A1"]
                  ELSE /\ pc' = [pc EXCEPT ![self] = "G2"]
                       /\ UNCHANGED << stack, node, h, old >>
            /\ UNCHANGED << head, nxt, owner, ok, i, hd, prev, nx, mine, fresh >>

P(self) == L0(self) \/ L1(self) \/ P1(self) \/ G1(self) \/ G2(self)
              \/ G3(self) \/ G4(self) \/ G5(self) \/ G6(self) \/ G7(self)

(* Allow infinite stuttering to prevent deadlock on termination. *)
Terminating == /\ \A self \in ProcSet: pc[self] = "Done"
               /\ UNCHANGED vars

Next == (\E self \in ProcSet: add_zero(self))
           \/ (\E self \in Procs: P(self))
           \/ Terminating

Spec == Init /\ [][Next]_vars

Termination == <>(\A self \in ProcSet: pc[self] = "Done")

\* END TRANSLATION
NoDoubleHandOut == ok
RECURSIVE Reach(_, _)
Reach(n, fuel) == IF n = NULL \/ fuel = 0 THEN <<>> ELSE <<n>> \o Reach(nxt[n], fuel - 1)
Quiescent == \A p \in Procs : pc[p] = "Done"
NothingLost == Quiescent => LET L == Reach(head, Cardinality(Nodes) + 1) IN
                 /\ { L[j] : j \in 1..Len(L) } = { n \in Nodes : owner[n] = LIST }
                 /\ Len(L) = Cardinality({ n \in Nodes : owner[n] = LIST })
=============================================================================
