------------------------------- MODULE LazyList -------------------------------
(* Tier B: cds::intrusive::LazyList (Heller et al.), HP flavour: search() without locks (restart from the head when a        *)
(* marked link is met: an unlinked node's next pointer is the head with the mark bit set), insert / erase under the locks   *)
(* of the predecessor and the current node with validation, find_at() under the lock of the current node only.             *)
(* One label per atomic access or lock operation.  Node 0 is the head, node TailN = MaxNodes + 1 the tail sentinel.          *)
(* Ghost abstract set abs; an insert takes effect at the store that links the node, an erase at the store that marks it;    *)
(* operations that change nothing must agree with abs at some instant of the call (seenIn / seenOut ghosts record whether    *)
(* the key was present / absent at any instant since the call began).                                                        *)
(* Invariants (C13, C18): results agree with abs; unmarked nodes reachable from the head are strictly increasing = abs.      *)
EXTENDS Naturals, Integers, Sequences, FiniteSets, TLC
CONSTANTS Procs, Prog, MaxNodes,
          NoValidate,        \* TRUE: insert / erase skip validate() after locking (broken variant)
          TailSkip           \* TRUE: seeded change C13b: in front of the tail validate() checks only that pPred is unmarked
TailN == MaxNodes + 1
(* --algorithm LazyList {
variables
  key = [n \in 0..TailN |-> IF n = TailN THEN 1000 ELSE 0],
  next = [n \in 0..TailN |-> [ptr |-> TailN, mark |-> FALSE]],
  lock = [n \in 0..TailN |-> 0],
  alloc = 0,
  abs = {},
  seenIn = [p \in Procs |-> FALSE], seenOut = [p \in Procs |-> FALSE], watch = [p \in Procs |-> -1],
  ok = TRUE;

define { Marked(n) == next[n].mark }

macro NoteIns(k) { seenIn := [p \in Procs |-> seenIn[p] \/ watch[p] = k]; }
macro NoteDel(k) { seenOut := [p \in Procs |-> seenOut[p] \/ watch[p] = k]; }

procedure search(k)
  variables w = [ptr |-> 0, mark |-> FALSE];
{
S0: cur := 0; pred := 0;
S1: while (cur # TailN /\ ~(cur # 0 /\ key[cur] >= k)) {
      w := next[cur];                                            \* pPrev = pCur; pCur = protect( pPrev->m_pNext )
      if (w.mark) { cur := 0; pred := 0; } else { pred := cur; cur := w.ptr; };
    };
    return;
}

process (P \in Procs)
  variables i = 1, pred = 0, cur = 0, new = 0, op = <<>>, nxt = 0;
{
L0: while (i <= Len(Prog[self])) {
      op := Prog[self][i];
      watch[self] := op[2]; seenIn[self] := (op[2] \in abs); seenOut[self] := (op[2] \notin abs);
      if (op[1] = "ins") {
        alloc := alloc + 1; new := alloc + 0; key[alloc + 0] := op[2];
I1:     call search(op[2]);
I2:     await lock[pred] = 0; lock[pred] := self;                 \* scoped_position_lock: pPred, then pCur
I3:     await lock[cur] = 0 \/ cur = pred; if (cur # pred) { lock[cur] := self; };
I4:     if (NoValidate \/ (TailSkip /\ cur = TailN /\ ~Marked(pred)) \/ (~Marked(pred) /\ ~Marked(cur) /\ next[pred].ptr = cur)) {     \* validate( pPred, pCur )
          if (cur # TailN /\ key[cur] = op[2]) {
            ok := ok /\ (NoValidate \/ op[2] \in abs);            \* present under both locks
I5:         lock[cur] := IF cur = pred THEN lock[cur] ELSE 0;
I6:         lock[pred] := 0;
          } else {
            next[new] := [ptr |-> cur, mark |-> FALSE];           \* pNode->m_pNext.store( pCur )
I7:         next[pred] := [ptr |-> new, mark |-> FALSE];          \* pPred->m_pNext.store( pNode ): linearization point
            ok := ok /\ op[2] \notin abs; abs := abs \cup {op[2]}; NoteIns(op[2]);
I8:         lock[cur] := IF cur = pred THEN lock[cur] ELSE 0;
I9:         lock[pred] := 0;
          };
        } else {
IA:       lock[cur] := IF cur = pred THEN lock[cur] ELSE 0;
IB:       lock[pred] := 0; goto I1;
        };
      } else if (op[1] = "era") {
E1:     call search(op[2]);
E2:     await lock[pred] = 0; lock[pred] := self;
E3:     await lock[cur] = 0 \/ cur = pred; if (cur # pred) { lock[cur] := self; };
E4:     if (NoValidate \/ (TailSkip /\ cur = TailN /\ ~Marked(pred)) \/ (~Marked(pred) /\ ~Marked(cur) /\ next[pred].ptr = cur)) {
          if (cur # TailN /\ key[cur] = op[2]) {
            nxt := next[cur].ptr;                                 \* pCur->m_pNext.load
E5:         next[cur] := [ptr |-> 0, mark |-> TRUE];              \* logical removal + back-link to the head: linearization point
            ok := ok /\ op[2] \in abs; abs := abs \ {op[2]}; NoteDel(op[2]);
E6:         next[pred] := [ptr |-> nxt, mark |-> FALSE];          \* physical removal
          } else {
            ok := ok /\ (NoValidate \/ op[2] \notin abs);
          };
E7:       lock[cur] := IF cur = pred THEN lock[cur] ELSE 0;
E8:       lock[pred] := 0;
        } else {
E9:       lock[cur] := IF cur = pred THEN lock[cur] ELSE 0;
EA:       lock[pred] := 0; goto E1;
        };
      } else {
F1:     call search(op[2]);
F2:     if (cur # TailN) {
F3:       await lock[cur] = 0; lock[cur] := self;                 \* lock the current node only
F4:       if (~Marked(cur) /\ key[cur] = op[2]) { ok := ok /\ seenIn[self]; } else { ok := ok /\ seenOut[self]; };
F5:       lock[cur] := 0;
        } else { ok := ok /\ seenOut[self]; };
      };
L1:   watch[self] := -1; i := i + 1;
    };
}
} *)
\* BEGIN TRANSLATION
CONSTANT defaultInitValue
VARIABLES pc, key, next, lock, alloc, abs, seenIn, seenOut, watch, ok, stack

(* define statement *)
Marked(n) == next[n].mark

VARIABLES k, w, i, pred, cur, new, op, nxt

vars == << pc, key, next, lock, alloc, abs, seenIn, seenOut, watch, ok, stack, 
           k, w, i, pred, cur, new, op, nxt >>

ProcSet == (Procs)

Init == (* Global variables *)
        /\ key = [n \in 0..TailN |-> IF n = TailN THEN 1000 ELSE 0]
        /\ next = [n \in 0..TailN |-> [ptr |-> TailN, mark |-> FALSE]]
        /\ lock = [n \in 0..TailN |-> 0]
        /\ alloc = 0
        /\ abs = {}
        /\ seenIn = [p \in Procs |-> FALSE]
        /\ seenOut = [p \in Procs |-> FALSE]
        /\ watch = [p \in Procs |-> -1]
        /\ ok = TRUE
        (* Procedure search *)
        /\ k = [ self \in ProcSet |-> defaultInitValue]
        /\ w = [ self \in ProcSet |-> [ptr |-> 0, mark |-> FALSE]]
        (* Process P *)
        /\ i = [self \in Procs |-> 1]
        /\ pred = [self \in Procs |-> 0]
        /\ cur = [self \in Procs |-> 0]
        /\ new = [self \in Procs |-> 0]
        /\ op = [self \in Procs |-> <<>>]
        /\ nxt = [self \in Procs |-> 0]
        /\ stack = [self \in ProcSet |-> << >>]
        /\ pc = [self \in ProcSet |-> "L0"]

S0(self) == /\ pc[self] = "S0"
            /\ cur' = [cur EXCEPT ![self] = 0]
            /\ pred' = [pred EXCEPT ![self] = 0]
            /\ pc' = [pc EXCEPT ![self] = "S1"]
            /\ UNCHANGED << key, next, lock, alloc, abs, seenIn, seenOut, 
                            watch, ok, stack, k, w, i, new, op, nxt >>

S1(self) == /\ pc[self] = "S1"
            /\ IF cur[self] # TailN /\ ~(cur[self] # 0 /\ key[cur[self]] >= k[self])
                  THEN /\ w' = [w EXCEPT ![self] = next[cur[self]]]
                       /\ IF w'[self].mark
                             THEN /\ cur' = [cur EXCEPT ![self] = 0]
                                  /\ pred' = [pred EXCEPT ![self] = 0]
                             ELSE /\ pred' = [pred EXCEPT ![self] = cur[self]]
                                  /\ cur' = [cur EXCEPT ![self] = w'[self].ptr]
                       /\ pc' = [pc EXCEPT ![self] = "S1"]
                       /\ UNCHANGED << stack, k >>
                  ELSE /\ pc' = [pc EXCEPT ![self] = Head(stack[self]).pc]
                       /\ w' = [w EXCEPT ![self] = Head(stack[self]).w]
                       /\ k' = [k EXCEPT ![self] = Head(stack[self]).k]
                       /\ stack' = [stack EXCEPT ![self] = Tail(stack[self])]
                       /\ UNCHANGED << pred, cur >>
            /\ UNCHANGED << key, next, lock, alloc, abs, seenIn, seenOut, 
                            watch, ok, i, new, op, nxt >>

search(self) == S0(self) \/ S1(self)

L0(self) == /\ pc[self] = "L0"
            /\ IF i[self] <= Len(Prog[self])
                  THEN /\ op' = [op EXCEPT ![self] = Prog[self][i[self]]]
                       /\ watch' = [watch EXCEPT ![self] = op'[self][2]]
                       /\ seenIn' = [seenIn EXCEPT ![self] = (op'[self][2] \in abs)]
                       /\ seenOut' = [seenOut EXCEPT ![self] = (op'[self][2] \notin abs)]
                       /\ IF op'[self][1] = "ins"
                             THEN /\ alloc' = alloc + 1
                                  /\ new' = [new EXCEPT ![self] = alloc' + 0]
                                  /\ key' = [key EXCEPT ![alloc' + 0] = op'[self][2]]
                                  /\ pc' = [pc EXCEPT ![self] = "I1"]
                             ELSE /\ IF op'[self][1] = "era"
                                        THEN /\ pc' = [pc EXCEPT ![self] = "E1"]
                                        ELSE /\ pc' = [pc EXCEPT ![self] = "F1"]
                                  /\ UNCHANGED << key, alloc, new >>
                  ELSE /\ pc' = [pc EXCEPT ![self] = "Done"]
                       /\ UNCHANGED << key, alloc, seenIn, seenOut, watch, new, 
                                       op >>
            /\ UNCHANGED << next, lock, abs, ok, stack, k, w, i, pred, cur, 
                            nxt >>

L1(self) == /\ pc[self] = "L1"
            /\ watch' = [watch EXCEPT ![self] = -1]
            /\ i' = [i EXCEPT ![self] = i[self] + 1]
            /\ pc' = [pc EXCEPT ![self] = "L0"]
            /\ UNCHANGED << key, next, lock, alloc, abs, seenIn, seenOut, ok, 
                            stack, k, w, pred, cur, new, op, nxt >>

I1(self) == /\ pc[self] = "I1"
            /\ /\ k' = [k EXCEPT ![self] = op[self][2]]
               /\ stack' = [stack EXCEPT ![self] = << [ procedure |->  "search",
                                                        pc        |->  "I2",
                                                        w         |->  w[self],
                                                        k         |->  k[self] ] >>
                                                    \o stack[self]]
            /\ w' = [w EXCEPT ![self] = [ptr |-> 0, mark |-> FALSE]]
            /\ pc' = [pc EXCEPT ![self] = "S0"]
            /\ UNCHANGED << key, next, lock, alloc, abs, seenIn, seenOut, 
                            watch, ok, i, pred, cur, new, op, nxt >>

I2(self) == /\ pc[self] = "I2"
            /\ lock[pred[self]] = 0
            /\ lock' = [lock EXCEPT ![pred[self]] = self]
            /\ pc' = [pc EXCEPT ![self] = "I3"]
            /\ UNCHANGED << key, next, alloc, abs, seenIn, seenOut, watch, ok, 
                            stack, k, w, i, pred, cur, new, op, nxt >>

I3(self) == /\ pc[self] = "I3"
            /\ lock[cur[self]] = 0 \/ cur[self] = pred[self]
            /\ IF cur[self] # pred[self]
                  THEN /\ lock' = [lock EXCEPT ![cur[self]] = self]
                  ELSE /\ TRUE
                       /\ lock' = lock
            /\ pc' = [pc EXCEPT ![self] = "I4"]
            /\ UNCHANGED << key, next, alloc, abs, seenIn, seenOut, watch, ok, 
                            stack, k, w, i, pred, cur, new, op, nxt >>

I4(self) == /\ pc[self] = "I4"
            /\ IF NoValidate \/ (TailSkip /\ cur[self] = TailN /\ ~Marked(pred[self])) \/ (~Marked(pred[self]) /\ ~Marked(cur[self]) /\ next[pred[self]].ptr = cur[self])
                  THEN /\ IF cur[self] # TailN /\ key[cur[self]] = op[self][2]
                             THEN /\ ok' = (ok /\ (NoValidate \/ op[self][2] \in abs))
                                  /\ pc' = [pc EXCEPT ![self] = "I5"]
                                  /\ next' = next
                             ELSE /\ next' = [next EXCEPT ![new[self]] = [ptr |-> cur[self], mark |-> FALSE]]
                                  /\ pc' = [pc EXCEPT ![self] = "I7"]
                                  /\ ok' = ok
                  ELSE /\ pc' = [pc EXCEPT ![self] = "IA"]
                       /\ UNCHANGED << next, ok >>
            /\ UNCHANGED << key, lock, alloc, abs, seenIn, seenOut, watch, 
                            stack, k, w, i, pred, cur, new, op, nxt >>

IA(self) == /\ pc[self] = "IA"
            /\ lock' = [lock EXCEPT ![cur[self]] = IF cur[self] = pred[self] THEN lock[cur[self]] ELSE 0]
            /\ pc' = [pc EXCEPT ![self] = "IB"]
            /\ UNCHANGED << key, next, alloc, abs, seenIn, seenOut, watch, ok, 
                            stack, k, w, i, pred, cur, new, op, nxt >>

IB(self) == /\ pc[self] = "IB"
            /\ lock' = [lock EXCEPT ![pred[self]] = 0]
            /\ pc' = [pc EXCEPT ![self] = "I1"]
            /\ UNCHANGED << key, next, alloc, abs, seenIn, seenOut, watch, ok, 
                            stack, k, w, i, pred, cur, new, op, nxt >>

I5(self) == /\ pc[self] = "I5"
            /\ lock' = [lock EXCEPT ![cur[self]] = IF cur[self] = pred[self] THEN lock[cur[self]] ELSE 0]
            /\ pc' = [pc EXCEPT ![self] = "I6"]
            /\ UNCHANGED << key, next, alloc, abs, seenIn, seenOut, watch, ok, 
                            stack, k, w, i, pred, cur, new, op, nxt >>

I6(self) == /\ pc[self] = "I6"
            /\ lock' = [lock EXCEPT ![pred[self]] = 0]
            /\ pc' = [pc EXCEPT ![self] = "L1"]
            /\ UNCHANGED << key, next, alloc, abs, seenIn, seenOut, watch, ok, 
                            stack, k, w, i, pred, cur, new, op, nxt >>

I7(self) == /\ pc[self] = "I7"
            /\ next' = [next EXCEPT ![pred[self]] = [ptr |-> new[self], mark |-> FALSE]]
            /\ ok' = (ok /\ op[self][2] \notin abs)
            /\ abs' = (abs \cup {op[self][2]})
            /\ seenIn' = [p \in Procs |-> seenIn[p] \/ watch[p] = (op[self][2])]
            /\ pc' = [pc EXCEPT ![self] = "I8"]
            /\ UNCHANGED << key, lock, alloc, seenOut, watch, stack, k, w, i, 
                            pred, cur, new, op, nxt >>

I8(self) == /\ pc[self] = "I8"
            /\ lock' = [lock EXCEPT ![cur[self]] = IF cur[self] = pred[self] THEN lock[cur[self]] ELSE 0]
            /\ pc' = [pc EXCEPT ![self] = "I9"]
            /\ UNCHANGED << key, next, alloc, abs, seenIn, seenOut, watch, ok, 
                            stack, k, w, i, pred, cur, new, op, nxt >>

I9(self) == /\ pc[self] = "I9"
            /\ lock' = [lock EXCEPT ![pred[self]] = 0]
            /\ pc' = [pc EXCEPT ![self] = "L1"]
            /\ UNCHANGED << key, next, alloc, abs, seenIn, seenOut, watch, ok, 
                            stack, k, w, i, pred, cur, new, op, nxt >>

E1(self) == /\ pc[self] = "E1"
            /\ /\ k' = [k EXCEPT ![self] = op[self][2]]
               /\ stack' = [stack EXCEPT ![self] = << [ procedure |->  "search",
                                                        pc        |->  "E2",
                                                        w         |->  w[self],
                                                        k         |->  k[self] ] >>
                                                    \o stack[self]]
            /\ w' = [w EXCEPT ![self] = [ptr |-> 0, mark |-> FALSE]]
            /\ pc' = [pc EXCEPT ![self] = "S0"]
            /\ UNCHANGED << key, next, lock, alloc, abs, seenIn, seenOut, 
                            watch, ok, i, pred, cur, new, op, nxt >>

E2(self) == /\ pc[self] = "E2"
            /\ lock[pred[self]] = 0
            /\ lock' = [lock EXCEPT ![pred[self]] = self]
            /\ pc' = [pc EXCEPT ![self] = "E3"]
            /\ UNCHANGED << key, next, alloc, abs, seenIn, seenOut, watch, ok, 
                            stack, k, w, i, pred, cur, new, op, nxt >>

E3(self) == /\ pc[self] = "E3"
            /\ lock[cur[self]] = 0 \/ cur[self] = pred[self]
            /\ IF cur[self] # pred[self]
                  THEN /\ lock' = [lock EXCEPT ![cur[self]] = self]
                  ELSE /\ TRUE
                       /\ lock' = lock
            /\ pc' = [pc EXCEPT ![self] = "E4"]
            /\ UNCHANGED << key, next, alloc, abs, seenIn, seenOut, watch, ok, 
                            stack, k, w, i, pred, cur, new, op, nxt >>

E4(self) == /\ pc[self] = "E4"
            /\ IF NoValidate \/ (TailSkip /\ cur[self] = TailN /\ ~Marked(pred[self])) \/ (~Marked(pred[self]) /\ ~Marked(cur[self]) /\ next[pred[self]].ptr = cur[self])
                  THEN /\ IF cur[self] # TailN /\ key[cur[self]] = op[self][2]
                             THEN /\ nxt' = [nxt EXCEPT ![self] = next[cur[self]].ptr]
                                  /\ pc' = [pc EXCEPT ![self] = "E5"]
                                  /\ ok' = ok
                             ELSE /\ ok' = (ok /\ (NoValidate \/ op[self][2] \notin abs))
                                  /\ pc' = [pc EXCEPT ![self] = "E7"]
                                  /\ nxt' = nxt
                  ELSE /\ pc' = [pc EXCEPT ![self] = "E9"]
                       /\ UNCHANGED << ok, nxt >>
            /\ UNCHANGED << key, next, lock, alloc, abs, seenIn, seenOut, 
                            watch, stack, k, w, i, pred, cur, new, op >>

E7(self) == /\ pc[self] = "E7"
            /\ lock' = [lock EXCEPT ![cur[self]] = IF cur[self] = pred[self] THEN lock[cur[self]] ELSE 0]
            /\ pc' = [pc EXCEPT ![self] = "E8"]
            /\ UNCHANGED << key, next, alloc, abs, seenIn, seenOut, watch, ok, 
                            stack, k, w, i, pred, cur, new, op, nxt >>

E8(self) == /\ pc[self] = "E8"
            /\ lock' = [lock EXCEPT ![pred[self]] = 0]
            /\ pc' = [pc EXCEPT ![self] = "L1"]
            /\ UNCHANGED << key, next, alloc, abs, seenIn, seenOut, watch, ok, 
                            stack, k, w, i, pred, cur, new, op, nxt >>

E9(self) == /\ pc[self] = "E9"
            /\ lock' = [lock EXCEPT ![cur[self]] = IF cur[self] = pred[self] THEN lock[cur[self]] ELSE 0]
            /\ pc' = [pc EXCEPT ![self] = "EA"]
            /\ UNCHANGED << key, next, alloc, abs, seenIn, seenOut, watch, ok, 
                            stack, k, w, i, pred, cur, new, op, nxt >>

EA(self) == /\ pc[self] = "EA"
            /\ lock' = [lock EXCEPT ![pred[self]] = 0]
            /\ pc' = [pc EXCEPT ![self] = "E1"]
            /\ UNCHANGED << key, next, alloc, abs, seenIn, seenOut, watch, ok, 
                            stack, k, w, i, pred, cur, new, op, nxt >>

E5(self) == /\ pc[self] = "E5"
            /\ next' = [next EXCEPT ![cur[self]] = [ptr |-> 0, mark |-> TRUE]]
            /\ ok' = (ok /\ op[self][2] \in abs)
            /\ abs' = abs \ {op[self][2]}
            /\ seenOut' = [p \in Procs |-> seenOut[p] \/ watch[p] = (op[self][2])]
            /\ pc' = [pc EXCEPT ![self] = "E6"]
            /\ UNCHANGED << key, lock, alloc, seenIn, watch, stack, k, w, i, 
                            pred, cur, new, op, nxt >>

E6(self) == /\ pc[self] = "E6"
            /\ next' = [next EXCEPT ![pred[self]] = [ptr |-> nxt[self], mark |-> FALSE]]
            /\ pc' = [pc EXCEPT ![self] = "E7"]
            /\ UNCHANGED << key, lock, alloc, abs, seenIn, seenOut, watch, ok, 
                            stack, k, w, i, pred, cur, new, op, nxt >>

F1(self) == /\ pc[self] = "F1"
            /\ /\ k' = [k EXCEPT ![self] = op[self][2]]
               /\ stack' = [stack EXCEPT ![self] = << [ procedure |->  "search",
                                                        pc        |->  "F2",
                                                        w         |->  w[self],
                                                        k         |->  k[self] ] >>
                                                    \o stack[self]]
            /\ w' = [w EXCEPT ![self] = [ptr |-> 0, mark |-> FALSE]]
            /\ pc' = [pc EXCEPT ![self] = "S0"]
            /\ UNCHANGED << key, next, lock, alloc, abs, seenIn, seenOut, 
                            watch, ok, i, pred, cur, new, op, nxt >>

F2(self) == /\ pc[self] = "F2"
            /\ IF cur[self] # TailN
                  THEN /\ pc' = [pc EXCEPT ![self] = "F3"]
                       /\ ok' = ok
                  ELSE /\ ok' = (ok /\ seenOut[self])
                       /\ pc' = [pc EXCEPT ![self] = "L1"]
            /\ UNCHANGED << key, next, lock, alloc, abs, seenIn, seenOut, 
                            watch, stack, k, w, i, pred, cur, new, op, nxt >>

F3(self) == /\ pc[self] = "F3"
            /\ lock[cur[self]] = 0
            /\ lock' = [lock EXCEPT ![cur[self]] = self]
            /\ pc' = [pc EXCEPT ![self] = "F4"]
            /\ UNCHANGED << key, next, alloc, abs, seenIn, seenOut, watch, ok, 
                            stack, k, w, i, pred, cur, new, op, nxt >>

F4(self) == /\ pc[self] = "F4"
            /\ IF ~Marked(cur[self]) /\ key[cur[self]] = op[self][2]
                  THEN /\ ok' = (ok /\ seenIn[self])
                  ELSE /\ ok' = (ok /\ seenOut[self])
            /\ pc' = [pc EXCEPT ![self] = "F5"]
            /\ UNCHANGED << key, next, lock, alloc, abs, seenIn, seenOut, 
                            watch, stack, k, w, i, pred, cur, new, op, nxt >>

F5(self) == /\ pc[self] = "F5"
            /\ lock' = [lock EXCEPT ![cur[self]] = 0]
            /\ pc' = [pc EXCEPT ![self] = "L1"]
            /\ UNCHANGED << key, next, alloc, abs, seenIn, seenOut, watch, ok, 
                            stack, k, w, i, pred, cur, new, op, nxt >>

P(self) == L0(self) \/ L1(self) \/ I1(self) \/ I2(self) \/ I3(self)
              \/ I4(self) \/ IA(self) \/ IB(self) \/ I5(self) \/ I6(self)
              \/ I7(self) \/ I8(self) \/ I9(self) \/ E1(self) \/ E2(self)
              \/ E3(self) \/ E4(self) \/ E7(self) \/ E8(self) \/ E9(self)
              \/ EA(self) \/ E5(self) \/ E6(self) \/ F1(self) \/ F2(self)
              \/ F3(self) \/ F4(self) \/ F5(self)

(* Allow infinite stuttering to prevent deadlock on termination. *)
Terminating == /\ \A self \in ProcSet: pc[self] = "Done"
               /\ UNCHANGED vars

Next == (\E self \in ProcSet: search(self))
           \/ (\E self \in Procs: P(self))
           \/ Terminating

Spec == Init /\ [][Next]_vars

Termination == <>(\A self \in ProcSet: pc[self] = "Done")

\* END TRANSLATION
LinOK == ok
RECURSIVE Live(_, _)
Live(n, fuel) == IF n = TailN \/ fuel = 0 THEN <<>>
                 ELSE (IF n # 0 /\ ~next[n].mark THEN <<key[n]>> ELSE <<>>) \o Live(next[n].ptr, fuel - 1)
Sorted(sq) == \A a, b \in 1..Len(sq) : a < b => sq[a] < sq[b]
StructureOK == (\A p \in Procs : pc[p] \notin {"I8", "E6"}) =>
                 LET L == Live(0, MaxNodes + 2) IN Sorted(L) /\ { L[j] : j \in 1..Len(L) } = abs
=============================================================================
