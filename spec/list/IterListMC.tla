---- MODULE IterListMC ----
EXTENDS IterList
\* element ids 1..6; keys: ids 4, 5, 6 are second elements of keys 2, 1, 3
Keys6 == <<1, 2, 3, 2, 1, 3>>
\* erase / re-insert around empty nodes, concurrent neighbours
IA == (1 :> << <<"ins", 2, 2>>, <<"era", 2>>, <<"ins", 2, 4>> >>) @@ (2 :> << <<"ins", 1, 1>>, <<"ins", 3, 3>>, <<"era", 1>> >>)
IB == (1 :> << <<"ins", 2, 2>>, <<"era", 2>> >>) @@ (2 :> << <<"ins", 3, 3>>, <<"ins", 2, 4>> >>) @@ (3 :> << <<"ins", 1, 1>>, <<"ins", 2, 2>> >>)
\* iterator erase against replace and neighbour insertion (initial content is built by thread 1's first two operations)
IC == (1 :> << <<"ins", 1, 1>>, <<"ins", 3, 3>>, <<"eat", 1>> >>) @@ (2 :> << <<"upd", 1, 5>> >>) @@ (3 :> << <<"ins", 2, 2>> >>)
NoInit == <<>>
\* seeded change C13: two erased nodes A, B in front of C (key 4); T1 inserts key 2, T2 inserts key 3 (re-uses B), key 2 (re-uses A), erases key 3
Keys4 == <<2, 3, 4, 2>>
InitAB == <<0, 0, 3>>
ID == (1 :> << <<"ins", 2, 1>> >>) @@ (2 :> << <<"ins", 3, 2>>, <<"ins", 2, 4>>, <<"era", 3>> >>)
\* seeded change C18b: an erased node E in front of C (key 4); T1 inserts key 2 (re-uses E after the early check), T2 inserts key 4' (id 2, key 3) into E,
\* key 2' before it and erases key 3
IE == (1 :> << <<"ins", 2, 1>> >>) @@ (2 :> << <<"ins", 3, 2>>, <<"ins", 2, 4>>, <<"era", 3>> >>)
InitE == <<0, 3>>
====
