---- MODULE IterList ----
\* Tier B: cds::intrusive::IterableList (impl/iterable_list.h).  Nodes are permanent; a node's data pointer is the element, null
\* means "empty node".  insert marks the data pointers of pPrev and pCur (LSB) to freeze the neighbourhood, then either re-uses an
\* empty pPrev or links a new node between them; erase and update are single CASes on the data pointer; erase_at( iterator )
\* retries while the pointer is only marked.  One label per atomic access; the ghost set is updated at the linearization CASes.
\*   FindPrevStrict -- seeded change C13: find_prev() stops at "> 0" instead of ">= 0"
\*   EraseAtObserved -- seeded change C19: erase_at( iterator ) retries with the value it observed (mark stripped)
EXTENDS Naturals, Sequences, FiniteSets, TLC
CONSTANTS Procs, Prog, MaxNodes, KeyOf, FindPrevStrict, EraseAtObserved,
          EarlyFindPrev,  \* seeded change C18b: link_data runs the find_prev re-check before it has marked the data pointers
          InitList        \* initial content: element ids in list order, 0 = an empty (erased) node
NULL == 0
HD == 1                       \* head sentinel
TL == 2                       \* tail sentinel: next[TL] = TL
Nodes == 1..MaxNodes
D(p, m) == [p |-> p, m |-> m]
(* --algorithm IterList {
variables
  next = [n \in Nodes |-> IF n = HD THEN (IF Len(InitList) = 0 THEN TL ELSE 3) ELSE IF n = TL THEN TL
                          ELSE IF n - 2 < Len(InitList) THEN n + 1 ELSE IF n - 2 = Len(InitList) THEN TL ELSE NULL],
  data = [n \in Nodes |-> IF n > 2 /\ n - 2 <= Len(InitList) THEN D(InitList[n - 2], 0) ELSE D(NULL, 0)],
  alloc = 2 + Len(InitList),
  abs = { InitList[j] : j \in 1..Len(InitList) } \ {0},      \* ghost: set of element ids in the list
  ok = TRUE, retired = {};

define {
  Key(v) == KeyOf[v]
}

process (P \in Procs)
  variables i = 1, op = <<>>, prev = HD, cur = NULL, val = NULL, prevVal = NULL, found = NULL, hit = FALSE, wit = FALSE,
            vc = D(NULL, 0), vp = D(NULL, 0), nn = NULL, fp = HD, fc = NULL, fv = NULL, early = FALSE, itn = NULL, itv = NULL, obs = D(NULL, 0), ex = D(NULL, 0);
{
L0: while (i <= Len(Prog[self])) {
      op := Prog[self][i];
      \* ---- (inserting_)search( head, key ) ----
S0:   prev := HD; prevVal := NULL;
S1:   cur := next[prev];
S2:   if (next[cur] = cur) { found := NULL; hit := FALSE; goto OP; };
S3:   val := data[cur].p;                                            \* guard.protect( pCur->data ).ptr()
      if (val # NULL /\ Key(val) >= op[2]) { found := val; hit := (Key(val) = op[2]); wit := (val \in abs); goto OP; };
S4:   prev := cur; prevVal := val; goto S1;
OP:   if (op[1] = "ins" /\ hit) { ok := ok /\ wit; goto NX; }          \* insert fails: the key was present when its element was read (S3)
      else if (op[1] = "ins" \/ (op[1] = "upd" /\ ~hit)) {
        \* ---- link_data( &val, pos ) ----
LD0:    if (EarlyFindPrev /\ prevVal = NULL) { early := TRUE; fp := HD; goto FP1; } else { early := FALSE; };
LD1:    if (data[cur] = D(found, 0)) { data[cur] := D(found, 1); vc := D(found, 0); } else { goto S0; };
LD2:    if (data[prev] = D(prevVal, 0)) { data[prev] := D(prevVal, 1); vp := D(prevVal, 0); } else { data[cur] := vc; goto S0; };
LD3:    if (next[prev] # cur) { data[prev] := vp; goto LD9; };
LD4:    if (prevVal = NULL /\ ~EarlyFindPrev) {
          \* find_prev( head, key ): last node before the first non-empty node whose key is >= key (or before the tail)
          fp := HD;
FP1:      fc := next[fp];
FP2:      if (next[fc] = fc) { goto LD5; };
FP3:      fv := data[fc].p;
          if (fv # NULL /\ ((~FindPrevStrict /\ Key(fv) >= op[2]) \/ (FindPrevStrict /\ Key(fv) > op[2]))) { goto LD5; };
FP4:      fp := fc; goto FP1;
LD5:      if (early) { early := FALSE; if (fp # prev) { goto S0; } else { goto LD1; }; }
          else if (fp # prev) { data[prev] := vp; goto LD9; };
        };
LD6:    if (prev # HD /\ prevVal = NULL) {
          \* re-use the empty node pPrev
          if (data[prev] = D(NULL, 1)) { data[prev] := D(op[3], 0); ok := ok /\ ~(\E x \in abs : Key(x) = op[2]); abs := abs \cup {op[3]}; hit := TRUE; }
          else { hit := FALSE; };
LD7:      data[cur] := vc;
          if (hit) { goto NX; } else { goto S0; };
        } else {
          alloc := alloc + 1; nn := alloc + 0; data[alloc + 0] := D(op[3], 0); next[alloc + 0] := cur;
LD8:      if (next[prev] = cur) { next[prev] := nn; ok := ok /\ ~(\E x \in abs : Key(x) = op[2]); abs := abs \cup {op[3]}; hit := TRUE; } else { hit := FALSE; };
LD8a:     data[prev] := vp;
LD8b:     data[cur] := vc;
          if (hit) { goto NX; } else { goto S0; };
        };
LD9:    data[cur] := vc; goto S0;
      }
      else if (op[1] = "upd") {
        \* replace the element of an equal key: CAS( pCur->data, pFound -> &val )
UP1:    if (data[cur] = D(found, 0)) { data[cur] := D(op[3], 0); ok := ok /\ found \in abs; abs := (abs \ {found}) \cup {op[3]}; retired := retired \cup {found}; goto NX; }
        else { goto S0; };
      }
      else if (op[1] = "era") {
        if (~hit) { ok := ok /\ ~(\E x \in abs : x = found /\ FALSE); goto NX; };               \* not found (checked by ListMatches)
ER1:    if (data[cur] = D(found, 0)) { data[cur] := D(NULL, 0); ok := ok /\ found \in abs; abs := abs \ {found}; retired := retired \cup {found}; goto NX; }
        else { goto S0; };                                                                        \* unlink_data failed: search again
      }
      else {
        \* ---- "eat": iterate to the key, then erase_at( iterator ) ----
        if (~hit) { goto NX; };
EA:     itn := cur; itv := found;
EA0:    ex := D(itv, 0);
EA1:    if (data[itn] = ex) { data[itn] := D(NULL, 0); ok := ok /\ ex.p \in abs /\ ex.p = itv; abs := abs \ {ex.p}; retired := retired \cup {ex.p}; goto NX; }
        else { obs := data[itn]; };
EA2:    if (~EraseAtObserved) { if (obs.p # itv) { goto NX; } else { goto EA0; }; }               \* removed or replaced: false; only marked: again
        else { if (obs.m = 0 \/ obs.p = NULL) { goto NX; } else { ex := D(obs.p, 0); goto EA1; }; };
      };
NX:   i := i + 1;
    };
}
} *)
\* BEGIN TRANSLATION
VARIABLES pc, next, data, alloc, abs, ok, retired

(* define statement *)
Key(v) == KeyOf[v]

VARIABLES i, op, prev, cur, val, prevVal, found, hit, wit, vc, vp, nn, fp, fc, 
          fv, early, itn, itv, obs, ex

vars == << pc, next, data, alloc, abs, ok, retired, i, op, prev, cur, val, 
           prevVal, found, hit, wit, vc, vp, nn, fp, fc, fv, early, itn, itv, 
           obs, ex >>

ProcSet == (Procs)

Init == (* Global variables *)
        /\ next = [n \in Nodes |-> IF n = HD THEN (IF Len(InitList) = 0 THEN TL ELSE 3) ELSE IF n = TL THEN TL
                                   ELSE IF n - 2 < Len(InitList) THEN n + 1 ELSE IF n - 2 = Len(InitList) THEN TL ELSE NULL]
        /\ data = [n \in Nodes |-> IF n > 2 /\ n - 2 <= Len(InitList) THEN D(InitList[n - 2], 0) ELSE D(NULL, 0)]
        /\ alloc = 2 + Len(InitList)
        /\ abs = { InitList[j] : j \in 1..Len(InitList) } \ {0}
        /\ ok = TRUE
        /\ retired = {}
        (* Process P *)
        /\ i = [self \in Procs |-> 1]
        /\ op = [self \in Procs |-> <<>>]
        /\ prev = [self \in Procs |-> HD]
        /\ cur = [self \in Procs |-> NULL]
        /\ val = [self \in Procs |-> NULL]
        /\ prevVal = [self \in Procs |-> NULL]
        /\ found = [self \in Procs |-> NULL]
        /\ hit = [self \in Procs |-> FALSE]
        /\ wit = [self \in Procs |-> FALSE]
        /\ vc = [self \in Procs |-> D(NULL, 0)]
        /\ vp = [self \in Procs |-> D(NULL, 0)]
        /\ nn = [self \in Procs |-> NULL]
        /\ fp = [self \in Procs |-> HD]
        /\ fc = [self \in Procs |-> NULL]
        /\ fv = [self \in Procs |-> NULL]
        /\ early = [self \in Procs |-> FALSE]
        /\ itn = [self \in Procs |-> NULL]
        /\ itv = [self \in Procs |-> NULL]
        /\ obs = [self \in Procs |-> D(NULL, 0)]
        /\ ex = [self \in Procs |-> D(NULL, 0)]
        /\ pc = [self \in ProcSet |-> "L0"]

L0(self) == /\ pc[self] = "L0"
            /\ IF i[self] <= Len(Prog[self])
                  THEN /\ op' = [op EXCEPT ![self] = Prog[self][i[self]]]
                       /\ pc' = [pc EXCEPT ![self] = "S0"]
                  ELSE /\ pc' = [pc EXCEPT ![self] = "Done"]
                       /\ op' = op
            /\ UNCHANGED << next, data, alloc, abs, ok, retired, i, prev, cur, 
                            val, prevVal, found, hit, wit, vc, vp, nn, fp, fc, 
                            fv, early, itn, itv, obs, ex >>

S0(self) == /\ pc[self] = "S0"
            /\ prev' = [prev EXCEPT ![self] = HD]
            /\ prevVal' = [prevVal EXCEPT ![self] = NULL]
            /\ pc' = [pc EXCEPT ![self] = "S1"]
            /\ UNCHANGED << next, data, alloc, abs, ok, retired, i, op, cur, 
                            val, found, hit, wit, vc, vp, nn, fp, fc, fv, 
                            early, itn, itv, obs, ex >>

S1(self) == /\ pc[self] = "S1"
            /\ cur' = [cur EXCEPT ![self] = next[prev[self]]]
            /\ pc' = [pc EXCEPT ![self] = "S2"]
            /\ UNCHANGED << next, data, alloc, abs, ok, retired, i, op, prev, 
                            val, prevVal, found, hit, wit, vc, vp, nn, fp, fc, 
                            fv, early, itn, itv, obs, ex >>

S2(self) == /\ pc[self] = "S2"
            /\ IF next[cur[self]] = cur[self]
                  THEN /\ found' = [found EXCEPT ![self] = NULL]
                       /\ hit' = [hit EXCEPT ![self] = FALSE]
                       /\ pc' = [pc EXCEPT ![self] = "OP"]
                  ELSE /\ pc' = [pc EXCEPT ![self] = "S3"]
                       /\ UNCHANGED << found, hit >>
            /\ UNCHANGED << next, data, alloc, abs, ok, retired, i, op, prev, 
                            cur, val, prevVal, wit, vc, vp, nn, fp, fc, fv, 
                            early, itn, itv, obs, ex >>

S3(self) == /\ pc[self] = "S3"
            /\ val' = [val EXCEPT ![self] = data[cur[self]].p]
            /\ IF val'[self] # NULL /\ Key(val'[self]) >= op[self][2]
                  THEN /\ found' = [found EXCEPT ![self] = val'[self]]
                       /\ hit' = [hit EXCEPT ![self] = (Key(val'[self]) = op[self][2])]
                       /\ wit' = [wit EXCEPT ![self] = (val'[self] \in abs)]
                       /\ pc' = [pc EXCEPT ![self] = "OP"]
                  ELSE /\ pc' = [pc EXCEPT ![self] = "S4"]
                       /\ UNCHANGED << found, hit, wit >>
            /\ UNCHANGED << next, data, alloc, abs, ok, retired, i, op, prev, 
                            cur, prevVal, vc, vp, nn, fp, fc, fv, early, itn, 
                            itv, obs, ex >>

S4(self) == /\ pc[self] = "S4"
            /\ prev' = [prev EXCEPT ![self] = cur[self]]
            /\ prevVal' = [prevVal EXCEPT ![self] = val[self]]
            /\ pc' = [pc EXCEPT ![self] = "S1"]
            /\ UNCHANGED << next, data, alloc, abs, ok, retired, i, op, cur, 
                            val, found, hit, wit, vc, vp, nn, fp, fc, fv, 
                            early, itn, itv, obs, ex >>

OP(self) == /\ pc[self] = "OP"
            /\ IF op[self][1] = "ins" /\ hit[self]
                  THEN /\ ok' = (ok /\ wit[self])
                       /\ pc' = [pc EXCEPT ![self] = "NX"]
                  ELSE /\ IF op[self][1] = "ins" \/ (op[self][1] = "upd" /\ ~hit[self])
                             THEN /\ pc' = [pc EXCEPT ![self] = "LD0"]
                                  /\ ok' = ok
                             ELSE /\ IF op[self][1] = "upd"
                                        THEN /\ pc' = [pc EXCEPT ![self] = "UP1"]
                                             /\ ok' = ok
                                        ELSE /\ IF op[self][1] = "era"
                                                   THEN /\ IF ~hit[self]
                                                              THEN /\ ok' = (ok /\ ~(\E x \in abs : x = found[self] /\ FALSE))
                                                                   /\ pc' = [pc EXCEPT ![self] = "NX"]
                                                              ELSE /\ pc' = [pc EXCEPT ![self] = "ER1"]
                                                                   /\ ok' = ok
                                                   ELSE /\ IF ~hit[self]
                                                              THEN /\ pc' = [pc EXCEPT ![self] = "NX"]
                                                              ELSE /\ pc' = [pc EXCEPT ![self] = "EA"]
                                                        /\ ok' = ok
            /\ UNCHANGED << next, data, alloc, abs, retired, i, op, prev, cur, 
                            val, prevVal, found, hit, wit, vc, vp, nn, fp, fc, 
                            fv, early, itn, itv, obs, ex >>

LD0(self) == /\ pc[self] = "LD0"
             /\ IF EarlyFindPrev /\ prevVal[self] = NULL
                   THEN /\ early' = [early EXCEPT ![self] = TRUE]
                        /\ fp' = [fp EXCEPT ![self] = HD]
                        /\ pc' = [pc EXCEPT ![self] = "FP1"]
                   ELSE /\ early' = [early EXCEPT ![self] = FALSE]
                        /\ pc' = [pc EXCEPT ![self] = "LD1"]
                        /\ fp' = fp
             /\ UNCHANGED << next, data, alloc, abs, ok, retired, i, op, prev, 
                             cur, val, prevVal, found, hit, wit, vc, vp, nn, 
                             fc, fv, itn, itv, obs, ex >>

LD1(self) == /\ pc[self] = "LD1"
             /\ IF data[cur[self]] = D(found[self], 0)
                   THEN /\ data' = [data EXCEPT ![cur[self]] = D(found[self], 1)]
                        /\ vc' = [vc EXCEPT ![self] = D(found[self], 0)]
                        /\ pc' = [pc EXCEPT ![self] = "LD2"]
                   ELSE /\ pc' = [pc EXCEPT ![self] = "S0"]
                        /\ UNCHANGED << data, vc >>
             /\ UNCHANGED << next, alloc, abs, ok, retired, i, op, prev, cur, 
                             val, prevVal, found, hit, wit, vp, nn, fp, fc, fv, 
                             early, itn, itv, obs, ex >>

LD2(self) == /\ pc[self] = "LD2"
             /\ IF data[prev[self]] = D(prevVal[self], 0)
                   THEN /\ data' = [data EXCEPT ![prev[self]] = D(prevVal[self], 1)]
                        /\ vp' = [vp EXCEPT ![self] = D(prevVal[self], 0)]
                        /\ pc' = [pc EXCEPT ![self] = "LD3"]
                   ELSE /\ data' = [data EXCEPT ![cur[self]] = vc[self]]
                        /\ pc' = [pc EXCEPT ![self] = "S0"]
                        /\ vp' = vp
             /\ UNCHANGED << next, alloc, abs, ok, retired, i, op, prev, cur, 
                             val, prevVal, found, hit, wit, vc, nn, fp, fc, fv, 
                             early, itn, itv, obs, ex >>

LD3(self) == /\ pc[self] = "LD3"
             /\ IF next[prev[self]] # cur[self]
                   THEN /\ data' = [data EXCEPT ![prev[self]] = vp[self]]
                        /\ pc' = [pc EXCEPT ![self] = "LD9"]
                   ELSE /\ pc' = [pc EXCEPT ![self] = "LD4"]
                        /\ data' = data
             /\ UNCHANGED << next, alloc, abs, ok, retired, i, op, prev, cur, 
                             val, prevVal, found, hit, wit, vc, vp, nn, fp, fc, 
                             fv, early, itn, itv, obs, ex >>

LD4(self) == /\ pc[self] = "LD4"
             /\ IF prevVal[self] = NULL /\ ~EarlyFindPrev
                   THEN /\ fp' = [fp EXCEPT ![self] = HD]
                        /\ pc' = [pc EXCEPT ![self] = "FP1"]
                   ELSE /\ pc' = [pc EXCEPT ![self] = "LD6"]
                        /\ fp' = fp
             /\ UNCHANGED << next, data, alloc, abs, ok, retired, i, op, prev, 
                             cur, val, prevVal, found, hit, wit, vc, vp, nn, 
                             fc, fv, early, itn, itv, obs, ex >>

FP1(self) == /\ pc[self] = "FP1"
             /\ fc' = [fc EXCEPT ![self] = next[fp[self]]]
             /\ pc' = [pc EXCEPT ![self] = "FP2"]
             /\ UNCHANGED << next, data, alloc, abs, ok, retired, i, op, prev, 
                             cur, val, prevVal, found, hit, wit, vc, vp, nn, 
                             fp, fv, early, itn, itv, obs, ex >>

FP2(self) == /\ pc[self] = "FP2"
             /\ IF next[fc[self]] = fc[self]
                   THEN /\ pc' = [pc EXCEPT ![self] = "LD5"]
                   ELSE /\ pc' = [pc EXCEPT ![self] = "FP3"]
             /\ UNCHANGED << next, data, alloc, abs, ok, retired, i, op, prev, 
                             cur, val, prevVal, found, hit, wit, vc, vp, nn, 
                             fp, fc, fv, early, itn, itv, obs, ex >>

FP3(self) == /\ pc[self] = "FP3"
             /\ fv' = [fv EXCEPT ![self] = data[fc[self]].p]
             /\ IF fv'[self] # NULL /\ ((~FindPrevStrict /\ Key(fv'[self]) >= op[self][2]) \/ (FindPrevStrict /\ Key(fv'[self]) > op[self][2]))
                   THEN /\ pc' = [pc EXCEPT ![self] = "LD5"]
                   ELSE /\ pc' = [pc EXCEPT ![self] = "FP4"]
             /\ UNCHANGED << next, data, alloc, abs, ok, retired, i, op, prev, 
                             cur, val, prevVal, found, hit, wit, vc, vp, nn, 
                             fp, fc, early, itn, itv, obs, ex >>

FP4(self) == /\ pc[self] = "FP4"
             /\ fp' = [fp EXCEPT ![self] = fc[self]]
             /\ pc' = [pc EXCEPT ![self] = "FP1"]
             /\ UNCHANGED << next, data, alloc, abs, ok, retired, i, op, prev, 
                             cur, val, prevVal, found, hit, wit, vc, vp, nn, 
                             fc, fv, early, itn, itv, obs, ex >>

LD5(self) == /\ pc[self] = "LD5"
             /\ IF early[self]
                   THEN /\ early' = [early EXCEPT ![self] = FALSE]
                        /\ IF fp[self] # prev[self]
                              THEN /\ pc' = [pc EXCEPT ![self] = "S0"]
                              ELSE /\ pc' = [pc EXCEPT ![self] = "LD1"]
                        /\ data' = data
                   ELSE /\ IF fp[self] # prev[self]
                              THEN /\ data' = [data EXCEPT ![prev[self]] = vp[self]]
                                   /\ pc' = [pc EXCEPT ![self] = "LD9"]
                              ELSE /\ pc' = [pc EXCEPT ![self] = "LD6"]
                                   /\ data' = data
                        /\ early' = early
             /\ UNCHANGED << next, alloc, abs, ok, retired, i, op, prev, cur, 
                             val, prevVal, found, hit, wit, vc, vp, nn, fp, fc, 
                             fv, itn, itv, obs, ex >>

LD6(self) == /\ pc[self] = "LD6"
             /\ IF prev[self] # HD /\ prevVal[self] = NULL
                   THEN /\ IF data[prev[self]] = D(NULL, 1)
                              THEN /\ data' = [data EXCEPT ![prev[self]] = D(op[self][3], 0)]
                                   /\ ok' = (ok /\ ~(\E x \in abs : Key(x) = op[self][2]))
                                   /\ abs' = (abs \cup {op[self][3]})
                                   /\ hit' = [hit EXCEPT ![self] = TRUE]
                              ELSE /\ hit' = [hit EXCEPT ![self] = FALSE]
                                   /\ UNCHANGED << data, abs, ok >>
                        /\ pc' = [pc EXCEPT ![self] = "LD7"]
                        /\ UNCHANGED << next, alloc, nn >>
                   ELSE /\ alloc' = alloc + 1
                        /\ nn' = [nn EXCEPT ![self] = alloc' + 0]
                        /\ data' = [data EXCEPT ![alloc' + 0] = D(op[self][3], 0)]
                        /\ next' = [next EXCEPT ![alloc' + 0] = cur[self]]
                        /\ pc' = [pc EXCEPT ![self] = "LD8"]
                        /\ UNCHANGED << abs, ok, hit >>
             /\ UNCHANGED << retired, i, op, prev, cur, val, prevVal, found, 
                             wit, vc, vp, fp, fc, fv, early, itn, itv, obs, ex >>

LD7(self) == /\ pc[self] = "LD7"
             /\ data' = [data EXCEPT ![cur[self]] = vc[self]]
             /\ IF hit[self]
                   THEN /\ pc' = [pc EXCEPT ![self] = "NX"]
                   ELSE /\ pc' = [pc EXCEPT ![self] = "S0"]
             /\ UNCHANGED << next, alloc, abs, ok, retired, i, op, prev, cur, 
                             val, prevVal, found, hit, wit, vc, vp, nn, fp, fc, 
                             fv, early, itn, itv, obs, ex >>

LD8(self) == /\ pc[self] = "LD8"
             /\ IF next[prev[self]] = cur[self]
                   THEN /\ next' = [next EXCEPT ![prev[self]] = nn[self]]
                        /\ ok' = (ok /\ ~(\E x \in abs : Key(x) = op[self][2]))
                        /\ abs' = (abs \cup {op[self][3]})
                        /\ hit' = [hit EXCEPT ![self] = TRUE]
                   ELSE /\ hit' = [hit EXCEPT ![self] = FALSE]
                        /\ UNCHANGED << next, abs, ok >>
             /\ pc' = [pc EXCEPT ![self] = "LD8a"]
             /\ UNCHANGED << data, alloc, retired, i, op, prev, cur, val, 
                             prevVal, found, wit, vc, vp, nn, fp, fc, fv, 
                             early, itn, itv, obs, ex >>

LD8a(self) == /\ pc[self] = "LD8a"
              /\ data' = [data EXCEPT ![prev[self]] = vp[self]]
              /\ pc' = [pc EXCEPT ![self] = "LD8b"]
              /\ UNCHANGED << next, alloc, abs, ok, retired, i, op, prev, cur, 
                              val, prevVal, found, hit, wit, vc, vp, nn, fp, 
                              fc, fv, early, itn, itv, obs, ex >>

LD8b(self) == /\ pc[self] = "LD8b"
              /\ data' = [data EXCEPT ![cur[self]] = vc[self]]
              /\ IF hit[self]
                    THEN /\ pc' = [pc EXCEPT ![self] = "NX"]
                    ELSE /\ pc' = [pc EXCEPT ![self] = "S0"]
              /\ UNCHANGED << next, alloc, abs, ok, retired, i, op, prev, cur, 
                              val, prevVal, found, hit, wit, vc, vp, nn, fp, 
                              fc, fv, early, itn, itv, obs, ex >>

LD9(self) == /\ pc[self] = "LD9"
             /\ data' = [data EXCEPT ![cur[self]] = vc[self]]
             /\ pc' = [pc EXCEPT ![self] = "S0"]
             /\ UNCHANGED << next, alloc, abs, ok, retired, i, op, prev, cur, 
                             val, prevVal, found, hit, wit, vc, vp, nn, fp, fc, 
                             fv, early, itn, itv, obs, ex >>

UP1(self) == /\ pc[self] = "UP1"
             /\ IF data[cur[self]] = D(found[self], 0)
                   THEN /\ data' = [data EXCEPT ![cur[self]] = D(op[self][3], 0)]
                        /\ ok' = (ok /\ found[self] \in abs)
                        /\ abs' = ((abs \ {found[self]}) \cup {op[self][3]})
                        /\ retired' = (retired \cup {found[self]})
                        /\ pc' = [pc EXCEPT ![self] = "NX"]
                   ELSE /\ pc' = [pc EXCEPT ![self] = "S0"]
                        /\ UNCHANGED << data, abs, ok, retired >>
             /\ UNCHANGED << next, alloc, i, op, prev, cur, val, prevVal, 
                             found, hit, wit, vc, vp, nn, fp, fc, fv, early, 
                             itn, itv, obs, ex >>

ER1(self) == /\ pc[self] = "ER1"
             /\ IF data[cur[self]] = D(found[self], 0)
                   THEN /\ data' = [data EXCEPT ![cur[self]] = D(NULL, 0)]
                        /\ ok' = (ok /\ found[self] \in abs)
                        /\ abs' = abs \ {found[self]}
                        /\ retired' = (retired \cup {found[self]})
                        /\ pc' = [pc EXCEPT ![self] = "NX"]
                   ELSE /\ pc' = [pc EXCEPT ![self] = "S0"]
                        /\ UNCHANGED << data, abs, ok, retired >>
             /\ UNCHANGED << next, alloc, i, op, prev, cur, val, prevVal, 
                             found, hit, wit, vc, vp, nn, fp, fc, fv, early, 
                             itn, itv, obs, ex >>

EA(self) == /\ pc[self] = "EA"
            /\ itn' = [itn EXCEPT ![self] = cur[self]]
            /\ itv' = [itv EXCEPT ![self] = found[self]]
            /\ pc' = [pc EXCEPT ![self] = "EA0"]
            /\ UNCHANGED << next, data, alloc, abs, ok, retired, i, op, prev, 
                            cur, val, prevVal, found, hit, wit, vc, vp, nn, fp, 
                            fc, fv, early, obs, ex >>

EA0(self) == /\ pc[self] = "EA0"
             /\ ex' = [ex EXCEPT ![self] = D(itv[self], 0)]
             /\ pc' = [pc EXCEPT ![self] = "EA1"]
             /\ UNCHANGED << next, data, alloc, abs, ok, retired, i, op, prev, 
                             cur, val, prevVal, found, hit, wit, vc, vp, nn, 
                             fp, fc, fv, early, itn, itv, obs >>

EA1(self) == /\ pc[self] = "EA1"
             /\ IF data[itn[self]] = ex[self]
                   THEN /\ data' = [data EXCEPT ![itn[self]] = D(NULL, 0)]
                        /\ ok' = (ok /\ ex[self].p \in abs /\ ex[self].p = itv[self])
                        /\ abs' = abs \ {ex[self].p}
                        /\ retired' = (retired \cup {ex[self].p})
                        /\ pc' = [pc EXCEPT ![self] = "NX"]
                        /\ obs' = obs
                   ELSE /\ obs' = [obs EXCEPT ![self] = data[itn[self]]]
                        /\ pc' = [pc EXCEPT ![self] = "EA2"]
                        /\ UNCHANGED << data, abs, ok, retired >>
             /\ UNCHANGED << next, alloc, i, op, prev, cur, val, prevVal, 
                             found, hit, wit, vc, vp, nn, fp, fc, fv, early, 
                             itn, itv, ex >>

EA2(self) == /\ pc[self] = "EA2"
             /\ IF ~EraseAtObserved
                   THEN /\ IF obs[self].p # itv[self]
                              THEN /\ pc' = [pc EXCEPT ![self] = "NX"]
                              ELSE /\ pc' = [pc EXCEPT ![self] = "EA0"]
                        /\ ex' = ex
                   ELSE /\ IF obs[self].m = 0 \/ obs[self].p = NULL
                              THEN /\ pc' = [pc EXCEPT ![self] = "NX"]
                                   /\ ex' = ex
                              ELSE /\ ex' = [ex EXCEPT ![self] = D(obs[self].p, 0)]
                                   /\ pc' = [pc EXCEPT ![self] = "EA1"]
             /\ UNCHANGED << next, data, alloc, abs, ok, retired, i, op, prev, 
                             cur, val, prevVal, found, hit, wit, vc, vp, nn, 
                             fp, fc, fv, early, itn, itv, obs >>

NX(self) == /\ pc[self] = "NX"
            /\ i' = [i EXCEPT ![self] = i[self] + 1]
            /\ pc' = [pc EXCEPT ![self] = "L0"]
            /\ UNCHANGED << next, data, alloc, abs, ok, retired, op, prev, cur, 
                            val, prevVal, found, hit, wit, vc, vp, nn, fp, fc, 
                            fv, early, itn, itv, obs, ex >>

P(self) == L0(self) \/ S0(self) \/ S1(self) \/ S2(self) \/ S3(self)
              \/ S4(self) \/ OP(self) \/ LD0(self) \/ LD1(self)
              \/ LD2(self) \/ LD3(self) \/ LD4(self) \/ FP1(self)
              \/ FP2(self) \/ FP3(self) \/ FP4(self) \/ LD5(self)
              \/ LD6(self) \/ LD7(self) \/ LD8(self) \/ LD8a(self)
              \/ LD8b(self) \/ LD9(self) \/ UP1(self) \/ ER1(self)
              \/ EA(self) \/ EA0(self) \/ EA1(self) \/ EA2(self)
              \/ NX(self)

(* Allow infinite stuttering to prevent deadlock on termination. *)
Terminating == /\ \A self \in ProcSet: pc[self] = "Done"
               /\ UNCHANGED vars

Next == (\E self \in Procs: P(self))
           \/ Terminating

Spec == Init /\ [][Next]_vars

Termination == <>(\A self \in ProcSet: pc[self] = "Done")

\* END TRANSLATION
LinOK == ok
\* walk the list from the head: the non-empty nodes hold exactly the ghost set, keys strictly ascending
WalkFrom(n) == LET W[k \in 0..MaxNodes] == IF k = 0 THEN <<n>> ELSE LET w == W[k - 1] IN IF w[Len(w)] = TL THEN w ELSE Append(w, next[w[Len(w)]]) IN W[MaxNodes]
ElemsOf(w) == LET F[k \in 0..Len(w)] == IF k = 0 THEN <<>> ELSE IF data[w[k]].p # NULL THEN Append(F[k - 1], data[w[k]].p) ELSE F[k - 1] IN F[Len(w)]
Elems == ElemsOf(WalkFrom(next[HD]))
Quiet == \A n \in Nodes : data[n].m = 0
Sorted(e) == \A a \in 1..(Len(e) - 1) : KeyOf[e[a]] < KeyOf[e[a + 1]]
ListMatches == LET e == Elems IN /\ { e[j] : j \in 1..Len(e) } = abs
                                /\ (Quiet => Sorted(e))
AllDone == \A p \in Procs : pc[p] = "Done"
FinalSorted == AllDone => (Quiet /\ Sorted(Elems))
====
