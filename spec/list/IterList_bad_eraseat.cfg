SPECIFICATION Spec
CONSTANTS
  Procs = {1, 2, 3}
  Prog <- IC
  MaxNodes = 7
  KeyOf <- Keys6
  FindPrevStrict = FALSE
  InitList <- NoInit
  EarlyFindPrev = FALSE
  EraseAtObserved = TRUE
INVARIANTS LinOK ListMatches FinalSorted
CHECK_DEADLOCK FALSE
