---- MODULE LazyListMC_TTrace_1790086874 ----
EXTENDS Sequences, LazyListMC, TLCExt, Toolbox, Naturals, TLC

_expression ==
    LET LazyListMC_TEExpression == INSTANCE LazyListMC_TEExpression
    IN LazyListMC_TEExpression!expression
----

_trace ==
    LET LazyListMC_TETrace == INSTANCE LazyListMC_TETrace
    IN LazyListMC_TETrace!trace
----

_inv ==
    ~(
        TLCGet("level") = Len(_TETrace)
        /\
        next = ((0 :> [mark |-> FALSE, ptr |-> 2] @@ 1 :> [mark |-> FALSE, ptr |-> 5] @@ 2 :> [mark |-> FALSE, ptr |-> 5] @@ 3 :> [mark |-> FALSE, ptr |-> 5] @@ 4 :> [mark |-> FALSE, ptr |-> 5] @@ 5 :> [mark |-> FALSE, ptr |-> 5]))
        /\
        cur = (<<5, 5>>)
        /\
        op = (<<<<"ins", 2>>, <<"ins", 1>>>>)
        /\
        new = (<<1, 2>>)
        /\
        stack = (<<<<>>, <<>>>>)
        /\
        i = (<<1, 1>>)
        /\
        nxt = (<<0, 0>>)
        /\
        k = (<<0, 0>>)
        /\
        pc = (<<"L1", "I9">>)
        /\
        abs = ({1, 2})
        /\
        pred = (<<0, 0>>)
        /\
        watch = (<<2, 1>>)
        /\
        w = (<<[mark |-> FALSE, ptr |-> 0], [mark |-> FALSE, ptr |-> 0]>>)
        /\
        lock = ((0 :> 2 @@ 1 :> 0 @@ 2 :> 0 @@ 3 :> 0 @@ 4 :> 0 @@ 5 :> 0))
        /\
        seenOut = (<<TRUE, TRUE>>)
        /\
        seenIn = (<<TRUE, TRUE>>)
        /\
        alloc = (2)
        /\
        ok = (TRUE)
        /\
        key = ((0 :> 0 @@ 1 :> 2 @@ 2 :> 1 @@ 3 :> 0 @@ 4 :> 0 @@ 5 :> 1000))
    )
----

_init ==
    /\ nxt = _TETrace[1].nxt
    /\ seenIn = _TETrace[1].seenIn
    /\ seenOut = _TETrace[1].seenOut
    /\ cur = _TETrace[1].cur
    /\ alloc = _TETrace[1].alloc
    /\ pred = _TETrace[1].pred
    /\ ok = _TETrace[1].ok
    /\ i = _TETrace[1].i
    /\ op = _TETrace[1].op
    /\ k = _TETrace[1].k
    /\ w = _TETrace[1].w
    /\ pc = _TETrace[1].pc
    /\ lock = _TETrace[1].lock
    /\ new = _TETrace[1].new
    /\ next = _TETrace[1].next
    /\ abs = _TETrace[1].abs
    /\ watch = _TETrace[1].watch
    /\ key = _TETrace[1].key
    /\ stack = _TETrace[1].stack
----

_next ==
    /\ \E i,j \in DOMAIN _TETrace:
        /\ \/ /\ j = i + 1
              /\ i = TLCGet("level")
        /\ nxt  = _TETrace[i].nxt
        /\ nxt' = _TETrace[j].nxt
        /\ seenIn  = _TETrace[i].seenIn
        /\ seenIn' = _TETrace[j].seenIn
        /\ seenOut  = _TETrace[i].seenOut
        /\ seenOut' = _TETrace[j].seenOut
        /\ cur  = _TETrace[i].cur
        /\ cur' = _TETrace[j].cur
        /\ alloc  = _TETrace[i].alloc
        /\ alloc' = _TETrace[j].alloc
        /\ pred  = _TETrace[i].pred
        /\ pred' = _TETrace[j].pred
        /\ ok  = _TETrace[i].ok
        /\ ok' = _TETrace[j].ok
        /\ i  = _TETrace[i].i
        /\ i' = _TETrace[j].i
        /\ op  = _TETrace[i].op
        /\ op' = _TETrace[j].op
        /\ k  = _TETrace[i].k
        /\ k' = _TETrace[j].k
        /\ w  = _TETrace[i].w
        /\ w' = _TETrace[j].w
        /\ pc  = _TETrace[i].pc
        /\ pc' = _TETrace[j].pc
        /\ lock  = _TETrace[i].lock
        /\ lock' = _TETrace[j].lock
        /\ new  = _TETrace[i].new
        /\ new' = _TETrace[j].new
        /\ next  = _TETrace[i].next
        /\ next' = _TETrace[j].next
        /\ abs  = _TETrace[i].abs
        /\ abs' = _TETrace[j].abs
        /\ watch  = _TETrace[i].watch
        /\ watch' = _TETrace[j].watch
        /\ key  = _TETrace[i].key
        /\ key' = _TETrace[j].key
        /\ stack  = _TETrace[i].stack
        /\ stack' = _TETrace[j].stack

\* Uncomment the ASSUME below to write the states of the error trace
\* to the given file in Json format. Note that you can pass any tuple
\* to `JsonSerialize`. For example, a sub-sequence of _TETrace.
    \* ASSUME
    \*     LET J == INSTANCE Json
    \*         IN J!JsonSerialize("LazyListMC_TTrace_1790086874.json", _TETrace)

=============================================================================

 Note that you can extract this module `LazyListMC_TEExpression`
  to a dedicated file to reuse `expression` (the module in the 
  dedicated `LazyListMC_TEExpression.tla` file takes precedence 
  over the module `LazyListMC_TEExpression` below).

---- MODULE LazyListMC_TEExpression ----
EXTENDS Sequences, LazyListMC, TLCExt, Toolbox, Naturals, TLC

expression == 
    [
        \* To hide variables of the `LazyListMC` spec from the error trace,
        \* remove the variables below.  The trace will be written in the order
        \* of the fields of this record.
        nxt |-> nxt
        ,seenIn |-> seenIn
        ,seenOut |-> seenOut
        ,cur |-> cur
        ,alloc |-> alloc
        ,pred |-> pred
        ,ok |-> ok
        ,i |-> i
        ,op |-> op
        ,k |-> k
        ,w |-> w
        ,pc |-> pc
        ,lock |-> lock
        ,new |-> new
        ,next |-> next
        ,abs |-> abs
        ,watch |-> watch
        ,key |-> key
        ,stack |-> stack
        
        \* Put additional constant-, state-, and action-level expressions here:
        \* ,_stateNumber |-> _TEPosition
        \* ,_nxtUnchanged |-> nxt = nxt'
        
        \* Format the `nxt` variable as Json value.
        \* ,_nxtJson |->
        \*     LET J == INSTANCE Json
        \*     IN J!ToJson(nxt)
        
        \* Lastly, you may build expressions over arbitrary sets of states by
        \* leveraging the _TETrace operator.  For example, this is how to
        \* count the number of times a spec variable changed up to the current
        \* state in the trace.
        \* ,_nxtModCount |->
        \*     LET F[s \in DOMAIN _TETrace] ==
        \*         IF s = 1 THEN 0
        \*         ELSE IF _TETrace[s].nxt # _TETrace[s-1].nxt
        \*             THEN 1 + F[s-1] ELSE F[s-1]
        \*     IN F[_TEPosition - 1]
    ]

=============================================================================



Parsing and semantic processing can take forever if the trace below is long.
 In this case, it is advised to uncomment the module below to deserialize the
 trace from a generated binary file.

\*
\*---- MODULE LazyListMC_TETrace ----
\*EXTENDS IOUtils, LazyListMC, TLC
\*
\*trace == IODeserialize("LazyListMC_TTrace_1790086874.bin", TRUE)
\*
\*=============================================================================
\*

---- MODULE LazyListMC_TETrace ----
EXTENDS LazyListMC, TLC

trace == 
    <<
    ([next |-> (0 :> [mark |-> FALSE, ptr |-> 5] @@ 1 :> [mark |-> FALSE, ptr |-> 5] @@ 2 :> [mark |-> FALSE, ptr |-> 5] @@ 3 :> [mark |-> FALSE, ptr |-> 5] @@ 4 :> [mark |-> FALSE, ptr |-> 5] @@ 5 :> [mark |-> FALSE, ptr |-> 5]),cur |-> <<0, 0>>,op |-> <<<<>>, <<>>>>,new |-> <<0, 0>>,stack |-> <<<<>>, <<>>>>,i |-> <<1, 1>>,nxt |-> <<0, 0>>,k |-> <<0, 0>>,pc |-> <<"L0", "L0">>,abs |-> {},pred |-> <<0, 0>>,watch |-> <<-1, -1>>,w |-> <<[mark |-> FALSE, ptr |-> 0], [mark |-> FALSE, ptr |-> 0]>>,lock |-> (0 :> 0 @@ 1 :> 0 @@ 2 :> 0 @@ 3 :> 0 @@ 4 :> 0 @@ 5 :> 0),seenOut |-> <<FALSE, FALSE>>,seenIn |-> <<FALSE, FALSE>>,alloc |-> 0,ok |-> TRUE,key |-> (0 :> 0 @@ 1 :> 0 @@ 2 :> 0 @@ 3 :> 0 @@ 4 :> 0 @@ 5 :> 1000)]),
    ([next |-> (0 :> [mark |-> FALSE, ptr |-> 5] @@ 1 :> [mark |-> FALSE, ptr |-> 5] @@ 2 :> [mark |-> FALSE, ptr |-> 5] @@ 3 :> [mark |-> FALSE, ptr |-> 5] @@ 4 :> [mark |-> FALSE, ptr |-> 5] @@ 5 :> [mark |-> FALSE, ptr |-> 5]),cur |-> <<0, 0>>,op |-> <<<<"ins", 2>>, <<>>>>,new |-> <<1, 0>>,stack |-> <<<<>>, <<>>>>,i |-> <<1, 1>>,nxt |-> <<0, 0>>,k |-> <<0, 0>>,pc |-> <<"I1", "L0">>,abs |-> {},pred |-> <<0, 0>>,watch |-> <<2, -1>>,w |-> <<[mark |-> FALSE, ptr |-> 0], [mark |-> FALSE, ptr |-> 0]>>,lock |-> (0 :> 0 @@ 1 :> 0 @@ 2 :> 0 @@ 3 :> 0 @@ 4 :> 0 @@ 5 :> 0),seenOut |-> <<TRUE, FALSE>>,seenIn |-> <<FALSE, FALSE>>,alloc |-> 1,ok |-> TRUE,key |-> (0 :> 0 @@ 1 :> 2 @@ 2 :> 0 @@ 3 :> 0 @@ 4 :> 0 @@ 5 :> 1000)]),
    ([next |-> (0 :> [mark |-> FALSE, ptr |-> 5] @@ 1 :> [mark |-> FALSE, ptr |-> 5] @@ 2 :> [mark |-> FALSE, ptr |-> 5] @@ 3 :> [mark |-> FALSE, ptr |-> 5] @@ 4 :> [mark |-> FALSE, ptr |-> 5] @@ 5 :> [mark |-> FALSE, ptr |-> 5]),cur |-> <<0, 0>>,op |-> <<<<"ins", 2>>, <<>>>>,new |-> <<1, 0>>,stack |-> <<<<[pc |-> "I2", k |-> 0, w |-> [mark |-> FALSE, ptr |-> 0], procedure |-> "search"]>>, <<>>>>,i |-> <<1, 1>>,nxt |-> <<0, 0>>,k |-> <<2, 0>>,pc |-> <<"S0", "L0">>,abs |-> {},pred |-> <<0, 0>>,watch |-> <<2, -1>>,w |-> <<[mark |-> FALSE, ptr |-> 0], [mark |-> FALSE, ptr |-> 0]>>,lock |-> (0 :> 0 @@ 1 :> 0 @@ 2 :> 0 @@ 3 :> 0 @@ 4 :> 0 @@ 5 :> 0),seenOut |-> <<TRUE, FALSE>>,seenIn |-> <<FALSE, FALSE>>,alloc |-> 1,ok |-> TRUE,key |-> (0 :> 0 @@ 1 :> 2 @@ 2 :> 0 @@ 3 :> 0 @@ 4 :> 0 @@ 5 :> 1000)]),
    ([next |-> (0 :> [mark |-> FALSE, ptr |-> 5] @@ 1 :> [mark |-> FALSE, ptr |-> 5] @@ 2 :> [mark |-> FALSE, ptr |-> 5] @@ 3 :> [mark |-> FALSE, ptr |-> 5] @@ 4 :> [mark |-> FALSE, ptr |-> 5] @@ 5 :> [mark |-> FALSE, ptr |-> 5]),cur |-> <<0, 0>>,op |-> <<<<"ins", 2>>, <<>>>>,new |-> <<1, 0>>,stack |-> <<<<[pc |-> "I2", k |-> 0, w |-> [mark |-> FALSE, ptr |-> 0], procedure |-> "search"]>>, <<>>>>,i |-> <<1, 1>>,nxt |-> <<0, 0>>,k |-> <<2, 0>>,pc |-> <<"S1", "L0">>,abs |-> {},pred |-> <<0, 0>>,watch |-> <<2, -1>>,w |-> <<[mark |-> FALSE, ptr |-> 0], [mark |-> FALSE, ptr |-> 0]>>,lock |-> (0 :> 0 @@ 1 :> 0 @@ 2 :> 0 @@ 3 :> 0 @@ 4 :> 0 @@ 5 :> 0),seenOut |-> <<TRUE, FALSE>>,seenIn |-> <<FALSE, FALSE>>,alloc |-> 1,ok |-> TRUE,key |-> (0 :> 0 @@ 1 :> 2 @@ 2 :> 0 @@ 3 :> 0 @@ 4 :> 0 @@ 5 :> 1000)]),
    ([next |-> (0 :> [mark |-> FALSE, ptr |-> 5] @@ 1 :> [mark |-> FALSE, ptr |-> 5] @@ 2 :> [mark |-> FALSE, ptr |-> 5] @@ 3 :> [mark |-> FALSE, ptr |-> 5] @@ 4 :> [mark |-> FALSE, ptr |-> 5] @@ 5 :> [mark |-> FALSE, ptr |-> 5]),cur |-> <<5, 0>>,op |-> <<<<"ins", 2>>, <<>>>>,new |-> <<1, 0>>,stack |-> <<<<[pc |-> "I2", k |-> 0, w |-> [mark |-> FALSE, ptr |-> 0], procedure |-> "search"]>>, <<>>>>,i |-> <<1, 1>>,nxt |-> <<0, 0>>,k |-> <<2, 0>>,pc |-> <<"S1", "L0">>,abs |-> {},pred |-> <<0, 0>>,watch |-> <<2, -1>>,w |-> <<[mark |-> FALSE, ptr |-> 5], [mark |-> FALSE, ptr |-> 0]>>,lock |-> (0 :> 0 @@ 1 :> 0 @@ 2 :> 0 @@ 3 :> 0 @@ 4 :> 0 @@ 5 :> 0),seenOut |-> <<TRUE, FALSE>>,seenIn |-> <<FALSE, FALSE>>,alloc |-> 1,ok |-> TRUE,key |-> (0 :> 0 @@ 1 :> 2 @@ 2 :> 0 @@ 3 :> 0 @@ 4 :> 0 @@ 5 :> 1000)]),
    ([next |-> (0 :> [mark |-> FALSE, ptr |-> 5] @@ 1 :> [mark |-> FALSE, ptr |-> 5] @@ 2 :> [mark |-> FALSE, ptr |-> 5] @@ 3 :> [mark |-> FALSE, ptr |-> 5] @@ 4 :> [mark |-> FALSE, ptr |-> 5] @@ 5 :> [mark |-> FALSE, ptr |-> 5]),cur |-> <<5, 0>>,op |-> <<<<"ins", 2>>, <<>>>>,new |-> <<1, 0>>,stack |-> <<<<>>, <<>>>>,i |-> <<1, 1>>,nxt |-> <<0, 0>>,k |-> <<0, 0>>,pc |-> <<"I2", "L0">>,abs |-> {},pred |-> <<0, 0>>,watch |-> <<2, -1>>,w |-> <<[mark |-> FALSE, ptr |-> 0], [mark |-> FALSE, ptr |-> 0]>>,lock |-> (0 :> 0 @@ 1 :> 0 @@ 2 :> 0 @@ 3 :> 0 @@ 4 :> 0 @@ 5 :> 0),seenOut |-> <<TRUE, FALSE>>,seenIn |-> <<FALSE, FALSE>>,alloc |-> 1,ok |-> TRUE,key |-> (0 :> 0 @@ 1 :> 2 @@ 2 :> 0 @@ 3 :> 0 @@ 4 :> 0 @@ 5 :> 1000)]),
    ([next |-> (0 :> [mark |-> FALSE, ptr |-> 5] @@ 1 :> [mark |-> FALSE, ptr |-> 5] @@ 2 :> [mark |-> FALSE, ptr |-> 5] @@ 3 :> [mark |-> FALSE, ptr |-> 5] @@ 4 :> [mark |-> FALSE, ptr |-> 5] @@ 5 :> [mark |-> FALSE, ptr |-> 5]),cur |-> <<5, 0>>,op |-> <<<<"ins", 2>>, <<>>>>,new |-> <<1, 0>>,stack |-> <<<<>>, <<>>>>,i |-> <<1, 1>>,nxt |-> <<0, 0>>,k |-> <<0, 0>>,pc |-> <<"I3", "L0">>,abs |-> {},pred |-> <<0, 0>>,watch |-> <<2, -1>>,w |-> <<[mark |-> FALSE, ptr |-> 0], [mark |-> FALSE, ptr |-> 0]>>,lock |-> (0 :> 1 @@ 1 :> 0 @@ 2 :> 0 @@ 3 :> 0 @@ 4 :> 0 @@ 5 :> 0),seenOut |-> <<TRUE, FALSE>>,seenIn |-> <<FALSE, FALSE>>,alloc |-> 1,ok |-> TRUE,key |-> (0 :> 0 @@ 1 :> 2 @@ 2 :> 0 @@ 3 :> 0 @@ 4 :> 0 @@ 5 :> 1000)]),
    ([next |-> (0 :> [mark |-> FALSE, ptr |-> 5] @@ 1 :> [mark |-> FALSE, ptr |-> 5] @@ 2 :> [mark |-> FALSE, ptr |-> 5] @@ 3 :> [mark |-> FALSE, ptr |-> 5] @@ 4 :> [mark |-> FALSE, ptr |-> 5] @@ 5 :> [mark |-> FALSE, ptr |-> 5]),cur |-> <<5, 0>>,op |-> <<<<"ins", 2>>, <<>>>>,new |-> <<1, 0>>,stack |-> <<<<>>, <<>>>>,i |-> <<1, 1>>,nxt |-> <<0, 0>>,k |-> <<0, 0>>,pc |-> <<"I4", "L0">>,abs |-> {},pred |-> <<0, 0>>,watch |-> <<2, -1>>,w |-> <<[mark |-> FALSE, ptr |-> 0], [mark |-> FALSE, ptr |-> 0]>>,lock |-> (0 :> 1 @@ 1 :> 0 @@ 2 :> 0 @@ 3 :> 0 @@ 4 :> 0 @@ 5 :> 1),seenOut |-> <<TRUE, FALSE>>,seenIn |-> <<FALSE, FALSE>>,alloc |-> 1,ok |-> TRUE,key |-> (0 :> 0 @@ 1 :> 2 @@ 2 :> 0 @@ 3 :> 0 @@ 4 :> 0 @@ 5 :> 1000)]),
    ([next |-> (0 :> [mark |-> FALSE, ptr |-> 5] @@ 1 :> [mark |-> FALSE, ptr |-> 5] @@ 2 :> [mark |-> FALSE, ptr |-> 5] @@ 3 :> [mark |-> FALSE, ptr |-> 5] @@ 4 :> [mark |-> FALSE, ptr |-> 5] @@ 5 :> [mark |-> FALSE, ptr |-> 5]),cur |-> <<5, 0>>,op |-> <<<<"ins", 2>>, <<>>>>,new |-> <<1, 0>>,stack |-> <<<<>>, <<>>>>,i |-> <<1, 1>>,nxt |-> <<0, 0>>,k |-> <<0, 0>>,pc |-> <<"I7", "L0">>,abs |-> {},pred |-> <<0, 0>>,watch |-> <<2, -1>>,w |-> <<[mark |-> FALSE, ptr |-> 0], [mark |-> FALSE, ptr |-> 0]>>,lock |-> (0 :> 1 @@ 1 :> 0 @@ 2 :> 0 @@ 3 :> 0 @@ 4 :> 0 @@ 5 :> 1),seenOut |-> <<TRUE, FALSE>>,seenIn |-> <<FALSE, FALSE>>,alloc |-> 1,ok |-> TRUE,key |-> (0 :> 0 @@ 1 :> 2 @@ 2 :> 0 @@ 3 :> 0 @@ 4 :> 0 @@ 5 :> 1000)]),
    ([next |-> (0 :> [mark |-> FALSE, ptr |-> 5] @@ 1 :> [mark |-> FALSE, ptr |-> 5] @@ 2 :> [mark |-> FALSE, ptr |-> 5] @@ 3 :> [mark |-> FALSE, ptr |-> 5] @@ 4 :> [mark |-> FALSE, ptr |-> 5] @@ 5 :> [mark |-> FALSE, ptr |-> 5]),cur |-> <<5, 0>>,op |-> <<<<"ins", 2>>, <<"ins", 1>>>>,new |-> <<1, 2>>,stack |-> <<<<>>, <<>>>>,i |-> <<1, 1>>,nxt |-> <<0, 0>>,k |-> <<0, 0>>,pc |-> <<"I7", "I1">>,abs |-> {},pred |-> <<0, 0>>,watch |-> <<2, 1>>,w |-> <<[mark |-> FALSE, ptr |-> 0], [mark |-> FALSE, ptr |-> 0]>>,lock |-> (0 :> 1 @@ 1 :> 0 @@ 2 :> 0 @@ 3 :> 0 @@ 4 :> 0 @@ 5 :> 1),seenOut |-> <<TRUE, TRUE>>,seenIn |-> <<FALSE, FALSE>>,alloc |-> 2,ok |-> TRUE,key |-> (0 :> 0 @@ 1 :> 2 @@ 2 :> 1 @@ 3 :> 0 @@ 4 :> 0 @@ 5 :> 1000)]),
    ([next |-> (0 :> [mark |-> FALSE, ptr |-> 5] @@ 1 :> [mark |-> FALSE, ptr |-> 5] @@ 2 :> [mark |-> FALSE, ptr |-> 5] @@ 3 :> [mark |-> FALSE, ptr |-> 5] @@ 4 :> [mark |-> FALSE, ptr |-> 5] @@ 5 :> [mark |-> FALSE, ptr |-> 5]),cur |-> <<5, 0>>,op |-> <<<<"ins", 2>>, <<"ins", 1>>>>,new |-> <<1, 2>>,stack |-> <<<<>>, <<[pc |-> "I2", k |-> 0, w |-> [mark |-> FALSE, ptr |-> 0], procedure |-> "search"]>>>>,i |-> <<1, 1>>,nxt |-> <<0, 0>>,k |-> <<0, 1>>,pc |-> <<"I7", "S0">>,abs |-> {},pred |-> <<0, 0>>,watch |-> <<2, 1>>,w |-> <<[mark |-> FALSE, ptr |-> 0], [mark |-> FALSE, ptr |-> 0]>>,lock |-> (0 :> 1 @@ 1 :> 0 @@ 2 :> 0 @@ 3 :> 0 @@ 4 :> 0 @@ 5 :> 1),seenOut |-> <<TRUE, TRUE>>,seenIn |-> <<FALSE, FALSE>>,alloc |-> 2,ok |-> TRUE,key |-> (0 :> 0 @@ 1 :> 2 @@ 2 :> 1 @@ 3 :> 0 @@ 4 :> 0 @@ 5 :> 1000)]),
    ([next |-> (0 :> [mark |-> FALSE, ptr |-> 5] @@ 1 :> [mark |-> FALSE, ptr |-> 5] @@ 2 :> [mark |-> FALSE, ptr |-> 5] @@ 3 :> [mark |-> FALSE, ptr |-> 5] @@ 4 :> [mark |-> FALSE, ptr |-> 5] @@ 5 :> [mark |-> FALSE, ptr |-> 5]),cur |-> <<5, 0>>,op |-> <<<<"ins", 2>>, <<"ins", 1>>>>,new |-> <<1, 2>>,stack |-> <<<<>>, <<[pc |-> "I2", k |-> 0, w |-> [mark |-> FALSE, ptr |-> 0], procedure |-> "search"]>>>>,i |-> <<1, 1>>,nxt |-> <<0, 0>>,k |-> <<0, 1>>,pc |-> <<"I7", "S1">>,abs |-> {},pred |-> <<0, 0>>,watch |-> <<2, 1>>,w |-> <<[mark |-> FALSE, ptr |-> 0], [mark |-> FALSE, ptr |-> 0]>>,lock |-> (0 :> 1 @@ 1 :> 0 @@ 2 :> 0 @@ 3 :> 0 @@ 4 :> 0 @@ 5 :> 1),seenOut |-> <<TRUE, TRUE>>,seenIn |-> <<FALSE, FALSE>>,alloc |-> 2,ok |-> TRUE,key |-> (0 :> 0 @@ 1 :> 2 @@ 2 :> 1 @@ 3 :> 0 @@ 4 :> 0 @@ 5 :> 1000)]),
    ([next |-> (0 :> [mark |-> FALSE, ptr |-> 5] @@ 1 :> [mark |-> FALSE, ptr |-> 5] @@ 2 :> [mark |-> FALSE, ptr |-> 5] @@ 3 :> [mark |-> FALSE, ptr |-> 5] @@ 4 :> [mark |-> FALSE, ptr |-> 5] @@ 5 :> [mark |-> FALSE, ptr |-> 5]),cur |-> <<5, 5>>,op |-> <<<<"ins", 2>>, <<"ins", 1>>>>,new |-> <<1, 2>>,stack |-> <<<<>>, <<[pc |-> "I2", k |-> 0, w |-> [mark |-> FALSE, ptr |-> 0], procedure |-> "search"]>>>>,i |-> <<1, 1>>,nxt |-> <<0, 0>>,k |-> <<0, 1>>,pc |-> <<"I7", "S1">>,abs |-> {},pred |-> <<0, 0>>,watch |-> <<2, 1>>,w |-> <<[mark |-> FALSE, ptr |-> 0], [mark |-> FALSE, ptr |-> 5]>>,lock |-> (0 :> 1 @@ 1 :> 0 @@ 2 :> 0 @@ 3 :> 0 @@ 4 :> 0 @@ 5 :> 1),seenOut |-> <<TRUE, TRUE>>,seenIn |-> <<FALSE, FALSE>>,alloc |-> 2,ok |-> TRUE,key |-> (0 :> 0 @@ 1 :> 2 @@ 2 :> 1 @@ 3 :> 0 @@ 4 :> 0 @@ 5 :> 1000)]),
    ([next |-> (0 :> [mark |-> FALSE, ptr |-> 5] @@ 1 :> [mark |-> FALSE, ptr |-> 5] @@ 2 :> [mark |-> FALSE, ptr |-> 5] @@ 3 :> [mark |-> FALSE, ptr |-> 5] @@ 4 :> [mark |-> FALSE, ptr |-> 5] @@ 5 :> [mark |-> FALSE, ptr |-> 5]),cur |-> <<5, 5>>,op |-> <<<<"ins", 2>>, <<"ins", 1>>>>,new |-> <<1, 2>>,stack |-> <<<<>>, <<>>>>,i |-> <<1, 1>>,nxt |-> <<0, 0>>,k |-> <<0, 0>>,pc |-> <<"I7", "I2">>,abs |-> {},pred |-> <<0, 0>>,watch |-> <<2, 1>>,w |-> <<[mark |-> FALSE, ptr |-> 0], [mark |-> FALSE, ptr |-> 0]>>,lock |-> (0 :> 1 @@ 1 :> 0 @@ 2 :> 0 @@ 3 :> 0 @@ 4 :> 0 @@ 5 :> 1),seenOut |-> <<TRUE, TRUE>>,seenIn |-> <<FALSE, FALSE>>,alloc |-> 2,ok |-> TRUE,key |-> (0 :> 0 @@ 1 :> 2 @@ 2 :> 1 @@ 3 :> 0 @@ 4 :> 0 @@ 5 :> 1000)]),
    ([next |-> (0 :> [mark |-> FALSE, ptr |-> 1] @@ 1 :> [mark |-> FALSE, ptr |-> 5] @@ 2 :> [mark |-> FALSE, ptr |-> 5] @@ 3 :> [mark |-> FALSE, ptr |-> 5] @@ 4 :> [mark |-> FALSE, ptr |-> 5] @@ 5 :> [mark |-> FALSE, ptr |-> 5]),cur |-> <<5, 5>>,op |-> <<<<"ins", 2>>, <<"ins", 1>>>>,new |-> <<1, 2>>,stack |-> <<<<>>, <<>>>>,i |-> <<1, 1>>,nxt |-> <<0, 0>>,k |-> <<0, 0>>,pc |-> <<"I8", "I2">>,abs |-> {2},pred |-> <<0, 0>>,watch |-> <<2, 1>>,w |-> <<[mark |-> FALSE, ptr |-> 0], [mark |-> FALSE, ptr |-> 0]>>,lock |-> (0 :> 1 @@ 1 :> 0 @@ 2 :> 0 @@ 3 :> 0 @@ 4 :> 0 @@ 5 :> 1),seenOut |-> <<TRUE, TRUE>>,seenIn |-> <<TRUE, FALSE>>,alloc |-> 2,ok |-> TRUE,key |-> (0 :> 0 @@ 1 :> 2 @@ 2 :> 1 @@ 3 :> 0 @@ 4 :> 0 @@ 5 :> 1000)]),
    ([next |-> (0 :> [mark |-> FALSE, ptr |-> 1] @@ 1 :> [mark |-> FALSE, ptr |-> 5] @@ 2 :> [mark |-> FALSE, ptr |-> 5] @@ 3 :> [mark |-> FALSE, ptr |-> 5] @@ 4 :> [mark |-> FALSE, ptr |-> 5] @@ 5 :> [mark |-> FALSE, ptr |-> 5]),cur |-> <<5, 5>>,op |-> <<<<"ins", 2>>, <<"ins", 1>>>>,new |-> <<1, 2>>,stack |-> <<<<>>, <<>>>>,i |-> <<1, 1>>,nxt |-> <<0, 0>>,k |-> <<0, 0>>,pc |-> <<"I9", "I2">>,abs |-> {2},pred |-> <<0, 0>>,watch |-> <<2, 1>>,w |-> <<[mark |-> FALSE, ptr |-> 0], [mark |-> FALSE, ptr |-> 0]>>,lock |-> (0 :> 1 @@ 1 :> 0 @@ 2 :> 0 @@ 3 :> 0 @@ 4 :> 0 @@ 5 :> 0),seenOut |-> <<TRUE, TRUE>>,seenIn |-> <<TRUE, FALSE>>,alloc |-> 2,ok |-> TRUE,key |-> (0 :> 0 @@ 1 :> 2 @@ 2 :> 1 @@ 3 :> 0 @@ 4 :> 0 @@ 5 :> 1000)]),
    ([next |-> (0 :> [mark |-> FALSE, ptr |-> 1] @@ 1 :> [mark |-> FALSE, ptr |-> 5] @@ 2 :> [mark |-> FALSE, ptr |-> 5] @@ 3 :> [mark |-> FALSE, ptr |-> 5] @@ 4 :> [mark |-> FALSE, ptr |-> 5] @@ 5 :> [mark |-> FALSE, ptr |-> 5]),cur |-> <<5, 5>>,op |-> <<<<"ins", 2>>, <<"ins", 1>>>>,new |-> <<1, 2>>,stack |-> <<<<>>, <<>>>>,i |-> <<1, 1>>,nxt |-> <<0, 0>>,k |-> <<0, 0>>,pc |-> <<"L1", "I2">>,abs |-> {2},pred |-> <<0, 0>>,watch |-> <<2, 1>>,w |-> <<[mark |-> FALSE, ptr |-> 0], [mark |-> FALSE, ptr |-> 0]>>,lock |-> (0 :> 0 @@ 1 :> 0 @@ 2 :> 0 @@ 3 :> 0 @@ 4 :> 0 @@ 5 :> 0),seenOut |-> <<TRUE, TRUE>>,seenIn |-> <<TRUE, FALSE>>,alloc |-> 2,ok |-> TRUE,key |-> (0 :> 0 @@ 1 :> 2 @@ 2 :> 1 @@ 3 :> 0 @@ 4 :> 0 @@ 5 :> 1000)]),
    ([next |-> (0 :> [mark |-> FALSE, ptr |-> 1] @@ 1 :> [mark |-> FALSE, ptr |-> 5] @@ 2 :> [mark |-> FALSE, ptr |-> 5] @@ 3 :> [mark |-> FALSE, ptr |-> 5] @@ 4 :> [mark |-> FALSE, ptr |-> 5] @@ 5 :> [mark |-> FALSE, ptr |-> 5]),cur |-> <<5, 5>>,op |-> <<<<"ins", 2>>, <<"ins", 1>>>>,new |-> <<1, 2>>,stack |-> <<<<>>, <<>>>>,i |-> <<1, 1>>,nxt |-> <<0, 0>>,k |-> <<0, 0>>,pc |-> <<"L1", "I3">>,abs |-> {2},pred |-> <<0, 0>>,watch |-> <<2, 1>>,w |-> <<[mark |-> FALSE, ptr |-> 0], [mark |-> FALSE, ptr |-> 0]>>,lock |-> (0 :> 2 @@ 1 :> 0 @@ 2 :> 0 @@ 3 :> 0 @@ 4 :> 0 @@ 5 :> 0),seenOut |-> <<TRUE, TRUE>>,seenIn |-> <<TRUE, FALSE>>,alloc |-> 2,ok |-> TRUE,key |-> (0 :> 0 @@ 1 :> 2 @@ 2 :> 1 @@ 3 :> 0 @@ 4 :> 0 @@ 5 :> 1000)]),
    ([next |-> (0 :> [mark |-> FALSE, ptr |-> 1] @@ 1 :> [mark |-> FALSE, ptr |-> 5] @@ 2 :> [mark |-> FALSE, ptr |-> 5] @@ 3 :> [mark |-> FALSE, ptr |-> 5] @@ 4 :> [mark |-> FALSE, ptr |-> 5] @@ 5 :> [mark |-> FALSE, ptr |-> 5]),cur |-> <<5, 5>>,op |-> <<<<"ins", 2>>, <<"ins", 1>>>>,new |-> <<1, 2>>,stack |-> <<<<>>, <<>>>>,i |-> <<1, 1>>,nxt |-> <<0, 0>>,k |-> <<0, 0>>,pc |-> <<"L1", "I4">>,abs |-> {2},pred |-> <<0, 0>>,watch |-> <<2, 1>>,w |-> <<[mark |-> FALSE, ptr |-> 0], [mark |-> FALSE, ptr |-> 0]>>,lock |-> (0 :> 2 @@ 1 :> 0 @@ 2 :> 0 @@ 3 :> 0 @@ 4 :> 0 @@ 5 :> 2),seenOut |-> <<TRUE, TRUE>>,seenIn |-> <<TRUE, FALSE>>,alloc |-> 2,ok |-> TRUE,key |-> (0 :> 0 @@ 1 :> 2 @@ 2 :> 1 @@ 3 :> 0 @@ 4 :> 0 @@ 5 :> 1000)]),
    ([next |-> (0 :> [mark |-> FALSE, ptr |-> 1] @@ 1 :> [mark |-> FALSE, ptr |-> 5] @@ 2 :> [mark |-> FALSE, ptr |-> 5] @@ 3 :> [mark |-> FALSE, ptr |-> 5] @@ 4 :> [mark |-> FALSE, ptr |-> 5] @@ 5 :> [mark |-> FALSE, ptr |-> 5]),cur |-> <<5, 5>>,op |-> <<<<"ins", 2>>, <<"ins", 1>>>>,new |-> <<1, 2>>,stack |-> <<<<>>, <<>>>>,i |-> <<1, 1>>,nxt |-> <<0, 0>>,k |-> <<0, 0>>,pc |-> <<"L1", "I7">>,abs |-> {2},pred |-> <<0, 0>>,watch |-> <<2, 1>>,w |-> <<[mark |-> FALSE, ptr |-> 0], [mark |-> FALSE, ptr |-> 0]>>,lock |-> (0 :> 2 @@ 1 :> 0 @@ 2 :> 0 @@ 3 :> 0 @@ 4 :> 0 @@ 5 :> 2),seenOut |-> <<TRUE, TRUE>>,seenIn |-> <<TRUE, FALSE>>,alloc |-> 2,ok |-> TRUE,key |-> (0 :> 0 @@ 1 :> 2 @@ 2 :> 1 @@ 3 :> 0 @@ 4 :> 0 @@ 5 :> 1000)]),
    ([next |-> (0 :> [mark |-> FALSE, ptr |-> 2] @@ 1 :> [mark |-> FALSE, ptr |-> 5] @@ 2 :> [mark |-> FALSE, ptr |-> 5] @@ 3 :> [mark |-> FALSE, ptr |-> 5] @@ 4 :> [mark |-> FALSE, ptr |-> 5] @@ 5 :> [mark |-> FALSE, ptr |-> 5]),cur |-> <<5, 5>>,op |-> <<<<"ins", 2>>, <<"ins", 1>>>>,new |-> <<1, 2>>,stack |-> <<<<>>, <<>>>>,i |-> <<1, 1>>,nxt |-> <<0, 0>>,k |-> <<0, 0>>,pc |-> <<"L1", "I8">>,abs |-> {1, 2},pred |-> <<0, 0>>,watch |-> <<2, 1>>,w |-> <<[mark |-> FALSE, ptr |-> 0], [mark |-> FALSE, ptr |-> 0]>>,lock |-> (0 :> 2 @@ 1 :> 0 @@ 2 :> 0 @@ 3 :> 0 @@ 4 :> 0 @@ 5 :> 2),seenOut |-> <<TRUE, TRUE>>,seenIn |-> <<TRUE, TRUE>>,alloc |-> 2,ok |-> TRUE,key |-> (0 :> 0 @@ 1 :> 2 @@ 2 :> 1 @@ 3 :> 0 @@ 4 :> 0 @@ 5 :> 1000)]),
    ([next |-> (0 :> [mark |-> FALSE, ptr |-> 2] @@ 1 :> [mark |-> FALSE, ptr |-> 5] @@ 2 :> [mark |-> FALSE, ptr |-> 5] @@ 3 :> [mark |-> FALSE, ptr |-> 5] @@ 4 :> [mark |-> FALSE, ptr |-> 5] @@ 5 :> [mark |-> FALSE, ptr |-> 5]),cur |-> <<5, 5>>,op |-> <<<<"ins", 2>>, <<"ins", 1>>>>,new |-> <<1, 2>>,stack |-> <<<<>>, <<>>>>,i |-> <<1, 1>>,nxt |-> <<0, 0>>,k |-> <<0, 0>>,pc |-> <<"L1", "I9">>,abs |-> {1, 2},pred |-> <<0, 0>>,watch |-> <<2, 1>>,w |-> <<[mark |-> FALSE, ptr |-> 0], [mark |-> FALSE, ptr |-> 0]>>,lock |-> (0 :> 2 @@ 1 :> 0 @@ 2 :> 0 @@ 3 :> 0 @@ 4 :> 0 @@ 5 :> 0),seenOut |-> <<TRUE, TRUE>>,seenIn |-> <<TRUE, TRUE>>,alloc |-> 2,ok |-> TRUE,key |-> (0 :> 0 @@ 1 :> 2 @@ 2 :> 1 @@ 3 :> 0 @@ 4 :> 0 @@ 5 :> 1000)])
    >>
----


=============================================================================

---- CONFIG LazyListMC_TTrace_1790086874 ----
CONSTANTS
    defaultInitValue = 0
    Procs = { 1 , 2 }
    Prog <- P2
    MaxNodes = 4
    NoValidate = TRUE

INVARIANT
    _inv

CHECK_DEADLOCK
    \* CHECK_DEADLOCK off because of PROPERTY or INVARIANT above.
    FALSE

INIT
    _init

NEXT
    _next

CONSTANT
    _TETrace <- _trace

ALIAS
    _expression
=============================================================================
\* Generated on Tue Sep 22 14:21:25 UTC 2026