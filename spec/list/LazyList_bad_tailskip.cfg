SPECIFICATION Spec
CONSTANTS
  defaultInitValue = 0
  Procs = {1, 2}
  Prog <- P2
  MaxNodes = 4
  TailSkip = TRUE
  NoValidate = FALSE
INVARIANT LinOK
INVARIANT StructureOK
CHECK_DEADLOCK FALSE
