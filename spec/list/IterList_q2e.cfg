SPECIFICATION Spec
CONSTANTS
  Procs = {1, 2}
  Prog <- IE
  MaxNodes = 7
  KeyOf <- Keys4
  FindPrevStrict = FALSE
  InitList <- InitE
  EarlyFindPrev = FALSE
  EraseAtObserved = FALSE
INVARIANTS LinOK ListMatches FinalSorted
CHECK_DEADLOCK FALSE
