SPECIFICATION Spec
CONSTANTS
  defaultInitValue = 0
  Procs = {1, 2, 3}
  Prog <- P3
  MaxNodes = 4
  TailSkip = FALSE
  NoValidate = FALSE
INVARIANT LinOK
INVARIANT StructureOK
CHECK_DEADLOCK FALSE
