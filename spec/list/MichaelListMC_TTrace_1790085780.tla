---- MODULE MichaelListMC_TTrace_1790085780 ----
EXTENDS Sequences, TLCExt, Toolbox, Naturals, TLC, MichaelListMC

_expression ==
    LET MichaelListMC_TEExpression == INSTANCE MichaelListMC_TEExpression
    IN MichaelListMC_TEExpression!expression
----

_trace ==
    LET MichaelListMC_TETrace == INSTANCE MichaelListMC_TETrace
    IN MichaelListMC_TETrace!trace
----

_inv ==
    ~(
        TLCGet("level") = Len(_TETrace)
        /\
        next = ((0 :> [ptr |-> 1, mark |-> FALSE] @@ 1 :> [ptr |-> 0, mark |-> FALSE] @@ 2 :> [ptr |-> 0, mark |-> FALSE] @@ 3 :> [ptr |-> 0, mark |-> FALSE] @@ 4 :> [ptr |-> 0, mark |-> FALSE]))
        /\
        cur = (<<0, 0>>)
        /\
        op = (<<<<"ins", 2>>, <<"ins", 1>>>>)
        /\
        new = (<<1, 2>>)
        /\
        res = (<<TRUE, FALSE>>)
        /\
        stack = (<<<<>>, <<>>>>)
        /\
        prev = (<<0, 0>>)
        /\
        i = (<<1, 1>>)
        /\
        nx = (<<[ptr |-> 0, mark |-> FALSE], [ptr |-> 0, mark |-> FALSE]>>)
        /\
        k = (<<0, 0>>)
        /\
        pc = (<<"L1", "I1">>)
        /\
        found = (<<FALSE, FALSE>>)
        /\
        abs = ({2})
        /\
        inAbs = (<<FALSE, FALSE>>)
        /\
        w = (<<[ptr |-> 0, mark |-> FALSE], [ptr |-> 0, mark |-> FALSE]>>)
        /\
        alloc = (2)
        /\
        ok = (TRUE)
        /\
        key = ((0 :> 0 @@ 1 :> 2 @@ 2 :> 1 @@ 3 :> 0 @@ 4 :> 0))
    )
----

_init ==
    /\ inAbs = _TETrace[1].inAbs
    /\ cur = _TETrace[1].cur
    /\ alloc = _TETrace[1].alloc
    /\ nx = _TETrace[1].nx
    /\ prev = _TETrace[1].prev
    /\ ok = _TETrace[1].ok
    /\ i = _TETrace[1].i
    /\ op = _TETrace[1].op
    /\ k = _TETrace[1].k
    /\ w = _TETrace[1].w
    /\ pc = _TETrace[1].pc
    /\ found = _TETrace[1].found
    /\ new = _TETrace[1].new
    /\ res = _TETrace[1].res
    /\ next = _TETrace[1].next
    /\ abs = _TETrace[1].abs
    /\ key = _TETrace[1].key
    /\ stack = _TETrace[1].stack
----

_next ==
    /\ \E i,j \in DOMAIN _TETrace:
        /\ \/ /\ j = i + 1
              /\ i = TLCGet("level")
        /\ inAbs  = _TETrace[i].inAbs
        /\ inAbs' = _TETrace[j].inAbs
        /\ cur  = _TETrace[i].cur
        /\ cur' = _TETrace[j].cur
        /\ alloc  = _TETrace[i].alloc
        /\ alloc' = _TETrace[j].alloc
        /\ nx  = _TETrace[i].nx
        /\ nx' = _TETrace[j].nx
        /\ prev  = _TETrace[i].prev
        /\ prev' = _TETrace[j].prev
        /\ ok  = _TETrace[i].ok
        /\ ok' = _TETrace[j].ok
        /\ i  = _TETrace[i].i
        /\ i' = _TETrace[j].i
        /\ op  = _TETrace[i].op
        /\ op' = _TETrace[j].op
        /\ k  = _TETrace[i].k
        /\ k' = _TETrace[j].k
        /\ w  = _TETrace[i].w
        /\ w' = _TETrace[j].w
        /\ pc  = _TETrace[i].pc
        /\ pc' = _TETrace[j].pc
        /\ found  = _TETrace[i].found
        /\ found' = _TETrace[j].found
        /\ new  = _TETrace[i].new
        /\ new' = _TETrace[j].new
        /\ res  = _TETrace[i].res
        /\ res' = _TETrace[j].res
        /\ next  = _TETrace[i].next
        /\ next' = _TETrace[j].next
        /\ abs  = _TETrace[i].abs
        /\ abs' = _TETrace[j].abs
        /\ key  = _TETrace[i].key
        /\ key' = _TETrace[j].key
        /\ stack  = _TETrace[i].stack
        /\ stack' = _TETrace[j].stack

\* Uncomment the ASSUME below to write the states of the error trace
\* to the given file in Json format. Note that you can pass any tuple
\* to `JsonSerialize`. For example, a sub-sequence of _TETrace.
    \* ASSUME
    \*     LET J == INSTANCE Json
    \*         IN J!JsonSerialize("MichaelListMC_TTrace_1790085780.json", _TETrace)

=============================================================================

 Note that you can extract this module `MichaelListMC_TEExpression`
  to a dedicated file to reuse `expression` (the module in the 
  dedicated `MichaelListMC_TEExpression.tla` file takes precedence 
  over the module `MichaelListMC_TEExpression` below).

---- MODULE MichaelListMC_TEExpression ----
EXTENDS Sequences, TLCExt, Toolbox, Naturals, TLC, MichaelListMC

expression == 
    [
        \* To hide variables of the `MichaelListMC` spec from the error trace,
        \* remove the variables below.  The trace will be written in the order
        \* of the fields of this record.
        inAbs |-> inAbs
        ,cur |-> cur
        ,alloc |-> alloc
        ,nx |-> nx
        ,prev |-> prev
        ,ok |-> ok
        ,i |-> i
        ,op |-> op
        ,k |-> k
        ,w |-> w
        ,pc |-> pc
        ,found |-> found
        ,new |-> new
        ,res |-> res
        ,next |-> next
        ,abs |-> abs
        ,key |-> key
        ,stack |-> stack
        
        \* Put additional constant-, state-, and action-level expressions here:
        \* ,_stateNumber |-> _TEPosition
        \* ,_inAbsUnchanged |-> inAbs = inAbs'
        
        \* Format the `inAbs` variable as Json value.
        \* ,_inAbsJson |->
        \*     LET J == INSTANCE Json
        \*     IN J!ToJson(inAbs)
        
        \* Lastly, you may build expressions over arbitrary sets of states by
        \* leveraging the _TETrace operator.  For example, this is how to
        \* count the number of times a spec variable changed up to the current
        \* state in the trace.
        \* ,_inAbsModCount |->
        \*     LET F[s \in DOMAIN _TETrace] ==
        \*         IF s = 1 THEN 0
        \*         ELSE IF _TETrace[s].inAbs # _TETrace[s-1].inAbs
        \*             THEN 1 + F[s-1] ELSE F[s-1]
        \*     IN F[_TEPosition - 1]
    ]

=============================================================================



Parsing and semantic processing can take forever if the trace below is long.
 In this case, it is advised to uncomment the module below to deserialize the
 trace from a generated binary file.

\*
\*---- MODULE MichaelListMC_TETrace ----
\*EXTENDS IOUtils, TLC, MichaelListMC
\*
\*trace == IODeserialize("MichaelListMC_TTrace_1790085780.bin", TRUE)
\*
\*=============================================================================
\*

---- MODULE MichaelListMC_TETrace ----
EXTENDS TLC, MichaelListMC

trace == 
    <<
    ([next |-> (0 :> [ptr |-> 0, mark |-> FALSE] @@ 1 :> [ptr |-> 0, mark |-> FALSE] @@ 2 :> [ptr |-> 0, mark |-> FALSE] @@ 3 :> [ptr |-> 0, mark |-> FALSE] @@ 4 :> [ptr |-> 0, mark |-> FALSE]),cur |-> <<0, 0>>,op |-> <<<<>>, <<>>>>,new |-> <<0, 0>>,res |-> <<FALSE, FALSE>>,stack |-> <<<<>>, <<>>>>,prev |-> <<0, 0>>,i |-> <<1, 1>>,nx |-> <<[ptr |-> 0, mark |-> FALSE], [ptr |-> 0, mark |-> FALSE]>>,k |-> <<0, 0>>,pc |-> <<"L0", "L0">>,found |-> <<FALSE, FALSE>>,abs |-> {},inAbs |-> <<FALSE, FALSE>>,w |-> <<[ptr |-> 0, mark |-> FALSE], [ptr |-> 0, mark |-> FALSE]>>,alloc |-> 0,ok |-> TRUE,key |-> (0 :> 0 @@ 1 :> 0 @@ 2 :> 0 @@ 3 :> 0 @@ 4 :> 0)]),
    ([next |-> (0 :> [ptr |-> 0, mark |-> FALSE] @@ 1 :> [ptr |-> 0, mark |-> FALSE] @@ 2 :> [ptr |-> 0, mark |-> FALSE] @@ 3 :> [ptr |-> 0, mark |-> FALSE] @@ 4 :> [ptr |-> 0, mark |-> FALSE]),cur |-> <<0, 0>>,op |-> <<<<"ins", 2>>, <<>>>>,new |-> <<1, 0>>,res |-> <<FALSE, FALSE>>,stack |-> <<<<>>, <<>>>>,prev |-> <<0, 0>>,i |-> <<1, 1>>,nx |-> <<[ptr |-> 0, mark |-> FALSE], [ptr |-> 0, mark |-> FALSE]>>,k |-> <<0, 0>>,pc |-> <<"I1", "L0">>,found |-> <<FALSE, FALSE>>,abs |-> {},inAbs |-> <<FALSE, FALSE>>,w |-> <<[ptr |-> 0, mark |-> FALSE], [ptr |-> 0, mark |-> FALSE]>>,alloc |-> 1,ok |-> TRUE,key |-> (0 :> 0 @@ 1 :> 2 @@ 2 :> 0 @@ 3 :> 0 @@ 4 :> 0)]),
    ([next |-> (0 :> [ptr |-> 0, mark |-> FALSE] @@ 1 :> [ptr |-> 0, mark |-> FALSE] @@ 2 :> [ptr |-> 0, mark |-> FALSE] @@ 3 :> [ptr |-> 0, mark |-> FALSE] @@ 4 :> [ptr |-> 0, mark |-> FALSE]),cur |-> <<0, 0>>,op |-> <<<<"ins", 2>>, <<>>>>,new |-> <<1, 0>>,res |-> <<FALSE, FALSE>>,stack |-> <<<<[pc |-> "I2", k |-> 0, nx |-> [ptr |-> 0, mark |-> FALSE], w |-> [ptr |-> 0, mark |-> FALSE], procedure |-> "search"]>>, <<>>>>,prev |-> <<0, 0>>,i |-> <<1, 1>>,nx |-> <<[ptr |-> 0, mark |-> FALSE], [ptr |-> 0, mark |-> FALSE]>>,k |-> <<2, 0>>,pc |-> <<"S0", "L0">>,found |-> <<FALSE, FALSE>>,abs |-> {},inAbs |-> <<FALSE, FALSE>>,w |-> <<[ptr |-> 0, mark |-> FALSE], [ptr |-> 0, mark |-> FALSE]>>,alloc |-> 1,ok |-> TRUE,key |-> (0 :> 0 @@ 1 :> 2 @@ 2 :> 0 @@ 3 :> 0 @@ 4 :> 0)]),
    ([next |-> (0 :> [ptr |-> 0, mark |-> FALSE] @@ 1 :> [ptr |-> 0, mark |-> FALSE] @@ 2 :> [ptr |-> 0, mark |-> FALSE] @@ 3 :> [ptr |-> 0, mark |-> FALSE] @@ 4 :> [ptr |-> 0, mark |-> FALSE]),cur |-> <<0, 0>>,op |-> <<<<"ins", 2>>, <<>>>>,new |-> <<1, 0>>,res |-> <<FALSE, FALSE>>,stack |-> <<<<[pc |-> "I2", k |-> 0, nx |-> [ptr |-> 0, mark |-> FALSE], w |-> [ptr |-> 0, mark |-> FALSE], procedure |-> "search"]>>, <<>>>>,prev |-> <<0, 0>>,i |-> <<1, 1>>,nx |-> <<[ptr |-> 0, mark |-> FALSE], [ptr |-> 0, mark |-> FALSE]>>,k |-> <<2, 0>>,pc |-> <<"S1", "L0">>,found |-> <<FALSE, FALSE>>,abs |-> {},inAbs |-> <<FALSE, FALSE>>,w |-> <<[ptr |-> 0, mark |-> FALSE], [ptr |-> 0, mark |-> FALSE]>>,alloc |-> 1,ok |-> TRUE,key |-> (0 :> 0 @@ 1 :> 2 @@ 2 :> 0 @@ 3 :> 0 @@ 4 :> 0)]),
    ([next |-> (0 :> [ptr |-> 0, mark |-> FALSE] @@ 1 :> [ptr |-> 0, mark |-> FALSE] @@ 2 :> [ptr |-> 0, mark |-> FALSE] @@ 3 :> [ptr |-> 0, mark |-> FALSE] @@ 4 :> [ptr |-> 0, mark |-> FALSE]),cur |-> <<0, 0>>,op |-> <<<<"ins", 2>>, <<>>>>,new |-> <<1, 0>>,res |-> <<FALSE, FALSE>>,stack |-> <<<<[pc |-> "I2", k |-> 0, nx |-> [ptr |-> 0, mark |-> FALSE], w |-> [ptr |-> 0, mark |-> FALSE], procedure |-> "search"]>>, <<>>>>,prev |-> <<0, 0>>,i |-> <<1, 1>>,nx |-> <<[ptr |-> 0, mark |-> FALSE], [ptr |-> 0, mark |-> FALSE]>>,k |-> <<2, 0>>,pc |-> <<"S2", "L0">>,found |-> <<FALSE, FALSE>>,abs |-> {},inAbs |-> <<FALSE, FALSE>>,w |-> <<[ptr |-> 0, mark |-> FALSE], [ptr |-> 0, mark |-> FALSE]>>,alloc |-> 1,ok |-> TRUE,key |-> (0 :> 0 @@ 1 :> 2 @@ 2 :> 0 @@ 3 :> 0 @@ 4 :> 0)]),
    ([next |-> (0 :> [ptr |-> 0, mark |-> FALSE] @@ 1 :> [ptr |-> 0, mark |-> FALSE] @@ 2 :> [ptr |-> 0, mark |-> FALSE] @@ 3 :> [ptr |-> 0, mark |-> FALSE] @@ 4 :> [ptr |-> 0, mark |-> FALSE]),cur |-> <<0, 0>>,op |-> <<<<"ins", 2>>, <<>>>>,new |-> <<1, 0>>,res |-> <<FALSE, FALSE>>,stack |-> <<<<[pc |-> "I2", k |-> 0, nx |-> [ptr |-> 0, mark |-> FALSE], w |-> [ptr |-> 0, mark |-> FALSE], procedure |-> "search"]>>, <<>>>>,prev |-> <<0, 0>>,i |-> <<1, 1>>,nx |-> <<[ptr |-> 0, mark |-> FALSE], [ptr |-> 0, mark |-> FALSE]>>,k |-> <<2, 0>>,pc |-> <<"S8", "L0">>,found |-> <<FALSE, FALSE>>,abs |-> {},inAbs |-> <<FALSE, FALSE>>,w |-> <<[ptr |-> 0, mark |-> FALSE], [ptr |-> 0, mark |-> FALSE]>>,alloc |-> 1,ok |-> TRUE,key |-> (0 :> 0 @@ 1 :> 2 @@ 2 :> 0 @@ 3 :> 0 @@ 4 :> 0)]),
    ([next |-> (0 :> [ptr |-> 0, mark |-> FALSE] @@ 1 :> [ptr |-> 0, mark |-> FALSE] @@ 2 :> [ptr |-> 0, mark |-> FALSE] @@ 3 :> [ptr |-> 0, mark |-> FALSE] @@ 4 :> [ptr |-> 0, mark |-> FALSE]),cur |-> <<0, 0>>,op |-> <<<<"ins", 2>>, <<"ins", 1>>>>,new |-> <<1, 2>>,res |-> <<FALSE, FALSE>>,stack |-> <<<<[pc |-> "I2", k |-> 0, nx |-> [ptr |-> 0, mark |-> FALSE], w |-> [ptr |-> 0, mark |-> FALSE], procedure |-> "search"]>>, <<>>>>,prev |-> <<0, 0>>,i |-> <<1, 1>>,nx |-> <<[ptr |-> 0, mark |-> FALSE], [ptr |-> 0, mark |-> FALSE]>>,k |-> <<2, 0>>,pc |-> <<"S8", "I1">>,found |-> <<FALSE, FALSE>>,abs |-> {},inAbs |-> <<FALSE, FALSE>>,w |-> <<[ptr |-> 0, mark |-> FALSE], [ptr |-> 0, mark |-> FALSE]>>,alloc |-> 2,ok |-> TRUE,key |-> (0 :> 0 @@ 1 :> 2 @@ 2 :> 1 @@ 3 :> 0 @@ 4 :> 0)]),
    ([next |-> (0 :> [ptr |-> 0, mark |-> FALSE] @@ 1 :> [ptr |-> 0, mark |-> FALSE] @@ 2 :> [ptr |-> 0, mark |-> FALSE] @@ 3 :> [ptr |-> 0, mark |-> FALSE] @@ 4 :> [ptr |-> 0, mark |-> FALSE]),cur |-> <<0, 0>>,op |-> <<<<"ins", 2>>, <<"ins", 1>>>>,new |-> <<1, 2>>,res |-> <<FALSE, FALSE>>,stack |-> <<<<[pc |-> "I2", k |-> 0, nx |-> [ptr |-> 0, mark |-> FALSE], w |-> [ptr |-> 0, mark |-> FALSE], procedure |-> "search"]>>, <<>>>>,prev |-> <<0, 0>>,i |-> <<1, 1>>,nx |-> <<[ptr |-> 0, mark |-> FALSE], [ptr |-> 0, mark |-> FALSE]>>,k |-> <<2, 0>>,pc |-> <<"S9", "I1">>,found |-> <<FALSE, FALSE>>,abs |-> {},inAbs |-> <<FALSE, FALSE>>,w |-> <<[ptr |-> 0, mark |-> FALSE], [ptr |-> 0, mark |-> FALSE]>>,alloc |-> 2,ok |-> TRUE,key |-> (0 :> 0 @@ 1 :> 2 @@ 2 :> 1 @@ 3 :> 0 @@ 4 :> 0)]),
    ([next |-> (0 :> [ptr |-> 0, mark |-> FALSE] @@ 1 :> [ptr |-> 0, mark |-> FALSE] @@ 2 :> [ptr |-> 0, mark |-> FALSE] @@ 3 :> [ptr |-> 0, mark |-> FALSE] @@ 4 :> [ptr |-> 0, mark |-> FALSE]),cur |-> <<0, 0>>,op |-> <<<<"ins", 2>>, <<"ins", 1>>>>,new |-> <<1, 2>>,res |-> <<FALSE, FALSE>>,stack |-> <<<<>>, <<>>>>,prev |-> <<0, 0>>,i |-> <<1, 1>>,nx |-> <<[ptr |-> 0, mark |-> FALSE], [ptr |-> 0, mark |-> FALSE]>>,k |-> <<0, 0>>,pc |-> <<"I2", "I1">>,found |-> <<FALSE, FALSE>>,abs |-> {},inAbs |-> <<FALSE, FALSE>>,w |-> <<[ptr |-> 0, mark |-> FALSE], [ptr |-> 0, mark |-> FALSE]>>,alloc |-> 2,ok |-> TRUE,key |-> (0 :> 0 @@ 1 :> 2 @@ 2 :> 1 @@ 3 :> 0 @@ 4 :> 0)]),
    ([next |-> (0 :> [ptr |-> 0, mark |-> FALSE] @@ 1 :> [ptr |-> 0, mark |-> FALSE] @@ 2 :> [ptr |-> 0, mark |-> FALSE] @@ 3 :> [ptr |-> 0, mark |-> FALSE] @@ 4 :> [ptr |-> 0, mark |-> FALSE]),cur |-> <<0, 0>>,op |-> <<<<"ins", 2>>, <<"ins", 1>>>>,new |-> <<1, 2>>,res |-> <<FALSE, FALSE>>,stack |-> <<<<>>, <<>>>>,prev |-> <<0, 0>>,i |-> <<1, 1>>,nx |-> <<[ptr |-> 0, mark |-> FALSE], [ptr |-> 0, mark |-> FALSE]>>,k |-> <<0, 0>>,pc |-> <<"I3", "I1">>,found |-> <<FALSE, FALSE>>,abs |-> {},inAbs |-> <<FALSE, FALSE>>,w |-> <<[ptr |-> 0, mark |-> FALSE], [ptr |-> 0, mark |-> FALSE]>>,alloc |-> 2,ok |-> TRUE,key |-> (0 :> 0 @@ 1 :> 2 @@ 2 :> 1 @@ 3 :> 0 @@ 4 :> 0)]),
    ([next |-> (0 :> [ptr |-> 1, mark |-> FALSE] @@ 1 :> [ptr |-> 0, mark |-> FALSE] @@ 2 :> [ptr |-> 0, mark |-> FALSE] @@ 3 :> [ptr |-> 0, mark |-> FALSE] @@ 4 :> [ptr |-> 0, mark |-> FALSE]),cur |-> <<0, 0>>,op |-> <<<<"ins", 2>>, <<"ins", 1>>>>,new |-> <<1, 2>>,res |-> <<TRUE, FALSE>>,stack |-> <<<<>>, <<>>>>,prev |-> <<0, 0>>,i |-> <<1, 1>>,nx |-> <<[ptr |-> 0, mark |-> FALSE], [ptr |-> 0, mark |-> FALSE]>>,k |-> <<0, 0>>,pc |-> <<"L1", "I1">>,found |-> <<FALSE, FALSE>>,abs |-> {2},inAbs |-> <<FALSE, FALSE>>,w |-> <<[ptr |-> 0, mark |-> FALSE], [ptr |-> 0, mark |-> FALSE]>>,alloc |-> 2,ok |-> TRUE,key |-> (0 :> 0 @@ 1 :> 2 @@ 2 :> 1 @@ 3 :> 0 @@ 4 :> 0)])
    >>
----


=============================================================================

---- CONFIG MichaelListMC_TTrace_1790085780 ----
CONSTANTS
    defaultInitValue = 0
    Procs = { 1 , 2 }
    Prog <- P2
    MaxNodes = 4
    NoPrevRecheck = FALSE

INVARIANT
    _inv

CHECK_DEADLOCK
    \* CHECK_DEADLOCK off because of PROPERTY or INVARIANT above.
    FALSE

INIT
    _init

NEXT
    _next

CONSTANT
    _TETrace <- _trace

ALIAS
    _expression
=============================================================================
\* Generated on Tue Sep 22 14:03:10 UTC 2026