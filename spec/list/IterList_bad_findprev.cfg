SPECIFICATION Spec
CONSTANTS
  Procs = {1, 2}
  Prog <- ID
  MaxNodes = 7
  KeyOf <- Keys4
  FindPrevStrict = TRUE
  InitList <- InitAB
  EarlyFindPrev = FALSE
  EraseAtObserved = FALSE
INVARIANTS LinOK ListMatches FinalSorted
CHECK_DEADLOCK FALSE
