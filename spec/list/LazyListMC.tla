---- MODULE LazyListMC ----
EXTENDS LazyList
I(x) == <<"ins", x>>
E(x) == <<"era", x>>
F(x) == <<"find", x>>
P2 == (1 :> <<I(2), E(1), F(2)>>) @@ (2 :> <<I(1), E(2), I(2)>>)
P3 == (1 :> <<I(1), E(2)>>) @@ (2 :> <<I(2), E(1)>>) @@ (3 :> <<F(1), I(1)>>)
====
