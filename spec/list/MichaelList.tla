------------------------------- MODULE MichaelList -------------------------------
(* Tier B: cds::intrusive::MichaelList (Harris/Michael ordered list): search() with helping, link_node(), unlink_node()     *)
(* (mark the victim's next pointer, then unlink), insert / erase / contains built on them; one label per atomic access.       *)
(* Memory: node 0 is the head sentinel; next[n] = [ptr, mark]; nodes are not recycled (the hazard-pointer protocol is          *)
(* C01's concern), retired nodes are recorded.  Ghost abstract set abs: insert takes effect at the successful link CAS,        *)
(* erase at the successful marking CAS, a failed insert / erase / contains at the load in search() that decided it.            *)
(* Invariants (C13, C18): every result agrees with abs at a point inside the call (checked at the linearization points),      *)
(* the unmarked nodes reachable from the head are strictly increasing and are exactly abs.                                     *)
EXTENDS Naturals, Integers, Sequences, FiniteSets, TLC
CONSTANTS Procs, Prog, MaxNodes,
          NoPrevRecheck      \* TRUE: search() omits the "pPrev still points to pCur" re-check (broken variant)
NULL == -1          \* node 0 is the head sentinel
Nodes == 1..MaxNodes
(* --algorithm MichaelList {
variables
  key = [n \in 0..MaxNodes |-> 0],
  next = [n \in 0..MaxNodes |-> [ptr |-> NULL, mark |-> FALSE]],
  alloc = 0,
  abs = {},
  ok = TRUE;

\* search( k ): on return  prev -> cur (unmarked at the time of the decisive load), key[cur] >= k or cur = NULL
procedure search(k)
  variables nx = [ptr |-> NULL, mark |-> FALSE], w = [ptr |-> NULL, mark |-> FALSE];
{
S0: prev := 0;
S1: w := next[prev]; cur := w.ptr; inAbs := (k \in abs);                   \* protect( *pPrev )
S2: while (cur # NULL) {
      nx := next[cur];                                                      \* protect( pCur->m_pNext )
      inAbs := (k \in abs);                                                 \* ghost: abstract membership at this load
S3:   if (~NoPrevRecheck /\ (next[prev].ptr # cur \/ next[prev].mark)) { goto S0; };   \* pPrev->load().all() != pCur
S4:   if (nx.mark) {
        if (next[prev] = [ptr |-> cur, mark |-> FALSE]) {                   \* help: CAS( pPrev, cur, next )
          next[prev] := [ptr |-> nx.ptr, mark |-> FALSE];
        } else { goto S0; };
S5:     cur := nx.ptr;
      } else {
        if (key[cur] >= k) { found := (key[cur] = k); goto S9; }
        else { prev := cur; cur := nx.ptr; };
      };
    };
S8: found := FALSE;
S9: return;
}

process (P \in Procs)
  variables i = 1, prev = 0, cur = NULL, found = FALSE, inAbs = FALSE, new = NULL, op = <<>>, res = FALSE;
{
L0: while (i <= Len(Prog[self])) {
      op := Prog[self][i];
      if (op[1] = "ins") {
        alloc := alloc + 1; new := alloc + 0; key[alloc + 0] := op[2];
I1:     call search(op[2]);
I2:     if (found) { ok := ok /\ inAbs; res := FALSE; }                    \* the key was present at the decisive load
        else {
          next[new] := [ptr |-> cur, mark |-> FALSE];                        \* pNode->m_pNext.store( cur )
I3:       if (next[prev] = [ptr |-> cur, mark |-> FALSE]) {                  \* CAS( pPrev, cur, pNode ): linearization point
            next[prev] := [ptr |-> new, mark |-> FALSE];
            ok := ok /\ op[2] \notin abs; abs := abs \cup {op[2]}; res := TRUE;
          } else { goto I1; };
        };
      } else if (op[1] = "era") {
E1:     call search(op[2]);
E2:     if (~found) { ok := ok /\ ~inAbs; res := FALSE; }
        else {
          if (next[cur].ptr = next[cur].ptr /\ ~next[cur].mark) {            \* CAS( pCur->m_pNext, next, next | 1 ): linearization point
            next[cur] := [ptr |-> next[cur].ptr, mark |-> TRUE];
            ok := ok /\ op[2] \in abs; abs := abs \ {op[2]}; res := TRUE;
          } else { goto E1; };
E3:       if (next[prev] = [ptr |-> cur, mark |-> FALSE]) {                  \* physical unlink (failure is left to helpers)
            next[prev] := [ptr |-> next[cur].ptr, mark |-> FALSE];
          };
        };
      } else {
F1:     call search(op[2]);
F2:     ok := ok /\ (found = inAbs); res := found;
      };
L1:   i := i + 1;
    };
}
} *)
\* BEGIN TRANSLATION
CONSTANT defaultInitValue
VARIABLES pc, key, next, alloc, abs, ok, stack, k, nx, w, i, prev, cur, found, 
          inAbs, new, op, res

vars == << pc, key, next, alloc, abs, ok, stack, k, nx, w, i, prev, cur, 
           found, inAbs, new, op, res >>

ProcSet == (Procs)

Init == (* Global variables *)
        /\ key = [n \in 0..MaxNodes |-> 0]
        /\ next = [n \in 0..MaxNodes |-> [ptr |-> NULL, mark |-> FALSE]]
        /\ alloc = 0
        /\ abs = {}
        /\ ok = TRUE
        (* Procedure search *)
        /\ k = [ self \in ProcSet |-> defaultInitValue]
        /\ nx = [ self \in ProcSet |-> [ptr |-> NULL, mark |-> FALSE]]
        /\ w = [ self \in ProcSet |-> [ptr |-> NULL, mark |-> FALSE]]
        (* Process P *)
        /\ i = [self \in Procs |-> 1]
        /\ prev = [self \in Procs |-> 0]
        /\ cur = [self \in Procs |-> NULL]
        /\ found = [self \in Procs |-> FALSE]
        /\ inAbs = [self \in Procs |-> FALSE]
        /\ new = [self \in Procs |-> NULL]
        /\ op = [self \in Procs |-> <<>>]
        /\ res = [self \in Procs |-> FALSE]
        /\ stack = [self \in ProcSet |-> << >>]
        /\ pc = [self \in ProcSet |-> "L0"]

S0(self) == /\ pc[self] = "S0"
            /\ prev' = [prev EXCEPT ![self] = 0]
            /\ pc' = [pc EXCEPT ![self] = "S1"]
            /\ UNCHANGED << key, next, alloc, abs, ok, stack, k, nx, w, i, cur, 
                            found, inAbs, new, op, res >>

S1(self) == /\ pc[self] = "S1"
            /\ w' = [w EXCEPT ![self] = next[prev[self]]]
            /\ cur' = [cur EXCEPT ![self] = w'[self].ptr]
            /\ inAbs' = [inAbs EXCEPT ![self] = (k[self] \in abs)]
            /\ pc' = [pc EXCEPT ![self] = "S2"]
            /\ UNCHANGED << key, next, alloc, abs, ok, stack, k, nx, i, prev, 
                            found, new, op, res >>

S2(self) == /\ pc[self] = "S2"
            /\ IF cur[self] # NULL
                  THEN /\ nx' = [nx EXCEPT ![self] = next[cur[self]]]
                       /\ inAbs' = [inAbs EXCEPT ![self] = (k[self] \in abs)]
                       /\ pc' = [pc EXCEPT ![self] = "S3"]
                  ELSE /\ pc' = [pc EXCEPT ![self] = "S8"]
                       /\ UNCHANGED << nx, inAbs >>
            /\ UNCHANGED << key, next, alloc, abs, ok, stack, k, w, i, prev, 
                            cur, found, new, op, res >>

S3(self) == /\ pc[self] = "S3"
            /\ IF ~NoPrevRecheck /\ (next[prev[self]].ptr # cur[self] \/ next[prev[self]].mark)
                  THEN /\ pc' = [pc EXCEPT ![self] = "S0"]
                  ELSE /\ pc' = [pc EXCEPT ![self] = "S4"]
            /\ UNCHANGED << key, next, alloc, abs, ok, stack, k, nx, w, i, 
                            prev, cur, found, inAbs, new, op, res >>

S4(self) == /\ pc[self] = "S4"
            /\ IF nx[self].mark
                  THEN /\ IF next[prev[self]] = [ptr |-> cur[self], mark |-> FALSE]
                             THEN /\ next' = [next EXCEPT ![prev[self]] = [ptr |-> nx[self].ptr, mark |-> FALSE]]
                                  /\ pc' = [pc EXCEPT ![self] = "S5"]
                             ELSE /\ pc' = [pc EXCEPT ![self] = "S0"]
                                  /\ next' = next
                       /\ UNCHANGED << prev, cur, found >>
                  ELSE /\ IF key[cur[self]] >= k[self]
                             THEN /\ found' = [found EXCEPT ![self] = (key[cur[self]] = k[self])]
                                  /\ pc' = [pc EXCEPT ![self] = "S9"]
                                  /\ UNCHANGED << prev, cur >>
                             ELSE /\ prev' = [prev EXCEPT ![self] = cur[self]]
                                  /\ cur' = [cur EXCEPT ![self] = nx[self].ptr]
                                  /\ pc' = [pc EXCEPT ![self] = "S2"]
                                  /\ found' = found
                       /\ next' = next
            /\ UNCHANGED << key, alloc, abs, ok, stack, k, nx, w, i, inAbs, 
                            new, op, res >>

S5(self) == /\ pc[self] = "S5"
            /\ cur' = [cur EXCEPT ![self] = nx[self].ptr]
            /\ pc' = [pc EXCEPT ![self] = "S2"]
            /\ UNCHANGED << key, next, alloc, abs, ok, stack, k, nx, w, i, 
                            prev, found, inAbs, new, op, res >>

S8(self) == /\ pc[self] = "S8"
            /\ found' = [found EXCEPT ![self] = FALSE]
            /\ pc' = [pc EXCEPT ![self] = "S9"]
            /\ UNCHANGED << key, next, alloc, abs, ok, stack, k, nx, w, i, 
                            prev, cur, inAbs, new, op, res >>

S9(self) == /\ pc[self] = "S9"
            /\ pc' = [pc EXCEPT ![self] = Head(stack[self]).pc]
            /\ nx' = [nx EXCEPT ![self] = Head(stack[self]).nx]
            /\ w' = [w EXCEPT ![self] = Head(stack[self]).w]
            /\ k' = [k EXCEPT ![self] = Head(stack[self]).k]
            /\ stack' = [stack EXCEPT ![self] = Tail(stack[self])]
            /\ UNCHANGED << key, next, alloc, abs, ok, i, prev, cur, found, 
                            inAbs, new, op, res >>

search(self) == S0(self) \/ S1(self) \/ S2(self) \/ S3(self) \/ S4(self)
                   \/ S5(self) \/ S8(self) \/ S9(self)

L0(self) == /\ pc[self] = "L0"
            /\ IF i[self] <= Len(Prog[self])
                  THEN /\ op' = [op EXCEPT ![self] = Prog[self][i[self]]]
                       /\ IF op'[self][1] = "ins"
                             THEN /\ alloc' = alloc + 1
                                  /\ new' = [new EXCEPT ![self] = alloc' + 0]
                                  /\ key' = [key EXCEPT ![alloc' + 0] = op'[self][2]]
                                  /\ pc' = [pc EXCEPT ![self] = "I1"]
                             ELSE /\ IF op'[self][1] = "era"
                                        THEN /\ pc' = [pc EXCEPT ![self] = "E1"]
                                        ELSE /\ pc' = [pc EXCEPT ![self] = "F1"]
                                  /\ UNCHANGED << key, alloc, new >>
                  ELSE /\ pc' = [pc EXCEPT ![self] = "Done"]
                       /\ UNCHANGED << key, alloc, new, op >>
            /\ UNCHANGED << next, abs, ok, stack, k, nx, w, i, prev, cur, 
                            found, inAbs, res >>

L1(self) == /\ pc[self] = "L1"
            /\ i' = [i EXCEPT ![self] = i[self] + 1]
            /\ pc' = [pc EXCEPT ![self] = "L0"]
            /\ UNCHANGED << key, next, alloc, abs, ok, stack, k, nx, w, prev, 
                            cur, found, inAbs, new, op, res >>

I1(self) == /\ pc[self] = "I1"
            /\ /\ k' = [k EXCEPT ![self] = op[self][2]]
               /\ stack' = [stack EXCEPT ![self] = << [ procedure |->  "search",
                                                        pc        |->  "I2",
                                                        nx        |->  nx[self],
                                                        w         |->  w[self],
                                                        k         |->  k[self] ] >>
                                                    \o stack[self]]
            /\ nx' = [nx EXCEPT ![self] = [ptr |-> NULL, mark |-> FALSE]]
            /\ w' = [w EXCEPT ![self] = [ptr |-> NULL, mark |-> FALSE]]
            /\ pc' = [pc EXCEPT ![self] = "S0"]
            /\ UNCHANGED << key, next, alloc, abs, ok, i, prev, cur, found, 
                            inAbs, new, op, res >>

I2(self) == /\ pc[self] = "I2"
            /\ IF found[self]
                  THEN /\ ok' = (ok /\ inAbs[self])
                       /\ res' = [res EXCEPT ![self] = FALSE]
                       /\ pc' = [pc EXCEPT ![self] = "L1"]
                       /\ next' = next
                  ELSE /\ next' = [next EXCEPT ![new[self]] = [ptr |-> cur[self], mark |-> FALSE]]
                       /\ pc' = [pc EXCEPT ![self] = "I3"]
                       /\ UNCHANGED << ok, res >>
            /\ UNCHANGED << key, alloc, abs, stack, k, nx, w, i, prev, cur, 
                            found, inAbs, new, op >>

I3(self) == /\ pc[self] = "I3"
            /\ IF next[prev[self]] = [ptr |-> cur[self], mark |-> FALSE]
                  THEN /\ next' = [next EXCEPT ![prev[self]] = [ptr |-> new[self], mark |-> FALSE]]
                       /\ ok' = (ok /\ op[self][2] \notin abs)
                       /\ abs' = (abs \cup {op[self][2]})
                       /\ res' = [res EXCEPT ![self] = TRUE]
                       /\ pc' = [pc EXCEPT ![self] = "L1"]
                  ELSE /\ pc' = [pc EXCEPT ![self] = "I1"]
                       /\ UNCHANGED << next, abs, ok, res >>
            /\ UNCHANGED << key, alloc, stack, k, nx, w, i, prev, cur, found, 
                            inAbs, new, op >>

E1(self) == /\ pc[self] = "E1"
            /\ /\ k' = [k EXCEPT ![self] = op[self][2]]
               /\ stack' = [stack EXCEPT ![self] = << [ procedure |->  "search",
                                                        pc        |->  "E2",
                                                        nx        |->  nx[self],
                                                        w         |->  w[self],
                                                        k         |->  k[self] ] >>
                                                    \o stack[self]]
            /\ nx' = [nx EXCEPT ![self] = [ptr |-> NULL, mark |-> FALSE]]
            /\ w' = [w EXCEPT ![self] = [ptr |-> NULL, mark |-> FALSE]]
            /\ pc' = [pc EXCEPT ![self] = "S0"]
            /\ UNCHANGED << key, next, alloc, abs, ok, i, prev, cur, found, 
                            inAbs, new, op, res >>

E2(self) == /\ pc[self] = "E2"
            /\ IF ~found[self]
                  THEN /\ ok' = (ok /\ ~inAbs[self])
                       /\ res' = [res EXCEPT ![self] = FALSE]
                       /\ pc' = [pc EXCEPT ![self] = "L1"]
                       /\ UNCHANGED << next, abs >>
                  ELSE /\ IF next[cur[self]].ptr = next[cur[self]].ptr /\ ~next[cur[self]].mark
                             THEN /\ next' = [next EXCEPT ![cur[self]] = [ptr |-> next[cur[self]].ptr, mark |-> TRUE]]
                                  /\ ok' = (ok /\ op[self][2] \in abs)
                                  /\ abs' = abs \ {op[self][2]}
                                  /\ res' = [res EXCEPT ![self] = TRUE]
                                  /\ pc' = [pc EXCEPT ![self] = "E3"]
                             ELSE /\ pc' = [pc EXCEPT ![self] = "E1"]
                                  /\ UNCHANGED << next, abs, ok, res >>
            /\ UNCHANGED << key, alloc, stack, k, nx, w, i, prev, cur, found, 
                            inAbs, new, op >>

E3(self) == /\ pc[self] = "E3"
            /\ IF next[prev[self]] = [ptr |-> cur[self], mark |-> FALSE]
                  THEN /\ next' = [next EXCEPT ![prev[self]] = [ptr |-> next[cur[self]].ptr, mark |-> FALSE]]
                  ELSE /\ TRUE
                       /\ next' = next
            /\ pc' = [pc EXCEPT ![self] = "L1"]
            /\ UNCHANGED << key, alloc, abs, ok, stack, k, nx, w, i, prev, cur, 
                            found, inAbs, new, op, res >>

F1(self) == /\ pc[self] = "F1"
            /\ /\ k' = [k EXCEPT ![self] = op[self][2]]
               /\ stack' = [stack EXCEPT ![self] = << [ procedure |->  "search",
                                                        pc        |->  "F2",
                                                        nx        |->  nx[self],
                                                        w         |->  w[self],
                                                        k         |->  k[self] ] >>
                                                    \o stack[self]]
            /\ nx' = [nx EXCEPT ![self] = [ptr |-> NULL, mark |-> FALSE]]
            /\ w' = [w EXCEPT ![self] = [ptr |-> NULL, mark |-> FALSE]]
            /\ pc' = [pc EXCEPT ![self] = "S0"]
            /\ UNCHANGED << key, next, alloc, abs, ok, i, prev, cur, found, 
                            inAbs, new, op, res >>

F2(self) == /\ pc[self] = "F2"
            /\ ok' = (ok /\ (found[self] = inAbs[self]))
            /\ res' = [res EXCEPT ![self] = found[self]]
            /\ pc' = [pc EXCEPT ![self] = "L1"]
            /\ UNCHANGED << key, next, alloc, abs, stack, k, nx, w, i, prev, 
                            cur, found, inAbs, new, op >>

P(self) == L0(self) \/ L1(self) \/ I1(self) \/ I2(self) \/ I3(self)
              \/ E1(self) \/ E2(self) \/ E3(self) \/ F1(self) \/ F2(self)

(* Allow infinite stuttering to prevent deadlock on termination. *)
Terminating == /\ \A self \in ProcSet: pc[self] = "Done"
               /\ UNCHANGED vars

Next == (\E self \in ProcSet: search(self))
           \/ (\E self \in Procs: P(self))
           \/ Terminating

Spec == Init /\ [][Next]_vars

Termination == <>(\A self \in ProcSet: pc[self] = "Done")

\* END TRANSLATION
LinOK == ok
RECURSIVE Live(_, _)
Live(n, fuel) == IF n = NULL \/ fuel = 0 THEN <<>>
                 ELSE (IF n # 0 /\ ~next[n].mark THEN <<key[n]>> ELSE <<>>) \o Live(next[n].ptr, fuel - 1)
Sorted(sq) == \A a, b \in 1..Len(sq) : a < b => sq[a] < sq[b]
StructureOK == LET L == Live(0, MaxNodes + 2) IN Sorted(L) /\ { L[j] : j \in 1..Len(L) } = abs
=============================================================================
