---- MODULE Treiber ----
EXTENDS Naturals, Sequences, TLC, FiniteSets
CONSTANTS Threads, Nodes, Prog      \* Prog[t] = sequence of [op |-> "push", n |-> node] / [op |-> "pop"]
NULL == "null"
Top == "top"
NextLoc(n) == n \o ".next"
HPLoc(t) == "hp" \o ToString(t)
Loc == {Top} \cup {NextLoc(n) : n \in Nodes} \cup {HPLoc(t) : t \in Threads}

(* --algorithm Treiber {
variables mem = [l \in Loc |-> NULL],
          acc = [t |-> 0, k |-> "none", loc |-> "", a |-> NULL, b |-> NULL, ok |-> TRUE],
          absStack = <<>>,        \* ghost abstract stack, updated at linearization points
          results = [th \in Threads |-> <<>>];

macro Load(x, l) { x := mem[l]; acc := [t |-> self, k |-> "load", loc |-> l, a |-> mem[l], b |-> NULL, ok |-> TRUE]; }
macro Store(l, v) { mem[l] := v; acc := [t |-> self, k |-> "store", loc |-> l, a |-> v, b |-> NULL, ok |-> TRUE]; }

process (T \in Threads)
variables i = 1, t = NULL, nx = NULL, cur = NULL, ret = NULL, n = NULL;
{
L0: while (i <= Len(Prog[self])) {
      if (Prog[self][i].op = "push") {
        n := Prog[self][i].n;
P1:     Load(t, Top);
P2:     Store(NextLoc(n), t);
P3:     if (mem[Top] = t) {
          acc := [t |-> self, k |-> "cas", loc |-> Top, a |-> t, b |-> n, ok |-> TRUE];
          mem[Top] := n; absStack := <<n>> \o absStack;
          results[self] := Append(results[self], "ok");
        } else {
          acc := [t |-> self, k |-> "cas", loc |-> Top, a |-> mem[Top], b |-> n, ok |-> FALSE];
          t := mem[Top];
          goto P2;
        };
      } else {
G1:     Load(cur, Top);
G2:     ret := cur; Store(HPLoc(self), cur);
G3:     Load(cur, Top);
        if (ret # cur) { goto G2; } else { t := cur;
          if (cur = NULL) { assert absStack = <<>>; results[self] := Append(results[self], NULL); goto G9; } };
O1:     Load(nx, NextLoc(t));
O2:     if (mem[Top] = t) {
          acc := [t |-> self, k |-> "cas", loc |-> Top, a |-> t, b |-> nx, ok |-> TRUE];
          mem[Top] := nx;
          assert absStack # <<>> /\ Head(absStack) = t;
          absStack := Tail(absStack);
          results[self] := Append(results[self], t);
        } else {
          acc := [t |-> self, k |-> "cas", loc |-> Top, a |-> mem[Top], b |-> nx, ok |-> FALSE];
          goto G1;
        };
O3:     Store(NextLoc(t), NULL);
G9:     Store(HPLoc(self), NULL);
      };
L1:   i := i + 1;
    };
D1: Store(HPLoc(self), NULL);
}
} *)
\* BEGIN TRANSLATION (chksum(pcal) = "fda153bd" /\ chksum(tla) = "b0e88ce9")
VARIABLES pc, mem, acc, absStack, results, i, t, nx, cur, ret, n

vars == << pc, mem, acc, absStack, results, i, t, nx, cur, ret, n >>

ProcSet == (Threads)

Init == (* Global variables *)
        /\ mem = [l \in Loc |-> NULL]
        /\ acc = [t |-> 0, k |-> "none", loc |-> "", a |-> NULL, b |-> NULL, ok |-> TRUE]
        /\ absStack = <<>>
        /\ results = [th \in Threads |-> <<>>]
        (* Process T *)
        /\ i = [self \in Threads |-> 1]
        /\ t = [self \in Threads |-> NULL]
        /\ nx = [self \in Threads |-> NULL]
        /\ cur = [self \in Threads |-> NULL]
        /\ ret = [self \in Threads |-> NULL]
        /\ n = [self \in Threads |-> NULL]
        /\ pc = [self \in ProcSet |-> "L0"]

L0(self) == /\ pc[self] = "L0"
            /\ IF i[self] <= Len(Prog[self])
                  THEN /\ IF Prog[self][i[self]].op = "push"
                             THEN /\ n' = [n EXCEPT ![self] = Prog[self][i[self]].n]
                                  /\ pc' = [pc EXCEPT ![self] = "P1"]
                             ELSE /\ pc' = [pc EXCEPT ![self] = "G1"]
                                  /\ n' = n
                  ELSE /\ pc' = [pc EXCEPT ![self] = "D1"]
                       /\ n' = n
            /\ UNCHANGED << mem, acc, absStack, results, i, t, nx, cur, ret >>

L1(self) == /\ pc[self] = "L1"
            /\ i' = [i EXCEPT ![self] = i[self] + 1]
            /\ pc' = [pc EXCEPT ![self] = "L0"]
            /\ UNCHANGED << mem, acc, absStack, results, t, nx, cur, ret, n >>

P1(self) == /\ pc[self] = "P1"
            /\ t' = [t EXCEPT ![self] = mem[Top]]
            /\ acc' = [t |-> self, k |-> "load", loc |-> Top, a |-> mem[Top], b |-> NULL, ok |-> TRUE]
            /\ pc' = [pc EXCEPT ![self] = "P2"]
            /\ UNCHANGED << mem, absStack, results, i, nx, cur, ret, n >>

P2(self) == /\ pc[self] = "P2"
            /\ mem' = [mem EXCEPT ![(NextLoc(n[self]))] = t[self]]
            /\ acc' = [t |-> self, k |-> "store", loc |-> (NextLoc(n[self])), a |-> t[self], b |-> NULL, ok |-> TRUE]
            /\ pc' = [pc EXCEPT ![self] = "P3"]
            /\ UNCHANGED << absStack, results, i, t, nx, cur, ret, n >>

P3(self) == /\ pc[self] = "P3"
            /\ IF mem[Top] = t[self]
                  THEN /\ acc' = [t |-> self, k |-> "cas", loc |-> Top, a |-> t[self], b |-> n[self], ok |-> TRUE]
                       /\ mem' = [mem EXCEPT ![Top] = n[self]]
                       /\ absStack' = <<n[self]>> \o absStack
                       /\ results' = [results EXCEPT ![self] = Append(results[self], "ok")]
                       /\ pc' = [pc EXCEPT ![self] = "L1"]
                       /\ t' = t
                  ELSE /\ acc' = [t |-> self, k |-> "cas", loc |-> Top, a |-> mem[Top], b |-> n[self], ok |-> FALSE]
                       /\ t' = [t EXCEPT ![self] = mem[Top]]
                       /\ pc' = [pc EXCEPT ![self] = "P2"]
                       /\ UNCHANGED << mem, absStack, results >>
            /\ UNCHANGED << i, nx, cur, ret, n >>

G1(self) == /\ pc[self] = "G1"
            /\ cur' = [cur EXCEPT ![self] = mem[Top]]
            /\ acc' = [t |-> self, k |-> "load", loc |-> Top, a |-> mem[Top], b |-> NULL, ok |-> TRUE]
            /\ pc' = [pc EXCEPT ![self] = "G2"]
            /\ UNCHANGED << mem, absStack, results, i, t, nx, ret, n >>

G2(self) == /\ pc[self] = "G2"
            /\ ret' = [ret EXCEPT ![self] = cur[self]]
            /\ mem' = [mem EXCEPT ![(HPLoc(self))] = cur[self]]
            /\ acc' = [t |-> self, k |-> "store", loc |-> (HPLoc(self)), a |-> cur[self], b |-> NULL, ok |-> TRUE]
            /\ pc' = [pc EXCEPT ![self] = "G3"]
            /\ UNCHANGED << absStack, results, i, t, nx, cur, n >>

G3(self) == /\ pc[self] = "G3"
            /\ cur' = [cur EXCEPT ![self] = mem[Top]]
            /\ acc' = [t |-> self, k |-> "load", loc |-> Top, a |-> mem[Top], b |-> NULL, ok |-> TRUE]
            /\ IF ret[self] # cur'[self]
                  THEN /\ pc' = [pc EXCEPT ![self] = "G2"]
                       /\ UNCHANGED << results, t >>
                  ELSE /\ t' = [t EXCEPT ![self] = cur'[self]]
                       /\ IF cur'[self] = NULL
                             THEN /\ Assert(absStack = <<>>, 
                                            "Failure of assertion at line 41, column 29.")
                                  /\ results' = [results EXCEPT ![self] = Append(results[self], NULL)]
                                  /\ pc' = [pc EXCEPT ![self] = "G9"]
                             ELSE /\ pc' = [pc EXCEPT ![self] = "O1"]
                                  /\ UNCHANGED results
            /\ UNCHANGED << mem, absStack, i, nx, ret, n >>

O1(self) == /\ pc[self] = "O1"
            /\ nx' = [nx EXCEPT ![self] = mem[(NextLoc(t[self]))]]
            /\ acc' = [t |-> self, k |-> "load", loc |-> (NextLoc(t[self])), a |-> mem[(NextLoc(t[self]))], b |-> NULL, ok |-> TRUE]
            /\ pc' = [pc EXCEPT ![self] = "O2"]
            /\ UNCHANGED << mem, absStack, results, i, t, cur, ret, n >>

O2(self) == /\ pc[self] = "O2"
            /\ IF mem[Top] = t[self]
                  THEN /\ acc' = [t |-> self, k |-> "cas", loc |-> Top, a |-> t[self], b |-> nx[self], ok |-> TRUE]
                       /\ mem' = [mem EXCEPT ![Top] = nx[self]]
                       /\ Assert(absStack # <<>> /\ Head(absStack) = t[self], 
                                 "Failure of assertion at line 46, column 11.")
                       /\ absStack' = Tail(absStack)
                       /\ results' = [results EXCEPT ![self] = Append(results[self], t[self])]
                       /\ pc' = [pc EXCEPT ![self] = "O3"]
                  ELSE /\ acc' = [t |-> self, k |-> "cas", loc |-> Top, a |-> mem[Top], b |-> nx[self], ok |-> FALSE]
                       /\ pc' = [pc EXCEPT ![self] = "G1"]
                       /\ UNCHANGED << mem, absStack, results >>
            /\ UNCHANGED << i, t, nx, cur, ret, n >>

O3(self) == /\ pc[self] = "O3"
            /\ mem' = [mem EXCEPT ![(NextLoc(t[self]))] = NULL]
            /\ acc' = [t |-> self, k |-> "store", loc |-> (NextLoc(t[self])), a |-> NULL, b |-> NULL, ok |-> TRUE]
            /\ pc' = [pc EXCEPT ![self] = "G9"]
            /\ UNCHANGED << absStack, results, i, t, nx, cur, ret, n >>

G9(self) == /\ pc[self] = "G9"
            /\ mem' = [mem EXCEPT ![(HPLoc(self))] = NULL]
            /\ acc' = [t |-> self, k |-> "store", loc |-> (HPLoc(self)), a |-> NULL, b |-> NULL, ok |-> TRUE]
            /\ pc' = [pc EXCEPT ![self] = "L1"]
            /\ UNCHANGED << absStack, results, i, t, nx, cur, ret, n >>

D1(self) == /\ pc[self] = "D1"
            /\ mem' = [mem EXCEPT ![(HPLoc(self))] = NULL]
            /\ acc' = [t |-> self, k |-> "store", loc |-> (HPLoc(self)), a |-> NULL, b |-> NULL, ok |-> TRUE]
            /\ pc' = [pc EXCEPT ![self] = "Done"]
            /\ UNCHANGED << absStack, results, i, t, nx, cur, ret, n >>

T(self) == L0(self) \/ L1(self) \/ P1(self) \/ P2(self) \/ P3(self)
              \/ G1(self) \/ G2(self) \/ G3(self) \/ O1(self) \/ O2(self)
              \/ O3(self) \/ G9(self) \/ D1(self)

(* Allow infinite stuttering to prevent deadlock on termination. *)
Terminating == /\ \A self \in ProcSet: pc[self] = "Done"
               /\ UNCHANGED vars

Next == (\E self \in Threads: T(self))
           \/ Terminating

Spec == Init /\ [][Next]_vars

Termination == <>(\A self \in ProcSet: pc[self] = "Done")

\* END TRANSLATION 
====
