SPECIFICATION Spec
CONSTANTS
  Threads = {0, 1}
  Nodes = {"n1", "n2"}
  Prog <- MCProg
VIEW View
CHECK_DEADLOCK FALSE
