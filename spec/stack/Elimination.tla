---- MODULE Elimination ----
\* Tier B: the elimination back-off of cds::intrusive::TreiberStack (treiber_stack.h, details::elimination_backoff::backoff)
\* on top of an abstract stack: an operation either takes effect on the stack in one step or "loses the CAS" and goes to the
\* collision slot (one slot, spin lock, published operation record with status word).
\*   StatusBeforeLock -- seeded change C09: the waiting side reads its status before it has locked the slot and withdrawn its record
\*   NoKindCheck      -- the active side collides with a record of the same kind (push with push)
EXTENDS Naturals, Sequences, FiniteSets, TLC
CONSTANTS Procs, Prog, StatusBeforeLock, NoKindCheck
NIL == 0
(* --algorithm Elimination {
variables
  stk = <<>>,                                         \* the abstract Treiber stack
  slotRec = NIL, slotLock = NIL,                        \* collision slot: published record (its owner), spin lock
  status = [p \in Procs |-> "idle"], kind = [p \in Procs |-> "none"], opv = [p \in Procs |-> 0],
  pushed = {}, popped = <<>>, empties = 0;

process (P \in Procs)
  variables i = 1, him = NIL, collided = FALSE, done = FALSE;
{
L0: while (i <= Len(Prog[self])) {
      kind[self] := IF Prog[self][i] > 0 THEN "push" ELSE "pop"; opv[self] := Prog[self][i]; done := FALSE;
      if (Prog[self][i] > 0) { pushed := pushed \cup {Prog[self][i]}; };
S1:   while (~done) {
        either {                                        \* the CAS on the top succeeds
          if (kind[self] = "push") { stk := <<opv[self]>> \o stk; }
          else if (stk = <<>>) { opv[self] := 0; empties := empties + 1; }
          else { opv[self] := Head(stk); stk := Tail(stk); };
          done := TRUE;
        } or {                                          \* contention: back off into the elimination array
          status[self] := "waiting";
B2:       await slotLock = NIL; slotLock := self;
B3:       him := slotRec;
          if (him # NIL /\ (NoKindCheck \/ kind[him] # kind[self])) {
            if (kind[self] = "push") { opv[him] := opv[self]; } else { opv[self] := opv[him]; };
            slotRec := NIL;
B3a:        status[him] := "collided";                   \* himOp->nStatus.store( op_collided )
            slotLock := NIL;
            done := TRUE;                                \* active collision: this operation is complete
          } else {
            slotRec := self; slotLock := NIL;
B4:         either { await status[self] # "waiting"; } or { skip; };      \* bounded spinning on the own status word
            if (StatusBeforeLock) {
B5x:          collided := (status[self] = "collided");
B5y:          await slotLock = NIL; slotLock := self;
B5z:          if (slotRec = self) { slotRec := NIL; }; slotLock := NIL;
            } else {
B5:           await slotLock = NIL; slotLock := self;
B6:           if (slotRec = self) { slotRec := NIL; }; slotLock := NIL;
B7:           collided := (status[self] = "collided");
            };
B8:         done := collided; status[self] := "idle";
          };
        };
      };
R1:   if (kind[self] = "pop" /\ opv[self] # 0) { popped := Append(popped, opv[self]); };
      i := i + 1;
    };
}
} *)
\* BEGIN TRANSLATION
VARIABLES pc, stk, slotRec, slotLock, status, kind, opv, pushed, popped, 
          empties, i, him, collided, done

vars == << pc, stk, slotRec, slotLock, status, kind, opv, pushed, popped, 
           empties, i, him, collided, done >>

ProcSet == (Procs)

Init == (* Global variables *)
        /\ stk = <<>>
        /\ slotRec = NIL
        /\ slotLock = NIL
        /\ status = [p \in Procs |-> "idle"]
        /\ kind = [p \in Procs |-> "none"]
        /\ opv = [p \in Procs |-> 0]
        /\ pushed = {}
        /\ popped = <<>>
        /\ empties = 0
        (* Process P *)
        /\ i = [self \in Procs |-> 1]
        /\ him = [self \in Procs |-> NIL]
        /\ collided = [self \in Procs |-> FALSE]
        /\ done = [self \in Procs |-> FALSE]
        /\ pc = [self \in ProcSet |-> "L0"]

L0(self) == /\ pc[self] = "L0"
            /\ IF i[self] <= Len(Prog[self])
                  THEN /\ kind' = [kind EXCEPT ![self] = IF Prog[self][i[self]] > 0 THEN "push" ELSE "pop"]
                       /\ opv' = [opv EXCEPT ![self] = Prog[self][i[self]]]
                       /\ done' = [done EXCEPT ![self] = FALSE]
                       /\ IF Prog[self][i[self]] > 0
                             THEN /\ pushed' = (pushed \cup {Prog[self][i[self]]})
                             ELSE /\ TRUE
                                  /\ UNCHANGED pushed
                       /\ pc' = [pc EXCEPT ![self] = "S1"]
                  ELSE /\ pc' = [pc EXCEPT ![self] = "Done"]
                       /\ UNCHANGED << kind, opv, pushed, done >>
            /\ UNCHANGED << stk, slotRec, slotLock, status, popped, empties, i, 
                            him, collided >>

S1(self) == /\ pc[self] = "S1"
            /\ IF ~done[self]
                  THEN /\ \/ /\ IF kind[self] = "push"
                                   THEN /\ stk' = <<opv[self]>> \o stk
                                        /\ UNCHANGED << opv, empties >>
                                   ELSE /\ IF stk = <<>>
                                              THEN /\ opv' = [opv EXCEPT ![self] = 0]
                                                   /\ empties' = empties + 1
                                                   /\ stk' = stk
                                              ELSE /\ opv' = [opv EXCEPT ![self] = Head(stk)]
                                                   /\ stk' = Tail(stk)
                                                   /\ UNCHANGED empties
                             /\ done' = [done EXCEPT ![self] = TRUE]
                             /\ pc' = [pc EXCEPT ![self] = "S1"]
                             /\ UNCHANGED status
                          \/ /\ status' = [status EXCEPT ![self] = "waiting"]
                             /\ pc' = [pc EXCEPT ![self] = "B2"]
                             /\ UNCHANGED <<stk, opv, empties, done>>
                  ELSE /\ pc' = [pc EXCEPT ![self] = "R1"]
                       /\ UNCHANGED << stk, status, opv, empties, done >>
            /\ UNCHANGED << slotRec, slotLock, kind, pushed, popped, i, him, 
                            collided >>

B2(self) == /\ pc[self] = "B2"
            /\ slotLock = NIL
            /\ slotLock' = self
            /\ pc' = [pc EXCEPT ![self] = "B3"]
            /\ UNCHANGED << stk, slotRec, status, kind, opv, pushed, popped, 
                            empties, i, him, collided, done >>

B3(self) == /\ pc[self] = "B3"
            /\ him' = [him EXCEPT ![self] = slotRec]
            /\ IF him'[self] # NIL /\ (NoKindCheck \/ kind[him'[self]] # kind[self])
                  THEN /\ IF kind[self] = "push"
                             THEN /\ opv' = [opv EXCEPT ![him'[self]] = opv[self]]
                             ELSE /\ opv' = [opv EXCEPT ![self] = opv[him'[self]]]
                       /\ slotRec' = NIL
                       /\ pc' = [pc EXCEPT ![self] = "B3a"]
                       /\ UNCHANGED slotLock
                  ELSE /\ slotRec' = self
                       /\ slotLock' = NIL
                       /\ pc' = [pc EXCEPT ![self] = "B4"]
                       /\ opv' = opv
            /\ UNCHANGED << stk, status, kind, pushed, popped, empties, i, 
                            collided, done >>

B3a(self) == /\ pc[self] = "B3a"
             /\ status' = [status EXCEPT ![him[self]] = "collided"]
             /\ slotLock' = NIL
             /\ done' = [done EXCEPT ![self] = TRUE]
             /\ pc' = [pc EXCEPT ![self] = "S1"]
             /\ UNCHANGED << stk, slotRec, kind, opv, pushed, popped, empties, 
                             i, him, collided >>

B4(self) == /\ pc[self] = "B4"
            /\ \/ /\ status[self] # "waiting"
               \/ /\ TRUE
            /\ IF StatusBeforeLock
                  THEN /\ pc' = [pc EXCEPT ![self] = "B5x"]
                  ELSE /\ pc' = [pc EXCEPT ![self] = "B5"]
            /\ UNCHANGED << stk, slotRec, slotLock, status, kind, opv, pushed, 
                            popped, empties, i, him, collided, done >>

B5x(self) == /\ pc[self] = "B5x"
             /\ collided' = [collided EXCEPT ![self] = (status[self] = "collided")]
             /\ pc' = [pc EXCEPT ![self] = "B5y"]
             /\ UNCHANGED << stk, slotRec, slotLock, status, kind, opv, pushed, 
                             popped, empties, i, him, done >>

B5y(self) == /\ pc[self] = "B5y"
             /\ slotLock = NIL
             /\ slotLock' = self
             /\ pc' = [pc EXCEPT ![self] = "B5z"]
             /\ UNCHANGED << stk, slotRec, status, kind, opv, pushed, popped, 
                             empties, i, him, collided, done >>

B5z(self) == /\ pc[self] = "B5z"
             /\ IF slotRec = self
                   THEN /\ slotRec' = NIL
                   ELSE /\ TRUE
                        /\ UNCHANGED slotRec
             /\ slotLock' = NIL
             /\ pc' = [pc EXCEPT ![self] = "B8"]
             /\ UNCHANGED << stk, status, kind, opv, pushed, popped, empties, 
                             i, him, collided, done >>

B5(self) == /\ pc[self] = "B5"
            /\ slotLock = NIL
            /\ slotLock' = self
            /\ pc' = [pc EXCEPT ![self] = "B6"]
            /\ UNCHANGED << stk, slotRec, status, kind, opv, pushed, popped, 
                            empties, i, him, collided, done >>

B6(self) == /\ pc[self] = "B6"
            /\ IF slotRec = self
                  THEN /\ slotRec' = NIL
                  ELSE /\ TRUE
                       /\ UNCHANGED slotRec
            /\ slotLock' = NIL
            /\ pc' = [pc EXCEPT ![self] = "B7"]
            /\ UNCHANGED << stk, status, kind, opv, pushed, popped, empties, i, 
                            him, collided, done >>

B7(self) == /\ pc[self] = "B7"
            /\ collided' = [collided EXCEPT ![self] = (status[self] = "collided")]
            /\ pc' = [pc EXCEPT ![self] = "B8"]
            /\ UNCHANGED << stk, slotRec, slotLock, status, kind, opv, pushed, 
                            popped, empties, i, him, done >>

B8(self) == /\ pc[self] = "B8"
            /\ done' = [done EXCEPT ![self] = collided[self]]
            /\ status' = [status EXCEPT ![self] = "idle"]
            /\ pc' = [pc EXCEPT ![self] = "S1"]
            /\ UNCHANGED << stk, slotRec, slotLock, kind, opv, pushed, popped, 
                            empties, i, him, collided >>

R1(self) == /\ pc[self] = "R1"
            /\ IF kind[self] = "pop" /\ opv[self] # 0
                  THEN /\ popped' = Append(popped, opv[self])
                  ELSE /\ TRUE
                       /\ UNCHANGED popped
            /\ i' = [i EXCEPT ![self] = i[self] + 1]
            /\ pc' = [pc EXCEPT ![self] = "L0"]
            /\ UNCHANGED << stk, slotRec, slotLock, status, kind, opv, pushed, 
                            empties, him, collided, done >>

P(self) == L0(self) \/ S1(self) \/ B2(self) \/ B3(self) \/ B3a(self)
              \/ B4(self) \/ B5x(self) \/ B5y(self) \/ B5z(self)
              \/ B5(self) \/ B6(self) \/ B7(self) \/ B8(self) \/ R1(self)

(* Allow infinite stuttering to prevent deadlock on termination. *)
Terminating == /\ \A self \in ProcSet: pc[self] = "Done"
               /\ UNCHANGED vars

Next == (\E self \in Procs: P(self))
           \/ Terminating

Spec == Init /\ [][Next]_vars

Termination == <>(\A self \in ProcSet: pc[self] = "Done")

\* END TRANSLATION
AllDone == \A p \in Procs : pc[p] = "Done"
SeqSet(s) == { s[j] : j \in 1..Len(s) }
NoDup == \A a, b \in 1..Len(popped) : a # b => popped[a] # popped[b]
OnlyPushed == SeqSet(popped) \subseteq pushed
\* at the end every pushed value has been popped exactly once or is still on the stack exactly once
Conservation == AllDone => /\ SeqSet(popped) \cup SeqSet(stk) = pushed
                           /\ SeqSet(popped) \cap SeqSet(stk) = {}
                           /\ Len(stk) = Cardinality(SeqSet(stk))
                           /\ slotRec = NIL /\ slotLock = NIL
====
