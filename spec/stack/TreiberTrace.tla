---- MODULE TreiberTrace ----
EXTENDS Treiber, Json, IOUtils
Raw == ndJsonDeserialize(IOEnv.TRACE)
Starts == { j \in 1..Len(Raw) : Raw[j].e = "reset" }
VARIABLES h, l
tvars == <<vars, h, l>>
EndOf(s) == s + Raw[s].n
TInit == Init /\ h \in Starts /\ l = h + 1
Ev == Raw[l]
Expected == [t |-> Ev.t, k |-> Ev.k, loc |-> Ev.loc, a |-> Ev.a, b |-> Ev.b, ok |-> Ev.ok]
Silent(self) == L0(self) \/ L1(self)
EventStep == /\ l <= EndOf(h)
             /\ \E self \in {Ev.t} : (P1(self) \/ P2(self) \/ P3(self) \/ G1(self) \/ G2(self) \/ G3(self) \/ O1(self) \/ O2(self) \/ O3(self) \/ G9(self) \/ D1(self))
             /\ acc' = Expected
             /\ l' = l + 1 /\ UNCHANGED h
SilentStep == /\ \E self \in Threads : Silent(self)
              /\ UNCHANGED <<h, l>>
Done == /\ l = EndOf(h) + 1 /\ \A self \in Threads : pc[self] \in {"Done", "L0", "L1"} /\ PrintT(<<"ACC", h>>) /\ UNCHANGED tvars
TNext == EventStep \/ SilentStep \/ Done
TSpec == TInit /\ [][TNext]_tvars
TView == <<mem, absStack, results, pc, i, t, nx, cur, ret, n, h, l>>
====
