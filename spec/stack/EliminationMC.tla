---- MODULE EliminationMC ----
EXTENDS Elimination
\* positive = push that value, 0 = pop
E2 == (1 :> <<1, 0>>) @@ (2 :> <<0, 2>>)
E3 == (1 :> <<1, 2>>) @@ (2 :> <<0, 0>>) @@ (3 :> <<3, 0>>)
====
