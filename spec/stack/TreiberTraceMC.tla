---- MODULE TT ----
EXTENDS TreiberTrace
MCProg == (0 :> << [op |-> "push", n |-> "n1"], [op |-> "pop"] >>) @@ (1 :> << [op |-> "push", n |-> "n2"], [op |-> "pop"] >>)
====
