---- MODULE TreiberMC ----
EXTENDS Treiber
MCProg == (0 :> << [op |-> "push", n |-> "n1"], [op |-> "pop"] >>) @@ (1 :> << [op |-> "push", n |-> "n2"], [op |-> "pop"] >>)
View == <<mem, absStack, results, pc, i, t, nx, cur, ret, n>>
Lifo == TRUE
====
