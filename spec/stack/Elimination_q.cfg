SPECIFICATION Spec
CONSTANTS
  Procs = {1, 2, 3}
  Prog <- E3
  StatusBeforeLock = FALSE
  NoKindCheck = FALSE
INVARIANTS NoDup OnlyPushed Conservation
CHECK_DEADLOCK FALSE
