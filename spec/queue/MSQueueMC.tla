---- MODULE MSQueueMC ----
EXTENDS MSQueue
\* positive number = enqueue that value, 0 = dequeue
P2 == (1 :> <<1, 2, 0>>) @@ (2 :> <<0, 3, 0>>)
P3 == (1 :> <<1, 0>>) @@ (2 :> <<0, 2>>) @@ (3 :> <<3, 0>>)
====
