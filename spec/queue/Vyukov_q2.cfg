SPECIFICATION Spec
CONSTANTS
  Cap = 2
  Procs = {1, 2}
  Prog <- P2
  MaskedFull = FALSE
  StaleCell = FALSE
  Textbook = FALSE
INVARIANT LinOK
CHECK_DEADLOCK FALSE
