SPECIFICATION Spec
CONSTANTS
  C = 8
  Recs <- RecsMix
  StaleFront = FALSE
  PublishTail = FALSE
INVARIANTS InOrder Bounded NoFailOnEmpty
PROPERTY AllDelivered
CHECK_DEADLOCK FALSE
