SPECIFICATION Spec
CONSTANTS
  Procs = {1, 2}
  Prog <- P2
  MaxNodes = 5
  PrevBeforeCAS = FALSE
  NoFix = FALSE
INVARIANT LinOK
INVARIANT ListIsQueue
CHECK_DEADLOCK FALSE
