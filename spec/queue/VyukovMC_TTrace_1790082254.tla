---- MODULE VyukovMC_TTrace_1790082254 ----
EXTENDS VyukovMC, Sequences, TLCExt, Toolbox, Naturals, TLC

_expression ==
    LET VyukovMC_TEExpression == INSTANCE VyukovMC_TEExpression
    IN VyukovMC_TEExpression!expression
----

_trace ==
    LET VyukovMC_TETrace == INSTANCE VyukovMC_TETrace
    IN VyukovMC_TETrace!trace
----

_inv ==
    ~(
        TLCGet("level") = Len(_TETrace)
        /\
        res = (<<0, 0, 0>>)
        /\
        data = ((0 :> 0 @@ 1 :> 0))
        /\
        posEnq = (1)
        /\
        pc_i = (<<1, 1, 1>>)
        /\
        posDeq = (0)
        /\
        myval = (<<1, 0, 0>>)
        /\
        absq = (<<1>>)
        /\
        s = (<<0, 0, 0>>)
        /\
        pc = (<<"E4", "L1", "L0">>)
        /\
        pos = (<<0, 0, 0>>)
        /\
        nextVal = (2)
        /\
        ok = (FALSE)
        /\
        seq = ((0 :> 0 @@ 1 :> 1))
    )
----

_init ==
    /\ seq = _TETrace[1].seq
    /\ nextVal = _TETrace[1].nextVal
    /\ pc_i = _TETrace[1].pc_i
    /\ ok = _TETrace[1].ok
    /\ s = _TETrace[1].s
    /\ pos = _TETrace[1].pos
    /\ pc = _TETrace[1].pc
    /\ data = _TETrace[1].data
    /\ absq = _TETrace[1].absq
    /\ res = _TETrace[1].res
    /\ posDeq = _TETrace[1].posDeq
    /\ myval = _TETrace[1].myval
    /\ posEnq = _TETrace[1].posEnq
----

_next ==
    /\ \E i,j \in DOMAIN _TETrace:
        /\ \/ /\ j = i + 1
              /\ i = TLCGet("level")
        /\ seq  = _TETrace[i].seq
        /\ seq' = _TETrace[j].seq
        /\ nextVal  = _TETrace[i].nextVal
        /\ nextVal' = _TETrace[j].nextVal
        /\ pc_i  = _TETrace[i].pc_i
        /\ pc_i' = _TETrace[j].pc_i
        /\ ok  = _TETrace[i].ok
        /\ ok' = _TETrace[j].ok
        /\ s  = _TETrace[i].s
        /\ s' = _TETrace[j].s
        /\ pos  = _TETrace[i].pos
        /\ pos' = _TETrace[j].pos
        /\ pc  = _TETrace[i].pc
        /\ pc' = _TETrace[j].pc
        /\ data  = _TETrace[i].data
        /\ data' = _TETrace[j].data
        /\ absq  = _TETrace[i].absq
        /\ absq' = _TETrace[j].absq
        /\ res  = _TETrace[i].res
        /\ res' = _TETrace[j].res
        /\ posDeq  = _TETrace[i].posDeq
        /\ posDeq' = _TETrace[j].posDeq
        /\ myval  = _TETrace[i].myval
        /\ myval' = _TETrace[j].myval
        /\ posEnq  = _TETrace[i].posEnq
        /\ posEnq' = _TETrace[j].posEnq

\* Uncomment the ASSUME below to write the states of the error trace
\* to the given file in Json format. Note that you can pass any tuple
\* to `JsonSerialize`. For example, a sub-sequence of _TETrace.
    \* ASSUME
    \*     LET J == INSTANCE Json
    \*         IN J!JsonSerialize("VyukovMC_TTrace_1790082254.json", _TETrace)

=============================================================================

 Note that you can extract this module `VyukovMC_TEExpression`
  to a dedicated file to reuse `expression` (the module in the 
  dedicated `VyukovMC_TEExpression.tla` file takes precedence 
  over the module `VyukovMC_TEExpression` below).

---- MODULE VyukovMC_TEExpression ----
EXTENDS VyukovMC, Sequences, TLCExt, Toolbox, Naturals, TLC

expression == 
    [
        \* To hide variables of the `VyukovMC` spec from the error trace,
        \* remove the variables below.  The trace will be written in the order
        \* of the fields of this record.
        seq |-> seq
        ,nextVal |-> nextVal
        ,pc_i |-> pc_i
        ,ok |-> ok
        ,s |-> s
        ,pos |-> pos
        ,pc |-> pc
        ,data |-> data
        ,absq |-> absq
        ,res |-> res
        ,posDeq |-> posDeq
        ,myval |-> myval
        ,posEnq |-> posEnq
        
        \* Put additional constant-, state-, and action-level expressions here:
        \* ,_stateNumber |-> _TEPosition
        \* ,_seqUnchanged |-> seq = seq'
        
        \* Format the `seq` variable as Json value.
        \* ,_seqJson |->
        \*     LET J == INSTANCE Json
        \*     IN J!ToJson(seq)
        
        \* Lastly, you may build expressions over arbitrary sets of states by
        \* leveraging the _TETrace operator.  For example, this is how to
        \* count the number of times a spec variable changed up to the current
        \* state in the trace.
        \* ,_seqModCount |->
        \*     LET F[s \in DOMAIN _TETrace] ==
        \*         IF s = 1 THEN 0
        \*         ELSE IF _TETrace[s].seq # _TETrace[s-1].seq
        \*             THEN 1 + F[s-1] ELSE F[s-1]
        \*     IN F[_TEPosition - 1]
    ]

=============================================================================



Parsing and semantic processing can take forever if the trace below is long.
 In this case, it is advised to uncomment the module below to deserialize the
 trace from a generated binary file.

\*
\*---- MODULE VyukovMC_TETrace ----
\*EXTENDS VyukovMC, IOUtils, TLC
\*
\*trace == IODeserialize("VyukovMC_TTrace_1790082254.bin", TRUE)
\*
\*=============================================================================
\*

---- MODULE VyukovMC_TETrace ----
EXTENDS VyukovMC, TLC

trace == 
    <<
    ([res |-> <<0, 0, 0>>,data |-> (0 :> 0 @@ 1 :> 0),posEnq |-> 0,pc_i |-> <<1, 1, 1>>,posDeq |-> 0,myval |-> <<0, 0, 0>>,absq |-> <<>>,s |-> <<0, 0, 0>>,pc |-> <<"L0", "L0", "L0">>,pos |-> <<0, 0, 0>>,nextVal |-> 1,ok |-> TRUE,seq |-> (0 :> 0 @@ 1 :> 1)]),
    ([res |-> <<0, 0, 0>>,data |-> (0 :> 0 @@ 1 :> 0),posEnq |-> 0,pc_i |-> <<1, 1, 1>>,posDeq |-> 0,myval |-> <<0, 0, 0>>,absq |-> <<>>,s |-> <<0, 0, 0>>,pc |-> <<"L0", "D1", "L0">>,pos |-> <<0, 0, 0>>,nextVal |-> 1,ok |-> TRUE,seq |-> (0 :> 0 @@ 1 :> 1)]),
    ([res |-> <<0, 0, 0>>,data |-> (0 :> 0 @@ 1 :> 0),posEnq |-> 0,pc_i |-> <<1, 1, 1>>,posDeq |-> 0,myval |-> <<1, 0, 0>>,absq |-> <<>>,s |-> <<0, 0, 0>>,pc |-> <<"E1", "D1", "L0">>,pos |-> <<0, 0, 0>>,nextVal |-> 2,ok |-> TRUE,seq |-> (0 :> 0 @@ 1 :> 1)]),
    ([res |-> <<0, 0, 0>>,data |-> (0 :> 0 @@ 1 :> 0),posEnq |-> 0,pc_i |-> <<1, 1, 1>>,posDeq |-> 0,myval |-> <<1, 0, 0>>,absq |-> <<>>,s |-> <<0, 0, 0>>,pc |-> <<"E2", "D1", "L0">>,pos |-> <<0, 0, 0>>,nextVal |-> 2,ok |-> TRUE,seq |-> (0 :> 0 @@ 1 :> 1)]),
    ([res |-> <<0, 0, 0>>,data |-> (0 :> 0 @@ 1 :> 0),posEnq |-> 0,pc_i |-> <<1, 1, 1>>,posDeq |-> 0,myval |-> <<1, 0, 0>>,absq |-> <<>>,s |-> <<0, 0, 0>>,pc |-> <<"E3", "D1", "L0">>,pos |-> <<0, 0, 0>>,nextVal |-> 2,ok |-> TRUE,seq |-> (0 :> 0 @@ 1 :> 1)]),
    ([res |-> <<0, 0, 0>>,data |-> (0 :> 0 @@ 1 :> 0),posEnq |-> 1,pc_i |-> <<1, 1, 1>>,posDeq |-> 0,myval |-> <<1, 0, 0>>,absq |-> <<1>>,s |-> <<0, 0, 0>>,pc |-> <<"E4", "D1", "L0">>,pos |-> <<0, 0, 0>>,nextVal |-> 2,ok |-> TRUE,seq |-> (0 :> 0 @@ 1 :> 1)]),
    ([res |-> <<0, 0, 0>>,data |-> (0 :> 0 @@ 1 :> 0),posEnq |-> 1,pc_i |-> <<1, 1, 1>>,posDeq |-> 0,myval |-> <<1, 0, 0>>,absq |-> <<1>>,s |-> <<0, 0, 0>>,pc |-> <<"E4", "D2", "L0">>,pos |-> <<0, 0, 0>>,nextVal |-> 2,ok |-> TRUE,seq |-> (0 :> 0 @@ 1 :> 1)]),
    ([res |-> <<0, 0, 0>>,data |-> (0 :> 0 @@ 1 :> 0),posEnq |-> 1,pc_i |-> <<1, 1, 1>>,posDeq |-> 0,myval |-> <<1, 0, 0>>,absq |-> <<1>>,s |-> <<0, 0, 0>>,pc |-> <<"E4", "D6", "L0">>,pos |-> <<0, 0, 0>>,nextVal |-> 2,ok |-> TRUE,seq |-> (0 :> 0 @@ 1 :> 1)]),
    ([res |-> <<0, 0, 0>>,data |-> (0 :> 0 @@ 1 :> 0),posEnq |-> 1,pc_i |-> <<1, 1, 1>>,posDeq |-> 0,myval |-> <<1, 0, 0>>,absq |-> <<1>>,s |-> <<0, 0, 0>>,pc |-> <<"E4", "L1", "L0">>,pos |-> <<0, 0, 0>>,nextVal |-> 2,ok |-> FALSE,seq |-> (0 :> 0 @@ 1 :> 1)])
    >>
----


=============================================================================

---- CONFIG VyukovMC_TTrace_1790082254 ----
CONSTANTS
    Cap = 2
    Procs = { 1 , 2 , 3 }
    Prog <- P3
    Textbook = TRUE

INVARIANT
    _inv

CHECK_DEADLOCK
    \* CHECK_DEADLOCK off because of PROPERTY or INVARIANT above.
    FALSE

INIT
    _init

NEXT
    _next

CONSTANT
    _TETrace <- _trace

ALIAS
    _expression
=============================================================================
\* Generated on Tue Sep 22 13:04:27 UTC 2026