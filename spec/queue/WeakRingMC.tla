---- MODULE WeakRingMC ----
EXTENDS WeakRing
RecsSmall == <<2, 1, 3, 2, 1, 3, 2>>      \* 3,2,4,3,2,4,3 words in a ring of 8: wraps with and without tail markers
RecsMix == <<1, 2, 1, 3, 1, 2, 3, 1>>
RecsBig == <<2, 5, 1>>                     \* 6 words > C/2 at offset 3: fits neither before nor after the wrap (finding 7.11)
====
