---- MODULE VyukovMC ----
EXTENDS Vyukov
P3 == (1 :> <<"enq", "enq", "enq">>) @@ (2 :> <<"deq", "deq">>) @@ (3 :> <<"enq", "deq">>)
P2 == (1 :> <<"enq", "enq", "enq", "deq">>) @@ (2 :> <<"deq", "enq", "deq", "deq">>)
P4 == (1 :> <<"enq", "enq">>) @@ (2 :> <<"deq", "deq">>) @@ (3 :> <<"enq", "deq">>) @@ (4 :> <<"deq", "enq">>)
====
