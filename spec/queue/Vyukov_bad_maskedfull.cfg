SPECIFICATION Spec
CONSTANTS
  Cap = 2
  Procs = {1, 2, 3}
  Prog <- P3
  MaskedFull = TRUE
  StaleCell = FALSE
  Textbook = FALSE
INVARIANT LinOK
CHECK_DEADLOCK FALSE
