------------------------------- MODULE Vyukov -------------------------------
(* Tier B: cds::container::VyukovMPMCCycleQueue (enqueue_with / dequeue_with), one label per atomic access, as coded:      *)
(* the position CAS is weak in the code (no spurious failure on x86; a spurious failure only repeats the loop);              *)
(* "dif < 0" spins unless the position counters say full / empty.                                                            *)
(* Ghost variable absq is the abstract FIFO: an enqueue takes effect at its successful position CAS, a dequeue at its       *)
(* successful position CAS, "full" at the load of the dequeue position, "empty" at the load of the enqueue position.         *)
(* Invariants (C07, and C24 for the pools built on this queue): the value a dequeuer reads is the head of absq at its        *)
(* linearization point; enqueue fails only when absq holds Cap items; dequeue fails only when absq is empty; no cell is      *)
(* overwritten before it is read (data ghost).                                                                               *)
EXTENDS Naturals, Integers, Sequences, FiniteSets, TLC
CONSTANTS Cap,        \* capacity, power of two
          Procs,      \* client processes
          Prog,       \* Prog[p] = sequence of "enq" / "deq"
          Textbook,   \* TRUE: fail at once when dif < 0 (Vyukov's original); the library re-checks the position counters
          MaskedFull, \* TRUE: seeded change C07: the "full" test compares the positions modulo the capacity
          StaleCell   \* TRUE: seeded change C24: dequeue keeps the cell of the old position after a failed CAS of the position
Mask == Cap - 1
(* --algorithm Vyukov {
variables
  seq = [i \in 0..Mask |-> i],            \* cell sequence numbers
  data = [i \in 0..Mask |-> 0],           \* cell payload (0 = none)
  posEnq = 0, posDeq = 0,
  absq = <<>>,                            \* ghost: abstract queue
  nextVal = 1,                            \* ghost: distinct values
  ok = TRUE;                              \* ghost: no linearization-point check has failed

process (P \in Procs)
  variables pc_i = 1, pos = 0, s = 0, myval = 0, res = 0, ci = 0;
{
L0: while (pc_i <= Len(Prog[self])) {
      if (Prog[self][pc_i] = "enq") {
        myval := nextVal || nextVal := nextVal + 1;
E1:     pos := posEnq;                                              \* m_posEnqueue.load
E2:     s := seq[pos % Cap];                                        \* cell->sequence.load
        if (s = pos) {
E3:       if (posEnq = pos) {                                       \* compare_exchange_weak success = linearization point
            posEnq := pos + 1;
            ok := ok /\ Len(absq) < Cap;
            absq := Append(absq, myval);
          } else { pos := posEnq; goto E2; };
E4:       ok := ok /\ data[pos % Cap] = 0;                          \* the cell must have been consumed
          data[pos % Cap] := myval;                                 \* f( cell->data )
E5:       seq[pos % Cap] := pos + 1;                                \* cell->sequence.store( pos + 1 )
          res := 1;
        } else if (s < pos) {
E6:       if (Textbook \/ (~MaskedFull /\ pos - posDeq = Cap) \/ (MaskedFull /\ (pos - posDeq) % Cap = 0)) {      \* m_posDequeue.load: queue full
            ok := ok /\ Len(absq) = Cap;
            res := 0;
          } else {
E7:         pos := posEnq; goto E2;                                 \* bkoff(); reload
          };
        } else {
E8:       pos := posEnq; goto E2;
        };
      } else {
D1:     pos := posDeq; ci := posDeq % Cap;
D2:     s := seq[ci];
        if (s = pos + 1) {
D3:       if (posDeq = pos) {
            posDeq := pos + 1;
            ok := ok /\ absq # <<>> /\ Head(absq) = data[ci];
            absq := IF absq = <<>> THEN absq ELSE Tail(absq);
          } else { pos := posDeq; if (~StaleCell) { ci := posDeq % Cap; }; goto D2; };      \* the failed CAS rewrites pos
D4:       res := data[ci]; data[ci] := 0;                           \* f( cell->data ); value_cleaner
D5:       seq[ci] := pos + Mask + 1;
        } else if (s < pos + 1) {
D6:       if (Textbook \/ pos - posEnq = 0) {                                   \* queue empty
            ok := ok /\ absq = <<>>;
            res := 0;
          } else {
D7:         pos := posDeq; ci := posDeq % Cap; goto D2;
          };
        } else {
D8:       pos := posDeq; ci := posDeq % Cap; goto D2;
        };
      };
L1:   pc_i := pc_i + 1;
    };
}
} *)
\* BEGIN TRANSLATION
VARIABLES pc, seq, data, posEnq, posDeq, absq, nextVal, ok, pc_i, pos, s, 
          myval, res, ci

vars == << pc, seq, data, posEnq, posDeq, absq, nextVal, ok, pc_i, pos, s, 
           myval, res, ci >>

ProcSet == (Procs)

Init == (* Global variables *)
        /\ seq = [i \in 0..Mask |-> i]
        /\ data = [i \in 0..Mask |-> 0]
        /\ posEnq = 0
        /\ posDeq = 0
        /\ absq = <<>>
        /\ nextVal = 1
        /\ ok = TRUE
        (* Process P *)
        /\ pc_i = [self \in Procs |-> 1]
        /\ pos = [self \in Procs |-> 0]
        /\ s = [self \in Procs |-> 0]
        /\ myval = [self \in Procs |-> 0]
        /\ res = [self \in Procs |-> 0]
        /\ ci = [self \in Procs |-> 0]
        /\ pc = [self \in ProcSet |-> "L0"]

L0(self) == /\ pc[self] = "L0"
            /\ IF pc_i[self] <= Len(Prog[self])
                  THEN /\ IF Prog[self][pc_i[self]] = "enq"
                             THEN /\ /\ myval' = [myval EXCEPT ![self] = nextVal]
                                     /\ nextVal' = nextVal + 1
                                  /\ pc' = [pc EXCEPT ![self] = "E1"]
                             ELSE /\ pc' = [pc EXCEPT ![self] = "D1"]
                                  /\ UNCHANGED << nextVal, myval >>
                  ELSE /\ pc' = [pc EXCEPT ![self] = "Done"]
                       /\ UNCHANGED << nextVal, myval >>
            /\ UNCHANGED << seq, data, posEnq, posDeq, absq, ok, pc_i, pos, s, 
                            res, ci >>

L1(self) == /\ pc[self] = "L1"
            /\ pc_i' = [pc_i EXCEPT ![self] = pc_i[self] + 1]
            /\ pc' = [pc EXCEPT ![self] = "L0"]
            /\ UNCHANGED << seq, data, posEnq, posDeq, absq, nextVal, ok, pos, 
                            s, myval, res, ci >>

E1(self) == /\ pc[self] = "E1"
            /\ pos' = [pos EXCEPT ![self] = posEnq]
            /\ pc' = [pc EXCEPT ![self] = "E2"]
            /\ UNCHANGED << seq, data, posEnq, posDeq, absq, nextVal, ok, pc_i, 
                            s, myval, res, ci >>

E2(self) == /\ pc[self] = "E2"
            /\ s' = [s EXCEPT ![self] = seq[pos[self] % Cap]]
            /\ IF s'[self] = pos[self]
                  THEN /\ pc' = [pc EXCEPT ![self] = "E3"]
                  ELSE /\ IF s'[self] < pos[self]
                             THEN /\ pc' = [pc EXCEPT ![self] = "E6"]
                             ELSE /\ pc' = [pc EXCEPT ![self] = "E8"]
            /\ UNCHANGED << seq, data, posEnq, posDeq, absq, nextVal, ok, pc_i, 
                            pos, myval, res, ci >>

E3(self) == /\ pc[self] = "E3"
            /\ IF posEnq = pos[self]
                  THEN /\ posEnq' = pos[self] + 1
                       /\ ok' = (ok /\ Len(absq) < Cap)
                       /\ absq' = Append(absq, myval[self])
                       /\ pc' = [pc EXCEPT ![self] = "E4"]
                       /\ pos' = pos
                  ELSE /\ pos' = [pos EXCEPT ![self] = posEnq]
                       /\ pc' = [pc EXCEPT ![self] = "E2"]
                       /\ UNCHANGED << posEnq, absq, ok >>
            /\ UNCHANGED << seq, data, posDeq, nextVal, pc_i, s, myval, res, 
                            ci >>

E4(self) == /\ pc[self] = "E4"
            /\ ok' = (ok /\ data[pos[self] % Cap] = 0)
            /\ data' = [data EXCEPT ![pos[self] % Cap] = myval[self]]
            /\ pc' = [pc EXCEPT ![self] = "E5"]
            /\ UNCHANGED << seq, posEnq, posDeq, absq, nextVal, pc_i, pos, s, 
                            myval, res, ci >>

E5(self) == /\ pc[self] = "E5"
            /\ seq' = [seq EXCEPT ![pos[self] % Cap] = pos[self] + 1]
            /\ res' = [res EXCEPT ![self] = 1]
            /\ pc' = [pc EXCEPT ![self] = "L1"]
            /\ UNCHANGED << data, posEnq, posDeq, absq, nextVal, ok, pc_i, pos, 
                            s, myval, ci >>

E6(self) == /\ pc[self] = "E6"
            /\ IF Textbook \/ (~MaskedFull /\ pos[self] - posDeq = Cap) \/ (MaskedFull /\ (pos[self] - posDeq) % Cap = 0)
                  THEN /\ ok' = (ok /\ Len(absq) = Cap)
                       /\ res' = [res EXCEPT ![self] = 0]
                       /\ pc' = [pc EXCEPT ![self] = "L1"]
                  ELSE /\ pc' = [pc EXCEPT ![self] = "E7"]
                       /\ UNCHANGED << ok, res >>
            /\ UNCHANGED << seq, data, posEnq, posDeq, absq, nextVal, pc_i, 
                            pos, s, myval, ci >>

E7(self) == /\ pc[self] = "E7"
            /\ pos' = [pos EXCEPT ![self] = posEnq]
            /\ pc' = [pc EXCEPT ![self] = "E2"]
            /\ UNCHANGED << seq, data, posEnq, posDeq, absq, nextVal, ok, pc_i, 
                            s, myval, res, ci >>

E8(self) == /\ pc[self] = "E8"
            /\ pos' = [pos EXCEPT ![self] = posEnq]
            /\ pc' = [pc EXCEPT ![self] = "E2"]
            /\ UNCHANGED << seq, data, posEnq, posDeq, absq, nextVal, ok, pc_i, 
                            s, myval, res, ci >>

D1(self) == /\ pc[self] = "D1"
            /\ pos' = [pos EXCEPT ![self] = posDeq]
            /\ ci' = [ci EXCEPT ![self] = posDeq % Cap]
            /\ pc' = [pc EXCEPT ![self] = "D2"]
            /\ UNCHANGED << seq, data, posEnq, posDeq, absq, nextVal, ok, pc_i, 
                            s, myval, res >>

D2(self) == /\ pc[self] = "D2"
            /\ s' = [s EXCEPT ![self] = seq[ci[self]]]
            /\ IF s'[self] = pos[self] + 1
                  THEN /\ pc' = [pc EXCEPT ![self] = "D3"]
                  ELSE /\ IF s'[self] < pos[self] + 1
                             THEN /\ pc' = [pc EXCEPT ![self] = "D6"]
                             ELSE /\ pc' = [pc EXCEPT ![self] = "D8"]
            /\ UNCHANGED << seq, data, posEnq, posDeq, absq, nextVal, ok, pc_i, 
                            pos, myval, res, ci >>

D3(self) == /\ pc[self] = "D3"
            /\ IF posDeq = pos[self]
                  THEN /\ posDeq' = pos[self] + 1
                       /\ ok' = (ok /\ absq # <<>> /\ Head(absq) = data[ci[self]])
                       /\ absq' = (IF absq = <<>> THEN absq ELSE Tail(absq))
                       /\ pc' = [pc EXCEPT ![self] = "D4"]
                       /\ UNCHANGED << pos, ci >>
                  ELSE /\ pos' = [pos EXCEPT ![self] = posDeq]
                       /\ IF ~StaleCell
                             THEN /\ ci' = [ci EXCEPT ![self] = posDeq % Cap]
                             ELSE /\ TRUE
                                  /\ ci' = ci
                       /\ pc' = [pc EXCEPT ![self] = "D2"]
                       /\ UNCHANGED << posDeq, absq, ok >>
            /\ UNCHANGED << seq, data, posEnq, nextVal, pc_i, s, myval, res >>

D4(self) == /\ pc[self] = "D4"
            /\ res' = [res EXCEPT ![self] = data[ci[self]]]
            /\ data' = [data EXCEPT ![ci[self]] = 0]
            /\ pc' = [pc EXCEPT ![self] = "D5"]
            /\ UNCHANGED << seq, posEnq, posDeq, absq, nextVal, ok, pc_i, pos, 
                            s, myval, ci >>

D5(self) == /\ pc[self] = "D5"
            /\ seq' = [seq EXCEPT ![ci[self]] = pos[self] + Mask + 1]
            /\ pc' = [pc EXCEPT ![self] = "L1"]
            /\ UNCHANGED << data, posEnq, posDeq, absq, nextVal, ok, pc_i, pos, 
                            s, myval, res, ci >>

D6(self) == /\ pc[self] = "D6"
            /\ IF Textbook \/ pos[self] - posEnq = 0
                  THEN /\ ok' = (ok /\ absq = <<>>)
                       /\ res' = [res EXCEPT ![self] = 0]
                       /\ pc' = [pc EXCEPT ![self] = "L1"]
                  ELSE /\ pc' = [pc EXCEPT ![self] = "D7"]
                       /\ UNCHANGED << ok, res >>
            /\ UNCHANGED << seq, data, posEnq, posDeq, absq, nextVal, pc_i, 
                            pos, s, myval, ci >>

D7(self) == /\ pc[self] = "D7"
            /\ pos' = [pos EXCEPT ![self] = posDeq]
            /\ ci' = [ci EXCEPT ![self] = posDeq % Cap]
            /\ pc' = [pc EXCEPT ![self] = "D2"]
            /\ UNCHANGED << seq, data, posEnq, posDeq, absq, nextVal, ok, pc_i, 
                            s, myval, res >>

D8(self) == /\ pc[self] = "D8"
            /\ pos' = [pos EXCEPT ![self] = posDeq]
            /\ ci' = [ci EXCEPT ![self] = posDeq % Cap]
            /\ pc' = [pc EXCEPT ![self] = "D2"]
            /\ UNCHANGED << seq, data, posEnq, posDeq, absq, nextVal, ok, pc_i, 
                            s, myval, res >>

P(self) == L0(self) \/ L1(self) \/ E1(self) \/ E2(self) \/ E3(self)
              \/ E4(self) \/ E5(self) \/ E6(self) \/ E7(self) \/ E8(self)
              \/ D1(self) \/ D2(self) \/ D3(self) \/ D4(self) \/ D5(self)
              \/ D6(self) \/ D7(self) \/ D8(self)

(* Allow infinite stuttering to prevent deadlock on termination. *)
Terminating == /\ \A self \in ProcSet: pc[self] = "Done"
               /\ UNCHANGED vars

Next == (\E self \in Procs: P(self))
           \/ Terminating

Spec == Init /\ [][Next]_vars

Termination == <>(\A self \in ProcSet: pc[self] = "Done")

\* END TRANSLATION
LinOK == ok
Bounded == posEnq - posDeq <= Cap /\ posDeq <= posEnq + Cardinality(Procs)
=============================================================================
