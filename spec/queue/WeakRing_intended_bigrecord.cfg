SPECIFICATION Spec
CONSTANTS
  C = 8
  Recs <- RecsBig
  StaleFront = FALSE
  PublishTail = TRUE
INVARIANTS InOrder Bounded
PROPERTY AllDelivered
CHECK_DEADLOCK FALSE
