---- MODULE WeakRing ----
\* Tier B: cds::container::WeakRingBuffer<void> (cds/container/weak_ringbuffer.h), single producer / single consumer ring of
\* variable-size records.  Unit = one machine word (8 bytes): a record of n payload words occupies n + 1 words (size header),
\* an unused tail of t words is marked by a tail header and skipped by the consumer.  One label per access to the two shared
\* counters back_ / front_; buffer words are plain memory (the protocol must make them race free).
\*   StaleFront  -- the seeded change C12: after skipping a tail, front() re-checks emptiness with the position of the tail marker
\*   PublishTail -- intended behaviour for finding 7.11: back() publishes the tail marker before it reports "no space"
EXTENDS Naturals, Sequences, FiniteSets, TLC
CONSTANTS C, Recs, StaleFront, PublishTail
G == [k |-> "G", a |-> 0, b |-> 0]
(* --algorithm WeakRing {
variables buf = [j \in 0..(C - 1) |-> G],
  back_ = 0, front_ = 0,
  absQ = <<>>, delivered = <<>>, failEmpty = FALSE;

fair process (Prod = "p")
  variables pi = 1, back = 0, pfront = 0, real = 0, idx = 0, tail = 0, ok = FALSE;
{
P0: while (pi <= Len(Recs)) {
      real := Recs[pi] + 1; ok := TRUE;
P1:   back := back_;                                   \* back( size ): own counter, relaxed
      if (pfront + C - back < real) {
P2:     pfront := front_;                              \* acquire
        if (pfront + C - back < real) { ok := FALSE; };
      };
P3:   if (ok) {
        idx := back % C; tail := C - (back % C);
        if (tail < real) {
          buf[idx] := [k |-> "T", a |-> tail, b |-> 0];   \* make unused tail
          back := back + tail;
          if (pfront + C - back < real) {
P4:         pfront := front_;
            \* "no space" although nothing is stored (everything pushed so far has been popped) and the record is smaller than the ring
            if (pfront + C - back < real) { ok := FALSE; if (absQ = <<>>) { failEmpty := TRUE; }; };
          };
P5:       if (ok \/ PublishTail) { back_ := back; };     \* as coded: published only when the record fits after the wrap
          idx := 0;
        };
      };
P6:   if (ok) {
        buf[idx] := [k |-> "S", a |-> Recs[pi], b |-> pi];   \* size header; back() returns the payload pointer
P7:     buf := [j \in 0..(C - 1) |-> IF j > idx /\ j <= idx + Recs[pi] THEN [k |-> "D", a |-> pi, b |-> j - idx] ELSE buf[j]];  \* caller fills
P8:     back_ := back_ + real;                               \* push_back(): release store
        absQ := Append(absQ, pi); pi := pi + 1;
      };
    };
}

fair process (Cons = "c")
  variables front = 0, cback = 0, hdr = G;
{
C0: while (Len(delivered) < Len(Recs)) {
C1:   front := front_;                                  \* front()
      if (cback - front < 1) {
C2:     cback := back_;                                 \* acquire
        if (cback - front < 1) { goto C0; };            \* empty: the consumer polls
      };
C3:   hdr := buf[front % C];
      if (hdr.k = "T") {
C4:     front_ := front + hdr.a;                        \* pop_front() of the unused tail
C5:     if (~StaleFront) { front := front_; };
        if (cback - front < 1) {
C6:       cback := back_;
          if (cback - front < 1) { goto C0; };
        };
C7:     front := front_; hdr := buf[front % C];
      };
C8:   \* front() returned ( payload pointer, size ): the consumer reads the record
      assert /\ hdr.k = "S" /\ absQ # <<>> /\ hdr.b = Head(absQ) /\ hdr.a = Recs[hdr.b]
             /\ \A j \in 1..hdr.a : buf[(front % C) + j] = [k |-> "D", a |-> hdr.b, b |-> j];
C9:   front_ := front + hdr.a + 1;                      \* pop_front(): release store
      delivered := Append(delivered, hdr.b); absQ := Tail(absQ);
    };
}
} *)
\* BEGIN TRANSLATION
VARIABLES pc, buf, back_, front_, absQ, delivered, failEmpty, pi, back, 
          pfront, real, idx, tail, ok, front, cback, hdr

vars == << pc, buf, back_, front_, absQ, delivered, failEmpty, pi, back, 
           pfront, real, idx, tail, ok, front, cback, hdr >>

ProcSet == {"p"} \cup {"c"}

Init == (* Global variables *)
        /\ buf = [j \in 0..(C - 1) |-> G]
        /\ back_ = 0
        /\ front_ = 0
        /\ absQ = <<>>
        /\ delivered = <<>>
        /\ failEmpty = FALSE
        (* Process Prod *)
        /\ pi = 1
        /\ back = 0
        /\ pfront = 0
        /\ real = 0
        /\ idx = 0
        /\ tail = 0
        /\ ok = FALSE
        (* Process Cons *)
        /\ front = 0
        /\ cback = 0
        /\ hdr = G
        /\ pc = [self \in ProcSet |-> CASE self = "p" -> "P0"
                                        [] self = "c" -> "C0"]

P0 == /\ pc["p"] = "P0"
      /\ IF pi <= Len(Recs)
            THEN /\ real' = Recs[pi] + 1
                 /\ ok' = TRUE
                 /\ pc' = [pc EXCEPT !["p"] = "P1"]
            ELSE /\ pc' = [pc EXCEPT !["p"] = "Done"]
                 /\ UNCHANGED << real, ok >>
      /\ UNCHANGED << buf, back_, front_, absQ, delivered, failEmpty, pi, back, 
                      pfront, idx, tail, front, cback, hdr >>

P1 == /\ pc["p"] = "P1"
      /\ back' = back_
      /\ IF pfront + C - back' < real
            THEN /\ pc' = [pc EXCEPT !["p"] = "P2"]
            ELSE /\ pc' = [pc EXCEPT !["p"] = "P3"]
      /\ UNCHANGED << buf, back_, front_, absQ, delivered, failEmpty, pi, 
                      pfront, real, idx, tail, ok, front, cback, hdr >>

P2 == /\ pc["p"] = "P2"
      /\ pfront' = front_
      /\ IF pfront' + C - back < real
            THEN /\ ok' = FALSE
            ELSE /\ TRUE
                 /\ ok' = ok
      /\ pc' = [pc EXCEPT !["p"] = "P3"]
      /\ UNCHANGED << buf, back_, front_, absQ, delivered, failEmpty, pi, back, 
                      real, idx, tail, front, cback, hdr >>

P3 == /\ pc["p"] = "P3"
      /\ IF ok
            THEN /\ idx' = back % C
                 /\ tail' = C - (back % C)
                 /\ IF tail' < real
                       THEN /\ buf' = [buf EXCEPT ![idx'] = [k |-> "T", a |-> tail', b |-> 0]]
                            /\ back' = back + tail'
                            /\ IF pfront + C - back' < real
                                  THEN /\ pc' = [pc EXCEPT !["p"] = "P4"]
                                  ELSE /\ pc' = [pc EXCEPT !["p"] = "P5"]
                       ELSE /\ pc' = [pc EXCEPT !["p"] = "P6"]
                            /\ UNCHANGED << buf, back >>
            ELSE /\ pc' = [pc EXCEPT !["p"] = "P6"]
                 /\ UNCHANGED << buf, back, idx, tail >>
      /\ UNCHANGED << back_, front_, absQ, delivered, failEmpty, pi, pfront, 
                      real, ok, front, cback, hdr >>

P5 == /\ pc["p"] = "P5"
      /\ IF ok \/ PublishTail
            THEN /\ back_' = back
            ELSE /\ TRUE
                 /\ back_' = back_
      /\ idx' = 0
      /\ pc' = [pc EXCEPT !["p"] = "P6"]
      /\ UNCHANGED << buf, front_, absQ, delivered, failEmpty, pi, back, 
                      pfront, real, tail, ok, front, cback, hdr >>

P4 == /\ pc["p"] = "P4"
      /\ pfront' = front_
      /\ IF pfront' + C - back < real
            THEN /\ ok' = FALSE
                 /\ IF absQ = <<>>
                       THEN /\ failEmpty' = TRUE
                       ELSE /\ TRUE
                            /\ UNCHANGED failEmpty
            ELSE /\ TRUE
                 /\ UNCHANGED << failEmpty, ok >>
      /\ pc' = [pc EXCEPT !["p"] = "P5"]
      /\ UNCHANGED << buf, back_, front_, absQ, delivered, pi, back, real, idx, 
                      tail, front, cback, hdr >>

P6 == /\ pc["p"] = "P6"
      /\ IF ok
            THEN /\ buf' = [buf EXCEPT ![idx] = [k |-> "S", a |-> Recs[pi], b |-> pi]]
                 /\ pc' = [pc EXCEPT !["p"] = "P7"]
            ELSE /\ pc' = [pc EXCEPT !["p"] = "P0"]
                 /\ buf' = buf
      /\ UNCHANGED << back_, front_, absQ, delivered, failEmpty, pi, back, 
                      pfront, real, idx, tail, ok, front, cback, hdr >>

P7 == /\ pc["p"] = "P7"
      /\ buf' = [j \in 0..(C - 1) |-> IF j > idx /\ j <= idx + Recs[pi] THEN [k |-> "D", a |-> pi, b |-> j - idx] ELSE buf[j]]
      /\ pc' = [pc EXCEPT !["p"] = "P8"]
      /\ UNCHANGED << back_, front_, absQ, delivered, failEmpty, pi, back, 
                      pfront, real, idx, tail, ok, front, cback, hdr >>

P8 == /\ pc["p"] = "P8"
      /\ back_' = back_ + real
      /\ absQ' = Append(absQ, pi)
      /\ pi' = pi + 1
      /\ pc' = [pc EXCEPT !["p"] = "P0"]
      /\ UNCHANGED << buf, front_, delivered, failEmpty, back, pfront, real, 
                      idx, tail, ok, front, cback, hdr >>

Prod == P0 \/ P1 \/ P2 \/ P3 \/ P5 \/ P4 \/ P6 \/ P7 \/ P8

C0 == /\ pc["c"] = "C0"
      /\ IF Len(delivered) < Len(Recs)
            THEN /\ pc' = [pc EXCEPT !["c"] = "C1"]
            ELSE /\ pc' = [pc EXCEPT !["c"] = "Done"]
      /\ UNCHANGED << buf, back_, front_, absQ, delivered, failEmpty, pi, back, 
                      pfront, real, idx, tail, ok, front, cback, hdr >>

C1 == /\ pc["c"] = "C1"
      /\ front' = front_
      /\ IF cback - front' < 1
            THEN /\ pc' = [pc EXCEPT !["c"] = "C2"]
            ELSE /\ pc' = [pc EXCEPT !["c"] = "C3"]
      /\ UNCHANGED << buf, back_, front_, absQ, delivered, failEmpty, pi, back, 
                      pfront, real, idx, tail, ok, cback, hdr >>

C2 == /\ pc["c"] = "C2"
      /\ cback' = back_
      /\ IF cback' - front < 1
            THEN /\ pc' = [pc EXCEPT !["c"] = "C0"]
            ELSE /\ pc' = [pc EXCEPT !["c"] = "C3"]
      /\ UNCHANGED << buf, back_, front_, absQ, delivered, failEmpty, pi, back, 
                      pfront, real, idx, tail, ok, front, hdr >>

C3 == /\ pc["c"] = "C3"
      /\ hdr' = buf[front % C]
      /\ IF hdr'.k = "T"
            THEN /\ pc' = [pc EXCEPT !["c"] = "C4"]
            ELSE /\ pc' = [pc EXCEPT !["c"] = "C8"]
      /\ UNCHANGED << buf, back_, front_, absQ, delivered, failEmpty, pi, back, 
                      pfront, real, idx, tail, ok, front, cback >>

C4 == /\ pc["c"] = "C4"
      /\ front_' = front + hdr.a
      /\ pc' = [pc EXCEPT !["c"] = "C5"]
      /\ UNCHANGED << buf, back_, absQ, delivered, failEmpty, pi, back, pfront, 
                      real, idx, tail, ok, front, cback, hdr >>

C5 == /\ pc["c"] = "C5"
      /\ IF ~StaleFront
            THEN /\ front' = front_
            ELSE /\ TRUE
                 /\ front' = front
      /\ IF cback - front' < 1
            THEN /\ pc' = [pc EXCEPT !["c"] = "C6"]
            ELSE /\ pc' = [pc EXCEPT !["c"] = "C7"]
      /\ UNCHANGED << buf, back_, front_, absQ, delivered, failEmpty, pi, back, 
                      pfront, real, idx, tail, ok, cback, hdr >>

C6 == /\ pc["c"] = "C6"
      /\ cback' = back_
      /\ IF cback' - front < 1
            THEN /\ pc' = [pc EXCEPT !["c"] = "C0"]
            ELSE /\ pc' = [pc EXCEPT !["c"] = "C7"]
      /\ UNCHANGED << buf, back_, front_, absQ, delivered, failEmpty, pi, back, 
                      pfront, real, idx, tail, ok, front, hdr >>

C7 == /\ pc["c"] = "C7"
      /\ front' = front_
      /\ hdr' = buf[front' % C]
      /\ pc' = [pc EXCEPT !["c"] = "C8"]
      /\ UNCHANGED << buf, back_, front_, absQ, delivered, failEmpty, pi, back, 
                      pfront, real, idx, tail, ok, cback >>

C8 == /\ pc["c"] = "C8"
      /\ Assert(/\ hdr.k = "S" /\ absQ # <<>> /\ hdr.b = Head(absQ) /\ hdr.a = Recs[hdr.b]
                /\ \A j \in 1..hdr.a : buf[(front % C) + j] = [k |-> "D", a |-> hdr.b, b |-> j], 
                "Failure of assertion at line 69, column 7.")
      /\ pc' = [pc EXCEPT !["c"] = "C9"]
      /\ UNCHANGED << buf, back_, front_, absQ, delivered, failEmpty, pi, back, 
                      pfront, real, idx, tail, ok, front, cback, hdr >>

C9 == /\ pc["c"] = "C9"
      /\ front_' = front + hdr.a + 1
      /\ delivered' = Append(delivered, hdr.b)
      /\ absQ' = Tail(absQ)
      /\ pc' = [pc EXCEPT !["c"] = "C0"]
      /\ UNCHANGED << buf, back_, failEmpty, pi, back, pfront, real, idx, tail, 
                      ok, front, cback, hdr >>

Cons == C0 \/ C1 \/ C2 \/ C3 \/ C4 \/ C5 \/ C6 \/ C7 \/ C8 \/ C9

(* Allow infinite stuttering to prevent deadlock on termination. *)
Terminating == /\ \A self \in ProcSet: pc[self] = "Done"
               /\ UNCHANGED vars

Next == Prod \/ Cons
           \/ Terminating

Spec == /\ Init /\ [][Next]_vars
        /\ WF_vars(Prod)
        /\ WF_vars(Cons)

Termination == <>(\A self \in ProcSet: pc[self] = "Done")

\* END TRANSLATION
InOrder == \A j \in 1..Len(delivered) : delivered[j] = j
Bounded == back_ - front_ <= C /\ front_ <= back_
NoFailOnEmpty == ~failEmpty
\* every record is eventually pushed and delivered (weak fairness of both threads; a full ring makes the producer poll)
AllDelivered == <>(Len(delivered) = Len(Recs))
====
