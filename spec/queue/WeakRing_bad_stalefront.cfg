SPECIFICATION Spec
CONSTANTS
  C = 8
  Recs <- RecsSmall
  StaleFront = TRUE
  PublishTail = FALSE
INVARIANTS InOrder Bounded NoFailOnEmpty
PROPERTY AllDelivered
CHECK_DEADLOCK FALSE
