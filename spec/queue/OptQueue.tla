------------------------------- MODULE OptQueue -------------------------------
(* Tier B: cds::intrusive::OptimisticQueue (Ladan-Mozes & Shavit) enqueue / do_dequeue / fix_list as coded.  m_pNext points     *)
(* towards the head (to the node enqueued before), m_pPrev towards the tail and is written optimistically after the tail CAS;  *)
(* do_dequeue repairs the prev chain with fix_list when it finds it inconsistent.  Hazard pointers are abstracted as in        *)
(* MSQueue.tla (nodes are not recycled).  One label per atomic access.                                                         *)
(* Linearization: enqueue at the successful CAS of m_pTail; successful dequeue at the successful CAS of m_pHead; an empty      *)
(* dequeue at the load of m_pTail that returned the head, provided the head re-check succeeds.                                 *)
(*   PrevBeforeCAS -- seeded change C06: enqueue stores pTail->m_pPrev before the tail CAS                                     *)
(*   NoFix         -- do_dequeue trusts m_pPrev without the consistency test / fix_list                                        *)
EXTENDS Naturals, Integers, Sequences, FiniteSets, TLC
CONSTANTS Procs, Prog, MaxNodes, PrevBeforeCAS, NoFix
NULL == 0
Nodes == 1..MaxNodes
(* --algorithm OptQueue {
variables
  next = [n \in Nodes |-> NULL], prev = [n \in Nodes |-> NULL], val = [n \in Nodes |-> 0],
  head = 1, tail = 1,                       \* node 1 is the initial dummy
  alloc = 1,
  absq = <<>>, emptyAt = [p \in Procs |-> FALSE], ok = TRUE;

process (P \in Procs)
  variables i = 1, t = NULL, h = NULL, fp = NULL, new = NULL, cur = NULL, cn = NULL;
{
L0: while (i <= Len(Prog[self])) {
      if (Prog[self][i] > 0) {
        \* ---- enqueue( value Prog[self][i] ) ----
        alloc := alloc + 1; new := alloc + 0; val[alloc + 0] := Prog[self][i];
E1:     t := tail;                                                   \* guards.protect( 0, m_pTail )
E2:     next[new] := t;                                              \* pNew->m_pNext.store( pTail )
        if (PrevBeforeCAS) { prev[t] := new; };
E3:     if (tail = t) {                                              \* CAS( m_pTail, pTail, pNew ): linearization point
          tail := new; absq := Append(absq, val[new]);
        } else { goto E1; };
E4:     if (~PrevBeforeCAS) { prev[t] := new; };                     \* pTail->m_pPrev.store( pNew )
      } else {
        \* ---- dequeue ----
D1:     h := head;                                                   \* guards.protect( 0, m_pHead )
D2:     t := tail; emptyAt[self] := (absq = <<>>);                   \* guards.protect( 1, m_pTail )
D3:     fp := prev[h];                                               \* guards.protect( 2, pHead->m_pPrev )
D4:     if (head # h) { goto D1; };
D4b:    if (t = h) { ok := ok /\ emptyAt[self]; goto L1; };          \* empty
D5:     if (~NoFix /\ (fp = NULL \/ next[fp] # h)) {                 \* pFirstNodePrev->m_pNext.load() != pHead
          cur := t;                                                  \* fix_list( pTail, pHead )
F1:       while (cur # h) {
            cn := next[cur];
F2:         if (head # h) { goto D1; };
F3:         prev[cn] := cur; cur := cn;
          };
          goto D1;
        };
D6:     if (head = h) {                                              \* CAS( m_pHead, pHead, pFirstNodePrev ): linearization point
          head := fp;
          ok := ok /\ fp # NULL /\ absq # <<>> /\ Head(absq) = val[fp];
          absq := Tail(absq);
        } else { goto D1; };
      };
L1:   i := i + 1;
    };
}
} *)
\* BEGIN TRANSLATION
VARIABLES pc, next, prev, val, head, tail, alloc, absq, emptyAt, ok, i, t, h, 
          fp, new, cur, cn

vars == << pc, next, prev, val, head, tail, alloc, absq, emptyAt, ok, i, t, h, 
           fp, new, cur, cn >>

ProcSet == (Procs)

Init == (* Global variables *)
        /\ next = [n \in Nodes |-> NULL]
        /\ prev = [n \in Nodes |-> NULL]
        /\ val = [n \in Nodes |-> 0]
        /\ head = 1
        /\ tail = 1
        /\ alloc = 1
        /\ absq = <<>>
        /\ emptyAt = [p \in Procs |-> FALSE]
        /\ ok = TRUE
        (* Process P *)
        /\ i = [self \in Procs |-> 1]
        /\ t = [self \in Procs |-> NULL]
        /\ h = [self \in Procs |-> NULL]
        /\ fp = [self \in Procs |-> NULL]
        /\ new = [self \in Procs |-> NULL]
        /\ cur = [self \in Procs |-> NULL]
        /\ cn = [self \in Procs |-> NULL]
        /\ pc = [self \in ProcSet |-> "L0"]

L0(self) == /\ pc[self] = "L0"
            /\ IF i[self] <= Len(Prog[self])
                  THEN /\ IF Prog[self][i[self]] > 0
                             THEN /\ alloc' = alloc + 1
                                  /\ new' = [new EXCEPT ![self] = alloc' + 0]
                                  /\ val' = [val EXCEPT ![alloc' + 0] = Prog[self][i[self]]]
                                  /\ pc' = [pc EXCEPT ![self] = "E1"]
                             ELSE /\ pc' = [pc EXCEPT ![self] = "D1"]
                                  /\ UNCHANGED << val, alloc, new >>
                  ELSE /\ pc' = [pc EXCEPT ![self] = "Done"]
                       /\ UNCHANGED << val, alloc, new >>
            /\ UNCHANGED << next, prev, head, tail, absq, emptyAt, ok, i, t, h, 
                            fp, cur, cn >>

L1(self) == /\ pc[self] = "L1"
            /\ i' = [i EXCEPT ![self] = i[self] + 1]
            /\ pc' = [pc EXCEPT ![self] = "L0"]
            /\ UNCHANGED << next, prev, val, head, tail, alloc, absq, emptyAt, 
                            ok, t, h, fp, new, cur, cn >>

E1(self) == /\ pc[self] = "E1"
            /\ t' = [t EXCEPT ![self] = tail]
            /\ pc' = [pc EXCEPT ![self] = "E2"]
            /\ UNCHANGED << next, prev, val, head, tail, alloc, absq, emptyAt, 
                            ok, i, h, fp, new, cur, cn >>

E2(self) == /\ pc[self] = "E2"
            /\ next' = [next EXCEPT ![new[self]] = t[self]]
            /\ IF PrevBeforeCAS
                  THEN /\ prev' = [prev EXCEPT ![t[self]] = new[self]]
                  ELSE /\ TRUE
                       /\ prev' = prev
            /\ pc' = [pc EXCEPT ![self] = "E3"]
            /\ UNCHANGED << val, head, tail, alloc, absq, emptyAt, ok, i, t, h, 
                            fp, new, cur, cn >>

E3(self) == /\ pc[self] = "E3"
            /\ IF tail = t[self]
                  THEN /\ tail' = new[self]
                       /\ absq' = Append(absq, val[new[self]])
                       /\ pc' = [pc EXCEPT ![self] = "E4"]
                  ELSE /\ pc' = [pc EXCEPT ![self] = "E1"]
                       /\ UNCHANGED << tail, absq >>
            /\ UNCHANGED << next, prev, val, head, alloc, emptyAt, ok, i, t, h, 
                            fp, new, cur, cn >>

E4(self) == /\ pc[self] = "E4"
            /\ IF ~PrevBeforeCAS
                  THEN /\ prev' = [prev EXCEPT ![t[self]] = new[self]]
                  ELSE /\ TRUE
                       /\ prev' = prev
            /\ pc' = [pc EXCEPT ![self] = "L1"]
            /\ UNCHANGED << next, val, head, tail, alloc, absq, emptyAt, ok, i, 
                            t, h, fp, new, cur, cn >>

D1(self) == /\ pc[self] = "D1"
            /\ h' = [h EXCEPT ![self] = head]
            /\ pc' = [pc EXCEPT ![self] = "D2"]
            /\ UNCHANGED << next, prev, val, head, tail, alloc, absq, emptyAt, 
                            ok, i, t, fp, new, cur, cn >>

D2(self) == /\ pc[self] = "D2"
            /\ t' = [t EXCEPT ![self] = tail]
            /\ emptyAt' = [emptyAt EXCEPT ![self] = (absq = <<>>)]
            /\ pc' = [pc EXCEPT ![self] = "D3"]
            /\ UNCHANGED << next, prev, val, head, tail, alloc, absq, ok, i, h, 
                            fp, new, cur, cn >>

D3(self) == /\ pc[self] = "D3"
            /\ fp' = [fp EXCEPT ![self] = prev[h[self]]]
            /\ pc' = [pc EXCEPT ![self] = "D4"]
            /\ UNCHANGED << next, prev, val, head, tail, alloc, absq, emptyAt, 
                            ok, i, t, h, new, cur, cn >>

D4(self) == /\ pc[self] = "D4"
            /\ IF head # h[self]
                  THEN /\ pc' = [pc EXCEPT ![self] = "D1"]
                  ELSE /\ pc' = [pc EXCEPT ![self] = "D4b"]
            /\ UNCHANGED << next, prev, val, head, tail, alloc, absq, emptyAt, 
                            ok, i, t, h, fp, new, cur, cn >>

D4b(self) == /\ pc[self] = "D4b"
             /\ IF t[self] = h[self]
                   THEN /\ ok' = (ok /\ emptyAt[self])
                        /\ pc' = [pc EXCEPT ![self] = "L1"]
                   ELSE /\ pc' = [pc EXCEPT ![self] = "D5"]
                        /\ ok' = ok
             /\ UNCHANGED << next, prev, val, head, tail, alloc, absq, emptyAt, 
                             i, t, h, fp, new, cur, cn >>

D5(self) == /\ pc[self] = "D5"
            /\ IF ~NoFix /\ (fp[self] = NULL \/ next[fp[self]] # h[self])
                  THEN /\ cur' = [cur EXCEPT ![self] = t[self]]
                       /\ pc' = [pc EXCEPT ![self] = "F1"]
                  ELSE /\ pc' = [pc EXCEPT ![self] = "D6"]
                       /\ cur' = cur
            /\ UNCHANGED << next, prev, val, head, tail, alloc, absq, emptyAt, 
                            ok, i, t, h, fp, new, cn >>

F1(self) == /\ pc[self] = "F1"
            /\ IF cur[self] # h[self]
                  THEN /\ cn' = [cn EXCEPT ![self] = next[cur[self]]]
                       /\ pc' = [pc EXCEPT ![self] = "F2"]
                  ELSE /\ pc' = [pc EXCEPT ![self] = "D1"]
                       /\ cn' = cn
            /\ UNCHANGED << next, prev, val, head, tail, alloc, absq, emptyAt, 
                            ok, i, t, h, fp, new, cur >>

F2(self) == /\ pc[self] = "F2"
            /\ IF head # h[self]
                  THEN /\ pc' = [pc EXCEPT ![self] = "D1"]
                  ELSE /\ pc' = [pc EXCEPT ![self] = "F3"]
            /\ UNCHANGED << next, prev, val, head, tail, alloc, absq, emptyAt, 
                            ok, i, t, h, fp, new, cur, cn >>

F3(self) == /\ pc[self] = "F3"
            /\ prev' = [prev EXCEPT ![cn[self]] = cur[self]]
            /\ cur' = [cur EXCEPT ![self] = cn[self]]
            /\ pc' = [pc EXCEPT ![self] = "F1"]
            /\ UNCHANGED << next, val, head, tail, alloc, absq, emptyAt, ok, i, 
                            t, h, fp, new, cn >>

D6(self) == /\ pc[self] = "D6"
            /\ IF head = h[self]
                  THEN /\ head' = fp[self]
                       /\ ok' = (ok /\ fp[self] # NULL /\ absq # <<>> /\ Head(absq) = val[fp[self]])
                       /\ absq' = Tail(absq)
                       /\ pc' = [pc EXCEPT ![self] = "L1"]
                  ELSE /\ pc' = [pc EXCEPT ![self] = "D1"]
                       /\ UNCHANGED << head, absq, ok >>
            /\ UNCHANGED << next, prev, val, tail, alloc, emptyAt, i, t, h, fp, 
                            new, cur, cn >>

P(self) == L0(self) \/ L1(self) \/ E1(self) \/ E2(self) \/ E3(self)
              \/ E4(self) \/ D1(self) \/ D2(self) \/ D3(self) \/ D4(self)
              \/ D4b(self) \/ D5(self) \/ F1(self) \/ F2(self) \/ F3(self)
              \/ D6(self)

(* Allow infinite stuttering to prevent deadlock on termination. *)
Terminating == /\ \A self \in ProcSet: pc[self] = "Done"
               /\ UNCHANGED vars

Next == (\E self \in Procs: P(self))
           \/ Terminating

Spec == Init /\ [][Next]_vars

Termination == <>(\A self \in ProcSet: pc[self] = "Done")

\* END TRANSLATION
LinOK == ok
\* the next chain from the tail to the head holds exactly the ghost queue (newest first)
Chain == LET C[k \in 0..MaxNodes] == IF k = 0 THEN <<tail>> ELSE LET c == C[k - 1] IN IF c[Len(c)] = head \/ c[Len(c)] = NULL THEN c ELSE Append(c, next[c[Len(c)]]) IN C[MaxNodes]
ListIsQueue == LET ch == Chain IN
               /\ ch[Len(ch)] = head
               /\ Len(ch) = Len(absq) + 1
               /\ \A j \in 1..Len(absq) : val[ch[Len(ch) - j]] = absq[j]
=============================================================================
