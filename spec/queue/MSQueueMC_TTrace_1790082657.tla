---- MODULE MSQueueMC_TTrace_1790082657 ----
EXTENDS Sequences, TLCExt, Toolbox, Naturals, TLC, MSQueueMC

_expression ==
    LET MSQueueMC_TEExpression == INSTANCE MSQueueMC_TEExpression
    IN MSQueueMC_TEExpression!expression
----

_trace ==
    LET MSQueueMC_TETrace == INSTANCE MSQueueMC_TETrace
    IN MSQueueMC_TETrace!trace
----

_inv ==
    ~(
        TLCGet("level") = Len(_TETrace)
        /\
        val = (<<0, 1, 3, 0, 0>>)
        /\
        next = (<<3, 0, 0, 0, 0>>)
        /\
        new = (<<2, 3>>)
        /\
        tail = (1)
        /\
        h = (<<0, 1>>)
        /\
        i = (<<1, 2>>)
        /\
        nx = (<<0, 0>>)
        /\
        head = (1)
        /\
        absq = (<<1, 3>>)
        /\
        pc = (<<"E5", "E5">>)
        /\
        t = (<<1, 1>>)
        /\
        emptyAt = (<<FALSE, TRUE>>)
        /\
        alloc = (3)
        /\
        ok = (TRUE)
    )
----

_init ==
    /\ tail = _TETrace[1].tail
    /\ alloc = _TETrace[1].alloc
    /\ val = _TETrace[1].val
    /\ nx = _TETrace[1].nx
    /\ ok = _TETrace[1].ok
    /\ h = _TETrace[1].h
    /\ i = _TETrace[1].i
    /\ t = _TETrace[1].t
    /\ pc = _TETrace[1].pc
    /\ absq = _TETrace[1].absq
    /\ new = _TETrace[1].new
    /\ next = _TETrace[1].next
    /\ emptyAt = _TETrace[1].emptyAt
    /\ head = _TETrace[1].head
----

_next ==
    /\ \E i,j \in DOMAIN _TETrace:
        /\ \/ /\ j = i + 1
              /\ i = TLCGet("level")
        /\ tail  = _TETrace[i].tail
        /\ tail' = _TETrace[j].tail
        /\ alloc  = _TETrace[i].alloc
        /\ alloc' = _TETrace[j].alloc
        /\ val  = _TETrace[i].val
        /\ val' = _TETrace[j].val
        /\ nx  = _TETrace[i].nx
        /\ nx' = _TETrace[j].nx
        /\ ok  = _TETrace[i].ok
        /\ ok' = _TETrace[j].ok
        /\ h  = _TETrace[i].h
        /\ h' = _TETrace[j].h
        /\ i  = _TETrace[i].i
        /\ i' = _TETrace[j].i
        /\ t  = _TETrace[i].t
        /\ t' = _TETrace[j].t
        /\ pc  = _TETrace[i].pc
        /\ pc' = _TETrace[j].pc
        /\ absq  = _TETrace[i].absq
        /\ absq' = _TETrace[j].absq
        /\ new  = _TETrace[i].new
        /\ new' = _TETrace[j].new
        /\ next  = _TETrace[i].next
        /\ next' = _TETrace[j].next
        /\ emptyAt  = _TETrace[i].emptyAt
        /\ emptyAt' = _TETrace[j].emptyAt
        /\ head  = _TETrace[i].head
        /\ head' = _TETrace[j].head

\* Uncomment the ASSUME below to write the states of the error trace
\* to the given file in Json format. Note that you can pass any tuple
\* to `JsonSerialize`. For example, a sub-sequence of _TETrace.
    \* ASSUME
    \*     LET J == INSTANCE Json
    \*         IN J!JsonSerialize("MSQueueMC_TTrace_1790082657.json", _TETrace)

=============================================================================

 Note that you can extract this module `MSQueueMC_TEExpression`
  to a dedicated file to reuse `expression` (the module in the 
  dedicated `MSQueueMC_TEExpression.tla` file takes precedence 
  over the module `MSQueueMC_TEExpression` below).

---- MODULE MSQueueMC_TEExpression ----
EXTENDS Sequences, TLCExt, Toolbox, Naturals, TLC, MSQueueMC

expression == 
    [
        \* To hide variables of the `MSQueueMC` spec from the error trace,
        \* remove the variables below.  The trace will be written in the order
        \* of the fields of this record.
        tail |-> tail
        ,alloc |-> alloc
        ,val |-> val
        ,nx |-> nx
        ,ok |-> ok
        ,h |-> h
        ,i |-> i
        ,t |-> t
        ,pc |-> pc
        ,absq |-> absq
        ,new |-> new
        ,next |-> next
        ,emptyAt |-> emptyAt
        ,head |-> head
        
        \* Put additional constant-, state-, and action-level expressions here:
        \* ,_stateNumber |-> _TEPosition
        \* ,_tailUnchanged |-> tail = tail'
        
        \* Format the `tail` variable as Json value.
        \* ,_tailJson |->
        \*     LET J == INSTANCE Json
        \*     IN J!ToJson(tail)
        
        \* Lastly, you may build expressions over arbitrary sets of states by
        \* leveraging the _TETrace operator.  For example, this is how to
        \* count the number of times a spec variable changed up to the current
        \* state in the trace.
        \* ,_tailModCount |->
        \*     LET F[s \in DOMAIN _TETrace] ==
        \*         IF s = 1 THEN 0
        \*         ELSE IF _TETrace[s].tail # _TETrace[s-1].tail
        \*             THEN 1 + F[s-1] ELSE F[s-1]
        \*     IN F[_TEPosition - 1]
    ]

=============================================================================



Parsing and semantic processing can take forever if the trace below is long.
 In this case, it is advised to uncomment the module below to deserialize the
 trace from a generated binary file.

\*
\*---- MODULE MSQueueMC_TETrace ----
\*EXTENDS IOUtils, TLC, MSQueueMC
\*
\*trace == IODeserialize("MSQueueMC_TTrace_1790082657.bin", TRUE)
\*
\*=============================================================================
\*

---- MODULE MSQueueMC_TETrace ----
EXTENDS TLC, MSQueueMC

trace == 
    <<
    ([val |-> <<0, 0, 0, 0, 0>>,next |-> <<0, 0, 0, 0, 0>>,new |-> <<0, 0>>,tail |-> 1,h |-> <<0, 0>>,i |-> <<1, 1>>,nx |-> <<0, 0>>,head |-> 1,absq |-> <<>>,pc |-> <<"L0", "L0">>,t |-> <<0, 0>>,emptyAt |-> <<FALSE, FALSE>>,alloc |-> 1,ok |-> TRUE]),
    ([val |-> <<0, 1, 0, 0, 0>>,next |-> <<0, 0, 0, 0, 0>>,new |-> <<2, 0>>,tail |-> 1,h |-> <<0, 0>>,i |-> <<1, 1>>,nx |-> <<0, 0>>,head |-> 1,absq |-> <<>>,pc |-> <<"E1", "L0">>,t |-> <<0, 0>>,emptyAt |-> <<FALSE, FALSE>>,alloc |-> 2,ok |-> TRUE]),
    ([val |-> <<0, 1, 0, 0, 0>>,next |-> <<0, 0, 0, 0, 0>>,new |-> <<2, 0>>,tail |-> 1,h |-> <<0, 0>>,i |-> <<1, 1>>,nx |-> <<0, 0>>,head |-> 1,absq |-> <<>>,pc |-> <<"E2", "L0">>,t |-> <<1, 0>>,emptyAt |-> <<FALSE, FALSE>>,alloc |-> 2,ok |-> TRUE]),
    ([val |-> <<0, 1, 0, 0, 0>>,next |-> <<0, 0, 0, 0, 0>>,new |-> <<2, 0>>,tail |-> 1,h |-> <<0, 0>>,i |-> <<1, 1>>,nx |-> <<0, 0>>,head |-> 1,absq |-> <<>>,pc |-> <<"E4", "L0">>,t |-> <<1, 0>>,emptyAt |-> <<FALSE, FALSE>>,alloc |-> 2,ok |-> TRUE]),
    ([val |-> <<0, 1, 0, 0, 0>>,next |-> <<0, 0, 0, 0, 0>>,new |-> <<2, 0>>,tail |-> 1,h |-> <<0, 0>>,i |-> <<1, 1>>,nx |-> <<0, 0>>,head |-> 1,absq |-> <<>>,pc |-> <<"E4", "D1">>,t |-> <<1, 0>>,emptyAt |-> <<FALSE, FALSE>>,alloc |-> 2,ok |-> TRUE]),
    ([val |-> <<0, 1, 0, 0, 0>>,next |-> <<0, 0, 0, 0, 0>>,new |-> <<2, 0>>,tail |-> 1,h |-> <<0, 1>>,i |-> <<1, 1>>,nx |-> <<0, 0>>,head |-> 1,absq |-> <<>>,pc |-> <<"E4", "D2">>,t |-> <<1, 0>>,emptyAt |-> <<FALSE, FALSE>>,alloc |-> 2,ok |-> TRUE]),
    ([val |-> <<0, 1, 0, 0, 0>>,next |-> <<0, 0, 0, 0, 0>>,new |-> <<2, 0>>,tail |-> 1,h |-> <<0, 1>>,i |-> <<1, 1>>,nx |-> <<0, 0>>,head |-> 1,absq |-> <<>>,pc |-> <<"E4", "D3">>,t |-> <<1, 0>>,emptyAt |-> <<FALSE, TRUE>>,alloc |-> 2,ok |-> TRUE]),
    ([val |-> <<0, 1, 0, 0, 0>>,next |-> <<0, 0, 0, 0, 0>>,new |-> <<2, 0>>,tail |-> 1,h |-> <<0, 1>>,i |-> <<1, 1>>,nx |-> <<0, 0>>,head |-> 1,absq |-> <<>>,pc |-> <<"E4", "D4">>,t |-> <<1, 0>>,emptyAt |-> <<FALSE, TRUE>>,alloc |-> 2,ok |-> TRUE]),
    ([val |-> <<0, 1, 0, 0, 0>>,next |-> <<0, 0, 0, 0, 0>>,new |-> <<2, 0>>,tail |-> 1,h |-> <<0, 1>>,i |-> <<1, 1>>,nx |-> <<0, 0>>,head |-> 1,absq |-> <<>>,pc |-> <<"E4", "L1">>,t |-> <<1, 0>>,emptyAt |-> <<FALSE, TRUE>>,alloc |-> 2,ok |-> TRUE]),
    ([val |-> <<0, 1, 0, 0, 0>>,next |-> <<0, 0, 0, 0, 0>>,new |-> <<2, 0>>,tail |-> 1,h |-> <<0, 1>>,i |-> <<1, 2>>,nx |-> <<0, 0>>,head |-> 1,absq |-> <<>>,pc |-> <<"E4", "L0">>,t |-> <<1, 0>>,emptyAt |-> <<FALSE, TRUE>>,alloc |-> 2,ok |-> TRUE]),
    ([val |-> <<0, 1, 3, 0, 0>>,next |-> <<0, 0, 0, 0, 0>>,new |-> <<2, 3>>,tail |-> 1,h |-> <<0, 1>>,i |-> <<1, 2>>,nx |-> <<0, 0>>,head |-> 1,absq |-> <<>>,pc |-> <<"E4", "E1">>,t |-> <<1, 0>>,emptyAt |-> <<FALSE, TRUE>>,alloc |-> 3,ok |-> TRUE]),
    ([val |-> <<0, 1, 3, 0, 0>>,next |-> <<0, 0, 0, 0, 0>>,new |-> <<2, 3>>,tail |-> 1,h |-> <<0, 1>>,i |-> <<1, 2>>,nx |-> <<0, 0>>,head |-> 1,absq |-> <<>>,pc |-> <<"E4", "E2">>,t |-> <<1, 1>>,emptyAt |-> <<FALSE, TRUE>>,alloc |-> 3,ok |-> TRUE]),
    ([val |-> <<0, 1, 3, 0, 0>>,next |-> <<0, 0, 0, 0, 0>>,new |-> <<2, 3>>,tail |-> 1,h |-> <<0, 1>>,i |-> <<1, 2>>,nx |-> <<0, 0>>,head |-> 1,absq |-> <<>>,pc |-> <<"E4", "E4">>,t |-> <<1, 1>>,emptyAt |-> <<FALSE, TRUE>>,alloc |-> 3,ok |-> TRUE]),
    ([val |-> <<0, 1, 3, 0, 0>>,next |-> <<2, 0, 0, 0, 0>>,new |-> <<2, 3>>,tail |-> 1,h |-> <<0, 1>>,i |-> <<1, 2>>,nx |-> <<0, 0>>,head |-> 1,absq |-> <<1>>,pc |-> <<"E5", "E4">>,t |-> <<1, 1>>,emptyAt |-> <<FALSE, TRUE>>,alloc |-> 3,ok |-> TRUE]),
    ([val |-> <<0, 1, 3, 0, 0>>,next |-> <<3, 0, 0, 0, 0>>,new |-> <<2, 3>>,tail |-> 1,h |-> <<0, 1>>,i |-> <<1, 2>>,nx |-> <<0, 0>>,head |-> 1,absq |-> <<1, 3>>,pc |-> <<"E5", "E5">>,t |-> <<1, 1>>,emptyAt |-> <<FALSE, TRUE>>,alloc |-> 3,ok |-> TRUE])
    >>
----


=============================================================================

---- CONFIG MSQueueMC_TTrace_1790082657 ----
CONSTANTS
    Procs = { 1 , 2 }
    Prog <- P2
    MaxNodes = 5
    NoTailCheck = FALSE
    BlindLink = TRUE

INVARIANT
    _inv

CHECK_DEADLOCK
    \* CHECK_DEADLOCK off because of PROPERTY or INVARIANT above.
    FALSE

INIT
    _init

NEXT
    _next

CONSTANT
    _TETrace <- _trace

ALIAS
    _expression
=============================================================================
\* Generated on Tue Sep 22 13:10:59 UTC 2026