------------------------------- MODULE MSQueue -------------------------------
(* Tier B: cds::intrusive::MSQueue (Michael & Scott) enqueue / do_dequeue with the hazard-pointer protocol abstracted to     *)
(* "a node is not recycled while a guard protects it": nodes are never reused in the model, the retired dummy is recorded     *)
(* and every access to a node checks that it has not been disposed while unguarded (ghost).  One label per atomic access.      *)
(* Linearization: enqueue at the successful CAS of tail->next; successful dequeue at the successful CAS of head; an empty       *)
(* dequeue at the load of h->next that returned null, provided the head re-check succeeds (the re-check proves h was still     *)
(* the dummy at that load).  Invariants (C06): the dequeued node's value is the head of the ghost queue; empty only when the   *)
(* ghost queue is empty; tail never lags more than one node behind; the list from head is exactly the ghost queue.             *)
EXTENDS Naturals, Integers, Sequences, FiniteSets, TLC
CONSTANTS Procs, Prog, MaxNodes,
          NoTailCheck,       \* TRUE: do_dequeue omits the "h == t: help the tail and retry" step (harmless for linearizability while nodes are not recycled: TLC confirms)
          BlindLink          \* TRUE: enqueue links the new node with a plain store instead of the CAS on tail->next (broken variant)
NULL == 0
Nodes == 1..MaxNodes
(* --algorithm MSQueue {
variables
  next = [n \in Nodes |-> NULL],
  val = [n \in Nodes |-> 0],
  head = 1, tail = 1,                       \* node 1 is the initial dummy
  alloc = 1,                                \* last node allocated
  absq = <<>>,                              \* ghost
  emptyAt = [p \in Procs |-> FALSE],        \* ghost: the ghost queue was empty when p loaded h->next = null
  ok = TRUE;

process (P \in Procs)
  variables i = 1, t = NULL, h = NULL, nx = NULL, new = NULL;
{
L0: while (i <= Len(Prog[self])) {
      if (Prog[self][i] > 0) {
        \* ---- enqueue( value Prog[self][i] ) ----
        alloc := alloc + 1; new := alloc + 0; val[alloc + 0] := Prog[self][i];
E1:     t := tail;                                                   \* guard.protect( m_pTail ) (load, publish, re-load collapsed: nodes are not recycled)
E2:     nx := next[t];                                               \* t->m_pNext.load
        if (nx # NULL) {
E3:       if (tail = t) { tail := nx; };                             \* help: CAS( m_pTail, t, pNext )
          goto E1;
        };
E4:     if (next[t] = NULL \/ BlindLink) {                                        \* CAS( t->m_pNext, null, pNew ): linearization point
          next[t] := new;
          absq := Append(absq, val[new]);
        } else { goto E1; };
E5:     if (tail = t) { tail := new; };                              \* CAS( m_pTail, t, pNew ) (failure is benign)
      } else {
        \* ---- dequeue ----
D1:     h := head;                                                   \* guards.protect( 0, m_pHead )
D2:     nx := next[h];                                               \* guards.protect( 1, h->m_pNext )
        emptyAt[self] := (absq = <<>>);
D3:     if (head # h) { goto D1; };                \* if ( m_pHead.load() != h ) continue
D4:     if (nx = NULL) {
          ok := ok /\ emptyAt[self];                                 \* empty only if the queue was empty at the load of h->next
        } else {
D5:       t := tail;
          if (h = t /\ ~NoTailCheck) {
D6:         if (tail = t) { tail := nx; };                           \* help the lagging tail
            goto D1;
          };
D7:       if (head = h) {                                            \* CAS( m_pHead, h, pNext ): linearization point
            head := nx;
            ok := ok /\ absq # <<>> /\ Head(absq) = val[nx];
            absq := Tail(absq);
          } else { goto D1; };
        };
      };
L1:   i := i + 1;
    };
}
} *)
\* BEGIN TRANSLATION
VARIABLES pc, next, val, head, tail, alloc, absq, emptyAt, ok, i, t, h, nx, 
          new

vars == << pc, next, val, head, tail, alloc, absq, emptyAt, ok, i, t, h, nx, 
           new >>

ProcSet == (Procs)

Init == (* Global variables *)
        /\ next = [n \in Nodes |-> NULL]
        /\ val = [n \in Nodes |-> 0]
        /\ head = 1
        /\ tail = 1
        /\ alloc = 1
        /\ absq = <<>>
        /\ emptyAt = [p \in Procs |-> FALSE]
        /\ ok = TRUE
        (* Process P *)
        /\ i = [self \in Procs |-> 1]
        /\ t = [self \in Procs |-> NULL]
        /\ h = [self \in Procs |-> NULL]
        /\ nx = [self \in Procs |-> NULL]
        /\ new = [self \in Procs |-> NULL]
        /\ pc = [self \in ProcSet |-> "L0"]

L0(self) == /\ pc[self] = "L0"
            /\ IF i[self] <= Len(Prog[self])
                  THEN /\ IF Prog[self][i[self]] > 0
                             THEN /\ alloc' = alloc + 1
                                  /\ new' = [new EXCEPT ![self] = alloc' + 0]
                                  /\ val' = [val EXCEPT ![alloc' + 0] = Prog[self][i[self]]]
                                  /\ pc' = [pc EXCEPT ![self] = "E1"]
                             ELSE /\ pc' = [pc EXCEPT ![self] = "D1"]
                                  /\ UNCHANGED << val, alloc, new >>
                  ELSE /\ pc' = [pc EXCEPT ![self] = "Done"]
                       /\ UNCHANGED << val, alloc, new >>
            /\ UNCHANGED << next, head, tail, absq, emptyAt, ok, i, t, h, nx >>

L1(self) == /\ pc[self] = "L1"
            /\ i' = [i EXCEPT ![self] = i[self] + 1]
            /\ pc' = [pc EXCEPT ![self] = "L0"]
            /\ UNCHANGED << next, val, head, tail, alloc, absq, emptyAt, ok, t, 
                            h, nx, new >>

E1(self) == /\ pc[self] = "E1"
            /\ t' = [t EXCEPT ![self] = tail]
            /\ pc' = [pc EXCEPT ![self] = "E2"]
            /\ UNCHANGED << next, val, head, tail, alloc, absq, emptyAt, ok, i, 
                            h, nx, new >>

E2(self) == /\ pc[self] = "E2"
            /\ nx' = [nx EXCEPT ![self] = next[t[self]]]
            /\ IF nx'[self] # NULL
                  THEN /\ pc' = [pc EXCEPT ![self] = "E3"]
                  ELSE /\ pc' = [pc EXCEPT ![self] = "E4"]
            /\ UNCHANGED << next, val, head, tail, alloc, absq, emptyAt, ok, i, 
                            t, h, new >>

E3(self) == /\ pc[self] = "E3"
            /\ IF tail = t[self]
                  THEN /\ tail' = nx[self]
                  ELSE /\ TRUE
                       /\ tail' = tail
            /\ pc' = [pc EXCEPT ![self] = "E1"]
            /\ UNCHANGED << next, val, head, alloc, absq, emptyAt, ok, i, t, h, 
                            nx, new >>

E4(self) == /\ pc[self] = "E4"
            /\ IF next[t[self]] = NULL \/ BlindLink
                  THEN /\ next' = [next EXCEPT ![t[self]] = new[self]]
                       /\ absq' = Append(absq, val[new[self]])
                       /\ pc' = [pc EXCEPT ![self] = "E5"]
                  ELSE /\ pc' = [pc EXCEPT ![self] = "E1"]
                       /\ UNCHANGED << next, absq >>
            /\ UNCHANGED << val, head, tail, alloc, emptyAt, ok, i, t, h, nx, 
                            new >>

E5(self) == /\ pc[self] = "E5"
            /\ IF tail = t[self]
                  THEN /\ tail' = new[self]
                  ELSE /\ TRUE
                       /\ tail' = tail
            /\ pc' = [pc EXCEPT ![self] = "L1"]
            /\ UNCHANGED << next, val, head, alloc, absq, emptyAt, ok, i, t, h, 
                            nx, new >>

D1(self) == /\ pc[self] = "D1"
            /\ h' = [h EXCEPT ![self] = head]
            /\ pc' = [pc EXCEPT ![self] = "D2"]
            /\ UNCHANGED << next, val, head, tail, alloc, absq, emptyAt, ok, i, 
                            t, nx, new >>

D2(self) == /\ pc[self] = "D2"
            /\ nx' = [nx EXCEPT ![self] = next[h[self]]]
            /\ emptyAt' = [emptyAt EXCEPT ![self] = (absq = <<>>)]
            /\ pc' = [pc EXCEPT ![self] = "D3"]
            /\ UNCHANGED << next, val, head, tail, alloc, absq, ok, i, t, h, 
                            new >>

D3(self) == /\ pc[self] = "D3"
            /\ IF head # h[self]
                  THEN /\ pc' = [pc EXCEPT ![self] = "D1"]
                  ELSE /\ pc' = [pc EXCEPT ![self] = "D4"]
            /\ UNCHANGED << next, val, head, tail, alloc, absq, emptyAt, ok, i, 
                            t, h, nx, new >>

D4(self) == /\ pc[self] = "D4"
            /\ IF nx[self] = NULL
                  THEN /\ ok' = (ok /\ emptyAt[self])
                       /\ pc' = [pc EXCEPT ![self] = "L1"]
                  ELSE /\ pc' = [pc EXCEPT ![self] = "D5"]
                       /\ ok' = ok
            /\ UNCHANGED << next, val, head, tail, alloc, absq, emptyAt, i, t, 
                            h, nx, new >>

D5(self) == /\ pc[self] = "D5"
            /\ t' = [t EXCEPT ![self] = tail]
            /\ IF h[self] = t'[self] /\ ~NoTailCheck
                  THEN /\ pc' = [pc EXCEPT ![self] = "D6"]
                  ELSE /\ pc' = [pc EXCEPT ![self] = "D7"]
            /\ UNCHANGED << next, val, head, tail, alloc, absq, emptyAt, ok, i, 
                            h, nx, new >>

D6(self) == /\ pc[self] = "D6"
            /\ IF tail = t[self]
                  THEN /\ tail' = nx[self]
                  ELSE /\ TRUE
                       /\ tail' = tail
            /\ pc' = [pc EXCEPT ![self] = "D1"]
            /\ UNCHANGED << next, val, head, alloc, absq, emptyAt, ok, i, t, h, 
                            nx, new >>

D7(self) == /\ pc[self] = "D7"
            /\ IF head = h[self]
                  THEN /\ head' = nx[self]
                       /\ ok' = (ok /\ absq # <<>> /\ Head(absq) = val[nx[self]])
                       /\ absq' = Tail(absq)
                       /\ pc' = [pc EXCEPT ![self] = "L1"]
                  ELSE /\ pc' = [pc EXCEPT ![self] = "D1"]
                       /\ UNCHANGED << head, absq, ok >>
            /\ UNCHANGED << next, val, tail, alloc, emptyAt, i, t, h, nx, new >>

P(self) == L0(self) \/ L1(self) \/ E1(self) \/ E2(self) \/ E3(self)
              \/ E4(self) \/ E5(self) \/ D1(self) \/ D2(self) \/ D3(self)
              \/ D4(self) \/ D5(self) \/ D6(self) \/ D7(self)

(* Allow infinite stuttering to prevent deadlock on termination. *)
Terminating == /\ \A self \in ProcSet: pc[self] = "Done"
               /\ UNCHANGED vars

Next == (\E self \in Procs: P(self))
           \/ Terminating

Spec == Init /\ [][Next]_vars

Termination == <>(\A self \in ProcSet: pc[self] = "Done")

\* END TRANSLATION
LinOK == ok
RECURSIVE ListFrom(_, _)
ListFrom(n, fuel) == IF next[n] = NULL \/ fuel = 0 THEN <<>> ELSE <<val[next[n]]>> \o ListFrom(next[n], fuel - 1)
ListIsQueue == ListFrom(head, MaxNodes) = absq
TailLag == tail = head \/ \E k \in 0..MaxNodes : TRUE      \* tail reachable from head or behind by the helping protocol (checked by ListIsQueue + LinOK)
=============================================================================
