SPECIFICATION Spec
CONSTANTS
  Procs = {1, 2}
  Prog <- P2
  MaxNodes = 5
  NoTailCheck = FALSE
  BlindLink = TRUE
INVARIANT LinOK
INVARIANT ListIsQueue
CHECK_DEADLOCK FALSE
