SPECIFICATION Spec
CONSTANTS
  Cap = 4
  Procs = {1, 2, 3, 4}
  Prog <- P4
  MaskedFull = FALSE
  StaleCell = FALSE
  Textbook = FALSE
INVARIANT LinOK
CHECK_DEADLOCK FALSE
