SPECIFICATION Spec
CONSTANTS
  Cap = 2
  Procs = {1, 2, 3}
  Prog <- P3
  Textbook = TRUE
INVARIANT LinOK
CHECK_DEADLOCK FALSE
