---- MODULE SegQueue ----
\* Tier B: cds::intrusive::SegmentedQueue (segmented_queue.h): a list of segments of K cells each (segment list under a lock,
\* m_pHead / m_pTail published atomically), enqueue claims any empty cell of the tail segment by CAS (cells probed in a random
\* permutation), dequeue marks any full cell of the head segment by CAS; a populated tail gets a successor, an exhausted head is removed.
\*   HoistExpected -- seeded change C08: the expected value of enqueue's cell CAS is initialised once, outside the probe loop
EXTENDS Naturals, Sequences, FiniteSets, TLC
CONSTANTS Procs, Prog, K, MaxSeg, HoistExpected
NIL == 0
EMPTY == 0
Cells == 1..K
(* --algorithm SegQueue {
variables
  cell = [s \in 1..MaxSeg |-> [c \in Cells |-> EMPTY]],      \* EMPTY, a value v > 0, or 1000 + v (dequeued mark)
  list = <<>>,                                                \* m_List (under m_Lock): sequence of segment ids
  pHead = NIL, pTail = NIL, nseg = 0, slock = NIL,
  enq = {}, deq = <<>>, falseEmpty = FALSE;

define {
  Live == { cell[s][c] : s \in 1..MaxSeg, c \in Cells } \cap (1..999)     \* enqueued and not yet dequeued
}

process (P \in Procs)
  variables i = 1, seg = NIL, todo = {}, ci = 0, expd = EMPTY, item = 0, hadNull = FALSE, v = 0, sawLive = {};
{
L0: while (i <= Len(Prog[self])) {
      if (Prog[self][i] > 0) {
        v := Prog[self][i];
E1:     seg := pTail;                                           \* m_SegmentList.tail( guard )
        if (seg = NIL) { goto E6; };
E2:     todo := Cells; expd := EMPTY;
E3:     while (todo # {}) {
          with (c \in todo) { ci := c; todo := todo \ {c}; };
          if (~HoistExpected) { expd := EMPTY; };
E4:       if (cell[seg][ci] # EMPTY) { skip; }                  \* cells[i].data.load(): occupied
          else {
E5:         if (cell[seg][ci] = expd) { cell[seg][ci] := v; enq := enq \cup {v}; goto L1; }      \* CAS( nullCell -> &val )
            else { expd := cell[seg][ci]; };                    \* a failed CAS stores the observed value into the expected one
          };
        };
E6:     await slock = NIL; slock := self;                       \* create_tail( pTailSegment )
E7:     if (list # <<>> /\ seg # list[Len(list)]) { pTail := list[Len(list)]; seg := list[Len(list)]; }
        else { nseg := nseg + 1; list := Append(list, nseg);
               if (Len(list) = 1) { pHead := nseg; }; pTail := nseg; seg := nseg; };
        slock := NIL;
        goto E2;
      } else {
D1:     seg := pHead; sawLive := Live;                          \* m_SegmentList.head( guard )
D2:     if (seg = NIL) { falseEmpty := falseEmpty \/ (sawLive \cap Live # {}); goto L1; };
D2b:    todo := Cells; hadNull := FALSE;
D3:     while (todo # {}) {
          with (c \in todo) { ci := c; todo := todo \ {c}; };
D4:       item := cell[seg][ci];
          if (item = EMPTY) { hadNull := TRUE; }
          else if (item < 1000) {
D5:         if (cell[seg][ci] = item) { cell[seg][ci] := 1000 + item; deq := Append(deq, item); goto L1; };      \* CAS( item -> item | 1 )
          };
        };
D6:     if (hadNull) {
          \* "empty": wrong if some item was in the queue during the whole call
          falseEmpty := falseEmpty \/ (sawLive \cap Live # {});
          goto L1;
        };
D7:     await slock = NIL; slock := self;                       \* remove_head( pHeadSegment )
D8:     if (list = <<>>) { pTail := NIL; pHead := NIL; seg := NIL; }
        else if (seg # list[1]) { pHead := list[1]; seg := list[1]; }
        else { list := Tail(list);                              \* m_List.pop_front(); below "list" is the new value
               if (list = <<>>) { pTail := NIL; pHead := NIL; seg := NIL; } else { pHead := list[1]; seg := list[1]; }; };
        slock := NIL;
        goto D2;
      };
L1:   i := i + 1;
    };
}
} *)
\* BEGIN TRANSLATION
VARIABLES pc, cell, list, pHead, pTail, nseg, slock, enq, deq, falseEmpty

(* define statement *)
Live == { cell[s][c] : s \in 1..MaxSeg, c \in Cells } \cap (1..999)

VARIABLES i, seg, todo, ci, expd, item, hadNull, v, sawLive

vars == << pc, cell, list, pHead, pTail, nseg, slock, enq, deq, falseEmpty, i, 
           seg, todo, ci, expd, item, hadNull, v, sawLive >>

ProcSet == (Procs)

Init == (* Global variables *)
        /\ cell = [s \in 1..MaxSeg |-> [c \in Cells |-> EMPTY]]
        /\ list = <<>>
        /\ pHead = NIL
        /\ pTail = NIL
        /\ nseg = 0
        /\ slock = NIL
        /\ enq = {}
        /\ deq = <<>>
        /\ falseEmpty = FALSE
        (* Process P *)
        /\ i = [self \in Procs |-> 1]
        /\ seg = [self \in Procs |-> NIL]
        /\ todo = [self \in Procs |-> {}]
        /\ ci = [self \in Procs |-> 0]
        /\ expd = [self \in Procs |-> EMPTY]
        /\ item = [self \in Procs |-> 0]
        /\ hadNull = [self \in Procs |-> FALSE]
        /\ v = [self \in Procs |-> 0]
        /\ sawLive = [self \in Procs |-> {}]
        /\ pc = [self \in ProcSet |-> "L0"]

L0(self) == /\ pc[self] = "L0"
            /\ IF i[self] <= Len(Prog[self])
                  THEN /\ IF Prog[self][i[self]] > 0
                             THEN /\ v' = [v EXCEPT ![self] = Prog[self][i[self]]]
                                  /\ pc' = [pc EXCEPT ![self] = "E1"]
                             ELSE /\ pc' = [pc EXCEPT ![self] = "D1"]
                                  /\ v' = v
                  ELSE /\ pc' = [pc EXCEPT ![self] = "Done"]
                       /\ v' = v
            /\ UNCHANGED << cell, list, pHead, pTail, nseg, slock, enq, deq, 
                            falseEmpty, i, seg, todo, ci, expd, item, hadNull, 
                            sawLive >>

L1(self) == /\ pc[self] = "L1"
            /\ i' = [i EXCEPT ![self] = i[self] + 1]
            /\ pc' = [pc EXCEPT ![self] = "L0"]
            /\ UNCHANGED << cell, list, pHead, pTail, nseg, slock, enq, deq, 
                            falseEmpty, seg, todo, ci, expd, item, hadNull, v, 
                            sawLive >>

E1(self) == /\ pc[self] = "E1"
            /\ seg' = [seg EXCEPT ![self] = pTail]
            /\ IF seg'[self] = NIL
                  THEN /\ pc' = [pc EXCEPT ![self] = "E6"]
                  ELSE /\ pc' = [pc EXCEPT ![self] = "E2"]
            /\ UNCHANGED << cell, list, pHead, pTail, nseg, slock, enq, deq, 
                            falseEmpty, i, todo, ci, expd, item, hadNull, v, 
                            sawLive >>

E2(self) == /\ pc[self] = "E2"
            /\ todo' = [todo EXCEPT ![self] = Cells]
            /\ expd' = [expd EXCEPT ![self] = EMPTY]
            /\ pc' = [pc EXCEPT ![self] = "E3"]
            /\ UNCHANGED << cell, list, pHead, pTail, nseg, slock, enq, deq, 
                            falseEmpty, i, seg, ci, item, hadNull, v, sawLive >>

E3(self) == /\ pc[self] = "E3"
            /\ IF todo[self] # {}
                  THEN /\ \E c \in todo[self]:
                            /\ ci' = [ci EXCEPT ![self] = c]
                            /\ todo' = [todo EXCEPT ![self] = todo[self] \ {c}]
                       /\ IF ~HoistExpected
                             THEN /\ expd' = [expd EXCEPT ![self] = EMPTY]
                             ELSE /\ TRUE
                                  /\ expd' = expd
                       /\ pc' = [pc EXCEPT ![self] = "E4"]
                  ELSE /\ pc' = [pc EXCEPT ![self] = "E6"]
                       /\ UNCHANGED << todo, ci, expd >>
            /\ UNCHANGED << cell, list, pHead, pTail, nseg, slock, enq, deq, 
                            falseEmpty, i, seg, item, hadNull, v, sawLive >>

E4(self) == /\ pc[self] = "E4"
            /\ IF cell[seg[self]][ci[self]] # EMPTY
                  THEN /\ TRUE
                       /\ pc' = [pc EXCEPT ![self] = "E3"]
                  ELSE /\ pc' = [pc EXCEPT ![self] = "E5"]
            /\ UNCHANGED << cell, list, pHead, pTail, nseg, slock, enq, deq, 
                            falseEmpty, i, seg, todo, ci, expd, item, hadNull, 
                            v, sawLive >>

E5(self) == /\ pc[self] = "E5"
            /\ IF cell[seg[self]][ci[self]] = expd[self]
                  THEN /\ cell' = [cell EXCEPT ![seg[self]][ci[self]] = v[self]]
                       /\ enq' = (enq \cup {v[self]})
                       /\ pc' = [pc EXCEPT ![self] = "L1"]
                       /\ expd' = expd
                  ELSE /\ expd' = [expd EXCEPT ![self] = cell[seg[self]][ci[self]]]
                       /\ pc' = [pc EXCEPT ![self] = "E3"]
                       /\ UNCHANGED << cell, enq >>
            /\ UNCHANGED << list, pHead, pTail, nseg, slock, deq, falseEmpty, 
                            i, seg, todo, ci, item, hadNull, v, sawLive >>

E6(self) == /\ pc[self] = "E6"
            /\ slock = NIL
            /\ slock' = self
            /\ pc' = [pc EXCEPT ![self] = "E7"]
            /\ UNCHANGED << cell, list, pHead, pTail, nseg, enq, deq, 
                            falseEmpty, i, seg, todo, ci, expd, item, hadNull, 
                            v, sawLive >>

E7(self) == /\ pc[self] = "E7"
            /\ IF list # <<>> /\ seg[self] # list[Len(list)]
                  THEN /\ pTail' = list[Len(list)]
                       /\ seg' = [seg EXCEPT ![self] = list[Len(list)]]
                       /\ UNCHANGED << list, pHead, nseg >>
                  ELSE /\ nseg' = nseg + 1
                       /\ list' = Append(list, nseg')
                       /\ IF Len(list') = 1
                             THEN /\ pHead' = nseg'
                             ELSE /\ TRUE
                                  /\ pHead' = pHead
                       /\ pTail' = nseg'
                       /\ seg' = [seg EXCEPT ![self] = nseg']
            /\ slock' = NIL
            /\ pc' = [pc EXCEPT ![self] = "E2"]
            /\ UNCHANGED << cell, enq, deq, falseEmpty, i, todo, ci, expd, 
                            item, hadNull, v, sawLive >>

D1(self) == /\ pc[self] = "D1"
            /\ seg' = [seg EXCEPT ![self] = pHead]
            /\ sawLive' = [sawLive EXCEPT ![self] = Live]
            /\ pc' = [pc EXCEPT ![self] = "D2"]
            /\ UNCHANGED << cell, list, pHead, pTail, nseg, slock, enq, deq, 
                            falseEmpty, i, todo, ci, expd, item, hadNull, v >>

D2(self) == /\ pc[self] = "D2"
            /\ IF seg[self] = NIL
                  THEN /\ falseEmpty' = (falseEmpty \/ (sawLive[self] \cap Live # {}))
                       /\ pc' = [pc EXCEPT ![self] = "L1"]
                  ELSE /\ pc' = [pc EXCEPT ![self] = "D2b"]
                       /\ UNCHANGED falseEmpty
            /\ UNCHANGED << cell, list, pHead, pTail, nseg, slock, enq, deq, i, 
                            seg, todo, ci, expd, item, hadNull, v, sawLive >>

D2b(self) == /\ pc[self] = "D2b"
             /\ todo' = [todo EXCEPT ![self] = Cells]
             /\ hadNull' = [hadNull EXCEPT ![self] = FALSE]
             /\ pc' = [pc EXCEPT ![self] = "D3"]
             /\ UNCHANGED << cell, list, pHead, pTail, nseg, slock, enq, deq, 
                             falseEmpty, i, seg, ci, expd, item, v, sawLive >>

D3(self) == /\ pc[self] = "D3"
            /\ IF todo[self] # {}
                  THEN /\ \E c \in todo[self]:
                            /\ ci' = [ci EXCEPT ![self] = c]
                            /\ todo' = [todo EXCEPT ![self] = todo[self] \ {c}]
                       /\ pc' = [pc EXCEPT ![self] = "D4"]
                  ELSE /\ pc' = [pc EXCEPT ![self] = "D6"]
                       /\ UNCHANGED << todo, ci >>
            /\ UNCHANGED << cell, list, pHead, pTail, nseg, slock, enq, deq, 
                            falseEmpty, i, seg, expd, item, hadNull, v, 
                            sawLive >>

D4(self) == /\ pc[self] = "D4"
            /\ item' = [item EXCEPT ![self] = cell[seg[self]][ci[self]]]
            /\ IF item'[self] = EMPTY
                  THEN /\ hadNull' = [hadNull EXCEPT ![self] = TRUE]
                       /\ pc' = [pc EXCEPT ![self] = "D3"]
                  ELSE /\ IF item'[self] < 1000
                             THEN /\ pc' = [pc EXCEPT ![self] = "D5"]
                             ELSE /\ pc' = [pc EXCEPT ![self] = "D3"]
                       /\ UNCHANGED hadNull
            /\ UNCHANGED << cell, list, pHead, pTail, nseg, slock, enq, deq, 
                            falseEmpty, i, seg, todo, ci, expd, v, sawLive >>

D5(self) == /\ pc[self] = "D5"
            /\ IF cell[seg[self]][ci[self]] = item[self]
                  THEN /\ cell' = [cell EXCEPT ![seg[self]][ci[self]] = 1000 + item[self]]
                       /\ deq' = Append(deq, item[self])
                       /\ pc' = [pc EXCEPT ![self] = "L1"]
                  ELSE /\ pc' = [pc EXCEPT ![self] = "D3"]
                       /\ UNCHANGED << cell, deq >>
            /\ UNCHANGED << list, pHead, pTail, nseg, slock, enq, falseEmpty, 
                            i, seg, todo, ci, expd, item, hadNull, v, sawLive >>

D6(self) == /\ pc[self] = "D6"
            /\ IF hadNull[self]
                  THEN /\ falseEmpty' = (falseEmpty \/ (sawLive[self] \cap Live # {}))
                       /\ pc' = [pc EXCEPT ![self] = "L1"]
                  ELSE /\ pc' = [pc EXCEPT ![self] = "D7"]
                       /\ UNCHANGED falseEmpty
            /\ UNCHANGED << cell, list, pHead, pTail, nseg, slock, enq, deq, i, 
                            seg, todo, ci, expd, item, hadNull, v, sawLive >>

D7(self) == /\ pc[self] = "D7"
            /\ slock = NIL
            /\ slock' = self
            /\ pc' = [pc EXCEPT ![self] = "D8"]
            /\ UNCHANGED << cell, list, pHead, pTail, nseg, enq, deq, 
                            falseEmpty, i, seg, todo, ci, expd, item, hadNull, 
                            v, sawLive >>

D8(self) == /\ pc[self] = "D8"
            /\ IF list = <<>>
                  THEN /\ pTail' = NIL
                       /\ pHead' = NIL
                       /\ seg' = [seg EXCEPT ![self] = NIL]
                       /\ list' = list
                  ELSE /\ IF seg[self] # list[1]
                             THEN /\ pHead' = list[1]
                                  /\ seg' = [seg EXCEPT ![self] = list[1]]
                                  /\ UNCHANGED << list, pTail >>
                             ELSE /\ list' = Tail(list)
                                  /\ IF list' = <<>>
                                        THEN /\ pTail' = NIL
                                             /\ pHead' = NIL
                                             /\ seg' = [seg EXCEPT ![self] = NIL]
                                        ELSE /\ pHead' = list'[1]
                                             /\ seg' = [seg EXCEPT ![self] = list'[1]]
                                             /\ pTail' = pTail
            /\ slock' = NIL
            /\ pc' = [pc EXCEPT ![self] = "D2"]
            /\ UNCHANGED << cell, nseg, enq, deq, falseEmpty, i, todo, ci, 
                            expd, item, hadNull, v, sawLive >>

P(self) == L0(self) \/ L1(self) \/ E1(self) \/ E2(self) \/ E3(self)
              \/ E4(self) \/ E5(self) \/ E6(self) \/ E7(self) \/ D1(self)
              \/ D2(self) \/ D2b(self) \/ D3(self) \/ D4(self) \/ D5(self)
              \/ D6(self) \/ D7(self) \/ D8(self)

(* Allow infinite stuttering to prevent deadlock on termination. *)
Terminating == /\ \A self \in ProcSet: pc[self] = "Done"
               /\ UNCHANGED vars

Next == (\E self \in Procs: P(self))
           \/ Terminating

Spec == Init /\ [][Next]_vars

Termination == <>(\A self \in ProcSet: pc[self] = "Done")

\* END TRANSLATION
AllDone == \A p \in Procs : pc[p] = "Done"
SeqSet(s) == { s[j] : j \in 1..Len(s) }
NoDup == \A a, b \in 1..Len(deq) : a # b => deq[a] # deq[b]
OnlyEnqueued == SeqSet(deq) \subseteq enq
\* every segment but the last one is fully populated: enqueue never leaves a hole behind (assert( populated( m_List.back())) in create_tail)
Populated == \A j \in 1..(Len(list) - 1) : \A c \in Cells : cell[list[j]][c] # EMPTY
Conservation == AllDone => SeqSet(deq) \cup Live = enq /\ SeqSet(deq) \cap Live = {}
NoFalseEmpty == ~falseEmpty
====
