SPECIFICATION Spec
CONSTANTS
  Procs = {1, 2, 3}
  Prog <- P3b
  MaxNodes = 5
  PrevBeforeCAS = FALSE
  NoFix = FALSE
INVARIANT LinOK
INVARIANT ListIsQueue
CHECK_DEADLOCK FALSE
