SPECIFICATION Spec
CONSTANTS
  Procs = {1, 2, 3}
  Prog <- P3
  MaxNodes = 5
  NoTailCheck = FALSE
  BlindLink = FALSE
INVARIANT LinOK
INVARIANT ListIsQueue
CHECK_DEADLOCK FALSE
