---- MODULE OptQueueMC ----
EXTENDS OptQueue
\* positive number = enqueue that value, 0 = dequeue
P2 == (1 :> <<1, 2, 0>>) @@ (2 :> <<0, 3, 0>>)
P3 == (1 :> <<1, 0>>) @@ (2 :> <<0, 2>>) @@ (3 :> <<3, 0>>)
P3b == (1 :> <<1, 2>>) @@ (2 :> <<3, 0>>) @@ (3 :> <<0, 0>>)
====
