SPECIFICATION Spec
CONSTANTS
  Procs = {1, 2, 3}
  Prog <- S3
  K = 2
  MaxSeg = 4
  HoistExpected = TRUE
INVARIANTS NoDup OnlyEnqueued Populated Conservation NoFalseEmpty
CHECK_DEADLOCK FALSE
