------------------------------- MODULE LinQueue -------------------------------
(* Sequential FIFO queue, optionally bounded (cap = 0: unbounded).  Oracle for C06, C07 and the queue facet of     *)
(* C20/C23.  Values are integers; drivers enqueue pairwise distinct values.  The capacity is the constant Cap       *)
(* unless the driver reports the container's own capacity() by a "cap" observation before the first operation.      *)
EXTENDS LinCore
CONSTANT Cap

QInit(p) == [q |-> <<>>, cap |-> Cap]
IfSet(c, s) == IF c THEN {s} ELSE {}
QStep(s, c) ==
  LET q == s.q IN
  CASE c.op = "enq"      -> IF c.r = 1 THEN IfSet(s.cap = 0 \/ Len(q) < s.cap, [s EXCEPT !.q = Append(q, c.a)])
                                       ELSE IfSet(s.cap > 0 /\ Len(q) = s.cap, s)     \* fails only when full
    [] c.op = "deq"      -> IF c.r = 1 THEN IfSet(q # <<>> /\ Head(q) = c.v, [s EXCEPT !.q = Tail(q)])
                                       ELSE IfSet(q = <<>>, s)                         \* empty only when empty
    [] c.op = "empty"    -> IfSet((q = <<>>) <=> (c.r = 1), s)
    [] c.op = "size"     -> IfSet(Len(q) = c.r, s)
    [] c.op = "front"    -> IF c.r = 1 THEN IfSet(q # <<>> /\ Head(q) = c.v, s) ELSE IfSet(q = <<>>, s)
    [] c.op = "popfront" -> IF c.r = 1 THEN IfSet(q # <<>>, [s EXCEPT !.q = Tail(q)]) ELSE IfSet(q = <<>>, s)
    [] c.op = "clear"    -> {[s EXCEPT !.q = <<>>]}
    [] OTHER -> {}
\* "dispose" of an intrusive item is legal only for an item that is no longer in the queue
QXStep(s, e) == IF e.op \in Fatal THEN {}
                ELSE IF e.op = "cap" THEN {[s EXCEPT !.cap = e.a]}
                ELSE IF e.op = "dispose" THEN IfSet(\A i \in 1..Len(s.q) : s.q[i] # e.a, s)
                ELSE {s}
QFinal(s, p) == TRUE
=============================================================================
