------------------------------- MODULE LinQueue -------------------------------
(* Sequential FIFO queue, optionally bounded (Cap = 0: unbounded).  Oracle for C06, C07, and the  *)
(* queue facet of C20/C23.  Values are integers; the drivers enqueue pairwise distinct values.    *)
EXTENDS LinCore
CONSTANT Cap

QInit == <<>>
IfSet(c, s) == IF c THEN {s} ELSE {}
QStep(q, c) ==
  CASE c.op = "enq"      -> IF c.r = 1 THEN IfSet(Cap = 0 \/ Len(q) < Cap, Append(q, c.a))
                                       ELSE IfSet(Cap > 0 /\ Len(q) = Cap, q)       \* fails only when full
    [] c.op = "deq"      -> IF c.r = 1 THEN IfSet(q # <<>> /\ Head(q) = c.v, Tail(q))
                                       ELSE IfSet(q = <<>>, q)                       \* empty only when empty
    [] c.op = "empty"    -> IfSet((q = <<>>) <=> (c.r = 1), q)
    [] c.op = "size"     -> IfSet(Len(q) = c.r, q)
    [] c.op = "front"    -> IF c.r = 1 THEN IfSet(q # <<>> /\ Head(q) = c.v, q) ELSE IfSet(q = <<>>, q)
    [] c.op = "popfront" -> IF c.r = 1 THEN IfSet(q # <<>>, Tail(q)) ELSE IfSet(q = <<>>, q)
    [] OTHER -> {}
\* "dispose" of an intrusive item is legal only for an item that is no longer in the queue
QXStep(q, e) == IF e.op \in Fatal THEN {}
                ELSE IF e.op = "dispose" THEN IfSet(\A i \in 1..Len(q) : q[i] # e.a, q)
                ELSE {q}
QFinal(q, p) == TRUE
=============================================================================
