------------------------------- MODULE SpscRing -------------------------------
(* Tier A oracle for C12: WeakRingBuffer with one producer and one consumer.                                               *)
(* Typed buffer: FIFO of values with batch operations; push(n items) fails only if fewer than n cells are free,            *)
(* pop(n items) only if fewer than n are present; batches are all-or-nothing and keep their order.                           *)
(* WeakRingBuffer<void>: FIFO of byte records.  A record of s bytes occupies Real(s) = roundup8(s) + 8 bytes and must be     *)
(* contiguous: if it does not fit before the end of the buffer the tail is skipped.  pushv succeeds only if the record can   *)
(* be placed without overwriting unread bytes (exact byte accounting with absolute front/back counters); it may fail only    *)
(* if it cannot be placed -- and never on an EMPTY buffer for a record that fits the capacity (literal reading of "a push     *)
(* fails only if the free space is smaller than the request": on an empty buffer the free space is the whole capacity).       *)
(* popv returns the oldest record with its exact size (v = id * 1000 + size; the driver verifies every payload byte and        *)
(* reports v = -1 on a mismatch).                                                                                            *)
EXTENDS LinCore
IfSet(c, s) == IF c THEN {s} ELSE {}
RInit(p) == [q |-> <<>>, cap |-> 0, front |-> 0, back |-> 0]
Real(sz) == ((sz + 7) \div 8) * 8 + 8
RECURSIVE Coded(_, _, _)     \* the first n elements of q, coded base 100 (first element = lowest digit pair), equal code
Coded(q, code, n) == IF n = 0 THEN code = 0 ELSE q # <<>> /\ Head(q) = code % 100 /\ Coded(Tail(q), code \div 100, n - 1)
RECURSIVE AppendRange(_, _, _)
AppendRange(q, v, n) == IF n = 0 THEN q ELSE AppendRange(Append(q, v), v + 1, n - 1)
\* a record is <<code, tail still to be skipped, real size>>; the consumer releases the unused tail in front of the head record
\* (front()) before it releases the record itself (pop_front()), so the producer may see either
SkipTail(s) == IF s.q # <<>> /\ Head(s.q)[2] > 0 THEN [s EXCEPT !.front = @ + Head(s.q)[2], !.q = <<<<Head(s.q)[1], 0, Head(s.q)[3]>>>> \o Tail(s.q)] ELSE s
PushV(s, c) == LET r == Real(c.b) off == s.back % s.cap
                   tail == IF off + r <= s.cap THEN 0 ELSE s.cap - off
                   fits == s.back + tail + r - s.front <= s.cap
               IN  IF c.r = 1 THEN IfSet(fits, [s EXCEPT !.q = Append(s.q, <<c.a * 1000 + c.b, tail, r>>), !.back = @ + tail + r])
                   ELSE IfSet(~fits /\ ~(s.q = <<>> /\ r <= s.cap), s)
RStep(s, c) ==
  LET q == s.q IN
  CASE c.op = "push"  -> IF c.r = 1 THEN IfSet(Len(q) < s.cap, [s EXCEPT !.q = Append(q, c.a)]) ELSE IfSet(Len(q) = s.cap, s)
    [] c.op = "pushn" -> IF c.r = 1 THEN IfSet(Len(q) + c.b <= s.cap, [s EXCEPT !.q = AppendRange(q, c.a, c.b)]) ELSE IfSet(Len(q) + c.b > s.cap, s)
    [] c.op = "pop"   -> IF c.r = 1 THEN IfSet(q # <<>> /\ Head(q) = c.v, [s EXCEPT !.q = Tail(q)]) ELSE IfSet(q = <<>>, s)
    [] c.op = "popn"  -> IF c.r = 1 THEN IfSet(Len(q) >= c.b /\ Coded(q, c.v, c.b), [s EXCEPT !.q = SubSeq(q, c.b + 1, Len(q))]) ELSE IfSet(c.r = 0 /\ Len(q) < c.b, s)
    [] c.op = "front" -> IF c.r = 1 THEN IfSet(q # <<>> /\ Head(q) = c.v, s) ELSE IfSet(q = <<>>, s)
    [] c.op = "popfront" -> IF c.r = 1 THEN IfSet(q # <<>>, [s EXCEPT !.q = Tail(q)]) ELSE IfSet(q = <<>>, s)
    [] c.op = "empty" -> IfSet((q = <<>>) <=> (c.r = 1), s)
    [] c.op = "pushv" -> UNION { PushV(x, c) : x \in {s, SkipTail(s)} }
    [] c.op = "popv"  -> IF c.r = 1 THEN IfSet(q # <<>> /\ Head(q)[1] = c.v, [s EXCEPT !.q = Tail(q), !.front = @ + Head(q)[2] + Head(q)[3]]) ELSE IfSet(q = <<>>, s)
    [] OTHER -> {}
RXStep(s, e) == IF e.op \in Fatal THEN {} ELSE IF e.op = "cap" THEN {[s EXCEPT !.cap = e.a]} ELSE {s}
RFinal(s, p) == TRUE
=============================================================================
