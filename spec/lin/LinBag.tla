------------------------------- MODULE LinBag -------------------------------
(* Concurrent bag / pool (oracle for C21 free lists and C24 object pools).                                         *)
(*   put(n)  (free-list put / pool deallocate): n must currently be held by a client (not in the bag)              *)
(*   get     (free-list get / pool allocate) -> n: n must be in the bag; it leaves the bag                         *)
(*   get -> null (r = 0): allowed at any time while other threads run (a free list may transiently look empty);    *)
(*   getq -> null: a quiescent get (issued after all threads joined) may fail only if the bag is empty             *)
(*   Lazy (pools with heap fall-back): get may return a fresh object (id >= FreshBase) never seen before            *)
EXTENDS LinCore
CONSTANTS Prefill, FreshBase
IfSet(c, s) == IF c THEN {s} ELSE {}
BInit(p) == [bag |-> 1..Prefill, out |-> {}]
BStep(s, c) ==
  CASE c.op = "put"  -> IF FreshBase > 0 THEN {[bag |-> s.bag \cup {c.a}, out |-> s.out \ {c.a}], [bag |-> s.bag, out |-> s.out \ {c.a}]}   \* pool: kept, or returned to the heap
                        ELSE IfSet(c.a \notin s.bag, [bag |-> s.bag \cup {c.a}, out |-> s.out \ {c.a}])
    [] c.op \in {"get", "getq"} ->
         IF c.r = 1 THEN IF c.v \in s.bag THEN {[bag |-> s.bag \ {c.v}, out |-> s.out \cup {c.v}]}
                         ELSE IfSet(FreshBase > 0 /\ c.v >= FreshBase /\ c.v \notin s.out, [s EXCEPT !.out = @ \cup {c.v}])   \* fresh from the heap
         ELSE IF c.op = "getq" THEN IfSet(s.bag = {}, s) ELSE {s}
    [] c.op = "putfull" -> {[s EXCEPT !.out = @ \ {c.a}]}      \* lazy pool: deallocate into a full queue returns the object to the heap
    [] c.op = "empty" -> {s}
    [] OTHER -> {}
BXStep(s, e) == IF e.op \in Fatal THEN {} ELSE {s}
BFinal(s, p) == TRUE
=============================================================================
