------------------------------- MODULE LinDeque -------------------------------
(* Sequential double-ended queue (oracle for C10): front = first element, back = last element. *)
EXTENDS LinCore
DInit(p) == <<>>
IfSet(c, s) == IF c THEN {s} ELSE {}
DStep(s, c) ==
  CASE c.op = "pushf" -> IfSet(c.r = 1, <<c.a>> \o s)
    [] c.op = "pushb" -> IfSet(c.r = 1, Append(s, c.a))
    [] c.op = "popf"  -> IF c.r = 1 THEN IfSet(s # <<>> /\ Head(s) = c.v, Tail(s)) ELSE IfSet(s = <<>>, s)
    [] c.op = "popb"  -> IF c.r = 1 THEN IfSet(s # <<>> /\ s[Len(s)] = c.v, SubSeq(s, 1, Len(s) - 1)) ELSE IfSet(s = <<>>, s)
    [] c.op = "empty" -> IfSet((s = <<>>) <=> (c.r = 1), s)
    [] c.op = "size"  -> IfSet(Len(s) = c.r, s)
    [] c.op = "clear" -> {<<>>}
    [] OTHER -> {}
DXStep(s, e) == IF e.op \in Fatal THEN {} ELSE {s}
DFinal(s, p) == TRUE
=============================================================================
