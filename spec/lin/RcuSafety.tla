------------------------------- MODULE RcuSafety -------------------------------
(* Tier A oracle for C04 and C05: user-space RCU, stated over observations of the real code.                          *)
(* Observations ("x" events; t = thread of the event):                                                                *)
(*   rlock        t returned from access_lock()   (logged after the call: the recorded section is inside the real one) *)
(*   runlock      t is about to call access_unlock()   (logged before the call)                                        *)
(*   retire(o)    t is about to pass o, already unreachable, to retire_ptr / batch_retire                              *)
(*   dispose(o)   the disposer of o runs                                                                               *)
(*   deref(o)     t, inside a read-side critical section, reads the payload of o which it found reachable inside it     *)
(*   syncinv / syncret    t calls synchronize() / synchronize() returned                                               *)
(*   destroyed    the RCU singleton has been destroyed                                                                  *)
(* C04: no dispose(o) while a thread that was inside an (outermost) critical section at retire(o) is still inside it;   *)
(*      synchronize() returns only after every thread that was inside a critical section at its invocation has left;   *)
(*      no deref of a disposed object.                                                                                  *)
(* C05: dispose(o) only for a retired, not yet disposed o; everything retired is disposed at destroyed.                 *)
EXTENDS LinCore
CONSTANT Clause      \* "safety" (C04), "once" (C05) or "all"
Safe == Clause \in {"safety", "all"}
Once == Clause \in {"once", "all"}
IfSet(c, s) == IF c THEN {s} ELSE {}
RcuInit(p) == [depth |-> [t \in Threads |-> 0],
               ret |-> {}, dis |-> {},
               rd |-> {},        \* <<object, reader>>: reader was inside its critical section when the object was retired and still is
               wt |-> {}]        \* <<synchronizer, reader>>: likewise for a pending synchronize()
Inside(s) == { t \in Threads : s.depth[t] > 0 }
RcuXStep(s, e) ==
  LET t == e.t IN
  CASE e.op \in Fatal -> {}
    [] e.op = "rlock" -> {[s EXCEPT !.depth[t] = @ + 1]}
    [] e.op = "runlock" -> IfSet(s.depth[t] > 0,
            IF s.depth[t] = 1 THEN [s EXCEPT !.depth[t] = 0, !.rd = { x \in @ : x[2] # t }, !.wt = { x \in @ : x[2] # t }]
            ELSE [s EXCEPT !.depth[t] = @ - 1])
    [] e.op = "retire" -> IfSet(Once => (e.a \notin s.ret /\ e.a \notin s.dis),
            [s EXCEPT !.ret = @ \cup {e.a}, !.rd = @ \cup { <<e.a, r>> : r \in Inside(s) \ {t} }])
    [] e.op = "dispose" -> IfSet((Once => e.a \in s.ret) /\ (Safe => ~(\E x \in s.rd : x[1] = e.a)),
            [s EXCEPT !.ret = @ \ {e.a}, !.dis = @ \cup {e.a}, !.rd = { x \in @ : x[1] # e.a }])
    [] e.op = "deref" -> IfSet(Safe => e.a \notin s.dis, s)
    [] e.op = "syncinv" -> {[s EXCEPT !.wt = @ \cup { <<t, r>> : r \in Inside(s) \ {t} }]}
    [] e.op = "syncret" -> IfSet(Safe => ~(\E x \in s.wt : x[1] = t), [s EXCEPT !.wt = { x \in @ : x[1] # t }])
    [] e.op = "destroyed" -> IfSet(Once => s.ret = {}, s)
    [] OTHER -> {s}
RcuStep(s, c) == {s}
RcuFinal(s, p) == TRUE
=============================================================================
