SPECIFICATION Spec
CONSTANTS
  AbsInit <- QInit
  Step <- QStep
  XStep <- QXStep
  FinalOk <- QFinal
  MaxThread = 4
  Cap = 0
CHECK_DEADLOCK FALSE
