------------------------------- MODULE Mutex -------------------------------
(* Tier A oracle for C22: mutual exclusion of spin locks, reentrant spin locks, lock arrays and node monitors,          *)
(* stated over observations made by the driver *inside* the critical sections:                                           *)
(*   acq(n)  thread t has just entered the critical section of lock / node n  (after lock()/successful try_lock())       *)
(*   rel(n)  t is about to leave it (before unlock())                                                                     *)
(*   nlock(n, L)  (pool_monitor) inside the critical section of node n the node is attached to pool lock L               *)
(*   palloc(L) / pfree(L)  the pool handed out / received lock L (logging LockPool)                                       *)
(* Rules: at most one thread inside a critical section of n, except that the same thread may nest (Reentrant);            *)
(* rel only by the owner; a reentrant lock is free only after as many rel as acq; a pool lock is attached to at most one   *)
(* node at a time, is not handed out twice without being returned, and is returned only when no thread is inside a         *)
(* critical section of the node it is attached to.                                                                         *)
EXTENDS LinCore
CONSTANT Reentrant
IfSet(c, s) == IF c THEN {s} ELSE {}
MInit(p) == [owner |-> [n \in 0..15 |-> -1], depth |-> [n \in 0..15 |-> 0],
             attach |-> {},          \* <<node, pool lock>>
             outp |-> {}]            \* pool locks currently handed out
MXStep(s, e) ==
  LET t == e.t n == e.a IN
  CASE e.op \in Fatal -> {}
    [] e.op = "acq" -> IF s.owner[n] = -1 THEN {[s EXCEPT !.owner[n] = t, !.depth[n] = 1]}
                       ELSE IfSet(Reentrant /\ s.owner[n] = t, [s EXCEPT !.depth[n] = @ + 1])
    [] e.op = "rel" -> IfSet(s.owner[n] = t /\ s.depth[n] > 0,
                             IF s.depth[n] = 1 THEN [s EXCEPT !.owner[n] = -1, !.depth[n] = 0] ELSE [s EXCEPT !.depth[n] = @ - 1])
    [] e.op = "nlock" -> IfSet(s.owner[n] = t /\ e.b \in s.outp /\ ~(\E x \in s.attach : x[2] = e.b /\ x[1] # n),
                               [s EXCEPT !.attach = { x \in @ : x[1] # n } \cup {<<n, e.b>>}])
    [] e.op = "palloc" -> IfSet(n \notin s.outp, [s EXCEPT !.outp = @ \cup {n}])
    [] e.op = "pfree" -> IfSet(n \in s.outp /\ ~(\E x \in s.attach : x[2] = n /\ s.owner[x[1]] # -1),
                               [s EXCEPT !.outp = @ \ {n}, !.attach = { x \in @ : x[2] # n }])
    [] OTHER -> {s}
MStep(s, c) == {s}
MFinal(s, p) == \A n \in 0..15 : s.owner[n] = -1
=============================================================================
