------------------------------- MODULE FcExec -------------------------------
(* Tier A oracle for C23: the flat-combining kernel, stated over observations of a minimal FC container (a counter):      *)
(*   pub(r)       requester published request r (before combine())                                                      *)
(*   cbeg(r)      a combiner starts executing request r   (inside fc_apply)                                               *)
(*   exec(r, v)   the request is executed; v = value of the counter after it                                              *)
(*   cend(r)      fc_apply for r finished                                                                                 *)
(*   resp(r, v)   the requester of r observed the response v (after combine() returned)                                   *)
(* Every published request is executed exactly once, between its publication and its response; executions never overlap   *)
(* (one combiner at a time); the requester observes the response only after the execution and sees the executed value;      *)
(* since each execution increments the counter, v also counts executions.  "uad" (access to a reclaimed publication        *)
(* record, detected by the quarantine allocator) is fatal.                                                                  *)
EXTENDS LinCore
IfSet(c, s) == IF c THEN {s} ELSE {}
FInit(p) == [pub |-> {}, done |-> {}, active |-> -1, count |-> 0, seen |-> {}]
FXStep(s, e) ==
  CASE e.op \in Fatal -> {}
    [] e.op = "pub"  -> IfSet(e.a \notin s.seen, [s EXCEPT !.pub = @ \cup {e.a}, !.seen = @ \cup {e.a}])
    [] e.op = "cbeg" -> IfSet(s.active = -1 /\ e.a \in s.pub, [s EXCEPT !.active = e.a])
    [] e.op = "exec" -> IfSet(s.active = e.a /\ e.b = s.count + 1, [s EXCEPT !.count = e.b])
    [] e.op = "cend" -> IfSet(s.active = e.a, [s EXCEPT !.active = -1, !.pub = @ \ {e.a}, !.done = @ \cup {<<e.a, s.count>>}])
    [] e.op = "resp" -> IfSet(<<e.a, e.b>> \in s.done, [s EXCEPT !.done = @ \ {<<e.a, e.b>>}])
    [] OTHER -> {s}
FStep(s, c) == {s}
FFinal(s, p) == s.pub = {} /\ s.done = {} /\ s.active = -1
=============================================================================
