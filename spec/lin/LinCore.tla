------------------------------- MODULE LinCore -------------------------------
(***************************************************************************)
(* Tier A: generic linearizability validation of batches of histories      *)
(* recorded from the real libcds code (DESIGN.md 3.3).                     *)
(*                                                                         *)
(* The trace file (ndjson, path in env TRACE) is a concatenation of        *)
(* histories.  Each history starts with a record                           *)
(*     [e |-> "reset", n |-> <number of events>, id |-> <history id>]      *)
(* followed by n events                                                    *)
(*     [e |-> "inv", t, op, a, b, r, v]   invocation by thread t of op(a,b); *)
(*                 r, v = the result the call later returned (copied from  *)
(*                 its response by the recorder, used to prune the search) *)
(*     [e |-> "ret", t, r, v]             response                         *)
(*     [e |-> "x",   t, op, a, b]         other observation (dispose, uad, *)
(*                                         crash, deadlock, ...)           *)
(*                                                                         *)
(* The initial state picks a history; Inv/Ret consume events; Lin(t) is    *)
(* the internal linearization step of t's pending call (taken only when    *)
(* the next event is a response: just-in-time linearization, complete      *)
(* because a linearization point can always be delayed past invocations).  *)
(* A history is accepted iff Done is reached for it; Done prints           *)
(* <<"ACC", id>>.  The abstract data type is a parameter:                  *)
(*   AbsInit(p)     initial abstract state (p = index of the reset record,  *)
(*                  so that whole-history facts can be computed once)       *)
(*   Step(s, c)     set of successor states if call c (a record with op,   *)
(*                  a, b, r, v) takes effect atomically in state s and     *)
(*                  returns (c.r, c.v); {} if that result is impossible    *)
(*   XStep(s, e)    same for "x" observations                              *)
(*   FinalOk(s, p)  predicate on the state at the end of the history       *)
(*                  (p = index of the reset record, for whole-history       *)
(*                  predicates)                                             *)
(***************************************************************************)
EXTENDS Naturals, Integers, Sequences, FiniteSets, TLC, Json, IOUtils

CONSTANTS AbsInit(_), Step(_, _), XStep(_, _), FinalOk(_, _), MaxThread

Raw    == TLCEval(ndJsonDeserialize(IOEnv.TRACE))
Starts == TLCEval({ i \in 1..Len(Raw) : Raw[i].e = "reset" })
EndOf(s) == s + Raw[s].n
Threads == 0..MaxThread
Verbose == "VERBOSE" \in DOMAIN IOEnv      \* single-history re-runs print how far the history could be explained
NoOp == [op |-> "none", a |-> 0, b |-> 0, r |-> 0, v |-> 0, lin |-> FALSE]

VARIABLES h,      \* index of the reset record of the history being validated
          l,      \* index of the next event to consume
          abs,    \* abstract state
          pend    \* pend[t] = pending call of thread t (NoOp if none)
vars == <<h, l, abs, pend>>

Init == /\ h \in Starts /\ l = h + 1 /\ abs = AbsInit(h) /\ pend = [t \in Threads |-> NoOp]

Ev == Raw[l]
InRange == l <= EndOf(h)

Inv == /\ InRange /\ Ev.e = "inv" /\ pend[Ev.t].op = "none"
       /\ pend' = [pend EXCEPT ![Ev.t] = [op |-> Ev.op, a |-> Ev.a, b |-> Ev.b, r |-> Ev.r, v |-> Ev.v, lin |-> FALSE]]
       /\ l' = l + 1 /\ UNCHANGED <<h, abs>>

Lin(t) == /\ InRange /\ Ev.e = "ret" /\ pend[t].op # "none" /\ ~pend[t].lin
          /\ \E s \in Step(abs, pend[t]) : abs' = s
          /\ pend' = [pend EXCEPT ![t].lin = TRUE]
          /\ UNCHANGED <<h, l>>

Ret == /\ InRange /\ Ev.e = "ret" /\ pend[Ev.t].op # "none" /\ pend[Ev.t].lin
       /\ pend[Ev.t].r = Ev.r /\ pend[Ev.t].v = Ev.v
       /\ pend' = [pend EXCEPT ![Ev.t] = NoOp] /\ l' = l + 1 /\ UNCHANGED <<h, abs>>
       /\ (Verbose => PrintT(<<"AT", l - h>>))

Obs == /\ InRange /\ Ev.e = "x"
       /\ \E s \in XStep(abs, Ev) : abs' = s
       /\ l' = l + 1 /\ UNCHANGED <<h, pend>>
       /\ (Verbose => PrintT(<<"AT", l - h>>))

Done == /\ l = EndOf(h) + 1 /\ \A t \in Threads : pend[t].op = "none"
        /\ ("p" \in DOMAIN Raw[h] \/ FinalOk(abs, h))     \* "p": completion of a partial history (abandoned execution): no final-state facts
        /\ PrintT(<<"ACC", Raw[h].id>>)
        /\ UNCHANGED vars

Next == Inv \/ Ret \/ Obs \/ (\E t \in Threads : Lin(t)) \/ Done
Spec == Init /\ [][Next]_vars

\* observations that no abstract data type accepts
Fatal == {"uad", "crash", "hang", "deadlock"}
=============================================================================
