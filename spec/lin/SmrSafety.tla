------------------------------- MODULE SmrSafety -------------------------------
(* Tier A oracle for C01, C02, C03: safety of hazard-pointer reclamation, stated over observations of the real code.  *)
(* Observations ("x" events; t = thread of the event):                                                                *)
(*   gset(slot, o)   thread t holds a *validated* guard on object o in its slot  (protect() returned o)               *)
(*   gclr(slot)      the guard in that slot was released / reassigned                                                  *)
(*   retire(o)       t passed o to retire()  (logged before the call)                                                  *)
(*   pass            a reclamation pass of t begins (source hook at scan entry; drivers also emit it at the invocation *)
(*                   of every API call that may run a pass, which is earlier and therefore only under-approximates)    *)
(*   dispose(o)      the disposer of o runs on thread t                                                                *)
(*   deref(o)        t reads o's payload through a validated guard / guarded_ptr                                        *)
(*   pbeg / pend     t is inside protect() (its hazard slot may transiently hold an unvalidated pointer)                *)
(*   scanbeg / scanend   t explicitly calls scan() / force_dispose()                                                    *)
(*   detach          t detaches from the SMR (its retired objects may be adopted by others)                             *)
(*   destroyed       the SMR singleton has been destroyed                                                               *)
(*                                                                                                                     *)
(* C01/C02: dispose(o) by t is illegal while a guard on o exists that was already in place when t's current pass        *)
(*          began and has been in place ever since (snap[t]); deref(o) and gset(.,o) are illegal once o is disposed.    *)
(* C03:     dispose(o) requires o retired and not yet disposed (exactly once); at destroyed every retired object has    *)
(*          been disposed; an explicit pass frees every object the caller retired itself that no guard protected at     *)
(*          any time during the pass (only claimed when no thread was inside protect() during the pass).                *)
EXTENDS LinCore
CONSTANT Clause      \* "safety" (C01/C02 clauses only), "once" (C03 clauses only) or "all"
Safe == Clause \in {"safety", "all"}
Once == Clause \in {"once", "all"}
IfSet(c, s) == IF c THEN {s} ELSE {}
SmrInit(p) == [g |-> {},            \* validated guards: <<thread, slot, object>>
               snap |-> [t \in Threads |-> {}],
               ret |-> {},          \* retired, not yet disposed
               by |-> {},           \* <<object, retiring thread>> for objects still owned by the retiring thread
               dis |-> {},          \* disposed
               inprot |-> {},       \* threads inside protect()
               cand |-> [t \in Threads |-> {}],   \* objects an explicit pass of t must free
               inscan |-> {},
               destroyed |-> FALSE]
DropSlot(S, t, k) == { x \in S : ~(x[1] = t /\ x[2] = k) }
SmrXStep(s, e) ==
  LET t == e.t IN
  CASE e.op \in Fatal -> {}
    [] e.op = "gset" -> IfSet(Safe => e.b \notin s.dis,
            [s EXCEPT !.g = DropSlot(@, t, e.a) \cup {<<t, e.a, e.b>>},
                      !.snap = [u \in Threads |-> DropSlot(s.snap[u], t, e.a)],
                      !.cand = [u \in Threads |-> s.cand[u] \ {e.b}]])
    [] e.op = "gclr" -> {[s EXCEPT !.g = DropSlot(@, t, e.a), !.snap = [u \in Threads |-> DropSlot(s.snap[u], t, e.a)]]}
    [] e.op = "retire" -> IfSet(Once => (e.a \notin s.ret /\ e.a \notin s.dis), [s EXCEPT !.ret = @ \cup {e.a}, !.by = @ \cup {<<e.a, t>>}])
    [] e.op = "pass" -> {[s EXCEPT !.snap[t] = s.g]}
    [] e.op = "dispose" -> IfSet((Once => e.a \in s.ret) /\ (Safe => ~(\E x \in s.snap[t] : x[3] = e.a)),
            [s EXCEPT !.ret = @ \ {e.a}, !.dis = @ \cup {e.a}, !.by = { x \in @ : x[1] # e.a }])
    [] e.op = "deref" -> IfSet(Safe => e.a \notin s.dis, s)
    [] e.op = "pbeg" -> {[s EXCEPT !.inprot = @ \cup {t}, !.cand = [u \in Threads |-> {}]]}
    [] e.op = "pend" -> {[s EXCEPT !.inprot = @ \ {t}]}
    [] e.op = "scanbeg" -> {[s EXCEPT !.inscan = @ \cup {t},
            !.cand[t] = IF s.inprot = {} THEN { o \in s.ret : <<o, t>> \in s.by /\ ~(\E x \in s.g : x[3] = o) } ELSE {}]}
    [] e.op = "scanend" -> IfSet(Once => s.cand[t] \cap s.ret = {}, [s EXCEPT !.inscan = @ \ {t}, !.cand[t] = {}])
    [] e.op = "detach" -> {[s EXCEPT !.by = { x \in @ : x[2] # t }, !.g = { x \in @ : x[1] # t },
                                     !.snap = [u \in Threads |-> { x \in s.snap[u] : x[1] # t }]]}
    [] e.op = "destroyed" -> IfSet(Once => s.ret = {}, [s EXCEPT !.destroyed = TRUE])
    [] OTHER -> {s}
SmrStep(s, c) == {s}     \* API calls carry no abstract effect of their own here
SmrFinal(s, p) == TRUE
=============================================================================
