------------------------------- MODULE LinSet -------------------------------
(* Sequential set / map with element identity (oracle for C13, C14, C15, C16, C19; traversal clause of C18).         *)
(* Abstract state: m = set of <<key, id>> pairs with at most one pair per key ("no key is ever present twice"        *)
(* holds by construction of every step).  Element ids are chosen by the driver as  key * 100 + unique  so that the    *)
(* key of an element is  id \div 100.  Result encoding: r = 1/0 success, v = element id observed (0 if none).         *)
(*   ins(k,id)          insert / emplace / insert-with-functor (v = number of functor calls, must equal r when op = insf) *)
(*   upd1(k,id) upd0    update with / without permission to insert; r = 3 inserted (true,true), 2 updated existing      *)
(*                      (true,false), 0 (false,false); v = id of the element the functor saw as existing (0 when new)   *)
(*                      Replace = TRUE: an existing element is replaced by the argument (IterableList, Feldman)         *)
(*   era(k)             erase; eraf: v = id the functor saw                                                             *)
(*   unl(k,id)          unlink exactly this element                                                                      *)
(*   ext(k)             extract; v = id returned       get(k), find(k), findf(k) likewise                               *)
(*   extmin / extmax    r = 1, v = id: some present element (the min/max clause is the history predicate below);        *)
(*                      r = 0 only if the container is empty at the linearization point                                  *)
(*   eraseat(k,id)      erase_at(iterator pointing to element id): r = 1 removes exactly <<k,id>>; r = 0 requires it gone *)
(*   size, empty, clear                                                                                                   *)
(* Observations ("x" events):  trbeg / tr(k,id) / trend  = a traversal at quiescence: keys strictly increasing when       *)
(* Ordered, each present key exactly once;  dispose(id): the element must not be in the container.                        *)
EXTENDS LinCore
CONSTANTS Replace, Ordered, MinMaxExact,
          IterMode     \* C19: "none" | "once" (IterableList and the sets built on it) | "atleast" (Feldman)
IfSet(c, s) == IF c THEN {s} ELSE {}
KeyOf(id) == id \div 100
Has(m, k) == \E p \in m : p[1] = k
IdOf(m, k) == (CHOOSE p \in m : p[1] = k)[2]
Del(m, k) == { p \in m : p[1] # k }
Keys(m) == { p[1] : p \in m }
SetInit(p) == [m |-> {}, seen |-> {}, last |-> -1, intr |-> FALSE]
SetStep(s, c) ==
  LET m == s.m k == c.a IN
  CASE c.op \in {"ins", "emp"} -> IF c.r = 1 THEN IfSet(~Has(m, k), [s EXCEPT !.m = m \cup {<<k, c.b>>}]) ELSE IfSet(Has(m, k), s)
    [] c.op = "insf" -> IF c.r = 1 THEN IfSet(~Has(m, k) /\ c.v = 1, [s EXCEPT !.m = m \cup {<<k, c.b>>}]) ELSE IfSet(Has(m, k) /\ c.v = 0, s)
    [] c.op \in {"upd1", "upd0"} ->
         IF c.r = 3 THEN IfSet(c.op = "upd1" /\ ~Has(m, k) /\ c.v = 0, [s EXCEPT !.m = m \cup {<<k, c.b>>}])
         ELSE IF c.r = 2 THEN IfSet(Has(m, k) /\ (c.v = 0 \/ c.v = IdOf(m, k)), IF Replace THEN [s EXCEPT !.m = Del(m, k) \cup {<<k, c.b>>}] ELSE s)
         ELSE IfSet(c.r = 0 /\ c.op = "upd0" /\ ~Has(m, k), s)
    [] c.op \in {"era", "eraf", "ext"} -> IF c.r = 1 THEN IfSet(Has(m, k) /\ (c.op = "era" \/ c.v = IdOf(m, k)), [s EXCEPT !.m = Del(m, k)]) ELSE IfSet(~Has(m, k), s)
    [] c.op = "unl" -> IF c.r = 1 THEN IfSet(<<k, c.b>> \in m, [s EXCEPT !.m = m \ {<<k, c.b>>}]) ELSE IfSet(<<k, c.b>> \notin m, s)
    [] c.op = "eraseat" -> IF c.r = 1 THEN IfSet(<<k, c.b>> \in m, [s EXCEPT !.m = m \ {<<k, c.b>>}]) ELSE IfSet(<<k, c.b>> \notin m, s)
    [] c.op \in {"get", "findf"} -> IF c.r = 1 THEN IfSet(Has(m, k) /\ c.v = IdOf(m, k), s) ELSE IfSet(~Has(m, k), s)
    [] c.op = "find" -> IfSet(Has(m, k) <=> (c.r = 1), s)
    [] c.op \in {"extmin", "extmax"} ->
         IF c.r = 1 THEN IfSet(<<KeyOf(c.v), c.v>> \in m /\ (MinMaxExact => \A q \in m : IF c.op = "extmin" THEN KeyOf(c.v) <= q[1] ELSE KeyOf(c.v) >= q[1]),
                               [s EXCEPT !.m = m \ {<<KeyOf(c.v), c.v>>}])
         ELSE IfSet(m = {}, s)
    [] c.op = "size"  -> IfSet(Cardinality(m) = c.r, s)
    [] c.op = "empty" -> IfSet((m = {}) <=> (c.r = 1), s)
    [] c.op = "clear" -> {[s EXCEPT !.m = {}]}
    [] OTHER -> {}
SetXStep(s, e) ==
  IF e.op \in Fatal THEN {}
  ELSE IF e.op = "trbeg" THEN {[s EXCEPT !.seen = {}, !.last = -1, !.intr = TRUE]}
  ELSE IF e.op = "tr" THEN IfSet(s.intr /\ <<e.a, e.b>> \in s.m /\ e.a \notin s.seen /\ (Ordered => e.a > s.last), [s EXCEPT !.seen = @ \cup {e.a}, !.last = e.a])
  ELSE IF e.op = "trend" THEN IfSet(s.intr /\ s.seen = Keys(s.m), [s EXCEPT !.intr = FALSE])
  ELSE IF e.op = "dispose" THEN IfSet(\A p \in s.m : p[2] # e.a, s)
  ELSE {s}
\* ---- history predicate for extract_min / extract_max (C15): "no key present throughout the call is smaller (larger)" ----
\* sound under-approximation of "present throughout": some successful insert of key j returned before the call was
\* invoked, and no successful removal of key j is invoked anywhere before the call returns
RetOf(p, i) == CHOOSE j \in (i + 1)..EndOf(p) : Raw[j].e = "ret" /\ Raw[j].t = Raw[i].t /\ \A k \in (i + 1)..(j - 1) : ~(Raw[k].e = "ret" /\ Raw[k].t = Raw[i].t)
InvIdx(p) == { i \in (p + 1)..EndOf(p) : Raw[i].e = "inv" }
IsIns(e) == (e.op \in {"ins", "insf", "emp"} /\ e.r = 1) \/ (e.op = "upd1" /\ e.r = 3)
RemKey(e) == IF e.op \in {"era", "eraf", "ext", "unl", "eraseat"} /\ e.r = 1 THEN e.a
             ELSE IF e.op \in {"extmin", "extmax"} /\ e.r = 1 THEN KeyOf(e.v) ELSE -1
PresentThroughout(p, i, j) == /\ \E a \in InvIdx(p) : IsIns(Raw[a]) /\ Raw[a].a = j /\ RetOf(p, a) < i
                              /\ ~(\E b \in InvIdx(p) : RemKey(Raw[b]) = j /\ b < RetOf(p, i))
MinMaxOK(p) == \A i \in InvIdx(p) : (Raw[i].op \in {"extmin", "extmax"} /\ Raw[i].r = 1) =>
                 LET k == KeyOf(Raw[i].v) IN
                 \A j \in 0..99 : (IF Raw[i].op = "extmin" THEN j < k ELSE j > k) => ~PresentThroughout(p, i, j)
\* ---- history predicates for thread-safe iterators (C19) ----
\* observations of the iterating thread t:  itbeg, it(key, id) for every element yielded, itend
XIdx(p, op) == { i \in (p + 1)..EndOf(p) : Raw[i].e = "x" /\ Raw[i].op = op }
ItEnd(p, b) == CHOOSE e \in XIdx(p, "itend") : e > b /\ Raw[e].t = Raw[b].t /\ \A f \in XIdx(p, "itend") : (f > b /\ Raw[f].t = Raw[b].t) => e <= f
Yields(p, b) == { i \in XIdx(p, "it") : i > b /\ i < ItEnd(p, b) /\ Raw[i].t = Raw[b].t }
\* key j is present for the whole iteration: a successful insert returned before itbeg, no successful removal invoked before itend
PresentWhole(p, b, j) == /\ \E a \in InvIdx(p) : IsIns(Raw[a]) /\ Raw[a].a = j /\ RetOf(p, a) < b
                         /\ ~(\E r \in InvIdx(p) : RemKey(Raw[r]) = j /\ r < ItEnd(p, b))
IsInsLike(e) == e.op \in {"ins", "insf", "emp", "upd1", "upd0"}
IterOK(p) == \A b \in XIdx(p, "itbeg") :
     LET Y == Yields(p, b) IN
     \* completeness: every element present for the whole iteration is visited (exactly once / at least once)
     /\ \A j \in 0..99 : PresentWhole(p, b, j) =>
            LET n == Cardinality({ y \in Y : Raw[y].a = j }) IN IF IterMode = "once" THEN n = 1 ELSE n >= 1
     \* soundness: a yielded element was passed to an insert-type operation invoked before the yield
     /\ \A y \in Y : \E a \in InvIdx(p) : a < y /\ IsInsLike(Raw[a]) /\ Raw[a].b = Raw[y].b /\ Raw[a].a = Raw[y].a
     \* order (IterableList): strictly increasing keys
     /\ (Ordered /\ IterMode = "once") => \A y1, y2 \in Y : y1 < y2 => Raw[y1].a < Raw[y2].a
SetFinal(s, p) == MinMaxOK(p) /\ (IterMode # "none" => IterOK(p))
=============================================================================
