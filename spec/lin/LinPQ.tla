------------------------------- MODULE LinPQ -------------------------------
(* Max-priority queue (oracle for C11).  Items are integers  prio * 100 + uid  (uid < 100 distinguishes items of    *)
(* equal priority); pop must return an item of maximal priority among those present (any of the tied ones).        *)
(* cap = 0: unbounded; otherwise push fails exactly when cap items are present (cap = constant Cap, or the           *)
(* container's own capacity() when the driver reports it by a "cap" observation).                                    *)
(* Strict = FALSE (MSPriorityQueue): a history in which some push overlaps some pop is only required to be          *)
(* linearizable to a *bag* with the capacity clause (the statement's relaxation); histories without such an overlap, *)
(* and all histories when Strict = TRUE (FCPriorityQueue), must be linearizable to the priority queue.              *)
EXTENDS LinCore
CONSTANTS Cap, Strict
IfSet(c, s) == IF c THEN {s} ELSE {}
Prio(x) == x \div 100
\* whole-history predicate, computed once per history in the initial state
RetOf(p, i) == CHOOSE j \in (i + 1)..EndOf(p) : Raw[j].e = "ret" /\ Raw[j].t = Raw[i].t /\ \A k \in (i + 1)..(j - 1) : ~(Raw[k].e = "ret" /\ Raw[k].t = Raw[i].t)
PushOverlapsPop(p) == \E i, j \in (p + 1)..EndOf(p) :
      /\ Raw[i].e = "inv" /\ Raw[i].op = "push" /\ Raw[j].e = "inv" /\ Raw[j].op = "pop"
      /\ i < RetOf(p, j) /\ j < RetOf(p, i)
PInit(p) == [items |-> {}, cap |-> Cap, strict |-> (Strict \/ ~PushOverlapsPop(p))]
PStep(s, c) ==
  CASE c.op = "push" -> IF c.r = 1 THEN IfSet(s.cap = 0 \/ Cardinality(s.items) < s.cap, [s EXCEPT !.items = @ \cup {c.a}])
                                   ELSE IfSet(s.cap > 0 /\ Cardinality(s.items) = s.cap, s)
    [] c.op = "pop"  -> IF c.r = 1 THEN IfSet(c.v \in s.items /\ (s.strict => \A y \in s.items : Prio(y) <= Prio(c.v)), [s EXCEPT !.items = @ \ {c.v}])
                                   ELSE IfSet(s.items = {}, s)
    [] c.op = "empty" -> IfSet((s.items = {}) <=> (c.r = 1), s)
    [] c.op = "size"  -> IfSet(Cardinality(s.items) = c.r, s)
    [] c.op = "clear" -> {[s EXCEPT !.items = {}]}
    [] OTHER -> {}
PXStep(s, e) == IF e.op \in Fatal THEN {} ELSE IF e.op = "cap" THEN {[s EXCEPT !.cap = e.a]}
                ELSE {s}
PFinal(s, p) == TRUE
=============================================================================
