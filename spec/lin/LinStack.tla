------------------------------- MODULE LinStack -------------------------------
(* Sequential LIFO stack (oracle for C09).  The stack is a sequence whose last element is the top. *)
EXTENDS LinCore
SInit(p) == <<>>
IfSet(c, s) == IF c THEN {s} ELSE {}
Top(s) == s[Len(s)]
Pop(s) == SubSeq(s, 1, Len(s) - 1)
SStep(s, c) ==
  CASE c.op = "push"  -> IfSet(c.r = 1, Append(s, c.a))                       \* push always succeeds
    [] c.op = "pop"   -> IF c.r = 1 THEN IfSet(s # <<>> /\ Top(s) = c.v, Pop(s)) ELSE IfSet(s = <<>>, s)
    [] c.op = "empty" -> IfSet((s = <<>>) <=> (c.r = 1), s)
    [] c.op = "size"  -> IfSet(Len(s) = c.r, s)
    [] c.op = "clear" -> {<<>>}
    [] OTHER -> {}
SXStep(s, e) == IF e.op \in Fatal THEN {}
                ELSE IF e.op = "dispose" THEN IfSet(\A i \in 1..Len(s) : s[i] # e.a, s)
                ELSE {s}
SFinal(s, p) == TRUE
=============================================================================
