------------------------------- MODULE QuasiQueue -------------------------------
(* Tier A oracle for C08 (SegmentedQueue): conservation as linearizability to a bag, and the two ordering clauses of the    *)
(* statement as predicates over the whole recorded history (evaluated by TLC once per history, at its end).                 *)
(*  (1) conservation: every dequeued value was enqueued and not dequeued before; the final quiescent drain returns           *)
(*      exactly the rest (deqq = quiescent dequeue: empty only if nothing is left)                                            *)
(*  (2) when x is dequeued, fewer than K items y whose enqueue returned before x's enqueue was invoked are still in the       *)
(*      queue; "still in the queue" is read in the direction that can only under-report: y's dequeue was not even invoked     *)
(*      before x's dequeue returned (or y was never dequeued)                                                                 *)
(*  (3) a dequeue reports empty only if every item whose enqueue returned before the call was invoked has a dequeue           *)
(*      invoked before the call returned                                                                                      *)
(* K (quasi factor as rounded up by the queue) is reported by the driver with a "cap" observation.                            *)
EXTENDS LinCore
IfSet(c, s) == IF c THEN {s} ELSE {}
QQInit(p) == {}
QQStep(s, c) ==
  CASE c.op = "enq" -> IfSet(c.r = 1 /\ c.a \notin s, s \cup {c.a})
    [] c.op = "deq" -> IF c.r = 1 THEN IfSet(c.v \in s, s \ {c.v}) ELSE {s}
    [] c.op = "deqq" -> IF c.r = 1 THEN IfSet(c.v \in s, s \ {c.v}) ELSE IfSet(s = {}, s)
    [] c.op = "empty" -> {s}
    [] OTHER -> {}
QQXStep(s, e) == IF e.op \in Fatal THEN {} ELSE IF e.op = "dispose" THEN IfSet(e.a \notin s, s) ELSE {s}
RetOf(p, i) == CHOOSE j \in (i + 1)..EndOf(p) : Raw[j].e = "ret" /\ Raw[j].t = Raw[i].t /\ \A k \in (i + 1)..(j - 1) : ~(Raw[k].e = "ret" /\ Raw[k].t = Raw[i].t)
InvIdx(p) == { i \in (p + 1)..EndOf(p) : Raw[i].e = "inv" }
K(p) == LET c == { i \in (p + 1)..EndOf(p) : Raw[i].e = "x" /\ Raw[i].op = "cap" } IN IF c = {} THEN 0 ELSE Raw[CHOOSE i \in c : TRUE].a
Enqs(p) == { i \in InvIdx(p) : Raw[i].op = "enq" /\ Raw[i].r = 1 }
Deqs(p) == { i \in InvIdx(p) : Raw[i].op \in {"deq", "deqq"} /\ Raw[i].r = 1 }
EnqOf(p, v) == CHOOSE i \in Enqs(p) : Raw[i].a = v
DeqInvOf(p, v) == LET d == { i \in Deqs(p) : Raw[i].v = v } IN IF d = {} THEN EndOf(p) + 1 ELSE CHOOSE i \in d : TRUE
QuasiOK(p) == \A dx \in Deqs(p) : LET x == Raw[dx].v ex == EnqOf(p, x) IN
     Cardinality({ ey \in Enqs(p) : RetOf(p, ey) < ex /\ DeqInvOf(p, Raw[ey].a) > RetOf(p, dx) }) < K(p)
EmptyOK(p) == \A d \in InvIdx(p) : (Raw[d].op \in {"deq", "deqq"} /\ Raw[d].r = 0) =>
     \A ey \in Enqs(p) : RetOf(p, ey) < d => DeqInvOf(p, Raw[ey].a) < RetOf(p, d)
QQFinal(s, p) == s = {} /\ (K(p) > 0 => QuasiOK(p)) /\ EmptyOK(p)
=============================================================================
