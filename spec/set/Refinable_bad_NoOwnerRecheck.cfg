SPECIFICATION Spec
CONSTANTS
  Threads = {1, 2, 3}
  Ops = 2
  Hashes = {0, 1, 2}
  InitSize = 1
  MaxResize = 2
  NoArrayRecheck = FALSE
  NoOwnerRecheck = TRUE
  NoQuiesce = FALSE
INVARIANTS Exclusion ArrayMatchesTable
CHECK_DEADLOCK FALSE
