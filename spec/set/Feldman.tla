---- MODULE Feldman ----
\* Tier B: cds::intrusive::FeldmanHashSet (impl/feldman_hashset.h, details/feldman_hashset_base.h): a trie of array nodes indexed by
\* successive digits of the hash; a slot is null, a data pointer, a data pointer flagged "converting", or an array node.
\* traverse / insert / do_erase / search / expand_slot as coded, one label per slot access.  Ghost: the set of hashes present, and
\* for every running operation whether its hash was absent / present at some moment since it started (linearizability witness).
\*   EraseGivesUp -- seeded change C14: do_erase returns "not found" when the slot changed under the guard instead of retrying
\*   NoConverting -- expand_slot publishes the new array node without the intermediate "converting" state
EXTENDS Naturals, Sequences, FiniteSets, TLC
CONSTANTS Procs, Prog, Digits, Depth, A, MaxArr, EraseGivesUp, NoConverting
NIL == 0
S(k, v) == [k |-> k, v |-> v]          \* k: "null", "data", "conv", "arr"
NullSlot == S("null", 0)
(* --algorithm Feldman {
variables
  slot = [a \in 1..MaxArr |-> [j \in 0..(A - 1) |-> NullSlot]],
  narr = 1,
  abs = {}, ok = TRUE,
  curh = [p \in Procs |-> NIL], awit = [p \in Procs |-> FALSE], pwit = [p \in Procs |-> FALSE];

define {
  Dig(h, lvl) == Digits[h][lvl]
}

macro Became(hx, present) {
  \* the ghost set changes: every running operation on hash h has now seen it present / absent
  awit := [p \in Procs |-> awit[p] \/ (curh[p] = hx /\ ~present)];
  pwit := [p \in Procs |-> pwit[p] \/ (curh[p] = hx /\ present)];
}

process (P \in Procs)
  variables i = 1, op = <<>>, h = 0, arr = 1, lvl = 1, idx = 0, sl = NullSlot, na = 0;
{
L0: while (i <= Len(Prog[self])) {
      op := Prog[self][i]; h := op[2];
      curh[self] := op[2] || awit[self] := (op[2] \notin abs) || pwit[self] := (op[2] \in abs);
      arr := 1; lvl := 1; idx := Dig(op[2], 1);
TR:   sl := slot[arr][idx];                                       \* traverse(): load the slot
      if (sl.k = "arr") { arr := sl.v; lvl := lvl + 1; idx := Dig(h, lvl + 0); goto TR; }
      else if (sl.k = "conv") { goto TR; };                       \* back off while the slot is being converted
PR:   if (slot[arr][idx] # sl) {                                  \* guard.protect( slot ) != slot
        if (op[1] = "era" /\ EraseGivesUp) { ok := ok /\ awit[self]; goto NX; } else { goto TR; };
      };
OP:   if (op[1] = "ins") {
        if (sl.k = "data") {
          if (sl.v = h) { ok := ok /\ pwit[self]; goto NX; }       \* the hash is already in the set
          else if (lvl < Depth) {
            \* expand_slot( pos, slot ): CAS( slot, cur -> cur | converting ), fill the new array node, CAS( -> array node )
            narr := narr + 1; na := narr + 0;
EX1:        if (slot[arr][idx] = sl) { slot[arr][idx] := IF NoConverting THEN S("arr", na) ELSE S("conv", sl.v); } else { goto TR; };
EX2:        slot[na][Dig(sl.v, lvl + 1)] := sl;
EX3:        slot[arr][idx] := S("arr", na);
            goto TR;
          } else { ok := FALSE; goto NX; };                        \* two different hashes with all digits equal: excluded by the constants
        } else {
IN1:      if (slot[arr][idx] = NullSlot) { slot[arr][idx] := S("data", h); ok := ok /\ h \notin abs; abs := abs \cup {h}; Became(h, TRUE); goto NX; }
          else { goto TR; };
        };
      } else if (op[1] = "era") {
        if (sl.k = "data" /\ sl.v = h) {
ER1:      if (slot[arr][idx] = sl) { slot[arr][idx] := NullSlot; ok := ok /\ h \in abs; abs := abs \ {h}; Became(h, FALSE); goto NX; }
          else { goto TR; };
        } else { ok := ok /\ awit[self]; goto NX; };               \* not found: the hash was absent at some moment of the call
      } else {
        \* search()
        if (sl.k = "data" /\ sl.v = h) { ok := ok /\ pwit[self]; } else { ok := ok /\ awit[self]; };
      };
NX:   curh[self] := NIL; i := i + 1;
    };
}
} *)
\* BEGIN TRANSLATION
VARIABLES pc, slot, narr, abs, ok, curh, awit, pwit

(* define statement *)
Dig(h, lvl) == Digits[h][lvl]

VARIABLES i, op, h, arr, lvl, idx, sl, na

vars == << pc, slot, narr, abs, ok, curh, awit, pwit, i, op, h, arr, lvl, idx, 
           sl, na >>

ProcSet == (Procs)

Init == (* Global variables *)
        /\ slot = [a \in 1..MaxArr |-> [j \in 0..(A - 1) |-> NullSlot]]
        /\ narr = 1
        /\ abs = {}
        /\ ok = TRUE
        /\ curh = [p \in Procs |-> NIL]
        /\ awit = [p \in Procs |-> FALSE]
        /\ pwit = [p \in Procs |-> FALSE]
        (* Process P *)
        /\ i = [self \in Procs |-> 1]
        /\ op = [self \in Procs |-> <<>>]
        /\ h = [self \in Procs |-> 0]
        /\ arr = [self \in Procs |-> 1]
        /\ lvl = [self \in Procs |-> 1]
        /\ idx = [self \in Procs |-> 0]
        /\ sl = [self \in Procs |-> NullSlot]
        /\ na = [self \in Procs |-> 0]
        /\ pc = [self \in ProcSet |-> "L0"]

L0(self) == /\ pc[self] = "L0"
            /\ IF i[self] <= Len(Prog[self])
                  THEN /\ op' = [op EXCEPT ![self] = Prog[self][i[self]]]
                       /\ h' = [h EXCEPT ![self] = op'[self][2]]
                       /\ /\ awit' = [awit EXCEPT ![self] = (op'[self][2] \notin abs)]
                          /\ curh' = [curh EXCEPT ![self] = op'[self][2]]
                          /\ pwit' = [pwit EXCEPT ![self] = (op'[self][2] \in abs)]
                       /\ arr' = [arr EXCEPT ![self] = 1]
                       /\ lvl' = [lvl EXCEPT ![self] = 1]
                       /\ idx' = [idx EXCEPT ![self] = Dig(op'[self][2], 1)]
                       /\ pc' = [pc EXCEPT ![self] = "TR"]
                  ELSE /\ pc' = [pc EXCEPT ![self] = "Done"]
                       /\ UNCHANGED << curh, awit, pwit, op, h, arr, lvl, idx >>
            /\ UNCHANGED << slot, narr, abs, ok, i, sl, na >>

TR(self) == /\ pc[self] = "TR"
            /\ sl' = [sl EXCEPT ![self] = slot[arr[self]][idx[self]]]
            /\ IF sl'[self].k = "arr"
                  THEN /\ arr' = [arr EXCEPT ![self] = sl'[self].v]
                       /\ lvl' = [lvl EXCEPT ![self] = lvl[self] + 1]
                       /\ idx' = [idx EXCEPT ![self] = Dig(h[self], lvl'[self] + 0)]
                       /\ pc' = [pc EXCEPT ![self] = "TR"]
                  ELSE /\ IF sl'[self].k = "conv"
                             THEN /\ pc' = [pc EXCEPT ![self] = "TR"]
                             ELSE /\ pc' = [pc EXCEPT ![self] = "PR"]
                       /\ UNCHANGED << arr, lvl, idx >>
            /\ UNCHANGED << slot, narr, abs, ok, curh, awit, pwit, i, op, h, 
                            na >>

PR(self) == /\ pc[self] = "PR"
            /\ IF slot[arr[self]][idx[self]] # sl[self]
                  THEN /\ IF op[self][1] = "era" /\ EraseGivesUp
                             THEN /\ ok' = (ok /\ awit[self])
                                  /\ pc' = [pc EXCEPT ![self] = "NX"]
                             ELSE /\ pc' = [pc EXCEPT ![self] = "TR"]
                                  /\ ok' = ok
                  ELSE /\ pc' = [pc EXCEPT ![self] = "OP"]
                       /\ ok' = ok
            /\ UNCHANGED << slot, narr, abs, curh, awit, pwit, i, op, h, arr, 
                            lvl, idx, sl, na >>

OP(self) == /\ pc[self] = "OP"
            /\ IF op[self][1] = "ins"
                  THEN /\ IF sl[self].k = "data"
                             THEN /\ IF sl[self].v = h[self]
                                        THEN /\ ok' = (ok /\ pwit[self])
                                             /\ pc' = [pc EXCEPT ![self] = "NX"]
                                             /\ UNCHANGED << narr, na >>
                                        ELSE /\ IF lvl[self] < Depth
                                                   THEN /\ narr' = narr + 1
                                                        /\ na' = [na EXCEPT ![self] = narr' + 0]
                                                        /\ pc' = [pc EXCEPT ![self] = "EX1"]
                                                        /\ ok' = ok
                                                   ELSE /\ ok' = FALSE
                                                        /\ pc' = [pc EXCEPT ![self] = "NX"]
                                                        /\ UNCHANGED << narr, 
                                                                        na >>
                             ELSE /\ pc' = [pc EXCEPT ![self] = "IN1"]
                                  /\ UNCHANGED << narr, ok, na >>
                  ELSE /\ IF op[self][1] = "era"
                             THEN /\ IF sl[self].k = "data" /\ sl[self].v = h[self]
                                        THEN /\ pc' = [pc EXCEPT ![self] = "ER1"]
                                             /\ ok' = ok
                                        ELSE /\ ok' = (ok /\ awit[self])
                                             /\ pc' = [pc EXCEPT ![self] = "NX"]
                             ELSE /\ IF sl[self].k = "data" /\ sl[self].v = h[self]
                                        THEN /\ ok' = (ok /\ pwit[self])
                                        ELSE /\ ok' = (ok /\ awit[self])
                                  /\ pc' = [pc EXCEPT ![self] = "NX"]
                       /\ UNCHANGED << narr, na >>
            /\ UNCHANGED << slot, abs, curh, awit, pwit, i, op, h, arr, lvl, 
                            idx, sl >>

IN1(self) == /\ pc[self] = "IN1"
             /\ IF slot[arr[self]][idx[self]] = NullSlot
                   THEN /\ slot' = [slot EXCEPT ![arr[self]][idx[self]] = S("data", h[self])]
                        /\ ok' = (ok /\ h[self] \notin abs)
                        /\ abs' = (abs \cup {h[self]})
                        /\ awit' = [p \in Procs |-> awit[p] \/ (curh[p] = h[self] /\ ~TRUE)]
                        /\ pwit' = [p \in Procs |-> pwit[p] \/ (curh[p] = h[self] /\ TRUE)]
                        /\ pc' = [pc EXCEPT ![self] = "NX"]
                   ELSE /\ pc' = [pc EXCEPT ![self] = "TR"]
                        /\ UNCHANGED << slot, abs, ok, awit, pwit >>
             /\ UNCHANGED << narr, curh, i, op, h, arr, lvl, idx, sl, na >>

EX1(self) == /\ pc[self] = "EX1"
             /\ IF slot[arr[self]][idx[self]] = sl[self]
                   THEN /\ slot' = [slot EXCEPT ![arr[self]][idx[self]] = IF NoConverting THEN S("arr", na[self]) ELSE S("conv", sl[self].v)]
                        /\ pc' = [pc EXCEPT ![self] = "EX2"]
                   ELSE /\ pc' = [pc EXCEPT ![self] = "TR"]
                        /\ slot' = slot
             /\ UNCHANGED << narr, abs, ok, curh, awit, pwit, i, op, h, arr, 
                             lvl, idx, sl, na >>

EX2(self) == /\ pc[self] = "EX2"
             /\ slot' = [slot EXCEPT ![na[self]][Dig(sl[self].v, lvl[self] + 1)] = sl[self]]
             /\ pc' = [pc EXCEPT ![self] = "EX3"]
             /\ UNCHANGED << narr, abs, ok, curh, awit, pwit, i, op, h, arr, 
                             lvl, idx, sl, na >>

EX3(self) == /\ pc[self] = "EX3"
             /\ slot' = [slot EXCEPT ![arr[self]][idx[self]] = S("arr", na[self])]
             /\ pc' = [pc EXCEPT ![self] = "TR"]
             /\ UNCHANGED << narr, abs, ok, curh, awit, pwit, i, op, h, arr, 
                             lvl, idx, sl, na >>

ER1(self) == /\ pc[self] = "ER1"
             /\ IF slot[arr[self]][idx[self]] = sl[self]
                   THEN /\ slot' = [slot EXCEPT ![arr[self]][idx[self]] = NullSlot]
                        /\ ok' = (ok /\ h[self] \in abs)
                        /\ abs' = abs \ {h[self]}
                        /\ awit' = [p \in Procs |-> awit[p] \/ (curh[p] = h[self] /\ ~FALSE)]
                        /\ pwit' = [p \in Procs |-> pwit[p] \/ (curh[p] = h[self] /\ FALSE)]
                        /\ pc' = [pc EXCEPT ![self] = "NX"]
                   ELSE /\ pc' = [pc EXCEPT ![self] = "TR"]
                        /\ UNCHANGED << slot, abs, ok, awit, pwit >>
             /\ UNCHANGED << narr, curh, i, op, h, arr, lvl, idx, sl, na >>

NX(self) == /\ pc[self] = "NX"
            /\ curh' = [curh EXCEPT ![self] = NIL]
            /\ i' = [i EXCEPT ![self] = i[self] + 1]
            /\ pc' = [pc EXCEPT ![self] = "L0"]
            /\ UNCHANGED << slot, narr, abs, ok, awit, pwit, op, h, arr, lvl, 
                            idx, sl, na >>

P(self) == L0(self) \/ TR(self) \/ PR(self) \/ OP(self) \/ IN1(self)
              \/ EX1(self) \/ EX2(self) \/ EX3(self) \/ ER1(self)
              \/ NX(self)

(* Allow infinite stuttering to prevent deadlock on termination. *)
Terminating == /\ \A self \in ProcSet: pc[self] = "Done"
               /\ UNCHANGED vars

Next == (\E self \in Procs: P(self))
           \/ Terminating

Spec == Init /\ [][Next]_vars

Termination == <>(\A self \in ProcSet: pc[self] = "Done")

\* END TRANSLATION
LinOK == ok
\* every hash of the ghost set is reachable along its digits, and nothing else is stored
RECURSIVE Find(_, _, _)
Find(a, hh, lv) == LET s == slot[a][Digits[hh][lv]] IN
                   IF s.k = "arr" THEN Find(s.v, hh, lv + 1) ELSE (s.k \in {"data", "conv"} /\ s.v = hh)
Hashes == DOMAIN Digits
Reachable == \A hh \in Hashes : (hh \in abs) <=> Find(1, hh, 1)
====
