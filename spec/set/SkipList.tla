---- MODULE SkipList ----
\* Tier B: cds::intrusive::SkipListSet (impl/skip_list.h, HP flavour) with towers of height 1 or 2: find_position with the re-read of
\* pPred->next and help_remove, insert_at_position (level 0 CAS = linearization, upper level linked afterwards, position renewed on
\* failure), try_remove_at (upper level marked first, level-0 mark CAS = logical removal, physical unlink or help by find_position).
\* One label per atomic access; presence witnesses per running operation as linearizability ghost.
\*   KeepMark -- seeded change C15b: the expected value of the level-0 marking CAS is not stripped of the mark bit
\*   NoReread -- find_position does not re-read pPred->next( level ) after loading pCur->next( level )
EXTENDS Naturals, Sequences, FiniteSets, TLC
CONSTANTS Procs, Prog, MaxNodes, KeepMark, NoReread
NIL == 0
HD == 1
Lk(p, m) == [p |-> p, m |-> m]
(* --algorithm SkipList {
variables
  nxt = [n \in 1..MaxNodes |-> [l \in 0..1 |-> Lk(NIL, 0)]],
  key = [n \in 1..MaxNodes |-> 0], hgt = [n \in 1..MaxNodes |-> IF n = HD THEN 2 ELSE 0],
  alloc = 1,
  abs = {}, ok = TRUE, removedBy = [n \in 1..MaxNodes |-> 0],
  prev = [p \in Procs |-> [l \in 0..1 |-> HD]], succ = [p \in Procs |-> [l \in 0..1 |-> NIL]], cur = [p \in Procs |-> NIL], found = [p \in Procs |-> FALSE],
  curk = [p \in Procs |-> NIL], awit = [p \in Procs |-> FALSE], pwit = [p \in Procs |-> FALSE];

macro Became(k, present) {
  awit := [p \in Procs |-> awit[p] \/ (curk[p] = k /\ ~present)];
  pwit := [p \in Procs |-> pwit[p] \/ (curk[p] = k /\ present)];
}

\* find_position( key, pos, stop ): fills prev[], succ[], cur; found
procedure find_position(fk, stop)
  variables pred = HD, lvl = 1, c = Lk(NIL, 0), s = Lk(NIL, 0), cmp = 1;
{
FP0: pred := HD; lvl := 1; cmp := 1;
FP1: c := nxt[pred][lvl];                                            \* pCur = protect( pPred->next( nLevel ))
     if (c.m = 1) { goto FP0; };
FP1a: if (c.p = NIL) { goto FP6; };
FP2: s := nxt[c.p][lvl];                                             \* pSucc = pCur->next( nLevel )
FP3: if (~NoReread /\ nxt[pred][lvl] # Lk(c.p, 0)) { goto FP0; };     \* pPred->next( nLevel ) still == pCur ?
FP4: if (s.m = 1) {
       \* help_remove( nLevel, pPred, pCur ): unlink the marked node, then retry
       if (nxt[pred][lvl] = Lk(c.p, 0)) { nxt[pred][lvl] := Lk(s.p, 0); };
       goto FP0;
     };
FP5: if (key[c.p] < fk) { pred := c.p; goto FP1; }
     else if (key[c.p] = fk /\ stop) { cur[self] := c.p; found[self] := TRUE; return; };
FP6: prev[self][lvl] := pred || succ[self][lvl] := c.p;
     if (lvl = 1) { lvl := 0; goto FP1; };
FP7: cur[self] := c.p; found[self] := (c.p # NIL /\ key[c.p] = fk);
     return;
}

process (P \in Procs)
  variables i = 1, op = <<>>, k = 0, nn = NIL, del = NIL, p0 = Lk(NIL, 0), obs = Lk(NIL, 0), s1 = Lk(NIL, 0), ul = 0;
{
L0: while (i <= Len(Prog[self])) {
      op := Prog[self][i]; k := op[2]; nn := NIL;
      curk[self] := op[2] || awit[self] := (op[2] \notin abs) || pwit[self] := (op[2] \in abs);
OP:   if (op[1] = "find") {
        call find_position(k, TRUE);
F1:     if (found[self]) { ok := ok /\ pwit[self]; } else { ok := ok /\ awit[self]; };
      } else if (op[1] = "ins") {
I0:     call find_position(k, TRUE);
I1:     if (found[self]) { ok := ok /\ pwit[self]; goto NX; };
I2:     if (nn = NIL) { nn := alloc + 1; key[alloc + 1] := k; hgt[alloc + 1] := op[3]; alloc := alloc + 1; };
I3:     nxt[nn][0] := Lk(succ[self][0], 0);                          \* pNode->next( 0 ).store( pSucc[0] )
I4:     if (nxt[prev[self][0]][0] = Lk(succ[self][0], 0)) {           \* CAS( pPrev[0]->next( 0 ), pSucc[0] -> pNode ): linearization
          nxt[prev[self][0]][0] := Lk(nn, 0); ok := ok /\ k \notin abs; abs := abs \cup {k}; Became(k, TRUE);
        } else { goto I0; };
I5:     if (hgt[nn] = 2) {
I6:       if (nxt[nn][1] = Lk(NIL, 0) \/ nxt[nn][1].m = 0) { nxt[nn][1] := Lk(succ[self][1], 0); }    \* CAS( pNode->next( 1 ), null / old -> pSucc[1] )
          else { goto NX; };                                         \* the node is already being removed
I7:       if (nxt[prev[self][1]][1] = Lk(succ[self][1], 0)) { nxt[prev[self][1]][1] := Lk(nn, 0); goto NX; };
I8:       call find_position(k, FALSE);                              \* renew_insert_position
I9:       if (cur[self] = nn /\ nxt[nn][0].m = 0) { goto I6; };      \* still in the list and not marked: try again
        };
      } else {
E0:     call find_position(k, FALSE);
E1:     if (~found[self]) { ok := ok /\ awit[self]; goto NX; };
E2:     del := cur[self];
        if (hgt[del] = 2) {
E3:       if (nxt[del][1].m = 0) { nxt[del][1] := Lk(nxt[del][1].p, 1); };        \* mark the upper level (CAS loop collapsed: only marking changes it... or a link by its inserter)
        };
E4:     p0 := IF KeepMark THEN nxt[del][0] ELSE Lk(nxt[del][0].p, 0);               \* p( pDel->next( 0 ).load().ptr())
E5:     if (nxt[del][0] = p0) {                                                     \* CAS( pDel->next( 0 ), p -> p | 1 ): logical removal
          nxt[del][0] := Lk(p0.p, 1);
          ok := ok /\ k \in abs /\ removedBy[del] = 0; removedBy[del] := self; abs := abs \ {k}; Became(k, FALSE);
        } else {
          obs := nxt[del][0];
          if (obs.m = 1) { ok := ok /\ awit[self]; goto NX; }                       \* somebody else removed it
          else { p0 := obs; goto E5; };
        };
E6:     ul := hgt[del] - 1;
E7:     s1 := nxt[del][ul];                                                         \* physical unlink, top level first
E8:     if (nxt[prev[self][ul]][ul] = Lk(del, 0)) { nxt[prev[self][ul]][ul] := Lk(s1.p, 0); if (ul = 1) { ul := 0; goto E7; }; }
        else { call find_position(k, FALSE); };                                     \* helping unlinks it
      };
NX:   curk[self] := NIL; i := i + 1;
    };
}
} *)
\* BEGIN TRANSLATION
CONSTANT defaultInitValue
VARIABLES pc, nxt, key, hgt, alloc, abs, ok, removedBy, prev, succ, cur, 
          found, curk, awit, pwit, stack, fk, stop, pred, lvl, c, s, cmp, i, 
          op, k, nn, del, p0, obs, s1, ul

vars == << pc, nxt, key, hgt, alloc, abs, ok, removedBy, prev, succ, cur, 
           found, curk, awit, pwit, stack, fk, stop, pred, lvl, c, s, cmp, i, 
           op, k, nn, del, p0, obs, s1, ul >>

ProcSet == (Procs)

Init == (* Global variables *)
        /\ nxt = [n \in 1..MaxNodes |-> [l \in 0..1 |-> Lk(NIL, 0)]]
        /\ key = [n \in 1..MaxNodes |-> 0]
        /\ hgt = [n \in 1..MaxNodes |-> IF n = HD THEN 2 ELSE 0]
        /\ alloc = 1
        /\ abs = {}
        /\ ok = TRUE
        /\ removedBy = [n \in 1..MaxNodes |-> 0]
        /\ prev = [p \in Procs |-> [l \in 0..1 |-> HD]]
        /\ succ = [p \in Procs |-> [l \in 0..1 |-> NIL]]
        /\ cur = [p \in Procs |-> NIL]
        /\ found = [p \in Procs |-> FALSE]
        /\ curk = [p \in Procs |-> NIL]
        /\ awit = [p \in Procs |-> FALSE]
        /\ pwit = [p \in Procs |-> FALSE]
        (* Procedure find_position *)
        /\ fk = [ self \in ProcSet |-> defaultInitValue]
        /\ stop = [ self \in ProcSet |-> defaultInitValue]
        /\ pred = [ self \in ProcSet |-> HD]
        /\ lvl = [ self \in ProcSet |-> 1]
        /\ c = [ self \in ProcSet |-> Lk(NIL, 0)]
        /\ s = [ self \in ProcSet |-> Lk(NIL, 0)]
        /\ cmp = [ self \in ProcSet |-> 1]
        (* Process P *)
        /\ i = [self \in Procs |-> 1]
        /\ op = [self \in Procs |-> <<>>]
        /\ k = [self \in Procs |-> 0]
        /\ nn = [self \in Procs |-> NIL]
        /\ del = [self \in Procs |-> NIL]
        /\ p0 = [self \in Procs |-> Lk(NIL, 0)]
        /\ obs = [self \in Procs |-> Lk(NIL, 0)]
        /\ s1 = [self \in Procs |-> Lk(NIL, 0)]
        /\ ul = [self \in Procs |-> 0]
        /\ stack = [self \in ProcSet |-> << >>]
        /\ pc = [self \in ProcSet |-> "L0"]

FP0(self) == /\ pc[self] = "FP0"
             /\ pred' = [pred EXCEPT ![self] = HD]
             /\ lvl' = [lvl EXCEPT ![self] = 1]
             /\ cmp' = [cmp EXCEPT ![self] = 1]
             /\ pc' = [pc EXCEPT ![self] = "FP1"]
             /\ UNCHANGED << nxt, key, hgt, alloc, abs, ok, removedBy, prev, 
                             succ, cur, found, curk, awit, pwit, stack, fk, 
                             stop, c, s, i, op, k, nn, del, p0, obs, s1, ul >>

FP1(self) == /\ pc[self] = "FP1"
             /\ c' = [c EXCEPT ![self] = nxt[pred[self]][lvl[self]]]
             /\ IF c'[self].m = 1
                   THEN /\ pc' = [pc EXCEPT ![self] = "FP0"]
                   ELSE /\ pc' = [pc EXCEPT ![self] = "FP1a"]
             /\ UNCHANGED << nxt, key, hgt, alloc, abs, ok, removedBy, prev, 
                             succ, cur, found, curk, awit, pwit, stack, fk, 
                             stop, pred, lvl, s, cmp, i, op, k, nn, del, p0, 
                             obs, s1, ul >>

FP1a(self) == /\ pc[self] = "FP1a"
              /\ IF c[self].p = NIL
                    THEN /\ pc' = [pc EXCEPT ![self] = "FP6"]
                    ELSE /\ pc' = [pc EXCEPT ![self] = "FP2"]
              /\ UNCHANGED << nxt, key, hgt, alloc, abs, ok, removedBy, prev, 
                              succ, cur, found, curk, awit, pwit, stack, fk, 
                              stop, pred, lvl, c, s, cmp, i, op, k, nn, del, 
                              p0, obs, s1, ul >>

FP2(self) == /\ pc[self] = "FP2"
             /\ s' = [s EXCEPT ![self] = nxt[c[self].p][lvl[self]]]
             /\ pc' = [pc EXCEPT ![self] = "FP3"]
             /\ UNCHANGED << nxt, key, hgt, alloc, abs, ok, removedBy, prev, 
                             succ, cur, found, curk, awit, pwit, stack, fk, 
                             stop, pred, lvl, c, cmp, i, op, k, nn, del, p0, 
                             obs, s1, ul >>

FP3(self) == /\ pc[self] = "FP3"
             /\ IF ~NoReread /\ nxt[pred[self]][lvl[self]] # Lk(c[self].p, 0)
                   THEN /\ pc' = [pc EXCEPT ![self] = "FP0"]
                   ELSE /\ pc' = [pc EXCEPT ![self] = "FP4"]
             /\ UNCHANGED << nxt, key, hgt, alloc, abs, ok, removedBy, prev, 
                             succ, cur, found, curk, awit, pwit, stack, fk, 
                             stop, pred, lvl, c, s, cmp, i, op, k, nn, del, p0, 
                             obs, s1, ul >>

FP4(self) == /\ pc[self] = "FP4"
             /\ IF s[self].m = 1
                   THEN /\ IF nxt[pred[self]][lvl[self]] = Lk(c[self].p, 0)
                              THEN /\ nxt' = [nxt EXCEPT ![pred[self]][lvl[self]] = Lk(s[self].p, 0)]
                              ELSE /\ TRUE
                                   /\ nxt' = nxt
                        /\ pc' = [pc EXCEPT ![self] = "FP0"]
                   ELSE /\ pc' = [pc EXCEPT ![self] = "FP5"]
                        /\ nxt' = nxt
             /\ UNCHANGED << key, hgt, alloc, abs, ok, removedBy, prev, succ, 
                             cur, found, curk, awit, pwit, stack, fk, stop, 
                             pred, lvl, c, s, cmp, i, op, k, nn, del, p0, obs, 
                             s1, ul >>

FP5(self) == /\ pc[self] = "FP5"
             /\ IF key[c[self].p] < fk[self]
                   THEN /\ pred' = [pred EXCEPT ![self] = c[self].p]
                        /\ pc' = [pc EXCEPT ![self] = "FP1"]
                        /\ UNCHANGED << cur, found, stack, fk, stop, lvl, c, s, 
                                        cmp >>
                   ELSE /\ IF key[c[self].p] = fk[self] /\ stop[self]
                              THEN /\ cur' = [cur EXCEPT ![self] = c[self].p]
                                   /\ found' = [found EXCEPT ![self] = TRUE]
                                   /\ pc' = [pc EXCEPT ![self] = Head(stack[self]).pc]
                                   /\ pred' = [pred EXCEPT ![self] = Head(stack[self]).pred]
                                   /\ lvl' = [lvl EXCEPT ![self] = Head(stack[self]).lvl]
                                   /\ c' = [c EXCEPT ![self] = Head(stack[self]).c]
                                   /\ s' = [s EXCEPT ![self] = Head(stack[self]).s]
                                   /\ cmp' = [cmp EXCEPT ![self] = Head(stack[self]).cmp]
                                   /\ fk' = [fk EXCEPT ![self] = Head(stack[self]).fk]
                                   /\ stop' = [stop EXCEPT ![self] = Head(stack[self]).stop]
                                   /\ stack' = [stack EXCEPT ![self] = Tail(stack[self])]
                              ELSE /\ pc' = [pc EXCEPT ![self] = "FP6"]
                                   /\ UNCHANGED << cur, found, stack, fk, stop, 
                                                   pred, lvl, c, s, cmp >>
             /\ UNCHANGED << nxt, key, hgt, alloc, abs, ok, removedBy, prev, 
                             succ, curk, awit, pwit, i, op, k, nn, del, p0, 
                             obs, s1, ul >>

FP6(self) == /\ pc[self] = "FP6"
             /\ /\ prev' = [prev EXCEPT ![self][lvl[self]] = pred[self]]
                /\ succ' = [succ EXCEPT ![self][lvl[self]] = c[self].p]
             /\ IF lvl[self] = 1
                   THEN /\ lvl' = [lvl EXCEPT ![self] = 0]
                        /\ pc' = [pc EXCEPT ![self] = "FP1"]
                   ELSE /\ pc' = [pc EXCEPT ![self] = "FP7"]
                        /\ lvl' = lvl
             /\ UNCHANGED << nxt, key, hgt, alloc, abs, ok, removedBy, cur, 
                             found, curk, awit, pwit, stack, fk, stop, pred, c, 
                             s, cmp, i, op, k, nn, del, p0, obs, s1, ul >>

FP7(self) == /\ pc[self] = "FP7"
             /\ cur' = [cur EXCEPT ![self] = c[self].p]
             /\ found' = [found EXCEPT ![self] = (c[self].p # NIL /\ key[c[self].p] = fk[self])]
             /\ pc' = [pc EXCEPT ![self] = Head(stack[self]).pc]
             /\ pred' = [pred EXCEPT ![self] = Head(stack[self]).pred]
             /\ lvl' = [lvl EXCEPT ![self] = Head(stack[self]).lvl]
             /\ c' = [c EXCEPT ![self] = Head(stack[self]).c]
             /\ s' = [s EXCEPT ![self] = Head(stack[self]).s]
             /\ cmp' = [cmp EXCEPT ![self] = Head(stack[self]).cmp]
             /\ fk' = [fk EXCEPT ![self] = Head(stack[self]).fk]
             /\ stop' = [stop EXCEPT ![self] = Head(stack[self]).stop]
             /\ stack' = [stack EXCEPT ![self] = Tail(stack[self])]
             /\ UNCHANGED << nxt, key, hgt, alloc, abs, ok, removedBy, prev, 
                             succ, curk, awit, pwit, i, op, k, nn, del, p0, 
                             obs, s1, ul >>

find_position(self) == FP0(self) \/ FP1(self) \/ FP1a(self) \/ FP2(self)
                          \/ FP3(self) \/ FP4(self) \/ FP5(self)
                          \/ FP6(self) \/ FP7(self)

L0(self) == /\ pc[self] = "L0"
            /\ IF i[self] <= Len(Prog[self])
                  THEN /\ op' = [op EXCEPT ![self] = Prog[self][i[self]]]
                       /\ k' = [k EXCEPT ![self] = op'[self][2]]
                       /\ nn' = [nn EXCEPT ![self] = NIL]
                       /\ /\ awit' = [awit EXCEPT ![self] = (op'[self][2] \notin abs)]
                          /\ curk' = [curk EXCEPT ![self] = op'[self][2]]
                          /\ pwit' = [pwit EXCEPT ![self] = (op'[self][2] \in abs)]
                       /\ pc' = [pc EXCEPT ![self] = "OP"]
                  ELSE /\ pc' = [pc EXCEPT ![self] = "Done"]
                       /\ UNCHANGED << curk, awit, pwit, op, k, nn >>
            /\ UNCHANGED << nxt, key, hgt, alloc, abs, ok, removedBy, prev, 
                            succ, cur, found, stack, fk, stop, pred, lvl, c, s, 
                            cmp, i, del, p0, obs, s1, ul >>

OP(self) == /\ pc[self] = "OP"
            /\ IF op[self][1] = "find"
                  THEN /\ /\ fk' = [fk EXCEPT ![self] = k[self]]
                          /\ stack' = [stack EXCEPT ![self] = << [ procedure |->  "find_position",
                                                                   pc        |->  "F1",
                                                                   pred      |->  pred[self],
                                                                   lvl       |->  lvl[self],
                                                                   c         |->  c[self],
                                                                   s         |->  s[self],
                                                                   cmp       |->  cmp[self],
                                                                   fk        |->  fk[self],
                                                                   stop      |->  stop[self] ] >>
                                                               \o stack[self]]
                          /\ stop' = [stop EXCEPT ![self] = TRUE]
                       /\ pred' = [pred EXCEPT ![self] = HD]
                       /\ lvl' = [lvl EXCEPT ![self] = 1]
                       /\ c' = [c EXCEPT ![self] = Lk(NIL, 0)]
                       /\ s' = [s EXCEPT ![self] = Lk(NIL, 0)]
                       /\ cmp' = [cmp EXCEPT ![self] = 1]
                       /\ pc' = [pc EXCEPT ![self] = "FP0"]
                  ELSE /\ IF op[self][1] = "ins"
                             THEN /\ pc' = [pc EXCEPT ![self] = "I0"]
                             ELSE /\ pc' = [pc EXCEPT ![self] = "E0"]
                       /\ UNCHANGED << stack, fk, stop, pred, lvl, c, s, cmp >>
            /\ UNCHANGED << nxt, key, hgt, alloc, abs, ok, removedBy, prev, 
                            succ, cur, found, curk, awit, pwit, i, op, k, nn, 
                            del, p0, obs, s1, ul >>

F1(self) == /\ pc[self] = "F1"
            /\ IF found[self]
                  THEN /\ ok' = (ok /\ pwit[self])
                  ELSE /\ ok' = (ok /\ awit[self])
            /\ pc' = [pc EXCEPT ![self] = "NX"]
            /\ UNCHANGED << nxt, key, hgt, alloc, abs, removedBy, prev, succ, 
                            cur, found, curk, awit, pwit, stack, fk, stop, 
                            pred, lvl, c, s, cmp, i, op, k, nn, del, p0, obs, 
                            s1, ul >>

I0(self) == /\ pc[self] = "I0"
            /\ /\ fk' = [fk EXCEPT ![self] = k[self]]
               /\ stack' = [stack EXCEPT ![self] = << [ procedure |->  "find_position",
                                                        pc        |->  "I1",
                                                        pred      |->  pred[self],
                                                        lvl       |->  lvl[self],
                                                        c         |->  c[self],
                                                        s         |->  s[self],
                                                        cmp       |->  cmp[self],
                                                        fk        |->  fk[self],
                                                        stop      |->  stop[self] ] >>
                                                    \o stack[self]]
               /\ stop' = [stop EXCEPT ![self] = TRUE]
            /\ pred' = [pred EXCEPT ![self] = HD]
            /\ lvl' = [lvl EXCEPT ![self] = 1]
            /\ c' = [c EXCEPT ![self] = Lk(NIL, 0)]
            /\ s' = [s EXCEPT ![self] = Lk(NIL, 0)]
            /\ cmp' = [cmp EXCEPT ![self] = 1]
            /\ pc' = [pc EXCEPT ![self] = "FP0"]
            /\ UNCHANGED << nxt, key, hgt, alloc, abs, ok, removedBy, prev, 
                            succ, cur, found, curk, awit, pwit, i, op, k, nn, 
                            del, p0, obs, s1, ul >>

I1(self) == /\ pc[self] = "I1"
            /\ IF found[self]
                  THEN /\ ok' = (ok /\ pwit[self])
                       /\ pc' = [pc EXCEPT ![self] = "NX"]
                  ELSE /\ pc' = [pc EXCEPT ![self] = "I2"]
                       /\ ok' = ok
            /\ UNCHANGED << nxt, key, hgt, alloc, abs, removedBy, prev, succ, 
                            cur, found, curk, awit, pwit, stack, fk, stop, 
                            pred, lvl, c, s, cmp, i, op, k, nn, del, p0, obs, 
                            s1, ul >>

I2(self) == /\ pc[self] = "I2"
            /\ IF nn[self] = NIL
                  THEN /\ nn' = [nn EXCEPT ![self] = alloc + 1]
                       /\ key' = [key EXCEPT ![alloc + 1] = k[self]]
                       /\ hgt' = [hgt EXCEPT ![alloc + 1] = op[self][3]]
                       /\ alloc' = alloc + 1
                  ELSE /\ TRUE
                       /\ UNCHANGED << key, hgt, alloc, nn >>
            /\ pc' = [pc EXCEPT ![self] = "I3"]
            /\ UNCHANGED << nxt, abs, ok, removedBy, prev, succ, cur, found, 
                            curk, awit, pwit, stack, fk, stop, pred, lvl, c, s, 
                            cmp, i, op, k, del, p0, obs, s1, ul >>

I3(self) == /\ pc[self] = "I3"
            /\ nxt' = [nxt EXCEPT ![nn[self]][0] = Lk(succ[self][0], 0)]
            /\ pc' = [pc EXCEPT ![self] = "I4"]
            /\ UNCHANGED << key, hgt, alloc, abs, ok, removedBy, prev, succ, 
                            cur, found, curk, awit, pwit, stack, fk, stop, 
                            pred, lvl, c, s, cmp, i, op, k, nn, del, p0, obs, 
                            s1, ul >>

I4(self) == /\ pc[self] = "I4"
            /\ IF nxt[prev[self][0]][0] = Lk(succ[self][0], 0)
                  THEN /\ nxt' = [nxt EXCEPT ![prev[self][0]][0] = Lk(nn[self], 0)]
                       /\ ok' = (ok /\ k[self] \notin abs)
                       /\ abs' = (abs \cup {k[self]})
                       /\ awit' = [p \in Procs |-> awit[p] \/ (curk[p] = k[self] /\ ~TRUE)]
                       /\ pwit' = [p \in Procs |-> pwit[p] \/ (curk[p] = k[self] /\ TRUE)]
                       /\ pc' = [pc EXCEPT ![self] = "I5"]
                  ELSE /\ pc' = [pc EXCEPT ![self] = "I0"]
                       /\ UNCHANGED << nxt, abs, ok, awit, pwit >>
            /\ UNCHANGED << key, hgt, alloc, removedBy, prev, succ, cur, found, 
                            curk, stack, fk, stop, pred, lvl, c, s, cmp, i, op, 
                            k, nn, del, p0, obs, s1, ul >>

I5(self) == /\ pc[self] = "I5"
            /\ IF hgt[nn[self]] = 2
                  THEN /\ pc' = [pc EXCEPT ![self] = "I6"]
                  ELSE /\ pc' = [pc EXCEPT ![self] = "NX"]
            /\ UNCHANGED << nxt, key, hgt, alloc, abs, ok, removedBy, prev, 
                            succ, cur, found, curk, awit, pwit, stack, fk, 
                            stop, pred, lvl, c, s, cmp, i, op, k, nn, del, p0, 
                            obs, s1, ul >>

I6(self) == /\ pc[self] = "I6"
            /\ IF nxt[nn[self]][1] = Lk(NIL, 0) \/ nxt[nn[self]][1].m = 0
                  THEN /\ nxt' = [nxt EXCEPT ![nn[self]][1] = Lk(succ[self][1], 0)]
                       /\ pc' = [pc EXCEPT ![self] = "I7"]
                  ELSE /\ pc' = [pc EXCEPT ![self] = "NX"]
                       /\ nxt' = nxt
            /\ UNCHANGED << key, hgt, alloc, abs, ok, removedBy, prev, succ, 
                            cur, found, curk, awit, pwit, stack, fk, stop, 
                            pred, lvl, c, s, cmp, i, op, k, nn, del, p0, obs, 
                            s1, ul >>

I7(self) == /\ pc[self] = "I7"
            /\ IF nxt[prev[self][1]][1] = Lk(succ[self][1], 0)
                  THEN /\ nxt' = [nxt EXCEPT ![prev[self][1]][1] = Lk(nn[self], 0)]
                       /\ pc' = [pc EXCEPT ![self] = "NX"]
                  ELSE /\ pc' = [pc EXCEPT ![self] = "I8"]
                       /\ nxt' = nxt
            /\ UNCHANGED << key, hgt, alloc, abs, ok, removedBy, prev, succ, 
                            cur, found, curk, awit, pwit, stack, fk, stop, 
                            pred, lvl, c, s, cmp, i, op, k, nn, del, p0, obs, 
                            s1, ul >>

I8(self) == /\ pc[self] = "I8"
            /\ /\ fk' = [fk EXCEPT ![self] = k[self]]
               /\ stack' = [stack EXCEPT ![self] = << [ procedure |->  "find_position",
                                                        pc        |->  "I9",
                                                        pred      |->  pred[self],
                                                        lvl       |->  lvl[self],
                                                        c         |->  c[self],
                                                        s         |->  s[self],
                                                        cmp       |->  cmp[self],
                                                        fk        |->  fk[self],
                                                        stop      |->  stop[self] ] >>
                                                    \o stack[self]]
               /\ stop' = [stop EXCEPT ![self] = FALSE]
            /\ pred' = [pred EXCEPT ![self] = HD]
            /\ lvl' = [lvl EXCEPT ![self] = 1]
            /\ c' = [c EXCEPT ![self] = Lk(NIL, 0)]
            /\ s' = [s EXCEPT ![self] = Lk(NIL, 0)]
            /\ cmp' = [cmp EXCEPT ![self] = 1]
            /\ pc' = [pc EXCEPT ![self] = "FP0"]
            /\ UNCHANGED << nxt, key, hgt, alloc, abs, ok, removedBy, prev, 
                            succ, cur, found, curk, awit, pwit, i, op, k, nn, 
                            del, p0, obs, s1, ul >>

I9(self) == /\ pc[self] = "I9"
            /\ IF cur[self] = nn[self] /\ nxt[nn[self]][0].m = 0
                  THEN /\ pc' = [pc EXCEPT ![self] = "I6"]
                  ELSE /\ pc' = [pc EXCEPT ![self] = "NX"]
            /\ UNCHANGED << nxt, key, hgt, alloc, abs, ok, removedBy, prev, 
                            succ, cur, found, curk, awit, pwit, stack, fk, 
                            stop, pred, lvl, c, s, cmp, i, op, k, nn, del, p0, 
                            obs, s1, ul >>

E0(self) == /\ pc[self] = "E0"
            /\ /\ fk' = [fk EXCEPT ![self] = k[self]]
               /\ stack' = [stack EXCEPT ![self] = << [ procedure |->  "find_position",
                                                        pc        |->  "E1",
                                                        pred      |->  pred[self],
                                                        lvl       |->  lvl[self],
                                                        c         |->  c[self],
                                                        s         |->  s[self],
                                                        cmp       |->  cmp[self],
                                                        fk        |->  fk[self],
                                                        stop      |->  stop[self] ] >>
                                                    \o stack[self]]
               /\ stop' = [stop EXCEPT ![self] = FALSE]
            /\ pred' = [pred EXCEPT ![self] = HD]
            /\ lvl' = [lvl EXCEPT ![self] = 1]
            /\ c' = [c EXCEPT ![self] = Lk(NIL, 0)]
            /\ s' = [s EXCEPT ![self] = Lk(NIL, 0)]
            /\ cmp' = [cmp EXCEPT ![self] = 1]
            /\ pc' = [pc EXCEPT ![self] = "FP0"]
            /\ UNCHANGED << nxt, key, hgt, alloc, abs, ok, removedBy, prev, 
                            succ, cur, found, curk, awit, pwit, i, op, k, nn, 
                            del, p0, obs, s1, ul >>

E1(self) == /\ pc[self] = "E1"
            /\ IF ~found[self]
                  THEN /\ ok' = (ok /\ awit[self])
                       /\ pc' = [pc EXCEPT ![self] = "NX"]
                  ELSE /\ pc' = [pc EXCEPT ![self] = "E2"]
                       /\ ok' = ok
            /\ UNCHANGED << nxt, key, hgt, alloc, abs, removedBy, prev, succ, 
                            cur, found, curk, awit, pwit, stack, fk, stop, 
                            pred, lvl, c, s, cmp, i, op, k, nn, del, p0, obs, 
                            s1, ul >>

E2(self) == /\ pc[self] = "E2"
            /\ del' = [del EXCEPT ![self] = cur[self]]
            /\ IF hgt[del'[self]] = 2
                  THEN /\ pc' = [pc EXCEPT ![self] = "E3"]
                  ELSE /\ pc' = [pc EXCEPT ![self] = "E4"]
            /\ UNCHANGED << nxt, key, hgt, alloc, abs, ok, removedBy, prev, 
                            succ, cur, found, curk, awit, pwit, stack, fk, 
                            stop, pred, lvl, c, s, cmp, i, op, k, nn, p0, obs, 
                            s1, ul >>

E3(self) == /\ pc[self] = "E3"
            /\ IF nxt[del[self]][1].m = 0
                  THEN /\ nxt' = [nxt EXCEPT ![del[self]][1] = Lk(nxt[del[self]][1].p, 1)]
                  ELSE /\ TRUE
                       /\ nxt' = nxt
            /\ pc' = [pc EXCEPT ![self] = "E4"]
            /\ UNCHANGED << key, hgt, alloc, abs, ok, removedBy, prev, succ, 
                            cur, found, curk, awit, pwit, stack, fk, stop, 
                            pred, lvl, c, s, cmp, i, op, k, nn, del, p0, obs, 
                            s1, ul >>

E4(self) == /\ pc[self] = "E4"
            /\ p0' = [p0 EXCEPT ![self] = IF KeepMark THEN nxt[del[self]][0] ELSE Lk(nxt[del[self]][0].p, 0)]
            /\ pc' = [pc EXCEPT ![self] = "E5"]
            /\ UNCHANGED << nxt, key, hgt, alloc, abs, ok, removedBy, prev, 
                            succ, cur, found, curk, awit, pwit, stack, fk, 
                            stop, pred, lvl, c, s, cmp, i, op, k, nn, del, obs, 
                            s1, ul >>

E5(self) == /\ pc[self] = "E5"
            /\ IF nxt[del[self]][0] = p0[self]
                  THEN /\ nxt' = [nxt EXCEPT ![del[self]][0] = Lk(p0[self].p, 1)]
                       /\ ok' = (ok /\ k[self] \in abs /\ removedBy[del[self]] = 0)
                       /\ removedBy' = [removedBy EXCEPT ![del[self]] = self]
                       /\ abs' = abs \ {k[self]}
                       /\ awit' = [p \in Procs |-> awit[p] \/ (curk[p] = k[self] /\ ~FALSE)]
                       /\ pwit' = [p \in Procs |-> pwit[p] \/ (curk[p] = k[self] /\ FALSE)]
                       /\ pc' = [pc EXCEPT ![self] = "E6"]
                       /\ UNCHANGED << p0, obs >>
                  ELSE /\ obs' = [obs EXCEPT ![self] = nxt[del[self]][0]]
                       /\ IF obs'[self].m = 1
                             THEN /\ ok' = (ok /\ awit[self])
                                  /\ pc' = [pc EXCEPT ![self] = "NX"]
                                  /\ p0' = p0
                             ELSE /\ p0' = [p0 EXCEPT ![self] = obs'[self]]
                                  /\ pc' = [pc EXCEPT ![self] = "E5"]
                                  /\ ok' = ok
                       /\ UNCHANGED << nxt, abs, removedBy, awit, pwit >>
            /\ UNCHANGED << key, hgt, alloc, prev, succ, cur, found, curk, 
                            stack, fk, stop, pred, lvl, c, s, cmp, i, op, k, 
                            nn, del, s1, ul >>

E6(self) == /\ pc[self] = "E6"
            /\ ul' = [ul EXCEPT ![self] = hgt[del[self]] - 1]
            /\ pc' = [pc EXCEPT ![self] = "E7"]
            /\ UNCHANGED << nxt, key, hgt, alloc, abs, ok, removedBy, prev, 
                            succ, cur, found, curk, awit, pwit, stack, fk, 
                            stop, pred, lvl, c, s, cmp, i, op, k, nn, del, p0, 
                            obs, s1 >>

E7(self) == /\ pc[self] = "E7"
            /\ s1' = [s1 EXCEPT ![self] = nxt[del[self]][ul[self]]]
            /\ pc' = [pc EXCEPT ![self] = "E8"]
            /\ UNCHANGED << nxt, key, hgt, alloc, abs, ok, removedBy, prev, 
                            succ, cur, found, curk, awit, pwit, stack, fk, 
                            stop, pred, lvl, c, s, cmp, i, op, k, nn, del, p0, 
                            obs, ul >>

E8(self) == /\ pc[self] = "E8"
            /\ IF nxt[prev[self][ul[self]]][ul[self]] = Lk(del[self], 0)
                  THEN /\ nxt' = [nxt EXCEPT ![prev[self][ul[self]]][ul[self]] = Lk(s1[self].p, 0)]
                       /\ IF ul[self] = 1
                             THEN /\ ul' = [ul EXCEPT ![self] = 0]
                                  /\ pc' = [pc EXCEPT ![self] = "E7"]
                             ELSE /\ pc' = [pc EXCEPT ![self] = "NX"]
                                  /\ ul' = ul
                       /\ UNCHANGED << stack, fk, stop, pred, lvl, c, s, cmp >>
                  ELSE /\ /\ fk' = [fk EXCEPT ![self] = k[self]]
                          /\ stack' = [stack EXCEPT ![self] = << [ procedure |->  "find_position",
                                                                   pc        |->  "NX",
                                                                   pred      |->  pred[self],
                                                                   lvl       |->  lvl[self],
                                                                   c         |->  c[self],
                                                                   s         |->  s[self],
                                                                   cmp       |->  cmp[self],
                                                                   fk        |->  fk[self],
                                                                   stop      |->  stop[self] ] >>
                                                               \o stack[self]]
                          /\ stop' = [stop EXCEPT ![self] = FALSE]
                       /\ pred' = [pred EXCEPT ![self] = HD]
                       /\ lvl' = [lvl EXCEPT ![self] = 1]
                       /\ c' = [c EXCEPT ![self] = Lk(NIL, 0)]
                       /\ s' = [s EXCEPT ![self] = Lk(NIL, 0)]
                       /\ cmp' = [cmp EXCEPT ![self] = 1]
                       /\ pc' = [pc EXCEPT ![self] = "FP0"]
                       /\ UNCHANGED << nxt, ul >>
            /\ UNCHANGED << key, hgt, alloc, abs, ok, removedBy, prev, succ, 
                            cur, found, curk, awit, pwit, i, op, k, nn, del, 
                            p0, obs, s1 >>

NX(self) == /\ pc[self] = "NX"
            /\ curk' = [curk EXCEPT ![self] = NIL]
            /\ i' = [i EXCEPT ![self] = i[self] + 1]
            /\ pc' = [pc EXCEPT ![self] = "L0"]
            /\ UNCHANGED << nxt, key, hgt, alloc, abs, ok, removedBy, prev, 
                            succ, cur, found, awit, pwit, stack, fk, stop, 
                            pred, lvl, c, s, cmp, op, k, nn, del, p0, obs, s1, 
                            ul >>

P(self) == L0(self) \/ OP(self) \/ F1(self) \/ I0(self) \/ I1(self)
              \/ I2(self) \/ I3(self) \/ I4(self) \/ I5(self) \/ I6(self)
              \/ I7(self) \/ I8(self) \/ I9(self) \/ E0(self) \/ E1(self)
              \/ E2(self) \/ E3(self) \/ E4(self) \/ E5(self) \/ E6(self)
              \/ E7(self) \/ E8(self) \/ NX(self)

(* Allow infinite stuttering to prevent deadlock on termination. *)
Terminating == /\ \A self \in ProcSet: pc[self] = "Done"
               /\ UNCHANGED vars

Next == (\E self \in ProcSet: find_position(self))
           \/ (\E self \in Procs: P(self))
           \/ Terminating

Spec == Init /\ [][Next]_vars

Termination == <>(\A self \in ProcSet: pc[self] = "Done")

\* END TRANSLATION
LinOK == ok
\* level 0 from the head: the unmarked nodes carry exactly the ghost set, in ascending key order
Walk0 == LET W[j \in 0..MaxNodes] == IF j = 0 THEN <<>> ELSE LET w == W[j - 1] IN
                                      LET last == IF w = <<>> THEN HD ELSE w[Len(w)] IN
                                      IF nxt[last][0].p = NIL THEN w ELSE Append(w, nxt[last][0].p) IN W[MaxNodes]
ListOK == LET w == Walk0 IN
          /\ { key[w[j]] : j \in { jj \in 1..Len(w) : nxt[w[jj]][0].m = 0 } } = abs
          /\ \A j \in 1..(Len(w) - 1) : key[w[j]] < key[w[j + 1]]
====
