SPECIFICATION Spec
CONSTANTS
  Procs = {1, 2}
  Prog <- KA
  MaxNodes = 4
  KeepMark = TRUE
  NoReread = FALSE
  defaultInitValue = 0
INVARIANTS LinOK ListOK
CHECK_DEADLOCK FALSE
