SPECIFICATION Spec
CONSTANTS
  Procs = {1, 2, 3}
  Prog <- KB
  MaxNodes = 5
  KeepMark = FALSE
  NoReread = FALSE
  defaultInitValue = 0
INVARIANTS LinOK ListOK
CHECK_DEADLOCK FALSE
