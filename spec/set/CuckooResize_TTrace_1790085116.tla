---- MODULE CuckooResize_TTrace_1790085116 ----
EXTENDS Sequences, TLCExt, CuckooResize, Toolbox, Naturals, TLC

_expression ==
    LET CuckooResize_TEExpression == INSTANCE CuckooResize_TEExpression
    IN CuckooResize_TEExpression!expression
----

_trace ==
    LET CuckooResize_TETrace == INSTANCE CuckooResize_TETrace
    IN CuckooResize_TETrace!trace
----

_inv ==
    ~(
        TLCGet("level") = Len(_TETrace)
        /\
        cap = (16)
        /\
        tab = (<<(0 :> <<7>> @@ 1 :> <<>> @@ 2 :> <<>> @@ 3 :> <<4, 1>> @@ 4 :> <<>> @@ 5 :> <<>> @@ 6 :> <<>> @@ 7 :> <<>> @@ 8 :> <<>> @@ 9 :> <<>> @@ 10 :> <<>> @@ 11 :> <<>> @@ 12 :> <<>> @@ 13 :> <<>> @@ 14 :> <<>> @@ 15 :> <<>>), (0 :> <<>> @@ 1 :> <<3>> @@ 2 :> <<6, 5>> @@ 3 :> <<>> @@ 4 :> <<>> @@ 5 :> <<>> @@ 6 :> <<>> @@ 7 :> <<>> @@ 8 :> <<>> @@ 9 :> <<>> @@ 10 :> <<>> @@ 11 :> <<>> @@ 12 :> <<>> @@ 13 :> <<>> @@ 14 :> <<>> @@ 15 :> <<>>)>>)
        /\
        lost = ({2})
        /\
        h1 = (<<3, 3, 3, 3, 0, 3, 0>>)
        /\
        h2 = (<<2, 2, 1, 2, 2, 2, 2>>)
        /\
        done = (7)
    )
----

_init ==
    /\ done = _TETrace[1].done
    /\ tab = _TETrace[1].tab
    /\ h1 = _TETrace[1].h1
    /\ cap = _TETrace[1].cap
    /\ h2 = _TETrace[1].h2
    /\ lost = _TETrace[1].lost
----

_next ==
    /\ \E i,j \in DOMAIN _TETrace:
        /\ \/ /\ j = i + 1
              /\ i = TLCGet("level")
        /\ done  = _TETrace[i].done
        /\ done' = _TETrace[j].done
        /\ tab  = _TETrace[i].tab
        /\ tab' = _TETrace[j].tab
        /\ h1  = _TETrace[i].h1
        /\ h1' = _TETrace[j].h1
        /\ cap  = _TETrace[i].cap
        /\ cap' = _TETrace[j].cap
        /\ h2  = _TETrace[i].h2
        /\ h2' = _TETrace[j].h2
        /\ lost  = _TETrace[i].lost
        /\ lost' = _TETrace[j].lost

\* Uncomment the ASSUME below to write the states of the error trace
\* to the given file in Json format. Note that you can pass any tuple
\* to `JsonSerialize`. For example, a sub-sequence of _TETrace.
    \* ASSUME
    \*     LET J == INSTANCE Json
    \*         IN J!JsonSerialize("CuckooResize_TTrace_1790085116.json", _TETrace)

=============================================================================

 Note that you can extract this module `CuckooResize_TEExpression`
  to a dedicated file to reuse `expression` (the module in the 
  dedicated `CuckooResize_TEExpression.tla` file takes precedence 
  over the module `CuckooResize_TEExpression` below).

---- MODULE CuckooResize_TEExpression ----
EXTENDS Sequences, TLCExt, CuckooResize, Toolbox, Naturals, TLC

expression == 
    [
        \* To hide variables of the `CuckooResize` spec from the error trace,
        \* remove the variables below.  The trace will be written in the order
        \* of the fields of this record.
        done |-> done
        ,tab |-> tab
        ,h1 |-> h1
        ,cap |-> cap
        ,h2 |-> h2
        ,lost |-> lost
        
        \* Put additional constant-, state-, and action-level expressions here:
        \* ,_stateNumber |-> _TEPosition
        \* ,_doneUnchanged |-> done = done'
        
        \* Format the `done` variable as Json value.
        \* ,_doneJson |->
        \*     LET J == INSTANCE Json
        \*     IN J!ToJson(done)
        
        \* Lastly, you may build expressions over arbitrary sets of states by
        \* leveraging the _TETrace operator.  For example, this is how to
        \* count the number of times a spec variable changed up to the current
        \* state in the trace.
        \* ,_doneModCount |->
        \*     LET F[s \in DOMAIN _TETrace] ==
        \*         IF s = 1 THEN 0
        \*         ELSE IF _TETrace[s].done # _TETrace[s-1].done
        \*             THEN 1 + F[s-1] ELSE F[s-1]
        \*     IN F[_TEPosition - 1]
    ]

=============================================================================



Parsing and semantic processing can take forever if the trace below is long.
 In this case, it is advised to uncomment the module below to deserialize the
 trace from a generated binary file.

\*
\*---- MODULE CuckooResize_TETrace ----
\*EXTENDS IOUtils, CuckooResize, TLC
\*
\*trace == IODeserialize("CuckooResize_TTrace_1790085116.bin", TRUE)
\*
\*=============================================================================
\*

---- MODULE CuckooResize_TETrace ----
EXTENDS CuckooResize, TLC

trace == 
    <<
    ([cap |-> 2,tab |-> <<(0 :> <<>> @@ 1 :> <<>>), (0 :> <<>> @@ 1 :> <<>>)>>,lost |-> {},h1 |-> <<0, 0, 0, 0, 0, 0, 0>>,h2 |-> <<0, 0, 0, 0, 0, 0, 0>>,done |-> 0]),
    ([cap |-> 2,tab |-> <<(0 :> <<>> @@ 1 :> <<1>>), (0 :> <<>> @@ 1 :> <<>>)>>,lost |-> {},h1 |-> <<3, 0, 0, 0, 0, 0, 0>>,h2 |-> <<2, 0, 0, 0, 0, 0, 0>>,done |-> 1]),
    ([cap |-> 2,tab |-> <<(0 :> <<>> @@ 1 :> <<1>>), (0 :> <<2>> @@ 1 :> <<>>)>>,lost |-> {},h1 |-> <<3, 3, 0, 0, 0, 0, 0>>,h2 |-> <<2, 2, 0, 0, 0, 0, 0>>,done |-> 2]),
    ([cap |-> 2,tab |-> <<(0 :> <<>> @@ 1 :> <<1>>), (0 :> <<2>> @@ 1 :> <<3>>)>>,lost |-> {},h1 |-> <<3, 3, 3, 0, 0, 0, 0>>,h2 |-> <<2, 2, 1, 0, 0, 0, 0>>,done |-> 3]),
    ([cap |-> 4,tab |-> <<(0 :> <<>> @@ 1 :> <<>> @@ 2 :> <<>> @@ 3 :> <<1>>), (0 :> <<>> @@ 1 :> <<3>> @@ 2 :> <<2, 4>> @@ 3 :> <<>>)>>,lost |-> {},h1 |-> <<3, 3, 3, 3, 0, 0, 0>>,h2 |-> <<2, 2, 1, 2, 0, 0, 0>>,done |-> 4]),
    ([cap |-> 4,tab |-> <<(0 :> <<5>> @@ 1 :> <<>> @@ 2 :> <<>> @@ 3 :> <<1>>), (0 :> <<>> @@ 1 :> <<3>> @@ 2 :> <<2, 4>> @@ 3 :> <<>>)>>,lost |-> {},h1 |-> <<3, 3, 3, 3, 0, 0, 0>>,h2 |-> <<2, 2, 1, 2, 2, 0, 0>>,done |-> 5]),
    ([cap |-> 8,tab |-> <<(0 :> <<5>> @@ 1 :> <<>> @@ 2 :> <<>> @@ 3 :> <<6, 4>> @@ 4 :> <<>> @@ 5 :> <<>> @@ 6 :> <<>> @@ 7 :> <<>>), (0 :> <<>> @@ 1 :> <<3>> @@ 2 :> <<1, 2>> @@ 3 :> <<>> @@ 4 :> <<>> @@ 5 :> <<>> @@ 6 :> <<>> @@ 7 :> <<>>)>>,lost |-> {},h1 |-> <<3, 3, 3, 3, 0, 3, 0>>,h2 |-> <<2, 2, 1, 2, 2, 2, 0>>,done |-> 6]),
    ([cap |-> 16,tab |-> <<(0 :> <<7>> @@ 1 :> <<>> @@ 2 :> <<>> @@ 3 :> <<4, 1>> @@ 4 :> <<>> @@ 5 :> <<>> @@ 6 :> <<>> @@ 7 :> <<>> @@ 8 :> <<>> @@ 9 :> <<>> @@ 10 :> <<>> @@ 11 :> <<>> @@ 12 :> <<>> @@ 13 :> <<>> @@ 14 :> <<>> @@ 15 :> <<>>), (0 :> <<>> @@ 1 :> <<3>> @@ 2 :> <<6, 5>> @@ 3 :> <<>> @@ 4 :> <<>> @@ 5 :> <<>> @@ 6 :> <<>> @@ 7 :> <<>> @@ 8 :> <<>> @@ 9 :> <<>> @@ 10 :> <<>> @@ 11 :> <<>> @@ 12 :> <<>> @@ 13 :> <<>> @@ 14 :> <<>> @@ 15 :> <<>>)>>,lost |-> {2},h1 |-> <<3, 3, 3, 3, 0, 3, 0>>,h2 |-> <<2, 2, 1, 2, 2, 2, 2>>,done |-> 7])
    >>
----


=============================================================================

---- CONFIG CuckooResize_TTrace_1790085116 ----
CONSTANTS
    K = 7
    M = 4
    Cap0 = 2
    PS = 2
    Thr = 1
    MaxCap = 128
    AsCoded = TRUE

INVARIANT
    _inv

CHECK_DEADLOCK
    \* CHECK_DEADLOCK off because of PROPERTY or INVARIANT above.
    FALSE

INIT
    _init

NEXT
    _next

CONSTANT
    _TETrace <- _trace

ALIAS
    _expression
=============================================================================
\* Generated on Tue Sep 22 13:52:10 UTC 2026