---- MODULE Refinable ----
\* Tier B: the lock protocol of cds::intrusive::striped_set::refinable (striping_policy.h) together with StripedSet::resize()
\* (intrusive/striped_set.h): per-bucket locks in an array that is replaced when the table grows, the resizing-owner word,
\* the re-validation in acquire().  The table content is abstracted to "who is working in which bucket".
\*   NoArrayRecheck -- seeded change C16: acquire() does not re-check that the lock array is still the current one
\*   NoOwnerRecheck -- acquire() does not re-check the owner word after locking
\*   NoQuiesce      -- acquire_resize() does not wait for the holders of the old locks
EXTENDS Naturals, Sequences, FiniteSets, TLC
CONSTANTS Threads, Ops, Hashes, InitSize, MaxResize, NoArrayRecheck, NoOwnerRecheck, NoQuiesce
NIL == 0
NOB == 999     \* "no bucket"
(* --algorithm Refinable {
variables
  owner = NIL,                                    \* m_Owner: the resizing thread or 0
  arr = 1,                                        \* m_arrLocks: version of the current lock array
  asize = [k \in 1..(MaxResize + 1) |-> InitSize * (2 ^ (k - 1))],
  lk = [k \in 1..(MaxResize + 1) |-> [j \in 0..(InitSize * (2 ^ MaxResize) - 1) |-> NIL]],
  tsize = InitSize,                               \* bucket_count()
  incs = [t \in Threads |-> NOB],                  \* bucket a thread is working in (NOB: none)
  moving = NIL,                                   \* thread inside internal_resize's rehash loop
  resizes = 0;

process (T \in Threads)
  variables n = 0, h = 0, who = NIL, pl = 0, li = 0, nOld = 0, att = 0, qi = 0, wantResize = FALSE;
{
L0: while (n < Ops) {
      n := n + 1;
      with (x \in Hashes) { h := x; };
      \* ---- acquire( nHash ) ----
A1:   who := owner;
      if (who # NIL /\ who # self) { goto A1; };               \* a resize is in progress: back off
A2:   pl := arr;                                               \* pLocks = m_arrLocks (under the m_access spin lock)
A3:   li := h % asize[pl];
      await lk[pl][li] = NIL; lk[pl][li] := self;              \* lock.lock()
A4:   who := owner;
      if ((NoOwnerRecheck \/ who = NIL \/ who = self) /\ (NoArrayRecheck \/ arr = pl)) { skip; }
      else { lk[pl][li] := NIL; goto A1; };
      \* ---- the bucket operation ----
CS1:  incs[self] := h % tsize;                                 \* bucket( nHash ): m_Buckets + ( nHash & m_nBucketMask )
CS2:  incs[self] := NOB; lk[pl][li] := NIL;                     \* scoped_cell_lock released
      with (b \in {TRUE, FALSE}) { wantResize := b /\ resizes < MaxResize; };   \* m_ResizingPolicy says "grow"
      if (wantResize) {
R0:     nOld := tsize; att := 0;
R1:     if (owner = NIL) { owner := self; }                    \* acquire_resize(): CAS 0 -> me
        else { att := att + 1; if (att < 2) { goto R1; } else { goto L0; }; };
R2:     qi := 0;
R3:     while (qi < asize[arr] /\ ~NoQuiesce) {                \* wait until every lock of the old array has been released once
          await lk[arr][qi] = NIL;
          qi := qi + 1;
        };
R4:     if (nOld # tsize \/ resizes >= MaxResize) { owner := NIL; goto L0; };     \* (the second disjunct only bounds the model)
R5:     arr := arr + 1;                                        \* m_MutexPolicy.resize( 2 * nOld )
R6:     moving := self; tsize := 2 * tsize; resizes := resizes + 1;     \* rehash into the new table
R7:     moving := NIL;
R8:     owner := NIL;                                          \* release_resize()
      };
    };
}
} *)
\* BEGIN TRANSLATION
VARIABLES pc, owner, arr, asize, lk, tsize, incs, moving, resizes, n, h, who, 
          pl, li, nOld, att, qi, wantResize

vars == << pc, owner, arr, asize, lk, tsize, incs, moving, resizes, n, h, who, 
           pl, li, nOld, att, qi, wantResize >>

ProcSet == (Threads)

Init == (* Global variables *)
        /\ owner = NIL
        /\ arr = 1
        /\ asize = [k \in 1..(MaxResize + 1) |-> InitSize * (2 ^ (k - 1))]
        /\ lk = [k \in 1..(MaxResize + 1) |-> [j \in 0..(InitSize * (2 ^ MaxResize) - 1) |-> NIL]]
        /\ tsize = InitSize
        /\ incs = [t \in Threads |-> NOB]
        /\ moving = NIL
        /\ resizes = 0
        (* Process T *)
        /\ n = [self \in Threads |-> 0]
        /\ h = [self \in Threads |-> 0]
        /\ who = [self \in Threads |-> NIL]
        /\ pl = [self \in Threads |-> 0]
        /\ li = [self \in Threads |-> 0]
        /\ nOld = [self \in Threads |-> 0]
        /\ att = [self \in Threads |-> 0]
        /\ qi = [self \in Threads |-> 0]
        /\ wantResize = [self \in Threads |-> FALSE]
        /\ pc = [self \in ProcSet |-> "L0"]

L0(self) == /\ pc[self] = "L0"
            /\ IF n[self] < Ops
                  THEN /\ n' = [n EXCEPT ![self] = n[self] + 1]
                       /\ \E x \in Hashes:
                            h' = [h EXCEPT ![self] = x]
                       /\ pc' = [pc EXCEPT ![self] = "A1"]
                  ELSE /\ pc' = [pc EXCEPT ![self] = "Done"]
                       /\ UNCHANGED << n, h >>
            /\ UNCHANGED << owner, arr, asize, lk, tsize, incs, moving, 
                            resizes, who, pl, li, nOld, att, qi, wantResize >>

A1(self) == /\ pc[self] = "A1"
            /\ who' = [who EXCEPT ![self] = owner]
            /\ IF who'[self] # NIL /\ who'[self] # self
                  THEN /\ pc' = [pc EXCEPT ![self] = "A1"]
                  ELSE /\ pc' = [pc EXCEPT ![self] = "A2"]
            /\ UNCHANGED << owner, arr, asize, lk, tsize, incs, moving, 
                            resizes, n, h, pl, li, nOld, att, qi, wantResize >>

A2(self) == /\ pc[self] = "A2"
            /\ pl' = [pl EXCEPT ![self] = arr]
            /\ pc' = [pc EXCEPT ![self] = "A3"]
            /\ UNCHANGED << owner, arr, asize, lk, tsize, incs, moving, 
                            resizes, n, h, who, li, nOld, att, qi, wantResize >>

A3(self) == /\ pc[self] = "A3"
            /\ li' = [li EXCEPT ![self] = h[self] % asize[pl[self]]]
            /\ lk[pl[self]][li'[self]] = NIL
            /\ lk' = [lk EXCEPT ![pl[self]][li'[self]] = self]
            /\ pc' = [pc EXCEPT ![self] = "A4"]
            /\ UNCHANGED << owner, arr, asize, tsize, incs, moving, resizes, n, 
                            h, who, pl, nOld, att, qi, wantResize >>

A4(self) == /\ pc[self] = "A4"
            /\ who' = [who EXCEPT ![self] = owner]
            /\ IF (NoOwnerRecheck \/ who'[self] = NIL \/ who'[self] = self) /\ (NoArrayRecheck \/ arr = pl[self])
                  THEN /\ TRUE
                       /\ pc' = [pc EXCEPT ![self] = "CS1"]
                       /\ lk' = lk
                  ELSE /\ lk' = [lk EXCEPT ![pl[self]][li[self]] = NIL]
                       /\ pc' = [pc EXCEPT ![self] = "A1"]
            /\ UNCHANGED << owner, arr, asize, tsize, incs, moving, resizes, n, 
                            h, pl, li, nOld, att, qi, wantResize >>

CS1(self) == /\ pc[self] = "CS1"
             /\ incs' = [incs EXCEPT ![self] = h[self] % tsize]
             /\ pc' = [pc EXCEPT ![self] = "CS2"]
             /\ UNCHANGED << owner, arr, asize, lk, tsize, moving, resizes, n, 
                             h, who, pl, li, nOld, att, qi, wantResize >>

CS2(self) == /\ pc[self] = "CS2"
             /\ incs' = [incs EXCEPT ![self] = NOB]
             /\ lk' = [lk EXCEPT ![pl[self]][li[self]] = NIL]
             /\ \E b \in {TRUE, FALSE}:
                  wantResize' = [wantResize EXCEPT ![self] = b /\ resizes < MaxResize]
             /\ IF wantResize'[self]
                   THEN /\ pc' = [pc EXCEPT ![self] = "R0"]
                   ELSE /\ pc' = [pc EXCEPT ![self] = "L0"]
             /\ UNCHANGED << owner, arr, asize, tsize, moving, resizes, n, h, 
                             who, pl, li, nOld, att, qi >>

R0(self) == /\ pc[self] = "R0"
            /\ nOld' = [nOld EXCEPT ![self] = tsize]
            /\ att' = [att EXCEPT ![self] = 0]
            /\ pc' = [pc EXCEPT ![self] = "R1"]
            /\ UNCHANGED << owner, arr, asize, lk, tsize, incs, moving, 
                            resizes, n, h, who, pl, li, qi, wantResize >>

R1(self) == /\ pc[self] = "R1"
            /\ IF owner = NIL
                  THEN /\ owner' = self
                       /\ pc' = [pc EXCEPT ![self] = "R2"]
                       /\ att' = att
                  ELSE /\ att' = [att EXCEPT ![self] = att[self] + 1]
                       /\ IF att'[self] < 2
                             THEN /\ pc' = [pc EXCEPT ![self] = "R1"]
                             ELSE /\ pc' = [pc EXCEPT ![self] = "L0"]
                       /\ owner' = owner
            /\ UNCHANGED << arr, asize, lk, tsize, incs, moving, resizes, n, h, 
                            who, pl, li, nOld, qi, wantResize >>

R2(self) == /\ pc[self] = "R2"
            /\ qi' = [qi EXCEPT ![self] = 0]
            /\ pc' = [pc EXCEPT ![self] = "R3"]
            /\ UNCHANGED << owner, arr, asize, lk, tsize, incs, moving, 
                            resizes, n, h, who, pl, li, nOld, att, wantResize >>

R3(self) == /\ pc[self] = "R3"
            /\ IF qi[self] < asize[arr] /\ ~NoQuiesce
                  THEN /\ lk[arr][qi[self]] = NIL
                       /\ qi' = [qi EXCEPT ![self] = qi[self] + 1]
                       /\ pc' = [pc EXCEPT ![self] = "R3"]
                  ELSE /\ pc' = [pc EXCEPT ![self] = "R4"]
                       /\ qi' = qi
            /\ UNCHANGED << owner, arr, asize, lk, tsize, incs, moving, 
                            resizes, n, h, who, pl, li, nOld, att, wantResize >>

R4(self) == /\ pc[self] = "R4"
            /\ IF nOld[self] # tsize \/ resizes >= MaxResize
                  THEN /\ owner' = NIL
                       /\ pc' = [pc EXCEPT ![self] = "L0"]
                  ELSE /\ pc' = [pc EXCEPT ![self] = "R5"]
                       /\ owner' = owner
            /\ UNCHANGED << arr, asize, lk, tsize, incs, moving, resizes, n, h, 
                            who, pl, li, nOld, att, qi, wantResize >>

R5(self) == /\ pc[self] = "R5"
            /\ arr' = arr + 1
            /\ pc' = [pc EXCEPT ![self] = "R6"]
            /\ UNCHANGED << owner, asize, lk, tsize, incs, moving, resizes, n, 
                            h, who, pl, li, nOld, att, qi, wantResize >>

R6(self) == /\ pc[self] = "R6"
            /\ moving' = self
            /\ tsize' = 2 * tsize
            /\ resizes' = resizes + 1
            /\ pc' = [pc EXCEPT ![self] = "R7"]
            /\ UNCHANGED << owner, arr, asize, lk, incs, n, h, who, pl, li, 
                            nOld, att, qi, wantResize >>

R7(self) == /\ pc[self] = "R7"
            /\ moving' = NIL
            /\ pc' = [pc EXCEPT ![self] = "R8"]
            /\ UNCHANGED << owner, arr, asize, lk, tsize, incs, resizes, n, h, 
                            who, pl, li, nOld, att, qi, wantResize >>

R8(self) == /\ pc[self] = "R8"
            /\ owner' = NIL
            /\ pc' = [pc EXCEPT ![self] = "L0"]
            /\ UNCHANGED << arr, asize, lk, tsize, incs, moving, resizes, n, h, 
                            who, pl, li, nOld, att, qi, wantResize >>

T(self) == L0(self) \/ A1(self) \/ A2(self) \/ A3(self) \/ A4(self)
              \/ CS1(self) \/ CS2(self) \/ R0(self) \/ R1(self) \/ R2(self)
              \/ R3(self) \/ R4(self) \/ R5(self) \/ R6(self) \/ R7(self)
              \/ R8(self)

(* Allow infinite stuttering to prevent deadlock on termination. *)
Terminating == /\ \A self \in ProcSet: pc[self] = "Done"
               /\ UNCHANGED vars

Next == (\E self \in Threads: T(self))
           \/ Terminating

Spec == Init /\ [][Next]_vars

Termination == <>(\A self \in ProcSet: pc[self] = "Done")

\* END TRANSLATION
\* two threads never work in the same bucket, and nobody works in a bucket while the table is being rehashed
Exclusion == /\ \A t1, t2 \in Threads : (t1 # t2 /\ incs[t1] # NOB) => incs[t1] # incs[t2]
             /\ moving # NIL => \A t \in Threads : incs[t] = NOB
ArrayMatchesTable == owner = NIL => asize[arr] = tsize
====
