SPECIFICATION Spec
CONSTANTS
  Procs = {1, 2, 3}
  Prog <- FB
  Digits <- D4
  Depth = 3
  A = 2
  MaxArr = 5
  EraseGivesUp = FALSE
  NoConverting = TRUE
INVARIANTS LinOK Reachable
CHECK_DEADLOCK FALSE
