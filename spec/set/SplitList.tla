---- MODULE SplitList ----
\* Tier B: cds::intrusive::SplitListSet (split_list.h) over an abstract ordered list: split-order keys, lazy initialisation of bucket
\* dummy nodes (parent first), the bucket table slot published after the dummy is linked, growth of the table by the load factor.
\* The ordered list is one sorted sequence; an operation that starts at a bucket's dummy node only sees the part of the list behind it.
\* Word width W bits; hash = key.
\*   RegularPlusOne -- seeded change C27: regular key = reverse( hash ) + 1 instead of reverse( hash ) | 1
\*   PublishEarly   -- the table slot is stored before the dummy node is linked into the list
\*   NoParentInit   -- init_bucket() does not initialise the parent bucket first and starts at the parent's (possibly missing) dummy
EXTENDS Naturals, Sequences, FiniteSets, TLC
CONSTANTS Procs, Prog, W, LoadFactor, MaxLog2, RegularPlusOne, PublishEarly, NoParentInit
NIL == 0
Pow2(n) == 2 ^ n
Bit(x, j) == (x \div Pow2(j)) % 2
Rev(x) == LET R[j \in 0..W] == IF j = 0 THEN 0 ELSE R[j - 1] + Bit(x, j - 1) * Pow2(W - j) IN R[W]
DummyKey(b) == Rev(b)
RegKey(h) == IF RegularPlusOne THEN (Rev(h) + 1) % Pow2(W) ELSE IF Rev(h) % 2 = 1 THEN Rev(h) ELSE Rev(h) + 1
MSB(x) == CHOOSE j \in 0..W : Pow2(j) <= x /\ x < Pow2(j + 1)
Parent(b) == b - Pow2(MSB(b))
\* list entries: [rk |-> split-order key, d |-> TRUE for a dummy, k |-> key (bucket number for a dummy)]
Less(a, b) == a.rk < b.rk \/ (a.rk = b.rk /\ a.d /\ ~b.d) \/ (a.rk = b.rk /\ a.d = b.d /\ a.k < b.k)
InsertSorted(l, e) == LET pos == Cardinality({ j \in 1..Len(l) : Less(l[j], e) }) IN SubSeq(l, 1, pos) \o <<e>> \o SubSeq(l, pos + 1, Len(l))
PosOf(l, e) == CHOOSE j \in 1..Len(l) : l[j] = e
Dummy(b) == [rk |-> DummyKey(b), d |-> TRUE, k |-> b]
Item(k) == [rk |-> RegKey(k), d |-> FALSE, k |-> k]
(* --algorithm SplitList {
variables
  list = <<Dummy(0)>>,
  table = [b \in 0..(Pow2(MaxLog2) - 1) |-> IF b = 0 THEN TRUE ELSE FALSE],    \* slot published?
  log2 = 1, maxCount = 2 * LoadFactor, count = 0,
  abs = {}, ok = TRUE;

procedure init_bucket(bk)
  variables par = 0;
{
IB1: par := Parent(bk);
IB1a: if (~table[par] /\ ~NoParentInit) { call init_bucket(par); };
IB2: if (table[bk]) { goto IB9; };
IB3: if (PublishEarly) { table[bk] := TRUE; };
IB4: \* m_List.insert_aux_node( pParentBucket, pBucket ): the search starts at the parent's dummy node
     if (~(\E j \in 1..Len(list) : list[j] = Dummy(bk))) {
       ok := ok /\ (\E j \in 1..Len(list) : list[j] = Dummy(par)) /\ Less(Dummy(par), Dummy(bk));
       list := InsertSorted(list, Dummy(bk));
     } else { ok := ok /\ (\E j \in 1..Len(list) : list[j] = Dummy(par)); };
IB5: table[bk] := TRUE;
IB9: return;
}

process (P \in Procs)
  variables i = 1, op = <<>>, nb = 0, cnt = 0, mc = 0, lg = 0, res = FALSE, st = FALSE;
{
L0: while (i <= Len(Prog[self])) {
      op := Prog[self][i];
G1:   nb := op[2] % Pow2(log2);                                   \* bucket_no( hash ): m_nBucketCountLog2.load()
G2:   if (~table[nb]) { call init_bucket(nb); };                  \* get_bucket
G3:   \* the list operation starts at the bucket's dummy: it is correct iff the dummy is linked and not behind the key's place
      st := (\E j \in 1..Len(list) : list[j] = Dummy(nb)) /\ Less(Dummy(nb), Item(op[2]));
      res := IF op[1] = "ins" THEN ~(\E j \in 1..Len(list) : list[j] = Item(op[2])) ELSE (\E j \in 1..Len(list) : list[j] = Item(op[2]));
      if (op[1] = "ins") {
        ok := ok /\ st /\ (res <=> op[2] \notin abs);
        if (res) { list := InsertSorted(list, Item(op[2])); abs := abs \cup {op[2]}; };
      } else if (op[1] = "era") {
        ok := ok /\ st /\ (res <=> op[2] \in abs);
        if (res) { list := SubSeq(list, 1, PosOf(list, Item(op[2])) - 1) \o SubSeq(list, PosOf(list, Item(op[2])) + 1, Len(list)); abs := abs \ {op[2]}; };
      } else {
        ok := ok /\ st /\ (res <=> op[2] \in abs);
      };
C1:   if (op[1] = "ins" /\ res) {                                 \* inc_item_count()
        count := count + 1; cnt := count + 0; mc := maxCount;
C2:     if (cnt > mc) {
          lg := log2;
C3:       if (Pow2(lg) < Pow2(MaxLog2) /\ mc >= Pow2(lg) * LoadFactor) {
            if (maxCount = mc) { maxCount := Pow2(lg + 1) * LoadFactor; };
C4:         if (log2 = lg) { log2 := lg + 1; };
          };
        };
      };
NX:   i := i + 1;
    };
}
} *)
\* BEGIN TRANSLATION
CONSTANT defaultInitValue
VARIABLES pc, list, table, log2, maxCount, count, abs, ok, stack, bk, par, i, 
          op, nb, cnt, mc, lg, res, st

vars == << pc, list, table, log2, maxCount, count, abs, ok, stack, bk, par, i, 
           op, nb, cnt, mc, lg, res, st >>

ProcSet == (Procs)

Init == (* Global variables *)
        /\ list = <<Dummy(0)>>
        /\ table = [b \in 0..(Pow2(MaxLog2) - 1) |-> IF b = 0 THEN TRUE ELSE FALSE]
        /\ log2 = 1
        /\ maxCount = 2 * LoadFactor
        /\ count = 0
        /\ abs = {}
        /\ ok = TRUE
        (* Procedure init_bucket *)
        /\ bk = [ self \in ProcSet |-> defaultInitValue]
        /\ par = [ self \in ProcSet |-> 0]
        (* Process P *)
        /\ i = [self \in Procs |-> 1]
        /\ op = [self \in Procs |-> <<>>]
        /\ nb = [self \in Procs |-> 0]
        /\ cnt = [self \in Procs |-> 0]
        /\ mc = [self \in Procs |-> 0]
        /\ lg = [self \in Procs |-> 0]
        /\ res = [self \in Procs |-> FALSE]
        /\ st = [self \in Procs |-> FALSE]
        /\ stack = [self \in ProcSet |-> << >>]
        /\ pc = [self \in ProcSet |-> "L0"]

IB1(self) == /\ pc[self] = "IB1"
             /\ par' = [par EXCEPT ![self] = Parent(bk[self])]
             /\ pc' = [pc EXCEPT ![self] = "IB1a"]
             /\ UNCHANGED << list, table, log2, maxCount, count, abs, ok, 
                             stack, bk, i, op, nb, cnt, mc, lg, res, st >>

IB1a(self) == /\ pc[self] = "IB1a"
              /\ IF ~table[par[self]] /\ ~NoParentInit
                    THEN /\ /\ bk' = [bk EXCEPT ![self] = par[self]]
                            /\ stack' = [stack EXCEPT ![self] = << [ procedure |->  "init_bucket",
                                                                     pc        |->  "IB2",
                                                                     par       |->  par[self],
                                                                     bk        |->  bk[self] ] >>
                                                                 \o stack[self]]
                         /\ par' = [par EXCEPT ![self] = 0]
                         /\ pc' = [pc EXCEPT ![self] = "IB1"]
                    ELSE /\ pc' = [pc EXCEPT ![self] = "IB2"]
                         /\ UNCHANGED << stack, bk, par >>
              /\ UNCHANGED << list, table, log2, maxCount, count, abs, ok, i, 
                              op, nb, cnt, mc, lg, res, st >>

IB2(self) == /\ pc[self] = "IB2"
             /\ IF table[bk[self]]
                   THEN /\ pc' = [pc EXCEPT ![self] = "IB9"]
                   ELSE /\ pc' = [pc EXCEPT ![self] = "IB3"]
             /\ UNCHANGED << list, table, log2, maxCount, count, abs, ok, 
                             stack, bk, par, i, op, nb, cnt, mc, lg, res, st >>

IB3(self) == /\ pc[self] = "IB3"
             /\ IF PublishEarly
                   THEN /\ table' = [table EXCEPT ![bk[self]] = TRUE]
                   ELSE /\ TRUE
                        /\ table' = table
             /\ pc' = [pc EXCEPT ![self] = "IB4"]
             /\ UNCHANGED << list, log2, maxCount, count, abs, ok, stack, bk, 
                             par, i, op, nb, cnt, mc, lg, res, st >>

IB4(self) == /\ pc[self] = "IB4"
             /\ IF ~(\E j \in 1..Len(list) : list[j] = Dummy(bk[self]))
                   THEN /\ ok' = (ok /\ (\E j \in 1..Len(list) : list[j] = Dummy(par[self])) /\ Less(Dummy(par[self]), Dummy(bk[self])))
                        /\ list' = InsertSorted(list, Dummy(bk[self]))
                   ELSE /\ ok' = (ok /\ (\E j \in 1..Len(list) : list[j] = Dummy(par[self])))
                        /\ list' = list
             /\ pc' = [pc EXCEPT ![self] = "IB5"]
             /\ UNCHANGED << table, log2, maxCount, count, abs, stack, bk, par, 
                             i, op, nb, cnt, mc, lg, res, st >>

IB5(self) == /\ pc[self] = "IB5"
             /\ table' = [table EXCEPT ![bk[self]] = TRUE]
             /\ pc' = [pc EXCEPT ![self] = "IB9"]
             /\ UNCHANGED << list, log2, maxCount, count, abs, ok, stack, bk, 
                             par, i, op, nb, cnt, mc, lg, res, st >>

IB9(self) == /\ pc[self] = "IB9"
             /\ pc' = [pc EXCEPT ![self] = Head(stack[self]).pc]
             /\ par' = [par EXCEPT ![self] = Head(stack[self]).par]
             /\ bk' = [bk EXCEPT ![self] = Head(stack[self]).bk]
             /\ stack' = [stack EXCEPT ![self] = Tail(stack[self])]
             /\ UNCHANGED << list, table, log2, maxCount, count, abs, ok, i, 
                             op, nb, cnt, mc, lg, res, st >>

init_bucket(self) == IB1(self) \/ IB1a(self) \/ IB2(self) \/ IB3(self)
                        \/ IB4(self) \/ IB5(self) \/ IB9(self)

L0(self) == /\ pc[self] = "L0"
            /\ IF i[self] <= Len(Prog[self])
                  THEN /\ op' = [op EXCEPT ![self] = Prog[self][i[self]]]
                       /\ pc' = [pc EXCEPT ![self] = "G1"]
                  ELSE /\ pc' = [pc EXCEPT ![self] = "Done"]
                       /\ op' = op
            /\ UNCHANGED << list, table, log2, maxCount, count, abs, ok, stack, 
                            bk, par, i, nb, cnt, mc, lg, res, st >>

G1(self) == /\ pc[self] = "G1"
            /\ nb' = [nb EXCEPT ![self] = op[self][2] % Pow2(log2)]
            /\ pc' = [pc EXCEPT ![self] = "G2"]
            /\ UNCHANGED << list, table, log2, maxCount, count, abs, ok, stack, 
                            bk, par, i, op, cnt, mc, lg, res, st >>

G2(self) == /\ pc[self] = "G2"
            /\ IF ~table[nb[self]]
                  THEN /\ /\ bk' = [bk EXCEPT ![self] = nb[self]]
                          /\ stack' = [stack EXCEPT ![self] = << [ procedure |->  "init_bucket",
                                                                   pc        |->  "G3",
                                                                   par       |->  par[self],
                                                                   bk        |->  bk[self] ] >>
                                                               \o stack[self]]
                       /\ par' = [par EXCEPT ![self] = 0]
                       /\ pc' = [pc EXCEPT ![self] = "IB1"]
                  ELSE /\ pc' = [pc EXCEPT ![self] = "G3"]
                       /\ UNCHANGED << stack, bk, par >>
            /\ UNCHANGED << list, table, log2, maxCount, count, abs, ok, i, op, 
                            nb, cnt, mc, lg, res, st >>

G3(self) == /\ pc[self] = "G3"
            /\ st' = [st EXCEPT ![self] = (\E j \in 1..Len(list) : list[j] = Dummy(nb[self])) /\ Less(Dummy(nb[self]), Item(op[self][2]))]
            /\ res' = [res EXCEPT ![self] = IF op[self][1] = "ins" THEN ~(\E j \in 1..Len(list) : list[j] = Item(op[self][2])) ELSE (\E j \in 1..Len(list) : list[j] = Item(op[self][2]))]
            /\ IF op[self][1] = "ins"
                  THEN /\ ok' = (ok /\ st'[self] /\ (res'[self] <=> op[self][2] \notin abs))
                       /\ IF res'[self]
                             THEN /\ list' = InsertSorted(list, Item(op[self][2]))
                                  /\ abs' = (abs \cup {op[self][2]})
                             ELSE /\ TRUE
                                  /\ UNCHANGED << list, abs >>
                  ELSE /\ IF op[self][1] = "era"
                             THEN /\ ok' = (ok /\ st'[self] /\ (res'[self] <=> op[self][2] \in abs))
                                  /\ IF res'[self]
                                        THEN /\ list' = SubSeq(list, 1, PosOf(list, Item(op[self][2])) - 1) \o SubSeq(list, PosOf(list, Item(op[self][2])) + 1, Len(list))
                                             /\ abs' = abs \ {op[self][2]}
                                        ELSE /\ TRUE
                                             /\ UNCHANGED << list, abs >>
                             ELSE /\ ok' = (ok /\ st'[self] /\ (res'[self] <=> op[self][2] \in abs))
                                  /\ UNCHANGED << list, abs >>
            /\ pc' = [pc EXCEPT ![self] = "C1"]
            /\ UNCHANGED << table, log2, maxCount, count, stack, bk, par, i, 
                            op, nb, cnt, mc, lg >>

C1(self) == /\ pc[self] = "C1"
            /\ IF op[self][1] = "ins" /\ res[self]
                  THEN /\ count' = count + 1
                       /\ cnt' = [cnt EXCEPT ![self] = count' + 0]
                       /\ mc' = [mc EXCEPT ![self] = maxCount]
                       /\ pc' = [pc EXCEPT ![self] = "C2"]
                  ELSE /\ pc' = [pc EXCEPT ![self] = "NX"]
                       /\ UNCHANGED << count, cnt, mc >>
            /\ UNCHANGED << list, table, log2, maxCount, abs, ok, stack, bk, 
                            par, i, op, nb, lg, res, st >>

C2(self) == /\ pc[self] = "C2"
            /\ IF cnt[self] > mc[self]
                  THEN /\ lg' = [lg EXCEPT ![self] = log2]
                       /\ pc' = [pc EXCEPT ![self] = "C3"]
                  ELSE /\ pc' = [pc EXCEPT ![self] = "NX"]
                       /\ lg' = lg
            /\ UNCHANGED << list, table, log2, maxCount, count, abs, ok, stack, 
                            bk, par, i, op, nb, cnt, mc, res, st >>

C3(self) == /\ pc[self] = "C3"
            /\ IF Pow2(lg[self]) < Pow2(MaxLog2) /\ mc[self] >= Pow2(lg[self]) * LoadFactor
                  THEN /\ IF maxCount = mc[self]
                             THEN /\ maxCount' = Pow2(lg[self] + 1) * LoadFactor
                             ELSE /\ TRUE
                                  /\ UNCHANGED maxCount
                       /\ pc' = [pc EXCEPT ![self] = "C4"]
                  ELSE /\ pc' = [pc EXCEPT ![self] = "NX"]
                       /\ UNCHANGED maxCount
            /\ UNCHANGED << list, table, log2, count, abs, ok, stack, bk, par, 
                            i, op, nb, cnt, mc, lg, res, st >>

C4(self) == /\ pc[self] = "C4"
            /\ IF log2 = lg[self]
                  THEN /\ log2' = lg[self] + 1
                  ELSE /\ TRUE
                       /\ log2' = log2
            /\ pc' = [pc EXCEPT ![self] = "NX"]
            /\ UNCHANGED << list, table, maxCount, count, abs, ok, stack, bk, 
                            par, i, op, nb, cnt, mc, lg, res, st >>

NX(self) == /\ pc[self] = "NX"
            /\ i' = [i EXCEPT ![self] = i[self] + 1]
            /\ pc' = [pc EXCEPT ![self] = "L0"]
            /\ UNCHANGED << list, table, log2, maxCount, count, abs, ok, stack, 
                            bk, par, op, nb, cnt, mc, lg, res, st >>

P(self) == L0(self) \/ G1(self) \/ G2(self) \/ G3(self) \/ C1(self)
              \/ C2(self) \/ C3(self) \/ C4(self) \/ NX(self)

(* Allow infinite stuttering to prevent deadlock on termination. *)
Terminating == /\ \A self \in ProcSet: pc[self] = "Done"
               /\ UNCHANGED vars

Next == (\E self \in ProcSet: init_bucket(self))
           \/ (\E self \in Procs: P(self))
           \/ Terminating

Spec == Init /\ [][Next]_vars

Termination == <>(\A self \in ProcSet: pc[self] = "Done")

\* END TRANSLATION
LinOK == ok
Sorted == \A j \in 1..(Len(list) - 1) : Less(list[j], list[j + 1])
\* C27: regular keys are odd, dummy keys even; a published bucket has its dummy in the list
Parity == \A j \in 1..Len(list) : (list[j].rk % 2 = 1) <=> ~list[j].d
Published == \A b \in DOMAIN table : table[b] => \E j \in 1..Len(list) : list[j] = Dummy(b)
ContentOK == { list[j].k : j \in { jj \in 1..Len(list) : ~list[jj].d } } = abs
====
