---- MODULE EllenMC ----
EXTENDS Ellen
EA == (1 :> << <<"ins", 2>>, <<"era", 2>> >>) @@ (2 :> << <<"ins", 1>>, <<"find", 2>> >>)
EB == (1 :> << <<"ins", 2>>, <<"era", 3>> >>) @@ (2 :> << <<"ins", 3>>, <<"find", 2>> >>) @@ (3 :> << <<"ins", 1>>, <<"era", 2>> >>)
\* seeded change C15: two inserts under the same leaf, four completed operations on the parent in between are not needed when CleanPeriod = 4
EC == (1 :> << <<"ins", 1>> >>) @@ (2 :> << <<"ins", 2>> >>)
ED == (1 :> << <<"ins", 2>> >>) @@ (2 :> << <<"ins", 3>>, <<"era", 2>> >>) @@ (3 :> << <<"ins", 1>>, <<"find", 2>> >>)
====
