SPECIFICATION Spec
CONSTANTS
  K = 4
  M = 4
  Cap0 = 2
  PS = 2
  Thr = 1
  MaxCap = 32
  AsCoded = FALSE
INVARIANT NoLoss
INVARIANT WellPlaced
CHECK_DEADLOCK FALSE
