---- MODULE Ellen ----
\* Tier B: cds::intrusive::EllenBinTree (impl/ellen_bintree.h) -- the leaf-oriented BST of Ellen, Fatourou, Ruppert, van Breugel in the
\* libcds variant WITHOUT helping: an internal node's update word is Clean( counter ), IFlag( op ), DFlag( op ) or Mark( op ); a thread
\* that meets a flagged node backs off and retries; the flagging thread itself completes its operation (its CASes are asserted).
\* The Clean value is renewed by null_update_desc() (per-node counter) to make the flag CAS ABA-safe.
\*   CleanPeriod -- 1 as coded; 4 = seeded change C15 (the Clean value changes only on every fourth completed operation)
\*   NoPrecheck  -- erase does not re-check parent / leaf links (check_delete_precondition) before flagging
EXTENDS Naturals, Sequences, FiniteSets, TLC
CONSTANTS Procs, Prog, MaxNodes, CleanPeriod, NoPrecheck
NIL == 0
INF1 == 100
INF2 == 101
Clean(c) == [st |-> "C", v |-> c \div CleanPeriod]
Flag(s, o) == [st |-> s, v |-> o]
(* --algorithm Ellen {
variables
  \* node 1: root (internal, key INF2), node 2: leaf INF1, node 3: leaf INF2
  kind = [n \in 1..MaxNodes |-> IF n = 1 THEN "int" ELSE IF n \in {2, 3} THEN "leaf" ELSE "none"],
  key = [n \in 1..MaxNodes |-> IF n = 1 THEN INF2 ELSE IF n = 2 THEN INF1 ELSE IF n = 3 THEN INF2 ELSE 0],
  left = [n \in 1..MaxNodes |-> IF n = 1 THEN 2 ELSE NIL], right = [n \in 1..MaxNodes |-> IF n = 1 THEN 3 ELSE NIL],
  upd = [n \in 1..MaxNodes |-> Clean(0)], cnt = [n \in 1..MaxNodes |-> 0],
  alloc = 3, nop = 0,
  abs = {}, ok = TRUE,
  curk = [p \in Procs |-> NIL], awit = [p \in Procs |-> FALSE], pwit = [p \in Procs |-> FALSE];

define {
  Child(n, r) == IF r THEN right[n] ELSE left[n]
}

macro Became(k, present) {
  awit := [p \in Procs |-> awit[p] \/ (curk[p] = k /\ ~present)];
  pwit := [p \in Procs |-> pwit[p] \/ (curk[p] = k /\ present)];
}
macro SetChild(n, r, c) { if (r) { right[n] := c; } else { left[n] := c; }; }

process (P \in Procs)
  variables i = 1, op = <<>>, k = 0, gp = NIL, par = NIL, leaf = 1, updP = Clean(0), updGP = Clean(0), rLeaf = FALSE, rPar = FALSE,
            ch = NIL, myop = 0, ni = 0, nl = 0, sib = NIL;
{
L0: while (i <= Len(Prog[self])) {
      op := Prog[self][i]; k := op[2]; ni := 0;
      curk[self] := op[2] || awit[self] := (op[2] \notin abs) || pwit[self] := (op[2] \in abs);
SR:   gp := NIL; par := NIL; leaf := 1; rLeaf := FALSE; updP := Clean(0);              \* search(): restart from the root
S1:   if (kind[leaf] = "int") {
        gp := par; par := leaf; rPar := rLeaf; updGP := updP;
S2:     updP := upd[par];                                                               \* search_protect_update
        if (updP.st \in {"D", "M"}) { goto SR; };
S3:     rLeaf := (k >= key[par]);
        ch := Child(par, k >= key[par]);                                                \* protect_child_node: the child ...
S4:     if (upd[par] # updP) { goto SR; };                                              \* ... is valid only if the update word is unchanged
S5:     leaf := ch; goto S1;
      };
OP:   if (op[1] = "find") { if (key[leaf] = k) { ok := ok /\ pwit[self]; } else { ok := ok /\ awit[self]; }; goto NX; }
      else if (op[1] = "ins") {
        if (key[leaf] = k) { ok := ok /\ pwit[self]; goto NX; };
I1:     if (updP.st # "C") { goto SR; };
I2:     if (Child(par, rLeaf) # leaf) { goto SR; };                                     \* try_insert: the leaf is still the child
I3:     \* the new internal node (allocated once per insert call, re-used by every attempt) over the old leaf and the new leaf
        if (ni = 0) { ni := alloc + 1; nl := alloc + 2; alloc := alloc + 2; };
I3a:    myop := nop + 1; nop := nop + 1;
        kind := [kind EXCEPT ![ni] = "int", ![nl] = "leaf"];
        key := [key EXCEPT ![nl] = k, ![ni] = IF k < key[leaf] THEN key[leaf] ELSE k];
        left[ni] := IF k < key[leaf] THEN nl ELSE leaf;
        right[ni] := IF k < key[leaf] THEN leaf ELSE nl;
I4:     if (upd[par] = updP) { upd[par] := Flag("I", myop); } else { goto SR; };        \* CAS( pParent->m_pUpdate, updCur -> IFlag( op ))
I5:     \* help_insert: CAS( child, leaf -> new internal ) -- CDS_VERIFY: it cannot fail while the node is flagged for this operation
        if (Child(par, rLeaf) = leaf) { SetChild(par, rLeaf, ni); ok := ok /\ k \notin abs; abs := abs \cup {k}; Became(k, TRUE); }
        else { ok := FALSE; };
I6:     cnt[par] := cnt[par] + 1; upd[par] := Clean(cnt[par]);                      \* CAS( IFlag( op ) -> null_update_desc())
        goto NX;
      } else {
        if (key[leaf] # k) { ok := ok /\ awit[self]; goto NX; };
E1:     if (updGP.st # "C" \/ updP.st # "C") { goto SR; };
E2:     if (~NoPrecheck /\ (Child(gp, rPar) # par \/ Child(par, rLeaf) # leaf)) { goto SR; };      \* check_delete_precondition
E3:     myop := nop + 1; nop := nop + 1;
        if (upd[gp] = updGP) { upd[gp] := Flag("D", myop); } else { goto SR; };       \* CAS( pGrandParent->m_pUpdate -> DFlag( op ))
E4:     \* help_delete: CAS( pParent->m_pUpdate, pUpdateParent -> Mark( op ))
        if (upd[par] = updP) { upd[par] := Flag("M", myop); }
        else { goto E8; };
E5:     sib := Child(par, ~rLeaf);                                                       \* help_marked: the sibling replaces the parent
E6:     if (Child(gp, rPar) = par) { SetChild(gp, rPar, sib); ok := ok /\ k \in abs; abs := abs \ {k}; Became(k, FALSE); }
        else { ok := FALSE; };
E7:     cnt[gp] := cnt[gp] + 1; upd[gp] := Clean(cnt[gp]);
        goto NX;
E8:     cnt[gp] := cnt[gp] + 1; upd[gp] := Clean(cnt[gp]);                          \* back out: DFlag( op ) -> Clean
        goto SR;
      };
NX:   curk[self] := NIL; i := i + 1;
    };
}
} *)
\* BEGIN TRANSLATION
VARIABLES pc, kind, key, left, right, upd, cnt, alloc, nop, abs, ok, curk, 
          awit, pwit

(* define statement *)
Child(n, r) == IF r THEN right[n] ELSE left[n]

VARIABLES i, op, k, gp, par, leaf, updP, updGP, rLeaf, rPar, ch, myop, ni, nl, 
          sib

vars == << pc, kind, key, left, right, upd, cnt, alloc, nop, abs, ok, curk, 
           awit, pwit, i, op, k, gp, par, leaf, updP, updGP, rLeaf, rPar, ch, 
           myop, ni, nl, sib >>

ProcSet == (Procs)

Init == (* Global variables *)
        /\ kind = [n \in 1..MaxNodes |-> IF n = 1 THEN "int" ELSE IF n \in {2, 3} THEN "leaf" ELSE "none"]
        /\ key = [n \in 1..MaxNodes |-> IF n = 1 THEN INF2 ELSE IF n = 2 THEN INF1 ELSE IF n = 3 THEN INF2 ELSE 0]
        /\ left = [n \in 1..MaxNodes |-> IF n = 1 THEN 2 ELSE NIL]
        /\ right = [n \in 1..MaxNodes |-> IF n = 1 THEN 3 ELSE NIL]
        /\ upd = [n \in 1..MaxNodes |-> Clean(0)]
        /\ cnt = [n \in 1..MaxNodes |-> 0]
        /\ alloc = 3
        /\ nop = 0
        /\ abs = {}
        /\ ok = TRUE
        /\ curk = [p \in Procs |-> NIL]
        /\ awit = [p \in Procs |-> FALSE]
        /\ pwit = [p \in Procs |-> FALSE]
        (* Process P *)
        /\ i = [self \in Procs |-> 1]
        /\ op = [self \in Procs |-> <<>>]
        /\ k = [self \in Procs |-> 0]
        /\ gp = [self \in Procs |-> NIL]
        /\ par = [self \in Procs |-> NIL]
        /\ leaf = [self \in Procs |-> 1]
        /\ updP = [self \in Procs |-> Clean(0)]
        /\ updGP = [self \in Procs |-> Clean(0)]
        /\ rLeaf = [self \in Procs |-> FALSE]
        /\ rPar = [self \in Procs |-> FALSE]
        /\ ch = [self \in Procs |-> NIL]
        /\ myop = [self \in Procs |-> 0]
        /\ ni = [self \in Procs |-> 0]
        /\ nl = [self \in Procs |-> 0]
        /\ sib = [self \in Procs |-> NIL]
        /\ pc = [self \in ProcSet |-> "L0"]

L0(self) == /\ pc[self] = "L0"
            /\ IF i[self] <= Len(Prog[self])
                  THEN /\ op' = [op EXCEPT ![self] = Prog[self][i[self]]]
                       /\ k' = [k EXCEPT ![self] = op'[self][2]]
                       /\ ni' = [ni EXCEPT ![self] = 0]
                       /\ /\ awit' = [awit EXCEPT ![self] = (op'[self][2] \notin abs)]
                          /\ curk' = [curk EXCEPT ![self] = op'[self][2]]
                          /\ pwit' = [pwit EXCEPT ![self] = (op'[self][2] \in abs)]
                       /\ pc' = [pc EXCEPT ![self] = "SR"]
                  ELSE /\ pc' = [pc EXCEPT ![self] = "Done"]
                       /\ UNCHANGED << curk, awit, pwit, op, k, ni >>
            /\ UNCHANGED << kind, key, left, right, upd, cnt, alloc, nop, abs, 
                            ok, i, gp, par, leaf, updP, updGP, rLeaf, rPar, ch, 
                            myop, nl, sib >>

SR(self) == /\ pc[self] = "SR"
            /\ gp' = [gp EXCEPT ![self] = NIL]
            /\ par' = [par EXCEPT ![self] = NIL]
            /\ leaf' = [leaf EXCEPT ![self] = 1]
            /\ rLeaf' = [rLeaf EXCEPT ![self] = FALSE]
            /\ updP' = [updP EXCEPT ![self] = Clean(0)]
            /\ pc' = [pc EXCEPT ![self] = "S1"]
            /\ UNCHANGED << kind, key, left, right, upd, cnt, alloc, nop, abs, 
                            ok, curk, awit, pwit, i, op, k, updGP, rPar, ch, 
                            myop, ni, nl, sib >>

S1(self) == /\ pc[self] = "S1"
            /\ IF kind[leaf[self]] = "int"
                  THEN /\ gp' = [gp EXCEPT ![self] = par[self]]
                       /\ par' = [par EXCEPT ![self] = leaf[self]]
                       /\ rPar' = [rPar EXCEPT ![self] = rLeaf[self]]
                       /\ updGP' = [updGP EXCEPT ![self] = updP[self]]
                       /\ pc' = [pc EXCEPT ![self] = "S2"]
                  ELSE /\ pc' = [pc EXCEPT ![self] = "OP"]
                       /\ UNCHANGED << gp, par, updGP, rPar >>
            /\ UNCHANGED << kind, key, left, right, upd, cnt, alloc, nop, abs, 
                            ok, curk, awit, pwit, i, op, k, leaf, updP, rLeaf, 
                            ch, myop, ni, nl, sib >>

S2(self) == /\ pc[self] = "S2"
            /\ updP' = [updP EXCEPT ![self] = upd[par[self]]]
            /\ IF updP'[self].st \in {"D", "M"}
                  THEN /\ pc' = [pc EXCEPT ![self] = "SR"]
                  ELSE /\ pc' = [pc EXCEPT ![self] = "S3"]
            /\ UNCHANGED << kind, key, left, right, upd, cnt, alloc, nop, abs, 
                            ok, curk, awit, pwit, i, op, k, gp, par, leaf, 
                            updGP, rLeaf, rPar, ch, myop, ni, nl, sib >>

S3(self) == /\ pc[self] = "S3"
            /\ rLeaf' = [rLeaf EXCEPT ![self] = (k[self] >= key[par[self]])]
            /\ ch' = [ch EXCEPT ![self] = Child(par[self], k[self] >= key[par[self]])]
            /\ pc' = [pc EXCEPT ![self] = "S4"]
            /\ UNCHANGED << kind, key, left, right, upd, cnt, alloc, nop, abs, 
                            ok, curk, awit, pwit, i, op, k, gp, par, leaf, 
                            updP, updGP, rPar, myop, ni, nl, sib >>

S4(self) == /\ pc[self] = "S4"
            /\ IF upd[par[self]] # updP[self]
                  THEN /\ pc' = [pc EXCEPT ![self] = "SR"]
                  ELSE /\ pc' = [pc EXCEPT ![self] = "S5"]
            /\ UNCHANGED << kind, key, left, right, upd, cnt, alloc, nop, abs, 
                            ok, curk, awit, pwit, i, op, k, gp, par, leaf, 
                            updP, updGP, rLeaf, rPar, ch, myop, ni, nl, sib >>

S5(self) == /\ pc[self] = "S5"
            /\ leaf' = [leaf EXCEPT ![self] = ch[self]]
            /\ pc' = [pc EXCEPT ![self] = "S1"]
            /\ UNCHANGED << kind, key, left, right, upd, cnt, alloc, nop, abs, 
                            ok, curk, awit, pwit, i, op, k, gp, par, updP, 
                            updGP, rLeaf, rPar, ch, myop, ni, nl, sib >>

OP(self) == /\ pc[self] = "OP"
            /\ IF op[self][1] = "find"
                  THEN /\ IF key[leaf[self]] = k[self]
                             THEN /\ ok' = (ok /\ pwit[self])
                             ELSE /\ ok' = (ok /\ awit[self])
                       /\ pc' = [pc EXCEPT ![self] = "NX"]
                  ELSE /\ IF op[self][1] = "ins"
                             THEN /\ IF key[leaf[self]] = k[self]
                                        THEN /\ ok' = (ok /\ pwit[self])
                                             /\ pc' = [pc EXCEPT ![self] = "NX"]
                                        ELSE /\ pc' = [pc EXCEPT ![self] = "I1"]
                                             /\ ok' = ok
                             ELSE /\ IF key[leaf[self]] # k[self]
                                        THEN /\ ok' = (ok /\ awit[self])
                                             /\ pc' = [pc EXCEPT ![self] = "NX"]
                                        ELSE /\ pc' = [pc EXCEPT ![self] = "E1"]
                                             /\ ok' = ok
            /\ UNCHANGED << kind, key, left, right, upd, cnt, alloc, nop, abs, 
                            curk, awit, pwit, i, op, k, gp, par, leaf, updP, 
                            updGP, rLeaf, rPar, ch, myop, ni, nl, sib >>

I1(self) == /\ pc[self] = "I1"
            /\ IF updP[self].st # "C"
                  THEN /\ pc' = [pc EXCEPT ![self] = "SR"]
                  ELSE /\ pc' = [pc EXCEPT ![self] = "I2"]
            /\ UNCHANGED << kind, key, left, right, upd, cnt, alloc, nop, abs, 
                            ok, curk, awit, pwit, i, op, k, gp, par, leaf, 
                            updP, updGP, rLeaf, rPar, ch, myop, ni, nl, sib >>

I2(self) == /\ pc[self] = "I2"
            /\ IF Child(par[self], rLeaf[self]) # leaf[self]
                  THEN /\ pc' = [pc EXCEPT ![self] = "SR"]
                  ELSE /\ pc' = [pc EXCEPT ![self] = "I3"]
            /\ UNCHANGED << kind, key, left, right, upd, cnt, alloc, nop, abs, 
                            ok, curk, awit, pwit, i, op, k, gp, par, leaf, 
                            updP, updGP, rLeaf, rPar, ch, myop, ni, nl, sib >>

I3(self) == /\ pc[self] = "I3"
            /\ IF ni[self] = 0
                  THEN /\ ni' = [ni EXCEPT ![self] = alloc + 1]
                       /\ nl' = [nl EXCEPT ![self] = alloc + 2]
                       /\ alloc' = alloc + 2
                  ELSE /\ TRUE
                       /\ UNCHANGED << alloc, ni, nl >>
            /\ pc' = [pc EXCEPT ![self] = "I3a"]
            /\ UNCHANGED << kind, key, left, right, upd, cnt, nop, abs, ok, 
                            curk, awit, pwit, i, op, k, gp, par, leaf, updP, 
                            updGP, rLeaf, rPar, ch, myop, sib >>

I3a(self) == /\ pc[self] = "I3a"
             /\ myop' = [myop EXCEPT ![self] = nop + 1]
             /\ nop' = nop + 1
             /\ kind' = [kind EXCEPT ![ni[self]] = "int", ![nl[self]] = "leaf"]
             /\ key' = [key EXCEPT ![nl[self]] = k[self], ![ni[self]] = IF k[self] < key[leaf[self]] THEN key[leaf[self]] ELSE k[self]]
             /\ left' = [left EXCEPT ![ni[self]] = IF k[self] < key'[leaf[self]] THEN nl[self] ELSE leaf[self]]
             /\ right' = [right EXCEPT ![ni[self]] = IF k[self] < key'[leaf[self]] THEN leaf[self] ELSE nl[self]]
             /\ pc' = [pc EXCEPT ![self] = "I4"]
             /\ UNCHANGED << upd, cnt, alloc, abs, ok, curk, awit, pwit, i, op, 
                             k, gp, par, leaf, updP, updGP, rLeaf, rPar, ch, 
                             ni, nl, sib >>

I4(self) == /\ pc[self] = "I4"
            /\ IF upd[par[self]] = updP[self]
                  THEN /\ upd' = [upd EXCEPT ![par[self]] = Flag("I", myop[self])]
                       /\ pc' = [pc EXCEPT ![self] = "I5"]
                  ELSE /\ pc' = [pc EXCEPT ![self] = "SR"]
                       /\ upd' = upd
            /\ UNCHANGED << kind, key, left, right, cnt, alloc, nop, abs, ok, 
                            curk, awit, pwit, i, op, k, gp, par, leaf, updP, 
                            updGP, rLeaf, rPar, ch, myop, ni, nl, sib >>

I5(self) == /\ pc[self] = "I5"
            /\ IF Child(par[self], rLeaf[self]) = leaf[self]
                  THEN /\ IF rLeaf[self]
                             THEN /\ right' = [right EXCEPT ![par[self]] = ni[self]]
                                  /\ left' = left
                             ELSE /\ left' = [left EXCEPT ![par[self]] = ni[self]]
                                  /\ right' = right
                       /\ ok' = (ok /\ k[self] \notin abs)
                       /\ abs' = (abs \cup {k[self]})
                       /\ awit' = [p \in Procs |-> awit[p] \/ (curk[p] = k[self] /\ ~TRUE)]
                       /\ pwit' = [p \in Procs |-> pwit[p] \/ (curk[p] = k[self] /\ TRUE)]
                  ELSE /\ ok' = FALSE
                       /\ UNCHANGED << left, right, abs, awit, pwit >>
            /\ pc' = [pc EXCEPT ![self] = "I6"]
            /\ UNCHANGED << kind, key, upd, cnt, alloc, nop, curk, i, op, k, 
                            gp, par, leaf, updP, updGP, rLeaf, rPar, ch, myop, 
                            ni, nl, sib >>

I6(self) == /\ pc[self] = "I6"
            /\ cnt' = [cnt EXCEPT ![par[self]] = cnt[par[self]] + 1]
            /\ upd' = [upd EXCEPT ![par[self]] = Clean(cnt'[par[self]])]
            /\ pc' = [pc EXCEPT ![self] = "NX"]
            /\ UNCHANGED << kind, key, left, right, alloc, nop, abs, ok, curk, 
                            awit, pwit, i, op, k, gp, par, leaf, updP, updGP, 
                            rLeaf, rPar, ch, myop, ni, nl, sib >>

E1(self) == /\ pc[self] = "E1"
            /\ IF updGP[self].st # "C" \/ updP[self].st # "C"
                  THEN /\ pc' = [pc EXCEPT ![self] = "SR"]
                  ELSE /\ pc' = [pc EXCEPT ![self] = "E2"]
            /\ UNCHANGED << kind, key, left, right, upd, cnt, alloc, nop, abs, 
                            ok, curk, awit, pwit, i, op, k, gp, par, leaf, 
                            updP, updGP, rLeaf, rPar, ch, myop, ni, nl, sib >>

E2(self) == /\ pc[self] = "E2"
            /\ IF ~NoPrecheck /\ (Child(gp[self], rPar[self]) # par[self] \/ Child(par[self], rLeaf[self]) # leaf[self])
                  THEN /\ pc' = [pc EXCEPT ![self] = "SR"]
                  ELSE /\ pc' = [pc EXCEPT ![self] = "E3"]
            /\ UNCHANGED << kind, key, left, right, upd, cnt, alloc, nop, abs, 
                            ok, curk, awit, pwit, i, op, k, gp, par, leaf, 
                            updP, updGP, rLeaf, rPar, ch, myop, ni, nl, sib >>

E3(self) == /\ pc[self] = "E3"
            /\ myop' = [myop EXCEPT ![self] = nop + 1]
            /\ nop' = nop + 1
            /\ IF upd[gp[self]] = updGP[self]
                  THEN /\ upd' = [upd EXCEPT ![gp[self]] = Flag("D", myop'[self])]
                       /\ pc' = [pc EXCEPT ![self] = "E4"]
                  ELSE /\ pc' = [pc EXCEPT ![self] = "SR"]
                       /\ upd' = upd
            /\ UNCHANGED << kind, key, left, right, cnt, alloc, abs, ok, curk, 
                            awit, pwit, i, op, k, gp, par, leaf, updP, updGP, 
                            rLeaf, rPar, ch, ni, nl, sib >>

E4(self) == /\ pc[self] = "E4"
            /\ IF upd[par[self]] = updP[self]
                  THEN /\ upd' = [upd EXCEPT ![par[self]] = Flag("M", myop[self])]
                       /\ pc' = [pc EXCEPT ![self] = "E5"]
                  ELSE /\ pc' = [pc EXCEPT ![self] = "E8"]
                       /\ upd' = upd
            /\ UNCHANGED << kind, key, left, right, cnt, alloc, nop, abs, ok, 
                            curk, awit, pwit, i, op, k, gp, par, leaf, updP, 
                            updGP, rLeaf, rPar, ch, myop, ni, nl, sib >>

E5(self) == /\ pc[self] = "E5"
            /\ sib' = [sib EXCEPT ![self] = Child(par[self], ~rLeaf[self])]
            /\ pc' = [pc EXCEPT ![self] = "E6"]
            /\ UNCHANGED << kind, key, left, right, upd, cnt, alloc, nop, abs, 
                            ok, curk, awit, pwit, i, op, k, gp, par, leaf, 
                            updP, updGP, rLeaf, rPar, ch, myop, ni, nl >>

E6(self) == /\ pc[self] = "E6"
            /\ IF Child(gp[self], rPar[self]) = par[self]
                  THEN /\ IF rPar[self]
                             THEN /\ right' = [right EXCEPT ![gp[self]] = sib[self]]
                                  /\ left' = left
                             ELSE /\ left' = [left EXCEPT ![gp[self]] = sib[self]]
                                  /\ right' = right
                       /\ ok' = (ok /\ k[self] \in abs)
                       /\ abs' = abs \ {k[self]}
                       /\ awit' = [p \in Procs |-> awit[p] \/ (curk[p] = k[self] /\ ~FALSE)]
                       /\ pwit' = [p \in Procs |-> pwit[p] \/ (curk[p] = k[self] /\ FALSE)]
                  ELSE /\ ok' = FALSE
                       /\ UNCHANGED << left, right, abs, awit, pwit >>
            /\ pc' = [pc EXCEPT ![self] = "E7"]
            /\ UNCHANGED << kind, key, upd, cnt, alloc, nop, curk, i, op, k, 
                            gp, par, leaf, updP, updGP, rLeaf, rPar, ch, myop, 
                            ni, nl, sib >>

E7(self) == /\ pc[self] = "E7"
            /\ cnt' = [cnt EXCEPT ![gp[self]] = cnt[gp[self]] + 1]
            /\ upd' = [upd EXCEPT ![gp[self]] = Clean(cnt'[gp[self]])]
            /\ pc' = [pc EXCEPT ![self] = "NX"]
            /\ UNCHANGED << kind, key, left, right, alloc, nop, abs, ok, curk, 
                            awit, pwit, i, op, k, gp, par, leaf, updP, updGP, 
                            rLeaf, rPar, ch, myop, ni, nl, sib >>

E8(self) == /\ pc[self] = "E8"
            /\ cnt' = [cnt EXCEPT ![gp[self]] = cnt[gp[self]] + 1]
            /\ upd' = [upd EXCEPT ![gp[self]] = Clean(cnt'[gp[self]])]
            /\ pc' = [pc EXCEPT ![self] = "SR"]
            /\ UNCHANGED << kind, key, left, right, alloc, nop, abs, ok, curk, 
                            awit, pwit, i, op, k, gp, par, leaf, updP, updGP, 
                            rLeaf, rPar, ch, myop, ni, nl, sib >>

NX(self) == /\ pc[self] = "NX"
            /\ curk' = [curk EXCEPT ![self] = NIL]
            /\ i' = [i EXCEPT ![self] = i[self] + 1]
            /\ pc' = [pc EXCEPT ![self] = "L0"]
            /\ UNCHANGED << kind, key, left, right, upd, cnt, alloc, nop, abs, 
                            ok, awit, pwit, op, k, gp, par, leaf, updP, updGP, 
                            rLeaf, rPar, ch, myop, ni, nl, sib >>

P(self) == L0(self) \/ SR(self) \/ S1(self) \/ S2(self) \/ S3(self)
              \/ S4(self) \/ S5(self) \/ OP(self) \/ I1(self) \/ I2(self)
              \/ I3(self) \/ I3a(self) \/ I4(self) \/ I5(self) \/ I6(self)
              \/ E1(self) \/ E2(self) \/ E3(self) \/ E4(self) \/ E5(self)
              \/ E6(self) \/ E7(self) \/ E8(self) \/ NX(self)

(* Allow infinite stuttering to prevent deadlock on termination. *)
Terminating == /\ \A self \in ProcSet: pc[self] = "Done"
               /\ UNCHANGED vars

Next == (\E self \in Procs: P(self))
           \/ Terminating

Spec == Init /\ [][Next]_vars

Termination == <>(\A self \in ProcSet: pc[self] = "Done")

\* END TRANSLATION
LinOK == ok
\* the leaves reachable from the root are exactly the ghost set plus the two sentinels, in key order
RECURSIVE Leaves(_, _)
Leaves(n, fuel) == IF fuel = 0 \/ n = NIL THEN <<>> ELSE IF kind[n] = "leaf" THEN <<key[n]>> ELSE Leaves(left[n], fuel - 1) \o Leaves(right[n], fuel - 1)
TreeOK == LET l == Leaves(1, MaxNodes) IN
          /\ { l[j] : j \in 1..Len(l) } = abs \cup {INF1, INF2}
          /\ \A j \in 1..(Len(l) - 1) : l[j] < l[j + 1]
====
