---- MODULE SplitListMC ----
EXTENDS SplitList
\* W = 4: keys 0..15; load factor 1, table grows 2 -> 4 -> 8
SA == (1 :> << <<"ins", 5>>, <<"ins", 3>>, <<"find", 5>>, <<"era", 3>> >>) @@ (2 :> << <<"ins", 6>>, <<"ins", 13>>, <<"find", 3>>, <<"ins", 10>> >>)
SB == (1 :> << <<"ins", 9>>, <<"ins", 12>>, <<"find", 9>> >>) @@ (2 :> << <<"ins", 7>>, <<"ins", 4>>, <<"era", 9>> >>) @@ (3 :> << <<"ins", 2>>, <<"ins", 15>>, <<"find", 12>> >>)
====
