------------------------------- MODULE CuckooResize -------------------------------
(* C17 (cuckoo part): sequential model of cds::intrusive::CuckooSet insert / relocate / resize, arity 2, list probe sets,   *)
(* transcribed statement by statement from cds/intrusive/cuckoo_set.h.  TLC quantifies over ALL pairs of hash functions     *)
(* [Keys -> 0..M-1] (chosen in the initial state) and inserts the keys 1..K in order (the order is immaterial because the   *)
(* hash functions are arbitrary).  Invariant NoLoss: after every successful insert the tables hold exactly the inserted     *)
(* keys, each once, each in a probe set addressed by one of its hashes.                                                       *)
(* AsCoded = TRUE: resize() silently drops an element when both probe sets it maps to in the new tables are full            *)
(* (the defect recorded as a finding); AsCoded = FALSE: such a situation grows the table again (intended behaviour).         *)
EXTENDS Naturals, Sequences, FiniteSets, TLC
CONSTANTS K,        \* keys are 1..K
          M,        \* hash values are 0..M-1 (M = largest table size of interest)
          Cap0,     \* initial capacity (buckets per table), power of two
          PS,       \* probe-set size
          Thr,      \* probe-set threshold (< PS)
          MaxCap,   \* growth bound of the model
          AsCoded
Keys == 1..K
RelocateLimit == 3                                   \* c_nRelocateLimit = c_nArity * 2 - 1
Other(i) == 3 - i
VARIABLES h1, h2, cap, tab, done, lost
vars == <<h1, h2, cap, tab, done, lost>>
HashOf(i, k) == IF i = 1 THEN h1'[k] ELSE h2'[k]      \* evaluated inside Next, after the new key's hashes are chosen
Empty(c) == [i \in 1..2 |-> [x \in 0..(c - 1) |-> <<>>]]
Cell(c, i, k) == HashOf(i, k) % c
B(t, c, i, k) == t[i][Cell(c, i, k)]
Put(t, c, i, k, seq) == [t EXCEPT ![i][Cell(c, i, k)] = seq]
\* relocate( nTable, goal ): returns <<table, success>>
RECURSIVE Relocate(_, _, _, _, _)
Relocate(t, c, nTable, g, round) ==
  IF round >= RelocateLimit THEN <<t, FALSE>>
  ELSE LET bkt == B(t, c, nTable, g) IN
       IF Len(bkt) < Thr THEN <<t, TRUE>>
       ELSE LET v == Head(bkt)
                t1 == Put(t, c, nTable, g, Tail(bkt))
                j == Other(nTable)
                bj == B(t1, c, j, v)
            IN  IF Len(bj) < Thr THEN <<Put(t1, c, j, v, Append(bj, v)), TRUE>>
                ELSE IF Len(bj) < PS THEN Relocate(Put(t1, c, j, v, Append(bj, v)), c, j, v, round + 1)
                ELSE <<Put(t1, c, nTable, g, <<v>> \o Tail(bkt)), FALSE>>
\* placement of one element during resize into the new tables; returns <<table, dropped?>>
PlaceResize(t, c, k) ==
  IF Len(B(t, c, 1, k)) < Thr THEN <<Put(t, c, 1, k, Append(B(t, c, 1, k), k)), FALSE>>
  ELSE IF Len(B(t, c, 2, k)) < Thr THEN <<Put(t, c, 2, k, Append(B(t, c, 2, k), k)), FALSE>>
  ELSE IF Len(B(t, c, 1, k)) < PS THEN LET t1 == Put(t, c, 1, k, Append(B(t, c, 1, k), k)) IN <<Relocate(t1, c, 1, Head(B(t1, c, 1, k)), 0)[1], FALSE>>
  ELSE IF Len(B(t, c, 2, k)) < PS THEN LET t1 == Put(t, c, 2, k, Append(B(t, c, 2, k), k)) IN <<Relocate(t1, c, 2, Head(B(t1, c, 2, k)), 0)[1], FALSE>>
  ELSE <<t, TRUE>>                                   \* neither loop placed the element: it is not inserted anywhere
\* all elements of the old tables in iteration order: table 1 cells 0..c-1, then table 2
RECURSIVE Flatten(_, _, _, _)
Flatten(t, c, i, x) == IF i > 2 THEN <<>> ELSE IF x >= c THEN Flatten(t, c, i + 1, 0) ELSE t[i][x] \o Flatten(t, c, i, x + 1)
RECURSIVE PlaceAll(_, _, _, _)
PlaceAll(t, c, elems, dropped) ==
  IF elems = <<>> THEN <<t, dropped>>
  ELSE LET r == PlaceResize(t, c, Head(elems)) IN PlaceAll(r[1], c, Tail(elems), IF r[2] THEN dropped \cup {Head(elems)} ELSE dropped)
\* resize(): returns <<table, capacity, dropped elements>>;  intended variant: grow again until nothing is dropped
RECURSIVE ResizeTo(_, _, _)
ResizeTo(t, c, nc) ==
  LET r == PlaceAll(Empty(nc), nc, Flatten(t, c, 1, 0), {})
  IN  IF r[2] = {} \/ AsCoded \/ nc >= MaxCap THEN <<r[1], nc, r[2]>>
      ELSE ResizeTo(t, c, 2 * nc)
Resize(t, c) == ResizeTo(t, c, 2 * c)
\* insert( k ) for a key that is not present: returns <<table, capacity, dropped>>
RECURSIVE Insert(_, _, _, _)
Insert(t, c, k, dropped) ==
  IF Len(B(t, c, 1, k)) < Thr THEN <<Put(t, c, 1, k, Append(B(t, c, 1, k), k)), c, dropped>>
  ELSE IF Len(B(t, c, 2, k)) < Thr THEN <<Put(t, c, 2, k, Append(B(t, c, 2, k), k)), c, dropped>>
  ELSE LET i == IF Len(B(t, c, 1, k)) < PS THEN 1 ELSE IF Len(B(t, c, 2, k)) < PS THEN 2 ELSE 0 IN
       IF i # 0 THEN LET t1 == Put(t, c, i, k, Append(B(t, c, i, k), k))
                         r == Relocate(t1, c, i, Head(B(t1, c, i, k)), 0)
                     IN  IF r[2] \/ c >= MaxCap THEN <<r[1], c, dropped>>
                         ELSE LET z == Resize(r[1], c) IN <<z[1], z[2], dropped \cup z[3]>>
       ELSE IF c >= MaxCap THEN <<t, c, dropped \cup {k}>>      \* model bound reached (not a loss of the code)
       ELSE LET z == Resize(t, c) IN Insert(z[1], z[2], k, dropped \cup z[3])
\* the hash values of a key are chosen (arbitrarily) when the key is inserted: same behaviours as choosing both functions
\* up front, but the model has a single initial state, which also lets TLC -simulate sample hash tuples for larger K
Init == /\ h1 = [k \in Keys |-> 0] /\ h2 = [k \in Keys |-> 0]
        /\ cap = Cap0 /\ tab = Empty(Cap0) /\ done = 0 /\ lost = {}
Next == /\ done < K /\ cap < MaxCap
        /\ \E a, b \in 0..(M - 1) :
             /\ h1' = [h1 EXCEPT ![done + 1] = a] /\ h2' = [h2 EXCEPT ![done + 1] = b]
             /\ LET r == Insert(tab, cap, done + 1, {}) IN tab' = r[1] /\ cap' = r[2] /\ lost' = lost \cup r[3]
        /\ done' = done + 1
Spec == Init /\ [][Next]_vars
Contents == UNION { { tab[i][x][n] : n \in 1..Len(tab[i][x]) } : i \in 1..2, x \in 0..(cap - 1) }
Count == LET RECURSIVE S(_, _) S(i, x) == IF i > 2 THEN 0 ELSE IF x >= cap THEN S(i + 1, 0) ELSE Len(tab[i][x]) + S(i, x + 1) IN S(1, 0)
NoLoss == cap < MaxCap => (lost = {} /\ Contents = 1..done /\ Count = done)
HashNow(i, k) == IF i = 1 THEN h1[k] ELSE h2[k]
WellPlaced == \A i \in 1..2 : \A x \in 0..(cap - 1) : \A n \in 1..Len(tab[i][x]) : HashNow(i, tab[i][x][n]) % cap = x /\ Len(tab[i][x]) <= PS
=============================================================================
