SPECIFICATION Spec
CONSTANTS
  K = 7
  M = 4
  Cap0 = 2
  PS = 2
  Thr = 1
  MaxCap = 128
  AsCoded = TRUE
INVARIANT NoLoss
INVARIANT WellPlaced
CHECK_DEADLOCK FALSE
