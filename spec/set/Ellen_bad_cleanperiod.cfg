SPECIFICATION Spec
CONSTANTS
  Procs = {1, 2}
  Prog <- EC
  MaxNodes = 9
  CleanPeriod = 4
  NoPrecheck = FALSE
INVARIANTS LinOK TreeOK
CHECK_DEADLOCK FALSE
