SPECIFICATION Spec
CONSTANTS
  Procs = {1, 2, 3}
  Prog <- ED
  MaxNodes = 11
  CleanPeriod = 1
  NoPrecheck = FALSE
INVARIANTS LinOK TreeOK
CHECK_DEADLOCK FALSE
