SPECIFICATION Spec
CONSTANTS
  Procs = {1, 2, 3}
  Prog <- SB
  W = 4
  LoadFactor = 1
  MaxLog2 = 3
  RegularPlusOne = FALSE
  PublishEarly = FALSE
  NoParentInit = TRUE
  defaultInitValue = 0
INVARIANTS LinOK Sorted Parity Published ContentOK
CHECK_DEADLOCK FALSE
