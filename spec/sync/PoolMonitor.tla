------------------------------- MODULE PoolMonitor -------------------------------
(* Tier B: cds::sync::pool_monitor (lock()/unlock() of a node, lazily attaching a lock from a pool), spin_lock and the      *)
(* reentrant spin lock, one label per atomic access.  The word m_RefSpin is [spin |-> bit 0, refs |-> reference count].      *)
(* The pool is an abstract bag of locks (its own safety is C24).                                                              *)
(* Invariants (C22): at most one process inside the critical section of a node; a pool lock is attached to at most one       *)
(* node; a lock is returned to the pool only when no process holds or awaits it (refs = 0), and a process that counts         *)
(* itself in always finds the lock attached.                                                                                  *)
EXTENDS Naturals, Integers, Sequences, FiniteSets, TLC
CONSTANTS Procs, Nodes, PoolLocks, Iter,
          EarlyRelease,    \* TRUE: unlock() hands the lock back whenever it sees refs = 1 *before* taking the spin bit (broken)
          ClearLate        \* TRUE: seeded change C22: the last owner clears m_pLock after it has released the spin bit
NULL == 0
(* --algorithm PoolMonitor {
variables
  refspin = [n \in Nodes |-> [spin |-> FALSE, refs |-> 0]],
  plock = [n \in Nodes |-> NULL],                   \* m_pLock (plain field, protected by the spin bit)
  pool = PoolLocks,                                  \* free locks
  held = [k \in PoolLocks |-> NULL],                 \* owner of the pool lock l (the lock itself is a spin lock: lock() = CAS loop)
  incs = [n \in Nodes |-> {}],                       \* ghost: processes inside the critical section of n
  ok = TRUE;

process (P \in Procs)
  variables it = 0, node = NULL, cur = 0, l = NULL, rel = NULL;
{
L0: while (it < Iter) {
      it := it + 1;
      with (x \in Nodes) { node := x; };
      \* ---- lock( node ) ----
K1:   cur := refspin[node].refs;                                     \* load & ~spin
K2:   if (refspin[node] = [spin |-> FALSE, refs |-> cur]) {          \* CAS( cur, cur + inc + spin )
        refspin[node] := [spin |-> TRUE, refs |-> cur + 1];
      } else { cur := refspin[node].refs; goto K2; };                 \* bkoff(); cur &= ~spin  (failed CAS reloads cur)
K3:   if (plock[node] = NULL) {
        with (x \in pool) {                                          \* m_Pool.allocate
          ok := ok /\ cur = 0 /\ (\A m \in Nodes : plock[m] # x);    \* never attached to two nodes
          l := x; pool := pool \ {x}; plock[node] := x;
        };
      } else { l := plock[node]; };
K4:   refspin[node] := [spin |-> FALSE, refs |-> cur + 1];           \* store( cur + inc )
K5:   await held[l] = NULL; held[l] := self;                         \* pLock->lock()
      \* ---- critical section ----
C1:   ok := ok /\ incs[node] = {} /\ plock[node] = l;
      incs[node] := incs[node] \cup {self};
C2:   incs[node] := incs[node] \ {self};
      \* ---- unlock( node ) ----
U1:   ok := ok /\ plock[node] # NULL;
      held[plock[node]] := NULL;                                     \* m_pLock->unlock()
U2:   cur := refspin[node].refs;
      if (EarlyRelease /\ cur = 1) { rel := plock[node]; };
U3:   if (refspin[node] = [spin |-> FALSE, refs |-> cur]) {          \* CAS( cur, cur | spin )
        refspin[node] := [spin |-> TRUE, refs |-> cur];
      } else { cur := refspin[node].refs; goto U3; };
U4:   if (cur = 1 \/ rel # NULL) { rel := plock[node]; if (~ClearLate) { plock[node] := NULL; }; };
U5:   refspin[node] := [spin |-> FALSE, refs |-> cur - 1];
U5a:  if (ClearLate /\ rel # NULL) { plock[node] := NULL; };
U6:   if (rel # NULL) {
        ok := ok /\ held[rel] = NULL /\ (\A m \in Nodes : plock[m] # rel);
        pool := pool \cup {rel}; rel := NULL;                        \* m_Pool.deallocate
      };
    };
}
} *)
\* BEGIN TRANSLATION
VARIABLES pc, refspin, plock, pool, held, incs, ok, it, node, cur, l, rel

vars == << pc, refspin, plock, pool, held, incs, ok, it, node, cur, l, rel >>

ProcSet == (Procs)

Init == (* Global variables *)
        /\ refspin = [n \in Nodes |-> [spin |-> FALSE, refs |-> 0]]
        /\ plock = [n \in Nodes |-> NULL]
        /\ pool = PoolLocks
        /\ held = [k \in PoolLocks |-> NULL]
        /\ incs = [n \in Nodes |-> {}]
        /\ ok = TRUE
        (* Process P *)
        /\ it = [self \in Procs |-> 0]
        /\ node = [self \in Procs |-> NULL]
        /\ cur = [self \in Procs |-> 0]
        /\ l = [self \in Procs |-> NULL]
        /\ rel = [self \in Procs |-> NULL]
        /\ pc = [self \in ProcSet |-> "L0"]

L0(self) == /\ pc[self] = "L0"
            /\ IF it[self] < Iter
                  THEN /\ it' = [it EXCEPT ![self] = it[self] + 1]
                       /\ \E x \in Nodes:
                            node' = [node EXCEPT ![self] = x]
                       /\ pc' = [pc EXCEPT ![self] = "K1"]
                  ELSE /\ pc' = [pc EXCEPT ![self] = "Done"]
                       /\ UNCHANGED << it, node >>
            /\ UNCHANGED << refspin, plock, pool, held, incs, ok, cur, l, rel >>

K1(self) == /\ pc[self] = "K1"
            /\ cur' = [cur EXCEPT ![self] = refspin[node[self]].refs]
            /\ pc' = [pc EXCEPT ![self] = "K2"]
            /\ UNCHANGED << refspin, plock, pool, held, incs, ok, it, node, l, 
                            rel >>

K2(self) == /\ pc[self] = "K2"
            /\ IF refspin[node[self]] = [spin |-> FALSE, refs |-> cur[self]]
                  THEN /\ refspin' = [refspin EXCEPT ![node[self]] = [spin |-> TRUE, refs |-> cur[self] + 1]]
                       /\ pc' = [pc EXCEPT ![self] = "K3"]
                       /\ cur' = cur
                  ELSE /\ cur' = [cur EXCEPT ![self] = refspin[node[self]].refs]
                       /\ pc' = [pc EXCEPT ![self] = "K2"]
                       /\ UNCHANGED refspin
            /\ UNCHANGED << plock, pool, held, incs, ok, it, node, l, rel >>

K3(self) == /\ pc[self] = "K3"
            /\ IF plock[node[self]] = NULL
                  THEN /\ \E x \in pool:
                            /\ ok' = (ok /\ cur[self] = 0 /\ (\A m \in Nodes : plock[m] # x))
                            /\ l' = [l EXCEPT ![self] = x]
                            /\ pool' = pool \ {x}
                            /\ plock' = [plock EXCEPT ![node[self]] = x]
                  ELSE /\ l' = [l EXCEPT ![self] = plock[node[self]]]
                       /\ UNCHANGED << plock, pool, ok >>
            /\ pc' = [pc EXCEPT ![self] = "K4"]
            /\ UNCHANGED << refspin, held, incs, it, node, cur, rel >>

K4(self) == /\ pc[self] = "K4"
            /\ refspin' = [refspin EXCEPT ![node[self]] = [spin |-> FALSE, refs |-> cur[self] + 1]]
            /\ pc' = [pc EXCEPT ![self] = "K5"]
            /\ UNCHANGED << plock, pool, held, incs, ok, it, node, cur, l, rel >>

K5(self) == /\ pc[self] = "K5"
            /\ held[l[self]] = NULL
            /\ held' = [held EXCEPT ![l[self]] = self]
            /\ pc' = [pc EXCEPT ![self] = "C1"]
            /\ UNCHANGED << refspin, plock, pool, incs, ok, it, node, cur, l, 
                            rel >>

C1(self) == /\ pc[self] = "C1"
            /\ ok' = (ok /\ incs[node[self]] = {} /\ plock[node[self]] = l[self])
            /\ incs' = [incs EXCEPT ![node[self]] = incs[node[self]] \cup {self}]
            /\ pc' = [pc EXCEPT ![self] = "C2"]
            /\ UNCHANGED << refspin, plock, pool, held, it, node, cur, l, rel >>

C2(self) == /\ pc[self] = "C2"
            /\ incs' = [incs EXCEPT ![node[self]] = incs[node[self]] \ {self}]
            /\ pc' = [pc EXCEPT ![self] = "U1"]
            /\ UNCHANGED << refspin, plock, pool, held, ok, it, node, cur, l, 
                            rel >>

U1(self) == /\ pc[self] = "U1"
            /\ ok' = (ok /\ plock[node[self]] # NULL)
            /\ held' = [held EXCEPT ![plock[node[self]]] = NULL]
            /\ pc' = [pc EXCEPT ![self] = "U2"]
            /\ UNCHANGED << refspin, plock, pool, incs, it, node, cur, l, rel >>

U2(self) == /\ pc[self] = "U2"
            /\ cur' = [cur EXCEPT ![self] = refspin[node[self]].refs]
            /\ IF EarlyRelease /\ cur'[self] = 1
                  THEN /\ rel' = [rel EXCEPT ![self] = plock[node[self]]]
                  ELSE /\ TRUE
                       /\ rel' = rel
            /\ pc' = [pc EXCEPT ![self] = "U3"]
            /\ UNCHANGED << refspin, plock, pool, held, incs, ok, it, node, l >>

U3(self) == /\ pc[self] = "U3"
            /\ IF refspin[node[self]] = [spin |-> FALSE, refs |-> cur[self]]
                  THEN /\ refspin' = [refspin EXCEPT ![node[self]] = [spin |-> TRUE, refs |-> cur[self]]]
                       /\ pc' = [pc EXCEPT ![self] = "U4"]
                       /\ cur' = cur
                  ELSE /\ cur' = [cur EXCEPT ![self] = refspin[node[self]].refs]
                       /\ pc' = [pc EXCEPT ![self] = "U3"]
                       /\ UNCHANGED refspin
            /\ UNCHANGED << plock, pool, held, incs, ok, it, node, l, rel >>

U4(self) == /\ pc[self] = "U4"
            /\ IF cur[self] = 1 \/ rel[self] # NULL
                  THEN /\ rel' = [rel EXCEPT ![self] = plock[node[self]]]
                       /\ IF ~ClearLate
                             THEN /\ plock' = [plock EXCEPT ![node[self]] = NULL]
                             ELSE /\ TRUE
                                  /\ plock' = plock
                  ELSE /\ TRUE
                       /\ UNCHANGED << plock, rel >>
            /\ pc' = [pc EXCEPT ![self] = "U5"]
            /\ UNCHANGED << refspin, pool, held, incs, ok, it, node, cur, l >>

U5(self) == /\ pc[self] = "U5"
            /\ refspin' = [refspin EXCEPT ![node[self]] = [spin |-> FALSE, refs |-> cur[self] - 1]]
            /\ pc' = [pc EXCEPT ![self] = "U5a"]
            /\ UNCHANGED << plock, pool, held, incs, ok, it, node, cur, l, rel >>

U5a(self) == /\ pc[self] = "U5a"
             /\ IF ClearLate /\ rel[self] # NULL
                   THEN /\ plock' = [plock EXCEPT ![node[self]] = NULL]
                   ELSE /\ TRUE
                        /\ plock' = plock
             /\ pc' = [pc EXCEPT ![self] = "U6"]
             /\ UNCHANGED << refspin, pool, held, incs, ok, it, node, cur, l, 
                             rel >>

U6(self) == /\ pc[self] = "U6"
            /\ IF rel[self] # NULL
                  THEN /\ ok' = (ok /\ held[rel[self]] = NULL /\ (\A m \in Nodes : plock[m] # rel[self]))
                       /\ pool' = (pool \cup {rel[self]})
                       /\ rel' = [rel EXCEPT ![self] = NULL]
                  ELSE /\ TRUE
                       /\ UNCHANGED << pool, ok, rel >>
            /\ pc' = [pc EXCEPT ![self] = "L0"]
            /\ UNCHANGED << refspin, plock, held, incs, it, node, cur, l >>

P(self) == L0(self) \/ K1(self) \/ K2(self) \/ K3(self) \/ K4(self)
              \/ K5(self) \/ C1(self) \/ C2(self) \/ U1(self) \/ U2(self)
              \/ U3(self) \/ U4(self) \/ U5(self) \/ U5a(self) \/ U6(self)

(* Allow infinite stuttering to prevent deadlock on termination. *)
Terminating == /\ \A self \in ProcSet: pc[self] = "Done"
               /\ UNCHANGED vars

Next == (\E self \in Procs: P(self))
           \/ Terminating

Spec == Init /\ [][Next]_vars

Termination == <>(\A self \in ProcSet: pc[self] = "Done")

\* END TRANSLATION
MutualExclusion == \A n \in Nodes : Cardinality(incs[n]) <= 1
Safe == ok
AttachedOnce == \A a, b \in Nodes : (a # b /\ plock[a] # NULL) => plock[a] # plock[b]
ReturnedAtQuiescence == (\A p \in Procs : pc[p] = "Done") => (pool = PoolLocks /\ \A n \in Nodes : plock[n] = NULL /\ refspin[n].refs = 0)
=============================================================================
