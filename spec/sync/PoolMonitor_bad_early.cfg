SPECIFICATION Spec
CONSTANTS
  Procs = {1, 2}
  Nodes = {1, 2}
  PoolLocks = {1, 2}
  Iter = 2
  ClearLate = FALSE
  EarlyRelease = TRUE
INVARIANT MutualExclusion
INVARIANT Safe
INVARIANT AttachedOnce
INVARIANT ReturnedAtQuiescence
CHECK_DEADLOCK FALSE
