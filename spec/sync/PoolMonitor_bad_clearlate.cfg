SPECIFICATION Spec
CONSTANTS
  Procs = {1, 2, 3}
  Nodes = {1}
  PoolLocks = {1, 2}
  Iter = 2
  ClearLate = TRUE
  EarlyRelease = FALSE
INVARIANT MutualExclusion
INVARIANT Safe
INVARIANT AttachedOnce
INVARIANT ReturnedAtQuiescence
CHECK_DEADLOCK FALSE
