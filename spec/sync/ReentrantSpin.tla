------------------------------- MODULE ReentrantSpin -------------------------------
(* Tier B: cds::sync::reentrant_spin_lock (and, with Nest = 1, the plain spin_lock protocol): m_spin holds the recursion     *)
(* depth, m_OwnerId the owner; lock() = try_taken_lock() else acquire() + take(); unlock() decrements, and the last unlock    *)
(* clears the owner *before* it releases the spin word.  One label per atomic access.                                          *)
(* Invariants (C22): mutual exclusion; only the owner nests; the lock is free exactly after the owner's last unlock.           *)
EXTENDS Naturals, Integers, Sequences, FiniteSets, TLC
CONSTANTS Procs, Iter, Nest,
          FreeAfterRelease,    \* TRUE: the last unlock() stores m_spin = 0 before it clears m_OwnerId (broken variant)
          ExchangeAcquire      \* TRUE: seeded change C22b: try_acquire() is m_spin.exchange( 1 ) == 0 instead of CAS( 0 -> 1 )
NOBODY == 0
(* --algorithm ReentrantSpin {
variables spin = 0, owner = NOBODY, inside = {}, depthG = [p \in Procs |-> 0], ok = TRUE;
process (P \in Procs)
  variables it = 0, d = 0, n = 0;
{
L0: while (it < Iter) {
      it := it + 1; d := 0;
      \* ---- nested lock() calls ----
K0:   while (d < Nest) {
K1:     if (owner = self) {                                        \* try_taken_lock: is_taken( tid )
K2:       spin := spin + 1;                                        \* m_spin.fetch_add( 1 )
        } else {
K3:       if (spin = 0) { spin := 1; }                             \* acquire(): CAS( 0 -> 1 )
          else { if (ExchangeAcquire) { spin := 1; }; goto K3; };  \* spin on the word (load; bkoff); the exchange variant overwrites the depth
K4:       owner := self;                                           \* take( tid )
        };
K5:     d := d + 1; depthG[self] := d;
        ok := ok /\ (inside \subseteq {self}) /\ spin = d;
        inside := inside \cup {self};
      };
      \* ---- matching unlock() calls ----
U0:   while (d > 0) {
U1:     n := spin;                                                 \* m_spin.load
        ok := ok /\ owner = self /\ n = d;
U2:     if (n > 1) { spin := n - 1; }                              \* m_spin.store( n - 1 )
        else {
          if (FreeAfterRelease) { spin := 0; } else { owner := NOBODY; };   \* free()   (order swapped in the broken variant)
          inside := inside \ {self};
U3:       if (FreeAfterRelease) { owner := NOBODY; } else { spin := 0; };   \* m_spin.store( 0, release )
        };
U4:     d := d - 1; depthG[self] := d;
      };
    };
}
} *)
\* BEGIN TRANSLATION
VARIABLES pc, spin, owner, inside, depthG, ok, it, d, n

vars == << pc, spin, owner, inside, depthG, ok, it, d, n >>

ProcSet == (Procs)

Init == (* Global variables *)
        /\ spin = 0
        /\ owner = NOBODY
        /\ inside = {}
        /\ depthG = [p \in Procs |-> 0]
        /\ ok = TRUE
        (* Process P *)
        /\ it = [self \in Procs |-> 0]
        /\ d = [self \in Procs |-> 0]
        /\ n = [self \in Procs |-> 0]
        /\ pc = [self \in ProcSet |-> "L0"]

L0(self) == /\ pc[self] = "L0"
            /\ IF it[self] < Iter
                  THEN /\ it' = [it EXCEPT ![self] = it[self] + 1]
                       /\ d' = [d EXCEPT ![self] = 0]
                       /\ pc' = [pc EXCEPT ![self] = "K0"]
                  ELSE /\ pc' = [pc EXCEPT ![self] = "Done"]
                       /\ UNCHANGED << it, d >>
            /\ UNCHANGED << spin, owner, inside, depthG, ok, n >>

K0(self) == /\ pc[self] = "K0"
            /\ IF d[self] < Nest
                  THEN /\ pc' = [pc EXCEPT ![self] = "K1"]
                  ELSE /\ pc' = [pc EXCEPT ![self] = "U0"]
            /\ UNCHANGED << spin, owner, inside, depthG, ok, it, d, n >>

K1(self) == /\ pc[self] = "K1"
            /\ IF owner = self
                  THEN /\ pc' = [pc EXCEPT ![self] = "K2"]
                  ELSE /\ pc' = [pc EXCEPT ![self] = "K3"]
            /\ UNCHANGED << spin, owner, inside, depthG, ok, it, d, n >>

K2(self) == /\ pc[self] = "K2"
            /\ spin' = spin + 1
            /\ pc' = [pc EXCEPT ![self] = "K5"]
            /\ UNCHANGED << owner, inside, depthG, ok, it, d, n >>

K3(self) == /\ pc[self] = "K3"
            /\ IF spin = 0
                  THEN /\ spin' = 1
                       /\ pc' = [pc EXCEPT ![self] = "K4"]
                  ELSE /\ IF ExchangeAcquire
                             THEN /\ spin' = 1
                             ELSE /\ TRUE
                                  /\ spin' = spin
                       /\ pc' = [pc EXCEPT ![self] = "K3"]
            /\ UNCHANGED << owner, inside, depthG, ok, it, d, n >>

K4(self) == /\ pc[self] = "K4"
            /\ owner' = self
            /\ pc' = [pc EXCEPT ![self] = "K5"]
            /\ UNCHANGED << spin, inside, depthG, ok, it, d, n >>

K5(self) == /\ pc[self] = "K5"
            /\ d' = [d EXCEPT ![self] = d[self] + 1]
            /\ depthG' = [depthG EXCEPT ![self] = d'[self]]
            /\ ok' = (ok /\ (inside \subseteq {self}) /\ spin = d'[self])
            /\ inside' = (inside \cup {self})
            /\ pc' = [pc EXCEPT ![self] = "K0"]
            /\ UNCHANGED << spin, owner, it, n >>

U0(self) == /\ pc[self] = "U0"
            /\ IF d[self] > 0
                  THEN /\ pc' = [pc EXCEPT ![self] = "U1"]
                  ELSE /\ pc' = [pc EXCEPT ![self] = "L0"]
            /\ UNCHANGED << spin, owner, inside, depthG, ok, it, d, n >>

U1(self) == /\ pc[self] = "U1"
            /\ n' = [n EXCEPT ![self] = spin]
            /\ ok' = (ok /\ owner = self /\ n'[self] = d[self])
            /\ pc' = [pc EXCEPT ![self] = "U2"]
            /\ UNCHANGED << spin, owner, inside, depthG, it, d >>

U2(self) == /\ pc[self] = "U2"
            /\ IF n[self] > 1
                  THEN /\ spin' = n[self] - 1
                       /\ pc' = [pc EXCEPT ![self] = "U4"]
                       /\ UNCHANGED << owner, inside >>
                  ELSE /\ IF FreeAfterRelease
                             THEN /\ spin' = 0
                                  /\ owner' = owner
                             ELSE /\ owner' = NOBODY
                                  /\ spin' = spin
                       /\ inside' = inside \ {self}
                       /\ pc' = [pc EXCEPT ![self] = "U3"]
            /\ UNCHANGED << depthG, ok, it, d, n >>

U3(self) == /\ pc[self] = "U3"
            /\ IF FreeAfterRelease
                  THEN /\ owner' = NOBODY
                       /\ spin' = spin
                  ELSE /\ spin' = 0
                       /\ owner' = owner
            /\ pc' = [pc EXCEPT ![self] = "U4"]
            /\ UNCHANGED << inside, depthG, ok, it, d, n >>

U4(self) == /\ pc[self] = "U4"
            /\ d' = [d EXCEPT ![self] = d[self] - 1]
            /\ depthG' = [depthG EXCEPT ![self] = d'[self]]
            /\ pc' = [pc EXCEPT ![self] = "U0"]
            /\ UNCHANGED << spin, owner, inside, ok, it, n >>

P(self) == L0(self) \/ K0(self) \/ K1(self) \/ K2(self) \/ K3(self)
              \/ K4(self) \/ K5(self) \/ U0(self) \/ U1(self) \/ U2(self)
              \/ U3(self) \/ U4(self)

(* Allow infinite stuttering to prevent deadlock on termination. *)
Terminating == /\ \A self \in ProcSet: pc[self] = "Done"
               /\ UNCHANGED vars

Next == (\E self \in Procs: P(self))
           \/ Terminating

Spec == Init /\ [][Next]_vars

Termination == <>(\A self \in ProcSet: pc[self] = "Done")

\* END TRANSLATION
Safe == ok
MutualExclusion == Cardinality(inside) <= 1
FreeWhenDone == (\A p \in Procs : pc[p] = "Done") => (spin = 0 /\ owner = NOBODY)
=============================================================================
