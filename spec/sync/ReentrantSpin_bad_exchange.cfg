SPECIFICATION Spec
CONSTANTS
  Procs = {1, 2, 3}
  Iter = 2
  Nest = 2
  ExchangeAcquire = TRUE
  FreeAfterRelease = FALSE
INVARIANT Safe
INVARIANT MutualExclusion
INVARIANT FreeWhenDone
CHECK_DEADLOCK FALSE
