SPECIFICATION Spec
CONSTANTS
  Procs = {1, 2, 3}
  Nodes = {1, 2}
  PoolLocks = {1, 2}
  Iter = 2
  ClearLate = FALSE
  EarlyRelease = FALSE
INVARIANT MutualExclusion
INVARIANT Safe
INVARIANT AttachedOnce
INVARIANT ReturnedAtQuiescence
CHECK_DEADLOCK FALSE
