---- MODULE PoolMonitor_TTrace_1790090655 ----
EXTENDS Sequences, TLCExt, Toolbox, Naturals, TLC, PoolMonitor

_expression ==
    LET PoolMonitor_TEExpression == INSTANCE PoolMonitor_TEExpression
    IN PoolMonitor_TEExpression!expression
----

_trace ==
    LET PoolMonitor_TETrace == INSTANCE PoolMonitor_TETrace
    IN PoolMonitor_TETrace!trace
----

_inv ==
    ~(
        TLCGet("level") = Len(_TETrace)
        /\
        node = (<<2, 2>>)
        /\
        cur = (<<2, 1>>)
        /\
        pc = (<<"U5", "C2">>)
        /\
        incs = (<<{}, {2}>>)
        /\
        held = (<<2, 0>>)
        /\
        refspin = (<<[spin |-> FALSE, refs |-> 0], [spin |-> TRUE, refs |-> 2]>>)
        /\
        plock = (<<0, 0>>)
        /\
        rel = (<<1, 0>>)
        /\
        pool = ({2})
        /\
        it = (<<1, 1>>)
        /\
        ok = (FALSE)
        /\
        l = (<<1, 1>>)
    )
----

_init ==
    /\ node = _TETrace[1].node
    /\ cur = _TETrace[1].cur
    /\ refspin = _TETrace[1].refspin
    /\ ok = _TETrace[1].ok
    /\ l = _TETrace[1].l
    /\ pc = _TETrace[1].pc
    /\ rel = _TETrace[1].rel
    /\ pool = _TETrace[1].pool
    /\ incs = _TETrace[1].incs
    /\ it = _TETrace[1].it
    /\ held = _TETrace[1].held
    /\ plock = _TETrace[1].plock
----

_next ==
    /\ \E i,j \in DOMAIN _TETrace:
        /\ \/ /\ j = i + 1
              /\ i = TLCGet("level")
        /\ node  = _TETrace[i].node
        /\ node' = _TETrace[j].node
        /\ cur  = _TETrace[i].cur
        /\ cur' = _TETrace[j].cur
        /\ refspin  = _TETrace[i].refspin
        /\ refspin' = _TETrace[j].refspin
        /\ ok  = _TETrace[i].ok
        /\ ok' = _TETrace[j].ok
        /\ l  = _TETrace[i].l
        /\ l' = _TETrace[j].l
        /\ pc  = _TETrace[i].pc
        /\ pc' = _TETrace[j].pc
        /\ rel  = _TETrace[i].rel
        /\ rel' = _TETrace[j].rel
        /\ pool  = _TETrace[i].pool
        /\ pool' = _TETrace[j].pool
        /\ incs  = _TETrace[i].incs
        /\ incs' = _TETrace[j].incs
        /\ it  = _TETrace[i].it
        /\ it' = _TETrace[j].it
        /\ held  = _TETrace[i].held
        /\ held' = _TETrace[j].held
        /\ plock  = _TETrace[i].plock
        /\ plock' = _TETrace[j].plock

\* Uncomment the ASSUME below to write the states of the error trace
\* to the given file in Json format. Note that you can pass any tuple
\* to `JsonSerialize`. For example, a sub-sequence of _TETrace.
    \* ASSUME
    \*     LET J == INSTANCE Json
    \*         IN J!JsonSerialize("PoolMonitor_TTrace_1790090655.json", _TETrace)

=============================================================================

 Note that you can extract this module `PoolMonitor_TEExpression`
  to a dedicated file to reuse `expression` (the module in the 
  dedicated `PoolMonitor_TEExpression.tla` file takes precedence 
  over the module `PoolMonitor_TEExpression` below).

---- MODULE PoolMonitor_TEExpression ----
EXTENDS Sequences, TLCExt, Toolbox, Naturals, TLC, PoolMonitor

expression == 
    [
        \* To hide variables of the `PoolMonitor` spec from the error trace,
        \* remove the variables below.  The trace will be written in the order
        \* of the fields of this record.
        node |-> node
        ,cur |-> cur
        ,refspin |-> refspin
        ,ok |-> ok
        ,l |-> l
        ,pc |-> pc
        ,rel |-> rel
        ,pool |-> pool
        ,incs |-> incs
        ,it |-> it
        ,held |-> held
        ,plock |-> plock
        
        \* Put additional constant-, state-, and action-level expressions here:
        \* ,_stateNumber |-> _TEPosition
        \* ,_nodeUnchanged |-> node = node'
        
        \* Format the `node` variable as Json value.
        \* ,_nodeJson |->
        \*     LET J == INSTANCE Json
        \*     IN J!ToJson(node)
        
        \* Lastly, you may build expressions over arbitrary sets of states by
        \* leveraging the _TETrace operator.  For example, this is how to
        \* count the number of times a spec variable changed up to the current
        \* state in the trace.
        \* ,_nodeModCount |->
        \*     LET F[s \in DOMAIN _TETrace] ==
        \*         IF s = 1 THEN 0
        \*         ELSE IF _TETrace[s].node # _TETrace[s-1].node
        \*             THEN 1 + F[s-1] ELSE F[s-1]
        \*     IN F[_TEPosition - 1]
    ]

=============================================================================



Parsing and semantic processing can take forever if the trace below is long.
 In this case, it is advised to uncomment the module below to deserialize the
 trace from a generated binary file.

\*
\*---- MODULE PoolMonitor_TETrace ----
\*EXTENDS IOUtils, TLC, PoolMonitor
\*
\*trace == IODeserialize("PoolMonitor_TTrace_1790090655.bin", TRUE)
\*
\*=============================================================================
\*

---- MODULE PoolMonitor_TETrace ----
EXTENDS TLC, PoolMonitor

trace == 
    <<
    ([node |-> <<0, 0>>,cur |-> <<0, 0>>,pc |-> <<"L0", "L0">>,incs |-> <<{}, {}>>,held |-> <<0, 0>>,refspin |-> <<[spin |-> FALSE, refs |-> 0], [spin |-> FALSE, refs |-> 0]>>,plock |-> <<0, 0>>,rel |-> <<0, 0>>,pool |-> {1, 2},it |-> <<0, 0>>,ok |-> TRUE,l |-> <<0, 0>>]),
    ([node |-> <<2, 0>>,cur |-> <<0, 0>>,pc |-> <<"K1", "L0">>,incs |-> <<{}, {}>>,held |-> <<0, 0>>,refspin |-> <<[spin |-> FALSE, refs |-> 0], [spin |-> FALSE, refs |-> 0]>>,plock |-> <<0, 0>>,rel |-> <<0, 0>>,pool |-> {1, 2},it |-> <<1, 0>>,ok |-> TRUE,l |-> <<0, 0>>]),
    ([node |-> <<2, 0>>,cur |-> <<0, 0>>,pc |-> <<"K2", "L0">>,incs |-> <<{}, {}>>,held |-> <<0, 0>>,refspin |-> <<[spin |-> FALSE, refs |-> 0], [spin |-> FALSE, refs |-> 0]>>,plock |-> <<0, 0>>,rel |-> <<0, 0>>,pool |-> {1, 2},it |-> <<1, 0>>,ok |-> TRUE,l |-> <<0, 0>>]),
    ([node |-> <<2, 0>>,cur |-> <<0, 0>>,pc |-> <<"K3", "L0">>,incs |-> <<{}, {}>>,held |-> <<0, 0>>,refspin |-> <<[spin |-> FALSE, refs |-> 0], [spin |-> TRUE, refs |-> 1]>>,plock |-> <<0, 0>>,rel |-> <<0, 0>>,pool |-> {1, 2},it |-> <<1, 0>>,ok |-> TRUE,l |-> <<0, 0>>]),
    ([node |-> <<2, 0>>,cur |-> <<0, 0>>,pc |-> <<"K4", "L0">>,incs |-> <<{}, {}>>,held |-> <<0, 0>>,refspin |-> <<[spin |-> FALSE, refs |-> 0], [spin |-> TRUE, refs |-> 1]>>,plock |-> <<0, 1>>,rel |-> <<0, 0>>,pool |-> {2},it |-> <<1, 0>>,ok |-> TRUE,l |-> <<1, 0>>]),
    ([node |-> <<2, 0>>,cur |-> <<0, 0>>,pc |-> <<"K5", "L0">>,incs |-> <<{}, {}>>,held |-> <<0, 0>>,refspin |-> <<[spin |-> FALSE, refs |-> 0], [spin |-> FALSE, refs |-> 1]>>,plock |-> <<0, 1>>,rel |-> <<0, 0>>,pool |-> {2},it |-> <<1, 0>>,ok |-> TRUE,l |-> <<1, 0>>]),
    ([node |-> <<2, 0>>,cur |-> <<0, 0>>,pc |-> <<"C1", "L0">>,incs |-> <<{}, {}>>,held |-> <<1, 0>>,refspin |-> <<[spin |-> FALSE, refs |-> 0], [spin |-> FALSE, refs |-> 1]>>,plock |-> <<0, 1>>,rel |-> <<0, 0>>,pool |-> {2},it |-> <<1, 0>>,ok |-> TRUE,l |-> <<1, 0>>]),
    ([node |-> <<2, 0>>,cur |-> <<0, 0>>,pc |-> <<"C2", "L0">>,incs |-> <<{}, {1}>>,held |-> <<1, 0>>,refspin |-> <<[spin |-> FALSE, refs |-> 0], [spin |-> FALSE, refs |-> 1]>>,plock |-> <<0, 1>>,rel |-> <<0, 0>>,pool |-> {2},it |-> <<1, 0>>,ok |-> TRUE,l |-> <<1, 0>>]),
    ([node |-> <<2, 0>>,cur |-> <<0, 0>>,pc |-> <<"U1", "L0">>,incs |-> <<{}, {}>>,held |-> <<1, 0>>,refspin |-> <<[spin |-> FALSE, refs |-> 0], [spin |-> FALSE, refs |-> 1]>>,plock |-> <<0, 1>>,rel |-> <<0, 0>>,pool |-> {2},it |-> <<1, 0>>,ok |-> TRUE,l |-> <<1, 0>>]),
    ([node |-> <<2, 0>>,cur |-> <<0, 0>>,pc |-> <<"U2", "L0">>,incs |-> <<{}, {}>>,held |-> <<0, 0>>,refspin |-> <<[spin |-> FALSE, refs |-> 0], [spin |-> FALSE, refs |-> 1]>>,plock |-> <<0, 1>>,rel |-> <<0, 0>>,pool |-> {2},it |-> <<1, 0>>,ok |-> TRUE,l |-> <<1, 0>>]),
    ([node |-> <<2, 0>>,cur |-> <<1, 0>>,pc |-> <<"U3", "L0">>,incs |-> <<{}, {}>>,held |-> <<0, 0>>,refspin |-> <<[spin |-> FALSE, refs |-> 0], [spin |-> FALSE, refs |-> 1]>>,plock |-> <<0, 1>>,rel |-> <<1, 0>>,pool |-> {2},it |-> <<1, 0>>,ok |-> TRUE,l |-> <<1, 0>>]),
    ([node |-> <<2, 2>>,cur |-> <<1, 0>>,pc |-> <<"U3", "K1">>,incs |-> <<{}, {}>>,held |-> <<0, 0>>,refspin |-> <<[spin |-> FALSE, refs |-> 0], [spin |-> FALSE, refs |-> 1]>>,plock |-> <<0, 1>>,rel |-> <<1, 0>>,pool |-> {2},it |-> <<1, 1>>,ok |-> TRUE,l |-> <<1, 0>>]),
    ([node |-> <<2, 2>>,cur |-> <<1, 1>>,pc |-> <<"U3", "K2">>,incs |-> <<{}, {}>>,held |-> <<0, 0>>,refspin |-> <<[spin |-> FALSE, refs |-> 0], [spin |-> FALSE, refs |-> 1]>>,plock |-> <<0, 1>>,rel |-> <<1, 0>>,pool |-> {2},it |-> <<1, 1>>,ok |-> TRUE,l |-> <<1, 0>>]),
    ([node |-> <<2, 2>>,cur |-> <<1, 1>>,pc |-> <<"U3", "K3">>,incs |-> <<{}, {}>>,held |-> <<0, 0>>,refspin |-> <<[spin |-> FALSE, refs |-> 0], [spin |-> TRUE, refs |-> 2]>>,plock |-> <<0, 1>>,rel |-> <<1, 0>>,pool |-> {2},it |-> <<1, 1>>,ok |-> TRUE,l |-> <<1, 0>>]),
    ([node |-> <<2, 2>>,cur |-> <<1, 1>>,pc |-> <<"U3", "K4">>,incs |-> <<{}, {}>>,held |-> <<0, 0>>,refspin |-> <<[spin |-> FALSE, refs |-> 0], [spin |-> TRUE, refs |-> 2]>>,plock |-> <<0, 1>>,rel |-> <<1, 0>>,pool |-> {2},it |-> <<1, 1>>,ok |-> TRUE,l |-> <<1, 1>>]),
    ([node |-> <<2, 2>>,cur |-> <<1, 1>>,pc |-> <<"U3", "K5">>,incs |-> <<{}, {}>>,held |-> <<0, 0>>,refspin |-> <<[spin |-> FALSE, refs |-> 0], [spin |-> FALSE, refs |-> 2]>>,plock |-> <<0, 1>>,rel |-> <<1, 0>>,pool |-> {2},it |-> <<1, 1>>,ok |-> TRUE,l |-> <<1, 1>>]),
    ([node |-> <<2, 2>>,cur |-> <<2, 1>>,pc |-> <<"U3", "K5">>,incs |-> <<{}, {}>>,held |-> <<0, 0>>,refspin |-> <<[spin |-> FALSE, refs |-> 0], [spin |-> FALSE, refs |-> 2]>>,plock |-> <<0, 1>>,rel |-> <<1, 0>>,pool |-> {2},it |-> <<1, 1>>,ok |-> TRUE,l |-> <<1, 1>>]),
    ([node |-> <<2, 2>>,cur |-> <<2, 1>>,pc |-> <<"U4", "K5">>,incs |-> <<{}, {}>>,held |-> <<0, 0>>,refspin |-> <<[spin |-> FALSE, refs |-> 0], [spin |-> TRUE, refs |-> 2]>>,plock |-> <<0, 1>>,rel |-> <<1, 0>>,pool |-> {2},it |-> <<1, 1>>,ok |-> TRUE,l |-> <<1, 1>>]),
    ([node |-> <<2, 2>>,cur |-> <<2, 1>>,pc |-> <<"U5", "K5">>,incs |-> <<{}, {}>>,held |-> <<0, 0>>,refspin |-> <<[spin |-> FALSE, refs |-> 0], [spin |-> TRUE, refs |-> 2]>>,plock |-> <<0, 0>>,rel |-> <<1, 0>>,pool |-> {2},it |-> <<1, 1>>,ok |-> TRUE,l |-> <<1, 1>>]),
    ([node |-> <<2, 2>>,cur |-> <<2, 1>>,pc |-> <<"U5", "C1">>,incs |-> <<{}, {}>>,held |-> <<2, 0>>,refspin |-> <<[spin |-> FALSE, refs |-> 0], [spin |-> TRUE, refs |-> 2]>>,plock |-> <<0, 0>>,rel |-> <<1, 0>>,pool |-> {2},it |-> <<1, 1>>,ok |-> TRUE,l |-> <<1, 1>>]),
    ([node |-> <<2, 2>>,cur |-> <<2, 1>>,pc |-> <<"U5", "C2">>,incs |-> <<{}, {2}>>,held |-> <<2, 0>>,refspin |-> <<[spin |-> FALSE, refs |-> 0], [spin |-> TRUE, refs |-> 2]>>,plock |-> <<0, 0>>,rel |-> <<1, 0>>,pool |-> {2},it |-> <<1, 1>>,ok |-> FALSE,l |-> <<1, 1>>])
    >>
----


=============================================================================

---- CONFIG PoolMonitor_TTrace_1790090655 ----
CONSTANTS
    Procs = { 1 , 2 }
    Nodes = { 1 , 2 }
    PoolLocks = { 1 , 2 }
    Iter = 2
    EarlyRelease = TRUE

INVARIANT
    _inv

CHECK_DEADLOCK
    \* CHECK_DEADLOCK off because of PROPERTY or INVARIANT above.
    FALSE

INIT
    _init

NEXT
    _next

CONSTANT
    _TETrace <- _trace

ALIAS
    _expression
=============================================================================
\* Generated on Tue Sep 22 15:24:20 UTC 2026