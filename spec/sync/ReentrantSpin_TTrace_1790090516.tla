---- MODULE ReentrantSpin_TTrace_1790090516 ----
EXTENDS Sequences, TLCExt, ReentrantSpin, Toolbox, Naturals, TLC

_expression ==
    LET ReentrantSpin_TEExpression == INSTANCE ReentrantSpin_TEExpression
    IN ReentrantSpin_TEExpression!expression
----

_trace ==
    LET ReentrantSpin_TETrace == INSTANCE ReentrantSpin_TETrace
    IN ReentrantSpin_TETrace!trace
----

_inv ==
    ~(
        TLCGet("level") = Len(_TETrace)
        /\
        owner = (0)
        /\
        pc = (<<"U4", "U2", "L0">>)
        /\
        d = (<<1, 2, 0>>)
        /\
        spin = (2)
        /\
        it = (<<1, 1, 0>>)
        /\
        depthG = (<<1, 2, 0>>)
        /\
        ok = (FALSE)
        /\
        inside = ({2})
        /\
        n = (<<1, 2, 0>>)
    )
----

_init ==
    /\ depthG = _TETrace[1].depthG
    /\ d = _TETrace[1].d
    /\ ok = _TETrace[1].ok
    /\ n = _TETrace[1].n
    /\ pc = _TETrace[1].pc
    /\ it = _TETrace[1].it
    /\ inside = _TETrace[1].inside
    /\ spin = _TETrace[1].spin
    /\ owner = _TETrace[1].owner
----

_next ==
    /\ \E i,j \in DOMAIN _TETrace:
        /\ \/ /\ j = i + 1
              /\ i = TLCGet("level")
        /\ depthG  = _TETrace[i].depthG
        /\ depthG' = _TETrace[j].depthG
        /\ d  = _TETrace[i].d
        /\ d' = _TETrace[j].d
        /\ ok  = _TETrace[i].ok
        /\ ok' = _TETrace[j].ok
        /\ n  = _TETrace[i].n
        /\ n' = _TETrace[j].n
        /\ pc  = _TETrace[i].pc
        /\ pc' = _TETrace[j].pc
        /\ it  = _TETrace[i].it
        /\ it' = _TETrace[j].it
        /\ inside  = _TETrace[i].inside
        /\ inside' = _TETrace[j].inside
        /\ spin  = _TETrace[i].spin
        /\ spin' = _TETrace[j].spin
        /\ owner  = _TETrace[i].owner
        /\ owner' = _TETrace[j].owner

\* Uncomment the ASSUME below to write the states of the error trace
\* to the given file in Json format. Note that you can pass any tuple
\* to `JsonSerialize`. For example, a sub-sequence of _TETrace.
    \* ASSUME
    \*     LET J == INSTANCE Json
    \*         IN J!JsonSerialize("ReentrantSpin_TTrace_1790090516.json", _TETrace)

=============================================================================

 Note that you can extract this module `ReentrantSpin_TEExpression`
  to a dedicated file to reuse `expression` (the module in the 
  dedicated `ReentrantSpin_TEExpression.tla` file takes precedence 
  over the module `ReentrantSpin_TEExpression` below).

---- MODULE ReentrantSpin_TEExpression ----
EXTENDS Sequences, TLCExt, ReentrantSpin, Toolbox, Naturals, TLC

expression == 
    [
        \* To hide variables of the `ReentrantSpin` spec from the error trace,
        \* remove the variables below.  The trace will be written in the order
        \* of the fields of this record.
        depthG |-> depthG
        ,d |-> d
        ,ok |-> ok
        ,n |-> n
        ,pc |-> pc
        ,it |-> it
        ,inside |-> inside
        ,spin |-> spin
        ,owner |-> owner
        
        \* Put additional constant-, state-, and action-level expressions here:
        \* ,_stateNumber |-> _TEPosition
        \* ,_depthGUnchanged |-> depthG = depthG'
        
        \* Format the `depthG` variable as Json value.
        \* ,_depthGJson |->
        \*     LET J == INSTANCE Json
        \*     IN J!ToJson(depthG)
        
        \* Lastly, you may build expressions over arbitrary sets of states by
        \* leveraging the _TETrace operator.  For example, this is how to
        \* count the number of times a spec variable changed up to the current
        \* state in the trace.
        \* ,_depthGModCount |->
        \*     LET F[s \in DOMAIN _TETrace] ==
        \*         IF s = 1 THEN 0
        \*         ELSE IF _TETrace[s].depthG # _TETrace[s-1].depthG
        \*             THEN 1 + F[s-1] ELSE F[s-1]
        \*     IN F[_TEPosition - 1]
    ]

=============================================================================



Parsing and semantic processing can take forever if the trace below is long.
 In this case, it is advised to uncomment the module below to deserialize the
 trace from a generated binary file.

\*
\*---- MODULE ReentrantSpin_TETrace ----
\*EXTENDS IOUtils, ReentrantSpin, TLC
\*
\*trace == IODeserialize("ReentrantSpin_TTrace_1790090516.bin", TRUE)
\*
\*=============================================================================
\*

---- MODULE ReentrantSpin_TETrace ----
EXTENDS ReentrantSpin, TLC

trace == 
    <<
    ([owner |-> 0,pc |-> <<"L0", "L0", "L0">>,d |-> <<0, 0, 0>>,spin |-> 0,it |-> <<0, 0, 0>>,depthG |-> <<0, 0, 0>>,ok |-> TRUE,inside |-> {},n |-> <<0, 0, 0>>]),
    ([owner |-> 0,pc |-> <<"L0", "K0", "L0">>,d |-> <<0, 0, 0>>,spin |-> 0,it |-> <<0, 1, 0>>,depthG |-> <<0, 0, 0>>,ok |-> TRUE,inside |-> {},n |-> <<0, 0, 0>>]),
    ([owner |-> 0,pc |-> <<"K0", "K0", "L0">>,d |-> <<0, 0, 0>>,spin |-> 0,it |-> <<1, 1, 0>>,depthG |-> <<0, 0, 0>>,ok |-> TRUE,inside |-> {},n |-> <<0, 0, 0>>]),
    ([owner |-> 0,pc |-> <<"K1", "K0", "L0">>,d |-> <<0, 0, 0>>,spin |-> 0,it |-> <<1, 1, 0>>,depthG |-> <<0, 0, 0>>,ok |-> TRUE,inside |-> {},n |-> <<0, 0, 0>>]),
    ([owner |-> 0,pc |-> <<"K3", "K0", "L0">>,d |-> <<0, 0, 0>>,spin |-> 0,it |-> <<1, 1, 0>>,depthG |-> <<0, 0, 0>>,ok |-> TRUE,inside |-> {},n |-> <<0, 0, 0>>]),
    ([owner |-> 0,pc |-> <<"K4", "K0", "L0">>,d |-> <<0, 0, 0>>,spin |-> 1,it |-> <<1, 1, 0>>,depthG |-> <<0, 0, 0>>,ok |-> TRUE,inside |-> {},n |-> <<0, 0, 0>>]),
    ([owner |-> 1,pc |-> <<"K5", "K0", "L0">>,d |-> <<0, 0, 0>>,spin |-> 1,it |-> <<1, 1, 0>>,depthG |-> <<0, 0, 0>>,ok |-> TRUE,inside |-> {},n |-> <<0, 0, 0>>]),
    ([owner |-> 1,pc |-> <<"K0", "K0", "L0">>,d |-> <<1, 0, 0>>,spin |-> 1,it |-> <<1, 1, 0>>,depthG |-> <<1, 0, 0>>,ok |-> TRUE,inside |-> {1},n |-> <<0, 0, 0>>]),
    ([owner |-> 1,pc |-> <<"K1", "K0", "L0">>,d |-> <<1, 0, 0>>,spin |-> 1,it |-> <<1, 1, 0>>,depthG |-> <<1, 0, 0>>,ok |-> TRUE,inside |-> {1},n |-> <<0, 0, 0>>]),
    ([owner |-> 1,pc |-> <<"K2", "K0", "L0">>,d |-> <<1, 0, 0>>,spin |-> 1,it |-> <<1, 1, 0>>,depthG |-> <<1, 0, 0>>,ok |-> TRUE,inside |-> {1},n |-> <<0, 0, 0>>]),
    ([owner |-> 1,pc |-> <<"K5", "K0", "L0">>,d |-> <<1, 0, 0>>,spin |-> 2,it |-> <<1, 1, 0>>,depthG |-> <<1, 0, 0>>,ok |-> TRUE,inside |-> {1},n |-> <<0, 0, 0>>]),
    ([owner |-> 1,pc |-> <<"K0", "K0", "L0">>,d |-> <<2, 0, 0>>,spin |-> 2,it |-> <<1, 1, 0>>,depthG |-> <<2, 0, 0>>,ok |-> TRUE,inside |-> {1},n |-> <<0, 0, 0>>]),
    ([owner |-> 1,pc |-> <<"U0", "K0", "L0">>,d |-> <<2, 0, 0>>,spin |-> 2,it |-> <<1, 1, 0>>,depthG |-> <<2, 0, 0>>,ok |-> TRUE,inside |-> {1},n |-> <<0, 0, 0>>]),
    ([owner |-> 1,pc |-> <<"U1", "K0", "L0">>,d |-> <<2, 0, 0>>,spin |-> 2,it |-> <<1, 1, 0>>,depthG |-> <<2, 0, 0>>,ok |-> TRUE,inside |-> {1},n |-> <<0, 0, 0>>]),
    ([owner |-> 1,pc |-> <<"U2", "K0", "L0">>,d |-> <<2, 0, 0>>,spin |-> 2,it |-> <<1, 1, 0>>,depthG |-> <<2, 0, 0>>,ok |-> TRUE,inside |-> {1},n |-> <<2, 0, 0>>]),
    ([owner |-> 1,pc |-> <<"U4", "K0", "L0">>,d |-> <<2, 0, 0>>,spin |-> 1,it |-> <<1, 1, 0>>,depthG |-> <<2, 0, 0>>,ok |-> TRUE,inside |-> {1},n |-> <<2, 0, 0>>]),
    ([owner |-> 1,pc |-> <<"U4", "K1", "L0">>,d |-> <<2, 0, 0>>,spin |-> 1,it |-> <<1, 1, 0>>,depthG |-> <<2, 0, 0>>,ok |-> TRUE,inside |-> {1},n |-> <<2, 0, 0>>]),
    ([owner |-> 1,pc |-> <<"U0", "K1", "L0">>,d |-> <<1, 0, 0>>,spin |-> 1,it |-> <<1, 1, 0>>,depthG |-> <<1, 0, 0>>,ok |-> TRUE,inside |-> {1},n |-> <<2, 0, 0>>]),
    ([owner |-> 1,pc |-> <<"U1", "K1", "L0">>,d |-> <<1, 0, 0>>,spin |-> 1,it |-> <<1, 1, 0>>,depthG |-> <<1, 0, 0>>,ok |-> TRUE,inside |-> {1},n |-> <<2, 0, 0>>]),
    ([owner |-> 1,pc |-> <<"U2", "K1", "L0">>,d |-> <<1, 0, 0>>,spin |-> 1,it |-> <<1, 1, 0>>,depthG |-> <<1, 0, 0>>,ok |-> TRUE,inside |-> {1},n |-> <<1, 0, 0>>]),
    ([owner |-> 1,pc |-> <<"U3", "K1", "L0">>,d |-> <<1, 0, 0>>,spin |-> 0,it |-> <<1, 1, 0>>,depthG |-> <<1, 0, 0>>,ok |-> TRUE,inside |-> {},n |-> <<1, 0, 0>>]),
    ([owner |-> 1,pc |-> <<"U3", "K3", "L0">>,d |-> <<1, 0, 0>>,spin |-> 0,it |-> <<1, 1, 0>>,depthG |-> <<1, 0, 0>>,ok |-> TRUE,inside |-> {},n |-> <<1, 0, 0>>]),
    ([owner |-> 1,pc |-> <<"U3", "K4", "L0">>,d |-> <<1, 0, 0>>,spin |-> 1,it |-> <<1, 1, 0>>,depthG |-> <<1, 0, 0>>,ok |-> TRUE,inside |-> {},n |-> <<1, 0, 0>>]),
    ([owner |-> 2,pc |-> <<"U3", "K5", "L0">>,d |-> <<1, 0, 0>>,spin |-> 1,it |-> <<1, 1, 0>>,depthG |-> <<1, 0, 0>>,ok |-> TRUE,inside |-> {},n |-> <<1, 0, 0>>]),
    ([owner |-> 2,pc |-> <<"U3", "K0", "L0">>,d |-> <<1, 1, 0>>,spin |-> 1,it |-> <<1, 1, 0>>,depthG |-> <<1, 1, 0>>,ok |-> TRUE,inside |-> {2},n |-> <<1, 0, 0>>]),
    ([owner |-> 2,pc |-> <<"U3", "K1", "L0">>,d |-> <<1, 1, 0>>,spin |-> 1,it |-> <<1, 1, 0>>,depthG |-> <<1, 1, 0>>,ok |-> TRUE,inside |-> {2},n |-> <<1, 0, 0>>]),
    ([owner |-> 2,pc |-> <<"U3", "K2", "L0">>,d |-> <<1, 1, 0>>,spin |-> 1,it |-> <<1, 1, 0>>,depthG |-> <<1, 1, 0>>,ok |-> TRUE,inside |-> {2},n |-> <<1, 0, 0>>]),
    ([owner |-> 2,pc |-> <<"U3", "K5", "L0">>,d |-> <<1, 1, 0>>,spin |-> 2,it |-> <<1, 1, 0>>,depthG |-> <<1, 1, 0>>,ok |-> TRUE,inside |-> {2},n |-> <<1, 0, 0>>]),
    ([owner |-> 2,pc |-> <<"U3", "K0", "L0">>,d |-> <<1, 2, 0>>,spin |-> 2,it |-> <<1, 1, 0>>,depthG |-> <<1, 2, 0>>,ok |-> TRUE,inside |-> {2},n |-> <<1, 0, 0>>]),
    ([owner |-> 2,pc |-> <<"U3", "U0", "L0">>,d |-> <<1, 2, 0>>,spin |-> 2,it |-> <<1, 1, 0>>,depthG |-> <<1, 2, 0>>,ok |-> TRUE,inside |-> {2},n |-> <<1, 0, 0>>]),
    ([owner |-> 2,pc |-> <<"U3", "U1", "L0">>,d |-> <<1, 2, 0>>,spin |-> 2,it |-> <<1, 1, 0>>,depthG |-> <<1, 2, 0>>,ok |-> TRUE,inside |-> {2},n |-> <<1, 0, 0>>]),
    ([owner |-> 0,pc |-> <<"U4", "U1", "L0">>,d |-> <<1, 2, 0>>,spin |-> 2,it |-> <<1, 1, 0>>,depthG |-> <<1, 2, 0>>,ok |-> TRUE,inside |-> {2},n |-> <<1, 0, 0>>]),
    ([owner |-> 0,pc |-> <<"U4", "U2", "L0">>,d |-> <<1, 2, 0>>,spin |-> 2,it |-> <<1, 1, 0>>,depthG |-> <<1, 2, 0>>,ok |-> FALSE,inside |-> {2},n |-> <<1, 2, 0>>])
    >>
----


=============================================================================

---- CONFIG ReentrantSpin_TTrace_1790090516 ----
CONSTANTS
    Procs = { 1 , 2 , 3 }
    Iter = 2
    Nest = 2
    FreeAfterRelease = TRUE

INVARIANT
    _inv

CHECK_DEADLOCK
    \* CHECK_DEADLOCK off because of PROPERTY or INVARIANT above.
    FALSE

INIT
    _init

NEXT
    _next

CONSTANT
    _TETrace <- _trace

ALIAS
    _expression
=============================================================================
\* Generated on Tue Sep 22 15:22:01 UTC 2026