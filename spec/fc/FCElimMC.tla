---- MODULE FCElimMC ----
EXTENDS FCElim
\* positive = push that value, 0 = pop; thread 2 pops from an empty container first (its record keeps bEmpty = TRUE)
GA == (1 :> <<1, 2>>) @@ (2 :> <<0, 0, 0>>)
====
