SPECIFICATION Spec
CONSTANTS
  Procs = {1, 2}
  Prog <- GA
  Kind = "queue"
  WrongFlag = FALSE
  NoFlag = FALSE
INVARIANT Conservation
CHECK_DEADLOCK FALSE
