---- MODULE FCKernel ----
\* Tier B: cds::algo::flat_combining::kernel (cds/algo/flat_combining/kernel.h): publication list, combiner election by the
\* kernel mutex, combining passes, compact_list (deactivation of old records, reclamation of records of exited threads).
\* One label per access to a shared record field / list link / the mutex.  Record of thread t has id t, the list head is 0.
\* Switches:
\*   NoRepublish      -- seeded change C23: a waiter that takes over as combiner does not republish its record
\*   ExitRemoves      -- threads exit (tls_cleanup marks the record 'removed') while others still combine
\*   FreeLinkedToo    -- the defect repaired by the fix commit: compact_list's second loop frees every 'removed' record, also one that
\*                       turned 'removed' after the first loop had passed it and is still linked (is_published() test missing)
EXTENDS Naturals, Sequences, FiniteSets, TLC
CONSTANTS Threads, Ops, PassCount, CF, NoRepublish, ExitRemoves, FreeLinkedToo
NIL == 99
HD == 0
(* --algorithm FCKernel {
variables
  state = [r \in Threads |-> "inactive"], age = [r \in Threads |-> 0], req = [r \in Threads |-> "empty"],
  next = [r \in Threads \cup {HD} |-> NIL],
  allocated = {}, freed = {}, lock = NIL, count = 0,
  executed = [r \in Threads |-> 0], uaf = FALSE;

define {
  Reach == LET R[k \in 0..(Cardinality(Threads) + 1)] == IF k = 0 THEN {next[HD]} \ {NIL} ELSE R[k - 1] \cup ({ next[r] : r \in R[k - 1] } \ {NIL}) IN R[Cardinality(Threads) + 1]
}
macro Touch(r) { uaf := uaf \/ (r \in freed); }

procedure publish()
  variables pp = NIL;
{
PB1: age[self] := count; state[self] := "active";
PB2: pp := next[HD];
     if (pp = self) { goto PB9; };
PB3: next[self] := pp;
PB4: if (next[HD] = pp) { next[HD] := self; } else { pp := next[HD]; goto PB3; };
PB9: return;
}

procedure republish()
{
RP1: if (state[self] # "active") { call publish(); };
RP2: return;
}

procedure compact(cage)
  variables prev = HD, p = NIL, nx = NIL, todo = {}, unlinked = {};
{
CL1: prev := HD; p := next[HD];
CL2: while (p # NIL) {
       Touch(p);
       if (state[p] = "active" /\ age[p] + CF < cage) {
         nx := next[p];
CL3:     if (next[prev] = p) { next[prev] := nx;
CL4:       state[p] := "inactive"; p := nx; }
         else { prev := p; p := next[p]; };
       } else if (state[p] = "removed") {
         nx := next[p];
CL5:     if (next[prev] = p) { next[prev] := nx; unlinked := unlinked \cup {p}; p := nx; }
         else { goto CL1; };
       } else { prev := p; p := next[p]; };
     };
CL6: todo := allocated;
CL7: while (todo # {}) {
       with (r \in todo) {
         if (state[r] = "removed" /\ (FreeLinkedToo \/ r \notin Reach)) { allocated := allocated \ {r}; freed := freed \cup {r}; };      \* is_published( r )
         todo := todo \ {r};
       };
     };
     return;
}

procedure combining()
  variables cur = 0, pass = 0, useful = 0, empty = 0, q = NIL, done = FALSE;
{
CB1: count := count + 1; cur := count;
CB2: while (pass < PassCount) {
       q := next[HD]; done := FALSE;
CB3:   while (q # NIL) {
         Touch(q);
         if (state[q] = "active" /\ req[q] = "op") {
CB4:       age[q] := cur; executed[q] := executed[q] + 1;       \* owner.fc_apply( q )
CB5:       req[q] := "response"; done := TRUE;                  \* operation_done
         };
CB6:     q := next[q];
       };
       if (done) { useful := useful + 1; pass := pass + 1; }
       else { if (empty + 1 > useful) { pass := PassCount; } else { pass := pass + 1; }; empty := empty + 1; };
     };
CB7: if (cur % (CF + 1) = 0) { call compact(cur); };           \* ( nCurAge & m_nCompactFactor ) == 0, CF = 2^k - 1
CB8: return;
}

process (T \in Threads)
  variables n = 0, first = TRUE, combiner = FALSE;
{
T0: while (n < Ops) {
      n := n + 1;
      \* acquire_record
      if (first) { first := FALSE; allocated := allocated \cup {self}; call publish(); }
      else if (state[self] # "active") { call publish(); };
T1:   req[self] := "op";                                        \* combine( op, pRec, owner )
T2:   if (lock = NIL) { lock := self; combiner := TRUE; call republish(); }      \* try_lock succeeded
      else {
W1:     while (req[self] # "response" /\ ~combiner) {            \* wait_for_combining
          call republish();
W2:       skip;                                                  \* back-off / wait strategy
W3:       if (lock = NIL) {
            lock := self;
W4:         if (req[self] = "response") { lock := NIL; } else { combiner := TRUE; };
          };
        };
W5:     if (combiner /\ ~NoRepublish) { call republish(); };
      };
T3:   if (combiner) {
        call combining();
T4:     assert req[self] = "response";
        lock := NIL; combiner := FALSE;
      };
T5:   assert req[self] = "response" /\ executed[self] = 1;       \* the requester observes the response only after exactly one execution
      executed[self] := 0; req[self] := "empty";                 \* release_record
    };
T9: if (ExitRemoves) { state[self] := "removed"; };              \* thread exit: tls_cleanup
}
} *)
\* BEGIN TRANSLATION
CONSTANT defaultInitValue
VARIABLES pc, state, age, req, next, allocated, freed, lock, count, executed, 
          uaf, stack

(* define statement *)
Reach == LET R[k \in 0..(Cardinality(Threads) + 1)] == IF k = 0 THEN {next[HD]} \ {NIL} ELSE R[k - 1] \cup ({ next[r] : r \in R[k - 1] } \ {NIL}) IN R[Cardinality(Threads) + 1]

VARIABLES pp, cage, prev, p, nx, todo, unlinked, cur, pass, useful, empty, q, 
          done, n, first, combiner

vars == << pc, state, age, req, next, allocated, freed, lock, count, executed, 
           uaf, stack, pp, cage, prev, p, nx, todo, unlinked, cur, pass, 
           useful, empty, q, done, n, first, combiner >>

ProcSet == (Threads)

Init == (* Global variables *)
        /\ state = [r \in Threads |-> "inactive"]
        /\ age = [r \in Threads |-> 0]
        /\ req = [r \in Threads |-> "empty"]
        /\ next = [r \in Threads \cup {HD} |-> NIL]
        /\ allocated = {}
        /\ freed = {}
        /\ lock = NIL
        /\ count = 0
        /\ executed = [r \in Threads |-> 0]
        /\ uaf = FALSE
        (* Procedure publish *)
        /\ pp = [ self \in ProcSet |-> NIL]
        (* Procedure compact *)
        /\ cage = [ self \in ProcSet |-> defaultInitValue]
        /\ prev = [ self \in ProcSet |-> HD]
        /\ p = [ self \in ProcSet |-> NIL]
        /\ nx = [ self \in ProcSet |-> NIL]
        /\ todo = [ self \in ProcSet |-> {}]
        /\ unlinked = [ self \in ProcSet |-> {}]
        (* Procedure combining *)
        /\ cur = [ self \in ProcSet |-> 0]
        /\ pass = [ self \in ProcSet |-> 0]
        /\ useful = [ self \in ProcSet |-> 0]
        /\ empty = [ self \in ProcSet |-> 0]
        /\ q = [ self \in ProcSet |-> NIL]
        /\ done = [ self \in ProcSet |-> FALSE]
        (* Process T *)
        /\ n = [self \in Threads |-> 0]
        /\ first = [self \in Threads |-> TRUE]
        /\ combiner = [self \in Threads |-> FALSE]
        /\ stack = [self \in ProcSet |-> << >>]
        /\ pc = [self \in ProcSet |-> "T0"]

PB1(self) == /\ pc[self] = "PB1"
             /\ age' = [age EXCEPT ![self] = count]
             /\ state' = [state EXCEPT ![self] = "active"]
             /\ pc' = [pc EXCEPT ![self] = "PB2"]
             /\ UNCHANGED << req, next, allocated, freed, lock, count, 
                             executed, uaf, stack, pp, cage, prev, p, nx, todo, 
                             unlinked, cur, pass, useful, empty, q, done, n, 
                             first, combiner >>

PB2(self) == /\ pc[self] = "PB2"
             /\ pp' = [pp EXCEPT ![self] = next[HD]]
             /\ IF pp'[self] = self
                   THEN /\ pc' = [pc EXCEPT ![self] = "PB9"]
                   ELSE /\ pc' = [pc EXCEPT ![self] = "PB3"]
             /\ UNCHANGED << state, age, req, next, allocated, freed, lock, 
                             count, executed, uaf, stack, cage, prev, p, nx, 
                             todo, unlinked, cur, pass, useful, empty, q, done, 
                             n, first, combiner >>

PB3(self) == /\ pc[self] = "PB3"
             /\ next' = [next EXCEPT ![self] = pp[self]]
             /\ pc' = [pc EXCEPT ![self] = "PB4"]
             /\ UNCHANGED << state, age, req, allocated, freed, lock, count, 
                             executed, uaf, stack, pp, cage, prev, p, nx, todo, 
                             unlinked, cur, pass, useful, empty, q, done, n, 
                             first, combiner >>

PB4(self) == /\ pc[self] = "PB4"
             /\ IF next[HD] = pp[self]
                   THEN /\ next' = [next EXCEPT ![HD] = self]
                        /\ pc' = [pc EXCEPT ![self] = "PB9"]
                        /\ pp' = pp
                   ELSE /\ pp' = [pp EXCEPT ![self] = next[HD]]
                        /\ pc' = [pc EXCEPT ![self] = "PB3"]
                        /\ next' = next
             /\ UNCHANGED << state, age, req, allocated, freed, lock, count, 
                             executed, uaf, stack, cage, prev, p, nx, todo, 
                             unlinked, cur, pass, useful, empty, q, done, n, 
                             first, combiner >>

PB9(self) == /\ pc[self] = "PB9"
             /\ pc' = [pc EXCEPT ![self] = Head(stack[self]).pc]
             /\ pp' = [pp EXCEPT ![self] = Head(stack[self]).pp]
             /\ stack' = [stack EXCEPT ![self] = Tail(stack[self])]
             /\ UNCHANGED << state, age, req, next, allocated, freed, lock, 
                             count, executed, uaf, cage, prev, p, nx, todo, 
                             unlinked, cur, pass, useful, empty, q, done, n, 
                             first, combiner >>

publish(self) == PB1(self) \/ PB2(self) \/ PB3(self) \/ PB4(self)
                    \/ PB9(self)

RP1(self) == /\ pc[self] = "RP1"
             /\ IF state[self] # "active"
                   THEN /\ stack' = [stack EXCEPT ![self] = << [ procedure |->  "publish",
                                                                 pc        |->  "RP2",
                                                                 pp        |->  pp[self] ] >>
                                                             \o stack[self]]
                        /\ pp' = [pp EXCEPT ![self] = NIL]
                        /\ pc' = [pc EXCEPT ![self] = "PB1"]
                   ELSE /\ pc' = [pc EXCEPT ![self] = "RP2"]
                        /\ UNCHANGED << stack, pp >>
             /\ UNCHANGED << state, age, req, next, allocated, freed, lock, 
                             count, executed, uaf, cage, prev, p, nx, todo, 
                             unlinked, cur, pass, useful, empty, q, done, n, 
                             first, combiner >>

RP2(self) == /\ pc[self] = "RP2"
             /\ pc' = [pc EXCEPT ![self] = Head(stack[self]).pc]
             /\ stack' = [stack EXCEPT ![self] = Tail(stack[self])]
             /\ UNCHANGED << state, age, req, next, allocated, freed, lock, 
                             count, executed, uaf, pp, cage, prev, p, nx, todo, 
                             unlinked, cur, pass, useful, empty, q, done, n, 
                             first, combiner >>

republish(self) == RP1(self) \/ RP2(self)

CL1(self) == /\ pc[self] = "CL1"
             /\ prev' = [prev EXCEPT ![self] = HD]
             /\ p' = [p EXCEPT ![self] = next[HD]]
             /\ pc' = [pc EXCEPT ![self] = "CL2"]
             /\ UNCHANGED << state, age, req, next, allocated, freed, lock, 
                             count, executed, uaf, stack, pp, cage, nx, todo, 
                             unlinked, cur, pass, useful, empty, q, done, n, 
                             first, combiner >>

CL2(self) == /\ pc[self] = "CL2"
             /\ IF p[self] # NIL
                   THEN /\ uaf' = (uaf \/ (p[self] \in freed))
                        /\ IF state[p[self]] = "active" /\ age[p[self]] + CF < cage[self]
                              THEN /\ nx' = [nx EXCEPT ![self] = next[p[self]]]
                                   /\ pc' = [pc EXCEPT ![self] = "CL3"]
                                   /\ UNCHANGED << prev, p >>
                              ELSE /\ IF state[p[self]] = "removed"
                                         THEN /\ nx' = [nx EXCEPT ![self] = next[p[self]]]
                                              /\ pc' = [pc EXCEPT ![self] = "CL5"]
                                              /\ UNCHANGED << prev, p >>
                                         ELSE /\ prev' = [prev EXCEPT ![self] = p[self]]
                                              /\ p' = [p EXCEPT ![self] = next[p[self]]]
                                              /\ pc' = [pc EXCEPT ![self] = "CL2"]
                                              /\ nx' = nx
                   ELSE /\ pc' = [pc EXCEPT ![self] = "CL6"]
                        /\ UNCHANGED << uaf, prev, p, nx >>
             /\ UNCHANGED << state, age, req, next, allocated, freed, lock, 
                             count, executed, stack, pp, cage, todo, unlinked, 
                             cur, pass, useful, empty, q, done, n, first, 
                             combiner >>

CL3(self) == /\ pc[self] = "CL3"
             /\ IF next[prev[self]] = p[self]
                   THEN /\ next' = [next EXCEPT ![prev[self]] = nx[self]]
                        /\ pc' = [pc EXCEPT ![self] = "CL4"]
                        /\ UNCHANGED << prev, p >>
                   ELSE /\ prev' = [prev EXCEPT ![self] = p[self]]
                        /\ p' = [p EXCEPT ![self] = next[p[self]]]
                        /\ pc' = [pc EXCEPT ![self] = "CL2"]
                        /\ next' = next
             /\ UNCHANGED << state, age, req, allocated, freed, lock, count, 
                             executed, uaf, stack, pp, cage, nx, todo, 
                             unlinked, cur, pass, useful, empty, q, done, n, 
                             first, combiner >>

CL4(self) == /\ pc[self] = "CL4"
             /\ state' = [state EXCEPT ![p[self]] = "inactive"]
             /\ p' = [p EXCEPT ![self] = nx[self]]
             /\ pc' = [pc EXCEPT ![self] = "CL2"]
             /\ UNCHANGED << age, req, next, allocated, freed, lock, count, 
                             executed, uaf, stack, pp, cage, prev, nx, todo, 
                             unlinked, cur, pass, useful, empty, q, done, n, 
                             first, combiner >>

CL5(self) == /\ pc[self] = "CL5"
             /\ IF next[prev[self]] = p[self]
                   THEN /\ next' = [next EXCEPT ![prev[self]] = nx[self]]
                        /\ unlinked' = [unlinked EXCEPT ![self] = unlinked[self] \cup {p[self]}]
                        /\ p' = [p EXCEPT ![self] = nx[self]]
                        /\ pc' = [pc EXCEPT ![self] = "CL2"]
                   ELSE /\ pc' = [pc EXCEPT ![self] = "CL1"]
                        /\ UNCHANGED << next, p, unlinked >>
             /\ UNCHANGED << state, age, req, allocated, freed, lock, count, 
                             executed, uaf, stack, pp, cage, prev, nx, todo, 
                             cur, pass, useful, empty, q, done, n, first, 
                             combiner >>

CL6(self) == /\ pc[self] = "CL6"
             /\ todo' = [todo EXCEPT ![self] = allocated]
             /\ pc' = [pc EXCEPT ![self] = "CL7"]
             /\ UNCHANGED << state, age, req, next, allocated, freed, lock, 
                             count, executed, uaf, stack, pp, cage, prev, p, 
                             nx, unlinked, cur, pass, useful, empty, q, done, 
                             n, first, combiner >>

CL7(self) == /\ pc[self] = "CL7"
             /\ IF todo[self] # {}
                   THEN /\ \E r \in todo[self]:
                             /\ IF state[r] = "removed" /\ (FreeLinkedToo \/ r \notin Reach)
                                   THEN /\ allocated' = allocated \ {r}
                                        /\ freed' = (freed \cup {r})
                                   ELSE /\ TRUE
                                        /\ UNCHANGED << allocated, freed >>
                             /\ todo' = [todo EXCEPT ![self] = todo[self] \ {r}]
                        /\ pc' = [pc EXCEPT ![self] = "CL7"]
                        /\ UNCHANGED << stack, cage, prev, p, nx, unlinked >>
                   ELSE /\ pc' = [pc EXCEPT ![self] = Head(stack[self]).pc]
                        /\ prev' = [prev EXCEPT ![self] = Head(stack[self]).prev]
                        /\ p' = [p EXCEPT ![self] = Head(stack[self]).p]
                        /\ nx' = [nx EXCEPT ![self] = Head(stack[self]).nx]
                        /\ todo' = [todo EXCEPT ![self] = Head(stack[self]).todo]
                        /\ unlinked' = [unlinked EXCEPT ![self] = Head(stack[self]).unlinked]
                        /\ cage' = [cage EXCEPT ![self] = Head(stack[self]).cage]
                        /\ stack' = [stack EXCEPT ![self] = Tail(stack[self])]
                        /\ UNCHANGED << allocated, freed >>
             /\ UNCHANGED << state, age, req, next, lock, count, executed, uaf, 
                             pp, cur, pass, useful, empty, q, done, n, first, 
                             combiner >>

compact(self) == CL1(self) \/ CL2(self) \/ CL3(self) \/ CL4(self)
                    \/ CL5(self) \/ CL6(self) \/ CL7(self)

CB1(self) == /\ pc[self] = "CB1"
             /\ count' = count + 1
             /\ cur' = [cur EXCEPT ![self] = count']
             /\ pc' = [pc EXCEPT ![self] = "CB2"]
             /\ UNCHANGED << state, age, req, next, allocated, freed, lock, 
                             executed, uaf, stack, pp, cage, prev, p, nx, todo, 
                             unlinked, pass, useful, empty, q, done, n, first, 
                             combiner >>

CB2(self) == /\ pc[self] = "CB2"
             /\ IF pass[self] < PassCount
                   THEN /\ q' = [q EXCEPT ![self] = next[HD]]
                        /\ done' = [done EXCEPT ![self] = FALSE]
                        /\ pc' = [pc EXCEPT ![self] = "CB3"]
                   ELSE /\ pc' = [pc EXCEPT ![self] = "CB7"]
                        /\ UNCHANGED << q, done >>
             /\ UNCHANGED << state, age, req, next, allocated, freed, lock, 
                             count, executed, uaf, stack, pp, cage, prev, p, 
                             nx, todo, unlinked, cur, pass, useful, empty, n, 
                             first, combiner >>

CB3(self) == /\ pc[self] = "CB3"
             /\ IF q[self] # NIL
                   THEN /\ uaf' = (uaf \/ (q[self] \in freed))
                        /\ IF state[q[self]] = "active" /\ req[q[self]] = "op"
                              THEN /\ pc' = [pc EXCEPT ![self] = "CB4"]
                              ELSE /\ pc' = [pc EXCEPT ![self] = "CB6"]
                        /\ UNCHANGED << pass, useful, empty >>
                   ELSE /\ IF done[self]
                              THEN /\ useful' = [useful EXCEPT ![self] = useful[self] + 1]
                                   /\ pass' = [pass EXCEPT ![self] = pass[self] + 1]
                                   /\ empty' = empty
                              ELSE /\ IF empty[self] + 1 > useful[self]
                                         THEN /\ pass' = [pass EXCEPT ![self] = PassCount]
                                         ELSE /\ pass' = [pass EXCEPT ![self] = pass[self] + 1]
                                   /\ empty' = [empty EXCEPT ![self] = empty[self] + 1]
                                   /\ UNCHANGED useful
                        /\ pc' = [pc EXCEPT ![self] = "CB2"]
                        /\ uaf' = uaf
             /\ UNCHANGED << state, age, req, next, allocated, freed, lock, 
                             count, executed, stack, pp, cage, prev, p, nx, 
                             todo, unlinked, cur, q, done, n, first, combiner >>

CB6(self) == /\ pc[self] = "CB6"
             /\ q' = [q EXCEPT ![self] = next[q[self]]]
             /\ pc' = [pc EXCEPT ![self] = "CB3"]
             /\ UNCHANGED << state, age, req, next, allocated, freed, lock, 
                             count, executed, uaf, stack, pp, cage, prev, p, 
                             nx, todo, unlinked, cur, pass, useful, empty, 
                             done, n, first, combiner >>

CB4(self) == /\ pc[self] = "CB4"
             /\ age' = [age EXCEPT ![q[self]] = cur[self]]
             /\ executed' = [executed EXCEPT ![q[self]] = executed[q[self]] + 1]
             /\ pc' = [pc EXCEPT ![self] = "CB5"]
             /\ UNCHANGED << state, req, next, allocated, freed, lock, count, 
                             uaf, stack, pp, cage, prev, p, nx, todo, unlinked, 
                             cur, pass, useful, empty, q, done, n, first, 
                             combiner >>

CB5(self) == /\ pc[self] = "CB5"
             /\ req' = [req EXCEPT ![q[self]] = "response"]
             /\ done' = [done EXCEPT ![self] = TRUE]
             /\ pc' = [pc EXCEPT ![self] = "CB6"]
             /\ UNCHANGED << state, age, next, allocated, freed, lock, count, 
                             executed, uaf, stack, pp, cage, prev, p, nx, todo, 
                             unlinked, cur, pass, useful, empty, q, n, first, 
                             combiner >>

CB7(self) == /\ pc[self] = "CB7"
             /\ IF cur[self] % (CF + 1) = 0
                   THEN /\ /\ cage' = [cage EXCEPT ![self] = cur[self]]
                           /\ stack' = [stack EXCEPT ![self] = << [ procedure |->  "compact",
                                                                    pc        |->  "CB8",
                                                                    prev      |->  prev[self],
                                                                    p         |->  p[self],
                                                                    nx        |->  nx[self],
                                                                    todo      |->  todo[self],
                                                                    unlinked  |->  unlinked[self],
                                                                    cage      |->  cage[self] ] >>
                                                                \o stack[self]]
                        /\ prev' = [prev EXCEPT ![self] = HD]
                        /\ p' = [p EXCEPT ![self] = NIL]
                        /\ nx' = [nx EXCEPT ![self] = NIL]
                        /\ todo' = [todo EXCEPT ![self] = {}]
                        /\ unlinked' = [unlinked EXCEPT ![self] = {}]
                        /\ pc' = [pc EXCEPT ![self] = "CL1"]
                   ELSE /\ pc' = [pc EXCEPT ![self] = "CB8"]
                        /\ UNCHANGED << stack, cage, prev, p, nx, todo, 
                                        unlinked >>
             /\ UNCHANGED << state, age, req, next, allocated, freed, lock, 
                             count, executed, uaf, pp, cur, pass, useful, 
                             empty, q, done, n, first, combiner >>

CB8(self) == /\ pc[self] = "CB8"
             /\ pc' = [pc EXCEPT ![self] = Head(stack[self]).pc]
             /\ cur' = [cur EXCEPT ![self] = Head(stack[self]).cur]
             /\ pass' = [pass EXCEPT ![self] = Head(stack[self]).pass]
             /\ useful' = [useful EXCEPT ![self] = Head(stack[self]).useful]
             /\ empty' = [empty EXCEPT ![self] = Head(stack[self]).empty]
             /\ q' = [q EXCEPT ![self] = Head(stack[self]).q]
             /\ done' = [done EXCEPT ![self] = Head(stack[self]).done]
             /\ stack' = [stack EXCEPT ![self] = Tail(stack[self])]
             /\ UNCHANGED << state, age, req, next, allocated, freed, lock, 
                             count, executed, uaf, pp, cage, prev, p, nx, todo, 
                             unlinked, n, first, combiner >>

combining(self) == CB1(self) \/ CB2(self) \/ CB3(self) \/ CB6(self)
                      \/ CB4(self) \/ CB5(self) \/ CB7(self) \/ CB8(self)

T0(self) == /\ pc[self] = "T0"
            /\ IF n[self] < Ops
                  THEN /\ n' = [n EXCEPT ![self] = n[self] + 1]
                       /\ IF first[self]
                             THEN /\ first' = [first EXCEPT ![self] = FALSE]
                                  /\ allocated' = (allocated \cup {self})
                                  /\ stack' = [stack EXCEPT ![self] = << [ procedure |->  "publish",
                                                                           pc        |->  "T1",
                                                                           pp        |->  pp[self] ] >>
                                                                       \o stack[self]]
                                  /\ pp' = [pp EXCEPT ![self] = NIL]
                                  /\ pc' = [pc EXCEPT ![self] = "PB1"]
                             ELSE /\ IF state[self] # "active"
                                        THEN /\ stack' = [stack EXCEPT ![self] = << [ procedure |->  "publish",
                                                                                      pc        |->  "T1",
                                                                                      pp        |->  pp[self] ] >>
                                                                                  \o stack[self]]
                                             /\ pp' = [pp EXCEPT ![self] = NIL]
                                             /\ pc' = [pc EXCEPT ![self] = "PB1"]
                                        ELSE /\ pc' = [pc EXCEPT ![self] = "T1"]
                                             /\ UNCHANGED << stack, pp >>
                                  /\ UNCHANGED << allocated, first >>
                  ELSE /\ pc' = [pc EXCEPT ![self] = "T9"]
                       /\ UNCHANGED << allocated, stack, pp, n, first >>
            /\ UNCHANGED << state, age, req, next, freed, lock, count, 
                            executed, uaf, cage, prev, p, nx, todo, unlinked, 
                            cur, pass, useful, empty, q, done, combiner >>

T1(self) == /\ pc[self] = "T1"
            /\ req' = [req EXCEPT ![self] = "op"]
            /\ pc' = [pc EXCEPT ![self] = "T2"]
            /\ UNCHANGED << state, age, next, allocated, freed, lock, count, 
                            executed, uaf, stack, pp, cage, prev, p, nx, todo, 
                            unlinked, cur, pass, useful, empty, q, done, n, 
                            first, combiner >>

T2(self) == /\ pc[self] = "T2"
            /\ IF lock = NIL
                  THEN /\ lock' = self
                       /\ combiner' = [combiner EXCEPT ![self] = TRUE]
                       /\ stack' = [stack EXCEPT ![self] = << [ procedure |->  "republish",
                                                                pc        |->  "T3" ] >>
                                                            \o stack[self]]
                       /\ pc' = [pc EXCEPT ![self] = "RP1"]
                  ELSE /\ pc' = [pc EXCEPT ![self] = "W1"]
                       /\ UNCHANGED << lock, stack, combiner >>
            /\ UNCHANGED << state, age, req, next, allocated, freed, count, 
                            executed, uaf, pp, cage, prev, p, nx, todo, 
                            unlinked, cur, pass, useful, empty, q, done, n, 
                            first >>

W1(self) == /\ pc[self] = "W1"
            /\ IF req[self] # "response" /\ ~combiner[self]
                  THEN /\ stack' = [stack EXCEPT ![self] = << [ procedure |->  "republish",
                                                                pc        |->  "W2" ] >>
                                                            \o stack[self]]
                       /\ pc' = [pc EXCEPT ![self] = "RP1"]
                  ELSE /\ pc' = [pc EXCEPT ![self] = "W5"]
                       /\ stack' = stack
            /\ UNCHANGED << state, age, req, next, allocated, freed, lock, 
                            count, executed, uaf, pp, cage, prev, p, nx, todo, 
                            unlinked, cur, pass, useful, empty, q, done, n, 
                            first, combiner >>

W2(self) == /\ pc[self] = "W2"
            /\ TRUE
            /\ pc' = [pc EXCEPT ![self] = "W3"]
            /\ UNCHANGED << state, age, req, next, allocated, freed, lock, 
                            count, executed, uaf, stack, pp, cage, prev, p, nx, 
                            todo, unlinked, cur, pass, useful, empty, q, done, 
                            n, first, combiner >>

W3(self) == /\ pc[self] = "W3"
            /\ IF lock = NIL
                  THEN /\ lock' = self
                       /\ pc' = [pc EXCEPT ![self] = "W4"]
                  ELSE /\ pc' = [pc EXCEPT ![self] = "W1"]
                       /\ lock' = lock
            /\ UNCHANGED << state, age, req, next, allocated, freed, count, 
                            executed, uaf, stack, pp, cage, prev, p, nx, todo, 
                            unlinked, cur, pass, useful, empty, q, done, n, 
                            first, combiner >>

W4(self) == /\ pc[self] = "W4"
            /\ IF req[self] = "response"
                  THEN /\ lock' = NIL
                       /\ UNCHANGED combiner
                  ELSE /\ combiner' = [combiner EXCEPT ![self] = TRUE]
                       /\ lock' = lock
            /\ pc' = [pc EXCEPT ![self] = "W1"]
            /\ UNCHANGED << state, age, req, next, allocated, freed, count, 
                            executed, uaf, stack, pp, cage, prev, p, nx, todo, 
                            unlinked, cur, pass, useful, empty, q, done, n, 
                            first >>

W5(self) == /\ pc[self] = "W5"
            /\ IF combiner[self] /\ ~NoRepublish
                  THEN /\ stack' = [stack EXCEPT ![self] = << [ procedure |->  "republish",
                                                                pc        |->  "T3" ] >>
                                                            \o stack[self]]
                       /\ pc' = [pc EXCEPT ![self] = "RP1"]
                  ELSE /\ pc' = [pc EXCEPT ![self] = "T3"]
                       /\ stack' = stack
            /\ UNCHANGED << state, age, req, next, allocated, freed, lock, 
                            count, executed, uaf, pp, cage, prev, p, nx, todo, 
                            unlinked, cur, pass, useful, empty, q, done, n, 
                            first, combiner >>

T3(self) == /\ pc[self] = "T3"
            /\ IF combiner[self]
                  THEN /\ stack' = [stack EXCEPT ![self] = << [ procedure |->  "combining",
                                                                pc        |->  "T4",
                                                                cur       |->  cur[self],
                                                                pass      |->  pass[self],
                                                                useful    |->  useful[self],
                                                                empty     |->  empty[self],
                                                                q         |->  q[self],
                                                                done      |->  done[self] ] >>
                                                            \o stack[self]]
                       /\ cur' = [cur EXCEPT ![self] = 0]
                       /\ pass' = [pass EXCEPT ![self] = 0]
                       /\ useful' = [useful EXCEPT ![self] = 0]
                       /\ empty' = [empty EXCEPT ![self] = 0]
                       /\ q' = [q EXCEPT ![self] = NIL]
                       /\ done' = [done EXCEPT ![self] = FALSE]
                       /\ pc' = [pc EXCEPT ![self] = "CB1"]
                  ELSE /\ pc' = [pc EXCEPT ![self] = "T5"]
                       /\ UNCHANGED << stack, cur, pass, useful, empty, q, 
                                       done >>
            /\ UNCHANGED << state, age, req, next, allocated, freed, lock, 
                            count, executed, uaf, pp, cage, prev, p, nx, todo, 
                            unlinked, n, first, combiner >>

T4(self) == /\ pc[self] = "T4"
            /\ Assert(req[self] = "response", 
                      "Failure of assertion at line 114, column 9.")
            /\ lock' = NIL
            /\ combiner' = [combiner EXCEPT ![self] = FALSE]
            /\ pc' = [pc EXCEPT ![self] = "T5"]
            /\ UNCHANGED << state, age, req, next, allocated, freed, count, 
                            executed, uaf, stack, pp, cage, prev, p, nx, todo, 
                            unlinked, cur, pass, useful, empty, q, done, n, 
                            first >>

T5(self) == /\ pc[self] = "T5"
            /\ Assert(req[self] = "response" /\ executed[self] = 1, 
                      "Failure of assertion at line 117, column 7.")
            /\ executed' = [executed EXCEPT ![self] = 0]
            /\ req' = [req EXCEPT ![self] = "empty"]
            /\ pc' = [pc EXCEPT ![self] = "T0"]
            /\ UNCHANGED << state, age, next, allocated, freed, lock, count, 
                            uaf, stack, pp, cage, prev, p, nx, todo, unlinked, 
                            cur, pass, useful, empty, q, done, n, first, 
                            combiner >>

T9(self) == /\ pc[self] = "T9"
            /\ IF ExitRemoves
                  THEN /\ state' = [state EXCEPT ![self] = "removed"]
                  ELSE /\ TRUE
                       /\ state' = state
            /\ pc' = [pc EXCEPT ![self] = "Done"]
            /\ UNCHANGED << age, req, next, allocated, freed, lock, count, 
                            executed, uaf, stack, pp, cage, prev, p, nx, todo, 
                            unlinked, cur, pass, useful, empty, q, done, n, 
                            first, combiner >>

T(self) == T0(self) \/ T1(self) \/ T2(self) \/ W1(self) \/ W2(self)
              \/ W3(self) \/ W4(self) \/ W5(self) \/ T3(self) \/ T4(self)
              \/ T5(self) \/ T9(self)

(* Allow infinite stuttering to prevent deadlock on termination. *)
Terminating == /\ \A self \in ProcSet: pc[self] = "Done"
               /\ UNCHANGED vars

Next == (\E self \in ProcSet:  \/ publish(self) \/ republish(self)
                               \/ compact(self) \/ combining(self))
           \/ (\E self \in Threads: T(self))
           \/ Terminating

Spec == Init /\ [][Next]_vars

Termination == <>(\A self \in ProcSet: pc[self] = "Done")

\* END TRANSLATION
NoUseAfterFree == ~uaf
\* a freed record is never reachable from the publication list
NoFreedLinked == Reach \cap freed = {}
AtMostOnce == \A t \in Threads : executed[t] <= 1
MutexOK == lock \in Threads \cup {NIL}
====
