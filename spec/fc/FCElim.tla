---- MODULE FCElim ----
\* Tier B: elimination inside the flat-combining containers (cds/container/fcqueue.h, fcstack.h, fcdeque.h: fc_process / collide).  Every thread
\* owns one publication record that is re-used for all its operations; a pop returns "!pRec->bEmpty" and the value stored in the record.
\* The combiner (one atomic step per batch: it holds the kernel mutex) first pairs a pending push with a pending pop where the container's
\* order allows it and hands the value over directly (collide), then applies the remaining requests to the container.
\*   Kind = "queue": a pair is eliminated only while the queue is empty;  Kind = "stack": always
\*   WrongFlag -- seeded changes C06b / C09b: collide clears the bEmpty flag of the PUSH record;  NoFlag -- seeded change C10b: collide leaves bEmpty alone
EXTENDS Naturals, Sequences, FiniteSets, TLC
CONSTANTS Procs, Prog, Kind, WrongFlag, NoFlag
(* --algorithm FCElim {
variables
  cont = <<>>,                                           \* the container (queue: head first; stack: top first)
  rec = [p \in Procs |-> [op |-> "none", val |-> 0, bEmpty |-> FALSE, done |-> FALSE]],
  ok = TRUE;

define {
  Pending(o) == { p \in Procs : rec[p].op = o /\ ~rec[p].done }
}

process (Combiner = 0)
{
CB: while (TRUE) {
      await Pending("push") \cup Pending("pop") # {};
      if (Pending("push") # {} /\ Pending("pop") # {} /\ (Kind = "stack" \/ cont = <<>>)) {
        \* collide( recPush, recPop )
        with (a \in Pending("push"), b \in Pending("pop")) {
          rec := [rec EXCEPT ![b].val = rec[a].val, ![b].done = TRUE, ![a].done = TRUE,
                             ![b].bEmpty = IF WrongFlag \/ NoFlag THEN rec[b].bEmpty ELSE FALSE,
                             ![a].bEmpty = IF WrongFlag THEN FALSE ELSE rec[a].bEmpty];
        };
      } else {
        with (p \in Pending("push") \cup Pending("pop")) {
          if (rec[p].op = "push") {
            cont := IF Kind = "stack" THEN <<rec[p].val>> \o cont ELSE Append(cont, rec[p].val);
            rec[p].done := TRUE;
          } else if (cont = <<>>) { rec[p] := [rec[p] EXCEPT !.bEmpty = TRUE, !.done = TRUE]; }
          else { rec[p] := [rec[p] EXCEPT !.bEmpty = FALSE, !.val = Head(cont), !.done = TRUE]; cont := Tail(cont); };
        };
      };
    };
}

process (P \in Procs)
  variables i = 1, pushed = {}, got = <<>>;
{
L0: while (i <= Len(Prog[self])) {
      if (Prog[self][i] > 0) { rec[self] := [rec[self] EXCEPT !.op = "push", !.val = Prog[self][i], !.done = FALSE]; }
      else { rec[self] := [rec[self] EXCEPT !.op = "pop", !.done = FALSE]; };
L1:   await rec[self].done;
      \* a pop that consumed a value must report it: the value handed to this record is lost if the pop says "empty"
      if (rec[self].op = "pop") { got := Append(got, IF rec[self].bEmpty THEN 0 ELSE rec[self].val); };
      rec[self].op := "none";
      i := i + 1;
    };
}
} *)
\* BEGIN TRANSLATION
VARIABLES pc, cont, rec, ok

(* define statement *)
Pending(o) == { p \in Procs : rec[p].op = o /\ ~rec[p].done }

VARIABLES i, pushed, got

vars == << pc, cont, rec, ok, i, pushed, got >>

ProcSet == {0} \cup (Procs)

Init == (* Global variables *)
        /\ cont = <<>>
        /\ rec = [p \in Procs |-> [op |-> "none", val |-> 0, bEmpty |-> FALSE, done |-> FALSE]]
        /\ ok = TRUE
        (* Process P *)
        /\ i = [self \in Procs |-> 1]
        /\ pushed = [self \in Procs |-> {}]
        /\ got = [self \in Procs |-> <<>>]
        /\ pc = [self \in ProcSet |-> CASE self = 0 -> "CB"
                                        [] self \in Procs -> "L0"]

CB == /\ pc[0] = "CB"
      /\ Pending("push") \cup Pending("pop") # {}
      /\ IF Pending("push") # {} /\ Pending("pop") # {} /\ (Kind = "stack" \/ cont = <<>>)
            THEN /\ \E a \in Pending("push"):
                      \E b \in Pending("pop"):
                        rec' = [rec EXCEPT ![b].val = rec[a].val, ![b].done = TRUE, ![a].done = TRUE,
                                           ![b].bEmpty = IF WrongFlag \/ NoFlag THEN rec[b].bEmpty ELSE FALSE,
                                           ![a].bEmpty = IF WrongFlag THEN FALSE ELSE rec[a].bEmpty]
                 /\ cont' = cont
            ELSE /\ \E p \in Pending("push") \cup Pending("pop"):
                      IF rec[p].op = "push"
                         THEN /\ cont' = (IF Kind = "stack" THEN <<rec[p].val>> \o cont ELSE Append(cont, rec[p].val))
                              /\ rec' = [rec EXCEPT ![p].done = TRUE]
                         ELSE /\ IF cont = <<>>
                                    THEN /\ rec' = [rec EXCEPT ![p] = [rec[p] EXCEPT !.bEmpty = TRUE, !.done = TRUE]]
                                         /\ cont' = cont
                                    ELSE /\ rec' = [rec EXCEPT ![p] = [rec[p] EXCEPT !.bEmpty = FALSE, !.val = Head(cont), !.done = TRUE]]
                                         /\ cont' = Tail(cont)
      /\ pc' = [pc EXCEPT ![0] = "CB"]
      /\ UNCHANGED << ok, i, pushed, got >>

Combiner == CB

L0(self) == /\ pc[self] = "L0"
            /\ IF i[self] <= Len(Prog[self])
                  THEN /\ IF Prog[self][i[self]] > 0
                             THEN /\ rec' = [rec EXCEPT ![self] = [rec[self] EXCEPT !.op = "push", !.val = Prog[self][i[self]], !.done = FALSE]]
                             ELSE /\ rec' = [rec EXCEPT ![self] = [rec[self] EXCEPT !.op = "pop", !.done = FALSE]]
                       /\ pc' = [pc EXCEPT ![self] = "L1"]
                  ELSE /\ pc' = [pc EXCEPT ![self] = "Done"]
                       /\ rec' = rec
            /\ UNCHANGED << cont, ok, i, pushed, got >>

L1(self) == /\ pc[self] = "L1"
            /\ rec[self].done
            /\ IF rec[self].op = "pop"
                  THEN /\ got' = [got EXCEPT ![self] = Append(got[self], IF rec[self].bEmpty THEN 0 ELSE rec[self].val)]
                  ELSE /\ TRUE
                       /\ got' = got
            /\ rec' = [rec EXCEPT ![self].op = "none"]
            /\ i' = [i EXCEPT ![self] = i[self] + 1]
            /\ pc' = [pc EXCEPT ![self] = "L0"]
            /\ UNCHANGED << cont, ok, pushed >>

P(self) == L0(self) \/ L1(self)

Next == Combiner
           \/ (\E self \in Procs: P(self))

Spec == Init /\ [][Next]_vars

\* END TRANSLATION
AllDone == \A p \in Procs : pc[p] = "Done"
Pushed == { Prog[p][j] : p \in Procs, j \in 1..3 } \ {0}
PushedOf(p) == { Prog[p][j] : j \in { jj \in 1..Len(Prog[p]) : Prog[p][jj] > 0 } }
AllPushed == UNION { PushedOf(p) : p \in Procs }
Popped == UNION { { got[p][j] : j \in 1..Len(got[p]) } : p \in Procs } \ {0}
\* at the end every pushed value is either still in the container or was reported by exactly one pop
Conservation == AllDone => (Popped \cup { cont[j] : j \in 1..Len(cont) } = AllPushed)
====
