SPECIFICATION Spec
CONSTANTS
  Procs = {1, 2}
  Prog <- GA
  Kind = "stack"
  WrongFlag = FALSE
  NoFlag = TRUE
INVARIANT Conservation
CHECK_DEADLOCK FALSE
