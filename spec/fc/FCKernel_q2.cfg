SPECIFICATION Spec
CONSTANTS
  Threads = {1, 2}
  Ops = 3
  PassCount = 1
  CF = 1
  NoRepublish = FALSE
  ExitRemoves = FALSE
  FreeLinkedToo = FALSE
  defaultInitValue = 0
INVARIANTS NoUseAfterFree NoFreedLinked AtMostOnce MutexOK
CHECK_DEADLOCK FALSE
