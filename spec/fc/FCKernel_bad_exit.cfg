SPECIFICATION Spec
CONSTANTS
  Threads = {1, 2, 3}
  Ops = 1
  PassCount = 1
  CF = 1
  NoRepublish = FALSE
  ExitRemoves = TRUE
  FreeLinkedToo = TRUE
  defaultInitValue = 0
INVARIANTS NoUseAfterFree NoFreedLinked AtMostOnce MutexOK
CHECK_DEADLOCK FALSE
