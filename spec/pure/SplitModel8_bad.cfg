SPECIFICATION Spec
CONSTANTS
  W = 8
  Sources <- S8
  FixByte = FALSE
INVARIANT AllCutsCorrect
CHECK_DEADLOCK FALSE
