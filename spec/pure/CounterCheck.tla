------------------------------- MODULE CounterCheck -------------------------------
(* C26: validation of recorded inc/dec walks of the real cds::bitop::bit_reverse_counter<> against BitRevCounter.      *)
(* Each record carries the value returned and the full state after the call; the validator's state is the state the     *)
(* real counter reported after the previous record.                                                                      *)
(* "prefix" records (n, slots of counts 1..n from a fresh counter) evaluate the literal statement of C26; when the       *)
(* recorded slots are exactly Hunt's sequence and still not a permutation of 1..n, the mismatch is between the           *)
(* statement and the algorithm's design and is printed as <<"LITERAL", n>> instead of being rejected.                     *)
EXTENDS BitRevCounterDefs, PureCore
H24(n) == (CHOOSE i \in 0..23 : n \div Pow2(i) = 1)
Slot24(n) == IF n = 0 THEN 0 ELSE Pow2(H24(n)) + Rev(H24(n), n - Pow2(H24(n)))
C0 == [cnt |-> 0, rev |-> 0, hb |-> -1]
AsState(r) == [cnt |-> r.cnt, rev |-> r.rev, hb |-> r.hb]
COk(c, r) ==
  CASE r.f = "reset" -> TRUE
    [] r.f = "inc" -> AsState(r) = IncOf(c) /\ r.r = Slot24(c.cnt + 1) /\ r.rev = r.r
    [] r.f = "dec" -> c.cnt > 0 /\ AsState(r) = DecOf(c) /\ r.r = c.rev /\ r.r = Slot24(c.cnt) /\ r.rev = Slot24(c.cnt - 1)
    [] r.f = "jump" -> r.cnt >= c.cnt /\ r.cnt >= 1 /\ r.rev = Slot24(r.cnt) /\ r.hb = H24(r.cnt)   \* state after unrecorded increments, closed form
    [] r.f = "prefix" -> LET S == { r.slots[j] : j \in 1..Len(r.slots) } IN
                         IF S = 1..r.n THEN TRUE
                         ELSE IF Len(r.slots) = r.n /\ \A j \in 1..r.n : r.slots[j] = Slot24(j) THEN PrintT(<<"LITERAL", r.n>>)
                         ELSE FALSE
    [] OTHER -> FALSE
CSt(c, r) == IF r.f = "reset" \/ r.f = "prefix" THEN C0 ELSE AsState(r)
=============================================================================
