------------------------------- MODULE SplitModel -------------------------------
(* C25 (splitters): the three cut algorithms of cds/algo/split_bitstring.h transcribed statement by statement          *)
(* (little-endian branch) as a state machine  (position) --cut(n) / safe_cut(n)--> (position + n).                       *)
(* TLC explores ALL cut-width sequences for every source in Sources and checks every transition against the reference:  *)
(* the value returned is exactly the bit field [pos, pos+n) of the source, safe_cut returns min(n, rest) bits, never      *)
(* reads past the end and advances by what it returned; concatenating the fields therefore reconstructs the source.       *)
EXTENDS BitRef, Bitwise
CONSTANTS W,          \* source width in bits (8 or 16)
          Sources,    \* set of source values
          FixByte     \* TRUE: byte_splitter::safe_cut as fixed; FALSE: as originally coded (non-vacuity variant)
NB == W \div 8
Byte(src, k) == (src \div Pow2(8 * k)) % 256          \* k-th byte in memory order (little endian)
Field(src, off, n) == (src \div Pow2(off)) % Pow2(n)   \* reference
MinN(a, b) == IF a < b THEN a ELSE b
\* split_bitstring::cut  -- state (cur, offset); returns <<result, cur', offset'>>
RECURSIVE BsLoop(_, _, _, _, _, _)
BsLoop(src, cur, offset, count, done, result) ==
  IF done >= count THEN <<result, cur, offset>>
  ELSE LET bits0 == count - done
           bits == IF bits0 > 8 - offset THEN 8 - offset ELSE bits0
           part == ((Byte(src, cur) \div Pow2(offset)) & (Pow2(bits) - 1)) * Pow2(done)
           off1 == offset + bits
       IN  BsLoop(src, IF off1 = 8 THEN cur + 1 ELSE cur, IF off1 = 8 THEN 0 ELSE off1, count, done + bits, result | part)
BsCut(src, cur, offset, count) == BsLoop(src, cur, offset, count, 0, 0)
BsSafeCut(src, cur, offset, count) ==
  IF cur >= NB THEN <<0, cur, offset>>
  ELSE LET rest == (NB - cur - 1) * 8 + (8 - offset) c == MinN(count, rest)
       IN  IF c = 0 THEN <<0, cur, offset>> ELSE BsCut(src, cur, offset, c)
\* byte_splitter::cut (count multiple of 8) -- state cur
RECURSIVE ByLoop(_, _, _, _, _)
ByLoop(src, cur, count, i, result) == IF i >= count THEN <<result, cur>> ELSE ByLoop(src, cur + 1, count, i + 8, result | (Byte(src, cur) * Pow2(i)))
ByCut(src, cur, count) == ByLoop(src, cur, count, 0, 0)
BySafeCut(src, cur, count) ==
  IF cur >= NB THEN <<0, cur>>
  ELSE LET rest == IF FixByte THEN (NB - cur) * 8 ELSE (NB - cur - 1) * 8 c == MinN(count, rest)
       IN  IF c = 0 THEN <<0, cur>> ELSE ByCut(src, cur, c)
\* number_splitter::cut -- state shift
NumCut(src, shift, count) == <<(src \div Pow2(shift)) & (Pow2(count) - 1), shift + count>>
NumSafeCut(src, shift, count) ==
  IF shift >= W THEN <<0, shift>> ELSE LET c == MinN(count, W - shift) IN IF c = 0 THEN <<0, shift>> ELSE NumCut(src, shift, c)

VARIABLES src, pos, ok
Init == src \in Sources /\ pos = 0 /\ ok = TRUE
\* one transition = the same cut applied by all three splitters at the same position (byte splitter when aligned)
Cut(n, safe) ==
  LET cur == pos \div 8 offset == pos % 8
      m == IF safe THEN MinN(n, W - pos) ELSE n
      bs == IF safe THEN BsSafeCut(src, cur, offset, n) ELSE BsCut(src, cur, offset, n)
      nm == IF safe THEN NumSafeCut(src, pos, n) ELSE NumCut(src, pos, n)
      aligned == offset = 0 /\ n % 8 = 0
      by == IF safe THEN BySafeCut(src, cur, n) ELSE ByCut(src, cur, n)
  IN  /\ (safe \/ pos + n <= W)
      /\ ok' = ( /\ bs[1] = Field(src, pos, m) /\ bs[2] * 8 + bs[3] = pos + m
                 /\ nm[1] = Field(src, pos, m) /\ nm[2] = pos + m
                 /\ (aligned => (by[1] = Field(src, pos, m) /\ by[2] * 8 = pos + m)) )
      /\ pos' = pos + m /\ UNCHANGED src
Next == \E n \in 1..W : Cut(n, FALSE) \/ Cut(n, TRUE)
Spec == Init /\ [][Next]_<<src, pos, ok>>
AllCutsCorrect == ok
=============================================================================
