SPECIFICATION Spec
CONSTANT MaxCount = 255
INVARIANT StateIsFunctionOfCount
INVARIANT StructuralFacts
PROPERTY DecUndoesInc
CHECK_DEADLOCK FALSE
