INIT Init
NEXT Next
