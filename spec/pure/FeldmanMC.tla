---- MODULE FeldmanMC ----
EXTENDS FeldmanMetrics
ASSUME AllConfigsOK
ASSUME PathsOK(0..255)
====
