------------------------------- MODULE SplitOrder -------------------------------
(* C27: split-order key encoding (Shalev & Shavit) as implemented by cds::intrusive::split_list.                        *)
(* Model at word width W (CONSTANT, 4..10): TLC checks for ALL hashes and ALL table sizes 2^k that                       *)
(*   regular keys are odd, dummies even; a bucket's parent dummy sorts before the bucket's dummy; every regular key       *)
(*   of bucket b sorts after b's dummy and before the dummy of any bucket later in split order (KeysContiguous).          *)
(* The same module validates recorded outputs of the real functions at W = 64 on 16-bit limbs (SoOk): there the            *)
(* ordering clause is checked in the equivalent form "the key shares its k top bits with its bucket's dummy, whose          *)
(* remaining bits are zero" (PrefixForm), and TLC proves the two forms equivalent at the small widths.                      *)
EXTENDS BitRef, PureCore
CONSTANT W
HashesW == 0..(Pow2(W) - 1)
Regular(h) == LET r == Rev(W, h) IN IF r % 2 = 1 THEN r ELSE r + 1
Dummy(b) == LET r == Rev(W, b) IN IF r % 2 = 1 THEN r - 1 ELSE r
BucketNo(h, k) == h % Pow2(k)
ParentBucket(b) == b - Pow2(Msb(W, b) - 1)
Parity == \A h \in HashesW : Regular(h) % 2 = 1 /\ Dummy(h) % 2 = 0
ParentBeforeChild == \A b \in 1..(Pow2(W - 1) - 1) : Dummy(ParentBucket(b)) < Dummy(b)
KeysContiguous == \A k \in 0..(W - 1) : \A h \in HashesW :
     LET b == BucketNo(h, k) IN
     /\ Dummy(b) < Regular(h)
     /\ \A c \in 0..(Pow2(k) - 1) : Dummy(c) > Dummy(b) => Regular(h) < Dummy(c)
PrefixForm == \A k \in 0..(W - 1) : \A h \in HashesW :
     LET b == BucketNo(h, k) IN Regular(h) \div Pow2(W - k) = Dummy(b) \div Pow2(W - k) /\ Dummy(b) % Pow2(W - k) = 0
ModelOK == Parity /\ ParentBeforeChild /\ KeysContiguous /\ PrefixForm
\* ---- validation of recorded cases of the real functions (64-bit, limbs) ----
SetBit0(L) == [j \in 1..Len(L) |-> IF j = 1 /\ L[1] % 2 = 0 THEN L[1] + 1 ELSE L[j]]
ClrBit0(L) == [j \in 1..Len(L) |-> IF j = 1 /\ L[1] % 2 = 1 THEN L[1] - 1 ELSE L[j]]
SoRec(r) ==
  CASE r.f = "regular" -> r.y = SetBit0(RevL(r.h))
    [] r.f = "dummy"   -> r.y = ClrBit0(RevL(r.h))
    [] r.f = "bucket"  -> r.y = BitsL(r.h, 0, r.k, 4)
                          \* prefix form of the ordering clause, on the reference encoding of the returned bucket
                          /\ LET reg == SetBit0(RevL(r.h)) d == ClrBit0(RevL(r.y))
                             IN  BitsL(reg, 64 - r.k, r.k, 4) = BitsL(d, 64 - r.k, r.k, 4) /\ (r.k = 0 \/ IsZero(BitsL(d, 0, 64 - r.k, 4)))
    [] r.f = "parent"  -> ~IsZero(r.h) /\ r.y = FlipL(r.h, MsbL(r.h) - 1)
    [] OTHER -> FALSE
SoOk(s, r) == SoRec(r)
SoSt(s, r) == s
=============================================================================
