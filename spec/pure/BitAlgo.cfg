INIT Init
NEXT Next
