------------------------------- MODULE BitRef -------------------------------
(* Reference (mathematical) definitions of the bit functions of C25/C27, on 16-bit limbs.                             *)
(* A W-bit word is a little-endian sequence of W/16 limbs in 0..65535 (TLC integers are 32-bit).                      *)
(* The 16-bit tables are built from the bit-level definition; the limb-composition lemmas that lift them to wider      *)
(* words are stated as ASSUMEs and checked by TLC exhaustively at 8 -> 16 bits (Lemmas.cfg).                            *)
EXTENDS Naturals, Integers, Sequences, FiniteSets, TLC
Pow2(n) == 2 ^ n
Bit(x, i) == (x \div Pow2(i)) % 2
\* ---- bit-level definitions at width W (W <= 16) ----
RECURSIVE RevBits(_, _, _)
RevBits(W, x, i) == IF i = W THEN 0 ELSE Bit(x, i) * Pow2(W - 1 - i) + RevBits(W, x, i + 1)
Rev(W, x) == RevBits(W, x, 0)
RECURSIVE PopBits(_, _, _)
PopBits(W, x, i) == IF i = W THEN 0 ELSE Bit(x, i) + PopBits(W, x, i + 1)
Pop(W, x) == PopBits(W, x, 0)
Msb(W, x) == IF x = 0 THEN 0 ELSE 1 + CHOOSE i \in 0..(W - 1) : x \div Pow2(i) = 1      \* 1-based index of highest set bit
Lsb(W, x) == IF x = 0 THEN 0 ELSE 1 + CHOOSE i \in 0..(W - 1) : x % Pow2(i + 1) = Pow2(i) \* 1-based index of lowest set bit
\* ---- tables ----
Rev8T  == [x \in 0..255 |-> Rev(8, x)]
Rev16T == [x \in 0..65535 |-> Rev8T[x % 256] * 256 + Rev8T[x \div 256]]
Pop8T  == [x \in 0..255 |-> Pop(8, x)]
Pop16T == [x \in 0..65535 |-> Pop8T[x % 256] + Pop8T[x \div 256]]
Msb8T  == [x \in 0..255 |-> Msb(8, x)]
Msb16T == [x \in 0..65535 |-> IF x \div 256 # 0 THEN 8 + Msb8T[x \div 256] ELSE Msb8T[x % 256]]
Lsb8T  == [x \in 0..255 |-> Lsb(8, x)]
Lsb16T == [x \in 0..65535 |-> IF x % 256 # 0 THEN Lsb8T[x % 256] ELSE IF x = 0 THEN 0 ELSE 8 + Lsb8T[x \div 256]]
\* composition lemmas (8 -> 16): the table construction above equals the bit-level definition at width 16
LemmaRev == \A x \in 0..65535 : Rev16T[x] = Rev(16, x)
LemmaPop == \A x \in 0..65535 : Pop16T[x] = Pop(16, x)
LemmaMsb == \A x \in 0..65535 : Msb16T[x] = Msb(16, x)
LemmaLsb == \A x \in 0..65535 : Lsb16T[x] = Lsb(16, x)
LemmaInvolution == \A x \in 0..65535 : Rev16T[Rev16T[x]] = x
\* ---- limb vectors ----
NL(L) == Len(L)
IsZero(L) == \A j \in 1..Len(L) : L[j] = 0
RevL(L) == [j \in 1..Len(L) |-> Rev16T[L[Len(L) + 1 - j]]]
PopL(L) == LET RECURSIVE S(_) S(j) == IF j = 0 THEN 0 ELSE Pop16T[L[j]] + S(j - 1) IN S(Len(L))
TopLimb(L) == CHOOSE j \in 1..Len(L) : L[j] # 0 /\ \A k \in (j + 1)..Len(L) : L[k] = 0
LowLimb(L) == CHOOSE j \in 1..Len(L) : L[j] # 0 /\ \A k \in 1..(j - 1) : L[k] = 0
MsbL(L) == IF IsZero(L) THEN 0 ELSE 16 * (TopLimb(L) - 1) + Msb16T[L[TopLimb(L)]]
LsbL(L) == IF IsZero(L) THEN 0 ELSE 16 * (LowLimb(L) - 1) + Lsb16T[L[LowLimb(L)]]
BitAt(L, b) == IF b \div 16 + 1 > Len(L) THEN 0 ELSE Bit(L[b \div 16 + 1], b % 16)
OneHotL(n, b) == [j \in 1..n |-> IF b \div 16 + 1 = j THEN Pow2(b % 16) ELSE 0]
FlipL(L, b) == [j \in 1..Len(L) |-> IF b \div 16 + 1 # j THEN L[j] ELSE IF Bit(L[j], b % 16) = 1 THEN L[j] - Pow2(b % 16) ELSE L[j] + Pow2(b % 16)]
IsPow2L(L) == PopL(L) = 1
Log2FloorL(L) == IF IsZero(L) THEN 0 ELSE MsbL(L) - 1
Log2CeilL(L) == IF IsZero(L) THEN 0 ELSE IF IsPow2L(L) THEN MsbL(L) - 1 ELSE MsbL(L)
\* bits off .. off+n-1 of L as a limb vector of m limbs
RECURSIVE FieldLimb(_, _, _, _, _)
FieldLimb(L, off, n, j, b) == IF b = 16 \/ 16 * (j - 1) + b >= n THEN 0 ELSE BitAt(L, off + 16 * (j - 1) + b) * Pow2(b) + FieldLimb(L, off, n, j, b + 1)
BitsL(L, off, n, m) == [j \in 1..m |-> FieldLimb(L, off, n, j, 0)]
=============================================================================
