------------------------------- MODULE BitAlgo -------------------------------
(* The bit algorithms of cds/algo/bit_reversal.h and cds/details/bitop_generic.h transcribed at width 16 (same          *)
(* network / binary search, one level fewer), proved equal to the reference for ALL 2^16 inputs by TLC (BitAlgo.cfg).  *)
EXTENDS BitRef, Bitwise
ShL(x, n) == (x * Pow2(n)) % 65536
ShR(x, n) == x \div Pow2(n)
\* bit_reversal::swar / bitop rbo32: swap odd/even bits, pairs, nibbles, then bytes
Swar16(x0) == LET x1 == ShR(x0 & 43690, 1) | ShL(x0 & 21845, 1)
                  x2 == ShR(x1 & 52428, 2) | ShL(x1 & 13107, 2)
                  x3 == ShR(x2 & 61680, 4) | ShL(x2 & 3855, 4)
              IN  ShR(x3, 8) | ShL(x3, 8)
\* bit_reversal::lookup: byte table, bytes swapped
Lookup16(x) == Rev8T[x % 256] * 256 + Rev8T[x \div 256]
\* Linux-style msb (1-based), width 16
MsbBS16(x0) == IF x0 = 0 THEN 0 ELSE
   LET s1 == IF (x0 & 65280) = 0 THEN <<ShL(x0, 8), 8>> ELSE <<x0, 16>>
       s2 == IF (s1[1] & 61440) = 0 THEN <<ShL(s1[1], 4), s1[2] - 4>> ELSE s1
       s3 == IF (s2[1] & 49152) = 0 THEN <<ShL(s2[1], 2), s2[2] - 2>> ELSE s2
   IN  IF (s3[1] & 32768) = 0 THEN s3[2] - 1 ELSE s3[2]
LsbBS16(x0) == IF x0 = 0 THEN 0 ELSE
   LET s1 == IF (x0 & 255) = 0 THEN <<ShR(x0, 8), 9>> ELSE <<x0, 1>>
       s2 == IF (s1[1] & 15) = 0 THEN <<ShR(s1[1], 4), s1[2] + 4>> ELSE s1
       s3 == IF (s2[1] & 3) = 0 THEN <<ShR(s2[1], 2), s2[2] + 2>> ELSE s2
   IN  IF (s3[1] & 1) = 0 THEN s3[2] + 1 ELSE s3[2]
\* parallel bit count (Anderson), width 16
Sbc16(x0) == LET x1 == x0 - (ShR(x0, 1) & 21845)
                 x2 == (x1 & 13107) + (ShR(x1, 2) & 13107)
                 x3 == (x2 + ShR(x2, 4)) & 3855
             IN  ((x3 * 257) % 65536) \div 256
AlgoOK == \A x \in 0..65535 : /\ Swar16(x) = Rev16T[x] /\ Lookup16(x) = Rev16T[x]
                              /\ MsbBS16(x) = Msb16T[x] /\ LsbBS16(x) = Lsb16T[x] /\ Sbc16(x) = Pop16T[x]
ASSUME AlgoOK
VARIABLE x
Init == x = 0
Next == x' = x
=============================================================================
