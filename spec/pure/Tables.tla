------------------------------- MODULE Tables -------------------------------
(* Emits the 16-bit reference tables (built from the bit-level definitions of BitRef, lemmas checked by Lemmas.cfg)    *)
(* as JSON for the exhaustive 32-bit sweep executed by the C++ recorder (env OUT = output path).                          *)
EXTENDS BitRef, Json, IOUtils
Seq16(T) == [i \in 1..65536 |-> T[i - 1]]
ASSUME JsonSerialize(IOEnv.OUT, [rev16 |-> Seq16(Rev16T), msb16 |-> Seq16(Msb16T), lsb16 |-> Seq16(Lsb16T), pop16 |-> Seq16(Pop16T)])
VARIABLE x
Init == x = 0
Next == x' = x
=============================================================================
