SPECIFICATION Spec
CONSTANTS
  St0 <- C0
  Ok <- COk
  St <- CSt
CHECK_DEADLOCK FALSE
