SPECIFICATION Spec
CONSTANTS
  St0 = 0
  Ok <- FmOk
  St <- FmSt
CHECK_DEADLOCK FALSE
