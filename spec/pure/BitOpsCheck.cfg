SPECIFICATION Spec
CONSTANTS
  St0 = 0
  Ok <- BOk
  St <- BSt
CHECK_DEADLOCK FALSE
