------------------------------- MODULE BitOpsCheck -------------------------------
(* C25: validation of recorded (input, output) cases of the real bit helpers against the reference definitions.      *)
EXTENDS BitRef, PureCore
Min(a, b) == IF a < b THEN a ELSE b
Width(L) == 16 * Len(L)
CheckRec(r) ==
  CASE r.f = "rev"       -> r.y = RevL(r.x)
    [] r.f = "byte"      -> r.r = Rev8T[r.x]
    [] r.f = "msb"       -> r.r = MsbL(r.x)
    [] r.f = "lsb"       -> r.r = LsbL(r.x)
    [] r.f = "msbnz"     -> ~IsZero(r.x) /\ r.r = MsbL(r.x) - 1
    [] r.f = "lsbnz"     -> ~IsZero(r.x) /\ r.r = LsbL(r.x) - 1
    [] r.f = "sbc"       -> r.r = PopL(r.x)
    [] r.f = "zbc"       -> r.r = Width(r.x) - PopL(r.x)
    [] r.f = "compl"     -> r.y = FlipL(r.x, r.k) /\ r.r = BitAt(r.x, r.k)
    [] r.f = "log2floor" -> r.r = Log2FloorL(r.x)
    [] r.f = "log2ceil"  -> r.r = Log2CeilL(r.x)
    [] r.f = "floor2"    -> r.y = OneHotL(Len(r.x), Log2FloorL(r.x))
    [] r.f = "ceil2"     -> r.y = OneHotL(Len(r.x), Log2CeilL(r.x))
    [] r.f = "ispow2"    -> (r.r = 1) <=> IsPow2L(r.x)
    [] r.f = "log2"      -> r.r = IF IsPow2L(r.x) THEN Log2FloorL(r.x) ELSE 0
    \* splitters: cut(n) at bit offset off returns bits off..off+n-1 and advances by n; safe_cut returns
    \* min(n, rest) bits, never reads past the end, and advances by that amount
    [] r.f = "cut"       -> LET m == IF r.safe = 1 THEN Min(r.n, r.w - r.off) ELSE r.n
                            IN  /\ r.off + m <= r.w
                                /\ r.y = BitsL(r.x, r.off, m, Len(r.y))
                                /\ r.off2 = r.off + m
    [] r.f = "summary"   -> r.bad = 0
    [] OTHER -> FALSE
BOk(s, r) == CheckRec(r)
BSt(s, r) == s
=============================================================================
