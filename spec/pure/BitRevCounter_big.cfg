SPECIFICATION Spec
CONSTANT MaxCount = 16383
INVARIANT StateIsFunctionOfCount
PROPERTY DecUndoesInc
CHECK_DEADLOCK FALSE
