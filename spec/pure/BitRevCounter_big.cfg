SPECIFICATION Spec
CONSTANT MaxCount = 2047
INVARIANT StateIsFunctionOfCount
PROPERTY DecUndoesInc
CHECK_DEADLOCK FALSE
