------------------------------- MODULE Lemmas -------------------------------
EXTENDS BitRef
ASSUME LemmaRev /\ LemmaPop /\ LemmaMsb /\ LemmaLsb /\ LemmaInvolution
VARIABLE x
Init == x = 0
Next == x' = x
=============================================================================
