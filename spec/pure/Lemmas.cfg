INIT Init
NEXT Next
