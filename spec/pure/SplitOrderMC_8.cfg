SPECIFICATION Spec
CONSTANTS
  W = 8
  St0 = 0
  Ok <- SoOk
  St <- SoSt
CHECK_DEADLOCK FALSE
