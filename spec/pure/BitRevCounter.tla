------------------------------- MODULE BitRevCounter -------------------------------
(* C26 model: see BitRevCounterDefs for the transcription; this module is the inc/dec walk state machine. *)
EXTENDS BitRevCounterDefs
CONSTANT MaxCount
VARIABLES s, lastret
Init == s = [cnt |-> 0, rev |-> 0, hb |-> -1] /\ lastret = 0
Inc == s.cnt < MaxCount /\ s' = IncOf(s) /\ lastret' = IncOf(s).rev
Dec == s.cnt > 0 /\ s' = DecOf(s) /\ lastret' = s.rev
Next == Inc \/ Dec
Spec == Init /\ [][Next]_<<s, lastret>>
StateIsFunctionOfCount == s.rev = Slot(s.cnt) /\ s.hb = (IF s.cnt = 0 THEN -1 ELSE H(s.cnt))
DecUndoesInc == [][ (s'.cnt = s.cnt - 1) => (lastret' = Slot(s.cnt) /\ s' = [cnt |-> s.cnt - 1, rev |-> Slot(s.cnt - 1), hb |-> IF s.cnt = 1 THEN -1 ELSE H(s.cnt - 1)]) ]_<<s, lastret>>
SlotsDistinct == \A a, b \in 1..MaxCount : a # b => Slot(a) # Slot(b)
SlotInLevel == \A n \in 1..MaxCount : Slot(n) >= Pow2(H(n)) /\ Slot(n) < Pow2(H(n) + 1)
ParentOccupied == \A n \in 2..MaxCount : \E m \in 1..(n - 1) : Slot(m) = Slot(n) \div 2
PrefixIsPerm(n) == { Slot(i) : i \in 1..n } = 1..n
LiteralStatement == \A n \in 1..MaxCount : PrefixIsPerm(n)
StructuralFacts == SlotsDistinct /\ SlotInLevel /\ ParentOccupied
=============================================================================
