SPECIFICATION Spec
CONSTANTS
  W = 16
  Sources <- S16
  FixByte = TRUE
INVARIANT AllCutsCorrect
CHECK_DEADLOCK FALSE
