------------------------------- MODULE PureCore -------------------------------
(* Tier P: validation of recorded input/output cases of pure functions and small sequential state machines.          *)
(* The trace (ndjson, env TRACE) is a list of records; each is validated by  Ok(st, rec)  against the TLA+ reference  *)
(* definitions; St(st, rec) threads a state through the records for sequential machines (counters, splitters).        *)
(* A record that is not allowed prints <<"REJ", index>> and validation continues, so one run reports every bad case.  *)
EXTENDS Naturals, Integers, Sequences, FiniteSets, TLC, Json, IOUtils
CONSTANTS St0, Ok(_, _), St(_, _)
Raw == TLCEval(ndJsonDeserialize(IOEnv.TRACE))
VARIABLES idx, st
Init == idx = 1 /\ st = St0
Next == /\ idx <= Len(Raw)
        /\ IF Ok(st, Raw[idx]) THEN TRUE ELSE PrintT(<<"REJ", idx>>)
        /\ st' = St(st, Raw[idx])
        /\ idx' = idx + 1
Spec == Init /\ [][Next]_<<idx, st>>
=============================================================================
