------------------------------- MODULE FeldmanMetrics -------------------------------
(* C28: addressing of FeldmanHashSet (cds/intrusive/details/feldman_hashset_base.h, metrics::make).                      *)
(* Make(hb, ab, hs) is the transcription of the normalisation of (head_bits, array_bits) for a hash of hs bytes.          *)
(* TLC enumerates ALL configurations (hs in {1,2,4,8}, head_bits 0..8*hs, array_bits 0..16) and checks that the            *)
(* normalised layout consumes the hash bits exactly (head + levels * array = hash bits, at least one bit per level),       *)
(* and, for 8-bit hashes, that equal hashes follow the same slot path and distinct hashes diverge at some level.           *)
EXTENDS BitRef, PureCore
MaxN(a, b) == IF a > b THEN a ELSE b
MinN(a, b) == IF a < b THEN a ELSE b
Make(hb0, ab0, hs) ==
  LET hbits == hs * 8
      ab == MaxN(ab0, 2)
      hb1 == MinN(MaxN(hb0, 4), hbits)
      hb == IF (hbits - hb1) % ab # 0 THEN hb1 + ((hbits - hb1) % ab) ELSE hb1
  IN  [hlog |-> hb, alog |-> ab, hbits |-> hbits]
Configs == { <<hs, hb, ab>> : hs \in {1, 2, 4, 8}, hb \in 0..64, ab \in 0..16 }
ValidCfg(c) == c[2] <= c[1] * 8
ConsumesExactly(m) == /\ m.hlog >= 1 /\ m.alog >= 1 /\ m.hlog <= m.hbits
                      /\ (m.hbits - m.hlog) % m.alog = 0
AllConfigsOK == \A c \in Configs : ValidCfg(c) => ConsumesExactly(Make(c[2], c[3], c[1]))
\* slot path of an 8-bit hash under layout m: head slot, then one slot per array level
Levels(m) == (m.hbits - m.hlog) \div m.alog
Path(m, x) == [l \in 0..Levels(m) |-> IF l = 0 THEN x % Pow2(m.hlog) ELSE (x \div Pow2(m.hlog + (l - 1) * m.alog)) % Pow2(m.alog)]
PathsOK(S) == \A hb \in 0..8 : \A ab \in 0..16 : LET m == Make(hb, ab, 1) IN
                \A x, y \in S : (x = y) <=> (Path(m, x) = Path(m, y))
\* ---- validation of the recorded output of the real metrics::make for every configuration ----
FmRec(r) == LET m == Make(r.hb, r.ab, r.hs) IN
              /\ r.hlog = m.hlog /\ r.alog = m.alog /\ ConsumesExactly(m)
              /\ (m.hlog < 64 => r.hsize = OneHotL(4, m.hlog)) /\ r.asize = OneHotL(4, m.alog)
FmOk(s, r) == IF r.f = "metrics" THEN FmRec(r) ELSE FALSE
FmSt(s, r) == s
=============================================================================
