SPECIFICATION Spec
CONSTANTS
  W = 16
  Sources <- S16q
  FixByte = TRUE
INVARIANT AllCutsCorrect
CHECK_DEADLOCK FALSE
