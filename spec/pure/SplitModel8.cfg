SPECIFICATION Spec
CONSTANTS
  W = 8
  Sources <- S8
  FixByte = TRUE
INVARIANT AllCutsCorrect
CHECK_DEADLOCK FALSE
