---- MODULE SplitOrderMC ----
EXTENDS SplitOrder
ASSUME ModelOK
====
