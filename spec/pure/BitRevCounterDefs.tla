------------------------------- MODULE BitRevCounterDefs -------------------------------
(* C26: the bit-reversed item counter of MSPriorityQueue (cds/details/bit_reverse_counter.h, after Hunt et al.).        *)
(* State (cnt, rev, hb); inc / dec transcribed statement by statement.  TLC explores every inc/dec walk with             *)
(* cnt <= MaxCount and checks that the state is a function of the count:                                                 *)
(*     rev = Slot(cnt) = 2^h + Rev_h(cnt - 2^h)   where h = index of the highest set bit of cnt,  hb = h                 *)
(* (level h of the heap is filled in bit-reversed order).  Consequences, also checked: dec returns the slot the last     *)
(* inc produced and restores the previous state; slots of counts 1..n are pairwise distinct, lie in the level of their   *)
(* count, and the parent slot of every occupied slot is occupied (StructuralFacts).  The literal statement "the first n   *)
(* slots are a permutation of 1..n" (LiteralStatement) is FALSE for this counter by design: n = 5 gives {1,2,3,4,6}.     *)
EXTENDS BitRef, Bitwise
H(n) == Msb(16, n) - 1                                   \* index of highest set bit (n >= 1)
Slot(n) == IF n = 0 THEN 0 ELSE Pow2(H(n)) + Rev(H(n), n - Pow2(H(n)))
\* cds::bitop::complement(x, bit): flips the bit, returns its previous value
Flip(x, b) == IF Bit(x, b) = 1 THEN x - Pow2(b) ELSE x + Pow2(b)
RECURSIVE IncLoop(_, _)   \* for ( nBit = hb - 1; nBit >= 0; --nBit ) if ( !complement( rev, nBit )) break;   returns <<rev, nBit>>
IncLoop(rev, nBit) == IF nBit < 0 THEN <<rev, nBit>> ELSE IF Bit(rev, nBit) = 0 THEN <<Flip(rev, nBit), nBit>> ELSE IncLoop(Flip(rev, nBit), nBit - 1)
RECURSIVE DecLoop(_, _)   \* ... if ( complement( rev, nBit )) break;
DecLoop(rev, nBit) == IF nBit < 0 THEN <<rev, nBit>> ELSE IF Bit(rev, nBit) = 1 THEN <<Flip(rev, nBit), nBit>> ELSE DecLoop(Flip(rev, nBit), nBit - 1)
IncOf(s) == LET c == s.cnt + 1 r == IncLoop(s.rev, s.hb - 1)
            IN  IF r[2] < 0 THEN [cnt |-> c, rev |-> c, hb |-> s.hb + 1] ELSE [cnt |-> c, rev |-> r[1], hb |-> s.hb]
DecOf(s) == LET c == s.cnt - 1 r == DecLoop(s.rev, s.hb - 1)
            IN  IF r[2] < 0 THEN [cnt |-> c, rev |-> c, hb |-> s.hb - 1] ELSE [cnt |-> c, rev |-> r[1], hb |-> s.hb]
=============================================================================
