---- MODULE SplitModelMC_TTrace_1790070941 ----
EXTENDS Sequences, TLCExt, SplitModelMC, Toolbox, Naturals, TLC

_expression ==
    LET SplitModelMC_TEExpression == INSTANCE SplitModelMC_TEExpression
    IN SplitModelMC_TEExpression!expression
----

_trace ==
    LET SplitModelMC_TETrace == INSTANCE SplitModelMC_TETrace
    IN SplitModelMC_TETrace!trace
----

_inv ==
    ~(
        TLCGet("level") = Len(_TETrace)
        /\
        src = (0)
        /\
        pos = (8)
        /\
        ok = (FALSE)
    )
----

_init ==
    /\ src = _TETrace[1].src
    /\ ok = _TETrace[1].ok
    /\ pos = _TETrace[1].pos
----

_next ==
    /\ \E i,j \in DOMAIN _TETrace:
        /\ \/ /\ j = i + 1
              /\ i = TLCGet("level")
        /\ src  = _TETrace[i].src
        /\ src' = _TETrace[j].src
        /\ ok  = _TETrace[i].ok
        /\ ok' = _TETrace[j].ok
        /\ pos  = _TETrace[i].pos
        /\ pos' = _TETrace[j].pos

\* Uncomment the ASSUME below to write the states of the error trace
\* to the given file in Json format. Note that you can pass any tuple
\* to `JsonSerialize`. For example, a sub-sequence of _TETrace.
    \* ASSUME
    \*     LET J == INSTANCE Json
    \*         IN J!JsonSerialize("SplitModelMC_TTrace_1790070941.json", _TETrace)

=============================================================================

 Note that you can extract this module `SplitModelMC_TEExpression`
  to a dedicated file to reuse `expression` (the module in the 
  dedicated `SplitModelMC_TEExpression.tla` file takes precedence 
  over the module `SplitModelMC_TEExpression` below).

---- MODULE SplitModelMC_TEExpression ----
EXTENDS Sequences, TLCExt, SplitModelMC, Toolbox, Naturals, TLC

expression == 
    [
        \* To hide variables of the `SplitModelMC` spec from the error trace,
        \* remove the variables below.  The trace will be written in the order
        \* of the fields of this record.
        src |-> src
        ,ok |-> ok
        ,pos |-> pos
        
        \* Put additional constant-, state-, and action-level expressions here:
        \* ,_stateNumber |-> _TEPosition
        \* ,_srcUnchanged |-> src = src'
        
        \* Format the `src` variable as Json value.
        \* ,_srcJson |->
        \*     LET J == INSTANCE Json
        \*     IN J!ToJson(src)
        
        \* Lastly, you may build expressions over arbitrary sets of states by
        \* leveraging the _TETrace operator.  For example, this is how to
        \* count the number of times a spec variable changed up to the current
        \* state in the trace.
        \* ,_srcModCount |->
        \*     LET F[s \in DOMAIN _TETrace] ==
        \*         IF s = 1 THEN 0
        \*         ELSE IF _TETrace[s].src # _TETrace[s-1].src
        \*             THEN 1 + F[s-1] ELSE F[s-1]
        \*     IN F[_TEPosition - 1]
    ]

=============================================================================



Parsing and semantic processing can take forever if the trace below is long.
 In this case, it is advised to uncomment the module below to deserialize the
 trace from a generated binary file.

\*
\*---- MODULE SplitModelMC_TETrace ----
\*EXTENDS IOUtils, SplitModelMC, TLC
\*
\*trace == IODeserialize("SplitModelMC_TTrace_1790070941.bin", TRUE)
\*
\*=============================================================================
\*

---- MODULE SplitModelMC_TETrace ----
EXTENDS SplitModelMC, TLC

trace == 
    <<
    ([src |-> 0,pos |-> 0,ok |-> TRUE]),
    ([src |-> 0,pos |-> 8,ok |-> FALSE])
    >>
----


=============================================================================

---- CONFIG SplitModelMC_TTrace_1790070941 ----
CONSTANTS
    W = 8
    Sources <- S8
    FixByte = FALSE

INVARIANT
    _inv

CHECK_DEADLOCK
    \* CHECK_DEADLOCK off because of PROPERTY or INVARIANT above.
    FALSE

INIT
    _init

NEXT
    _next

CONSTANT
    _TETrace <- _trace

ALIAS
    _expression
=============================================================================
\* Generated on Tue Sep 22 09:55:51 UTC 2026