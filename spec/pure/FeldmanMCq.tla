---- MODULE FeldmanMCq ----
EXTENDS FeldmanMetrics
ASSUME AllConfigsOK
ASSUME PathsOK({0, 1, 2, 3, 4, 7, 8, 15, 16, 17, 31, 32, 63, 64, 85, 127, 128, 129, 170, 192, 240, 254, 255})
====
