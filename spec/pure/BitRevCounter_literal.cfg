SPECIFICATION Spec
CONSTANT MaxCount = 15
INVARIANT LiteralStatement
CHECK_DEADLOCK FALSE
