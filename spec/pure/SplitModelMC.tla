---- MODULE SplitModelMC ----
EXTENDS SplitModel
S8 == 0..255
S16q == {0, 65535, 21845, 43690, 4660, 65244, 255, 65280} \cup { Pow2(i) : i \in 0..15 } \cup { (i * 2654435) % 65536 : i \in 1..200 }
S16 == 0..65535
====
