SPECIFICATION Spec
CONSTANTS
  Threads = {1, 2}
  K = 2
  R = 3
  NObj = 4
  NCell = 1
  MaxOps = 2
  StopAtEmpty = TRUE
  ScanBug = FALSE
INVARIANT ExactlyOnce
INVARIANT FinalOK
INVARIANT AllRetiredDisposed
CHECK_DEADLOCK FALSE
