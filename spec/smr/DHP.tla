---- MODULE DHP ----
\* Tier B: cds::gc::DHP (cds/gc/dhp.h, src/dhp.cpp) -- the bookkeeping that HP.tla does not have: guards in extension blocks,
\* the per-thread retired array made of blocks (push / repush / extend / empty / fini), reuse of thread records, help_scan
\* adoption and the destructor.  Hazard reads of scan() are one step per thread record; everything a thread does to its own
\* record between two shared accesses is one step.
\* Switches (each is refuted by TLC in a *_bad_*.cfg):
\*   ExtBound    -- seeded change C02: scan() copies only N slots of every extension guard block
\*   EmptyNoHead -- seeded change C03: retired_array::empty() without "current_block_ == list_head_"
\*   StaleTail   -- the defect repaired by 5021641: free_thread_data() frees the blocks after current_block_ but keeps list_tail_
EXTENDS Naturals, Sequences, FiniteSets, TLC
CONSTANTS Holder, Retirer, N, E, B, GSlots, HSteps, Script, ExtBound, EmptyNoHead, StaleTail
Threads == {Holder, Retirer}
NULL == 0
Recs == 1..4                                  \* thread records: a thread creates a new one when every existing record is owned at that moment
EmptyRec == [owner |-> NULL, free |-> TRUE, hz |-> [k \in 1..GSlots |-> NULL], items |-> <<>>, nb |-> 0, tail |-> 0]
SeqToSet(s) == { s[j] : j \in 1..Len(s) }
Filter(s, S) == LET F[j \in 0..Len(s)] == IF j = 0 THEN <<>> ELSE IF s[j] \in S THEN Append(F[j - 1], s[j]) ELSE F[j - 1] IN F[Len(s)]
\* guard slot k of a record lives in the initial array (k <= N) or at position ((k - N - 1) % E) + 1 of an extension block
Collected(k) == k <= N \/ ~ExtBound \/ ((k - N - 1) % E) + 1 <= N
Full(r) == r.nb > 0 /\ Len(r.items) = r.nb * B
CurBlock(r) == IF Len(r.items) < r.nb * B THEN (Len(r.items) \div B) + 1 ELSE r.nb
IsEmpty(r) == r.nb = 0 \/ Len(r.items) = 0 \/ (EmptyNoHead /\ Len(r.items) % B = 0 /\ Len(r.items) < r.nb * B)
(* --algorithm DHP {
variables
  rec = [i \in Recs |-> EmptyRec], nrec = 0,       \* thread_list_
  cell = 1, nextObj = 2,                           \* the shared link and the object factory
  retired = {}, freed = {}, dfree = FALSE, overflow = FALSE, leaked = {},
  myrec = [t \in Threads |-> NULL];

macro Dispose(S) { dfree := dfree \/ (S \cap freed # {}); freed := freed \cup S; }

\* retired_array::push of the calling thread's record; pushed_ok = FALSE: last cell of the last block has just been filled
macro Push(i, p) {
  overflow := overflow \/ Full(rec[i]);                     \* *current_cell_ = p with current_cell_ == last(): write past the block
  rec[i].items := Append(rec[i].items, p);
}

procedure scan()
  variables ri = 1, plist = {}, wasFull = FALSE, surv = <<>>;
{
SC1: while (ri <= nrec) {                                    \* stage 1: hazards of every record that has an owner
       if (rec[ri].owner # NULL) { plist := plist \cup { rec[ri].hz[k] : k \in { kk \in 1..GSlots : Collected(kk) } }; };
       ri := ri + 1;
     };
SC2: \* stage 2: private array of the caller: guarded pointers are re-pushed, the others freed
     wasFull := Full(rec[myrec[self]]);
     surv := Filter(rec[myrec[self]].items, plist);
     Dispose(SeqToSet(rec[myrec[self]].items) \ plist);
     rec[myrec[self]].items := surv;
SC3: if (wasFull /\ (Len(rec[myrec[self]].items) = rec[myrec[self]].nb * B)          \* nothing freed: free_count = 0 < retired_count / 4
         /\ rec[myrec[self]].nb = rec[myrec[self]].tail) {                            \* last_block == list_tail_
       rec[myrec[self]].nb := rec[myrec[self]].nb + 1 || rec[myrec[self]].tail := rec[myrec[self]].nb + 1;   \* extend()
     };
     return;
}

procedure retire(p)
{
RT1: retired := retired \cup {p};
     Push(myrec[self], p);
RT2: if (Full(rec[myrec[self]])) { call scan(); };           \* push() returned false
RT3: return;
}

procedure attach()
  variables ai = 1;
{
AT1: while (ai <= nrec /\ myrec[self] = NULL) {              \* alloc_thread_data: reuse a record whose owner is null (CAS)
       if (rec[ai].owner = NULL) { rec[ai].owner := self || rec[ai].free := FALSE; myrec[self] := ai; };
       ai := ai + 1;
     };
AT2: if (myrec[self] = NULL) { nrec := nrec + 1; rec[nrec] := [EmptyRec EXCEPT !.owner = self, !.free = FALSE]; myrec[self] := nrec; };
AT3: if (rec[myrec[self]].nb = 0) { rec[myrec[self]].nb := 1 || rec[myrec[self]].tail := 1; };      \* retired_.init()
     return;
}

procedure detach()
  variables hi = 1, moved = <<>>;
{
DT1: rec[myrec[self]].hz := [k \in 1..GSlots |-> NULL];      \* hazards_.clear()
DT2: call scan();
DT3: while (hi <= nrec) {                                    \* help_scan: adopt the retired pointers of abandoned records
       if (hi # myrec[self] /\ ~rec[hi].free /\ rec[hi].owner = NULL) {
         rec[hi].owner := self; moved := rec[hi].items;
DT4:     while (moved # <<>>) {
           Push(myrec[self], Head(moved)); moved := Tail(moved);
DT5:       if (Full(rec[myrec[self]])) { call scan(); };
         };
DT6:     rec[hi] := [rec[hi] EXCEPT !.items = <<>>, !.nb = 0, !.tail = 0, !.free = TRUE, !.owner = NULL];      \* src.fini()
       };
DT7:   hi := hi + 1;
     };
DT8: call scan();
DT9: if (IsEmpty(rec[myrec[self]])) {
       leaked := leaked \cup SeqToSet(rec[myrec[self]].items);                                    \* fini() recycles the blocks
       rec[myrec[self]] := [rec[myrec[self]] EXCEPT !.items = <<>>, !.nb = 0, !.tail = 0, !.free = TRUE];
     } else {
       \* the blocks after current_block_ go back to the allocator
       rec[myrec[self]] := [rec[myrec[self]] EXCEPT !.nb = CurBlock(rec[myrec[self]]),
                                                    !.tail = IF StaleTail THEN @ ELSE CurBlock(rec[myrec[self]])];
     };
DT10: rec[myrec[self]].owner := NULL; myrec[self] := NULL;
     return;
}

process (H \in {Holder})
  variables hs = 0, g = NULL, slot = 1;
{
H0: call attach();
H1: while (hs < HSteps) {
      hs := hs + 1;
      either {                                               \* protect the current object with some guard slot
        with (k \in 1..GSlots) { slot := k; };
H2:     g := cell;
H3:     rec[myrec[self]].hz[slot] := g;
H4:     if (cell # g) { goto H2; };
H5:     assert g \notin freed;                               \* dereference under the guard
      } or {                                                 \* release a slot
        with (k \in { kk \in 1..GSlots : rec[myrec[self]].hz[kk] # NULL }) { rec[myrec[self]].hz[k] := NULL; };
      } or {                                                 \* dereference anything still guarded
        with (k \in { kk \in 1..GSlots : rec[myrec[self]].hz[kk] # NULL }) { assert rec[myrec[self]].hz[k] \notin freed; };
      };
    };
H9: call detach();
}

process (R \in {Retirer})
  variables pcnt = 1, old = NULL;
{
R0: call attach();
R1: while (pcnt <= Len(Script)) {
      if (Script[pcnt] = "retire") {
        old := cell; cell := nextObj; nextObj := nextObj + 1;       \* unlink (atomic exchange)
R2:     call retire(old);
      } else if (Script[pcnt] = "detach") { call detach(); }
      else { call attach(); };
R3:   pcnt := pcnt + 1;
    };
R9: if (myrec[self] # NULL) { call detach(); };
}
} *)
\* BEGIN TRANSLATION
CONSTANT defaultInitValue
VARIABLES pc, rec, nrec, cell, nextObj, retired, freed, dfree, overflow, 
          leaked, myrec, stack, ri, plist, wasFull, surv, p, ai, hi, moved, 
          hs, g, slot, pcnt, old

vars == << pc, rec, nrec, cell, nextObj, retired, freed, dfree, overflow, 
           leaked, myrec, stack, ri, plist, wasFull, surv, p, ai, hi, moved, 
           hs, g, slot, pcnt, old >>

ProcSet == ({Holder}) \cup ({Retirer})

Init == (* Global variables *)
        /\ rec = [i \in Recs |-> EmptyRec]
        /\ nrec = 0
        /\ cell = 1
        /\ nextObj = 2
        /\ retired = {}
        /\ freed = {}
        /\ dfree = FALSE
        /\ overflow = FALSE
        /\ leaked = {}
        /\ myrec = [t \in Threads |-> NULL]
        (* Procedure scan *)
        /\ ri = [ self \in ProcSet |-> 1]
        /\ plist = [ self \in ProcSet |-> {}]
        /\ wasFull = [ self \in ProcSet |-> FALSE]
        /\ surv = [ self \in ProcSet |-> <<>>]
        (* Procedure retire *)
        /\ p = [ self \in ProcSet |-> defaultInitValue]
        (* Procedure attach *)
        /\ ai = [ self \in ProcSet |-> 1]
        (* Procedure detach *)
        /\ hi = [ self \in ProcSet |-> 1]
        /\ moved = [ self \in ProcSet |-> <<>>]
        (* Process H *)
        /\ hs = [self \in {Holder} |-> 0]
        /\ g = [self \in {Holder} |-> NULL]
        /\ slot = [self \in {Holder} |-> 1]
        (* Process R *)
        /\ pcnt = [self \in {Retirer} |-> 1]
        /\ old = [self \in {Retirer} |-> NULL]
        /\ stack = [self \in ProcSet |-> << >>]
        /\ pc = [self \in ProcSet |-> CASE self \in {Holder} -> "H0"
                                        [] self \in {Retirer} -> "R0"]

SC1(self) == /\ pc[self] = "SC1"
             /\ IF ri[self] <= nrec
                   THEN /\ IF rec[ri[self]].owner # NULL
                              THEN /\ plist' = [plist EXCEPT ![self] = plist[self] \cup { rec[ri[self]].hz[k] : k \in { kk \in 1..GSlots : Collected(kk) } }]
                              ELSE /\ TRUE
                                   /\ plist' = plist
                        /\ ri' = [ri EXCEPT ![self] = ri[self] + 1]
                        /\ pc' = [pc EXCEPT ![self] = "SC1"]
                   ELSE /\ pc' = [pc EXCEPT ![self] = "SC2"]
                        /\ UNCHANGED << ri, plist >>
             /\ UNCHANGED << rec, nrec, cell, nextObj, retired, freed, dfree, 
                             overflow, leaked, myrec, stack, wasFull, surv, p, 
                             ai, hi, moved, hs, g, slot, pcnt, old >>

SC2(self) == /\ pc[self] = "SC2"
             /\ wasFull' = [wasFull EXCEPT ![self] = Full(rec[myrec[self]])]
             /\ surv' = [surv EXCEPT ![self] = Filter(rec[myrec[self]].items, plist[self])]
             /\ dfree' = (dfree \/ ((SeqToSet(rec[myrec[self]].items) \ plist[self]) \cap freed # {}))
             /\ freed' = (freed \cup (SeqToSet(rec[myrec[self]].items) \ plist[self]))
             /\ rec' = [rec EXCEPT ![myrec[self]].items = surv'[self]]
             /\ pc' = [pc EXCEPT ![self] = "SC3"]
             /\ UNCHANGED << nrec, cell, nextObj, retired, overflow, leaked, 
                             myrec, stack, ri, plist, p, ai, hi, moved, hs, g, 
                             slot, pcnt, old >>

SC3(self) == /\ pc[self] = "SC3"
             /\ IF wasFull[self] /\ (Len(rec[myrec[self]].items) = rec[myrec[self]].nb * B)
                   /\ rec[myrec[self]].nb = rec[myrec[self]].tail
                   THEN /\ rec' = [rec EXCEPT ![myrec[self]].nb = rec[myrec[self]].nb + 1,
                                              ![myrec[self]].tail = rec[myrec[self]].nb + 1]
                   ELSE /\ TRUE
                        /\ rec' = rec
             /\ pc' = [pc EXCEPT ![self] = Head(stack[self]).pc]
             /\ ri' = [ri EXCEPT ![self] = Head(stack[self]).ri]
             /\ plist' = [plist EXCEPT ![self] = Head(stack[self]).plist]
             /\ wasFull' = [wasFull EXCEPT ![self] = Head(stack[self]).wasFull]
             /\ surv' = [surv EXCEPT ![self] = Head(stack[self]).surv]
             /\ stack' = [stack EXCEPT ![self] = Tail(stack[self])]
             /\ UNCHANGED << nrec, cell, nextObj, retired, freed, dfree, 
                             overflow, leaked, myrec, p, ai, hi, moved, hs, g, 
                             slot, pcnt, old >>

scan(self) == SC1(self) \/ SC2(self) \/ SC3(self)

RT1(self) == /\ pc[self] = "RT1"
             /\ retired' = (retired \cup {p[self]})
             /\ overflow' = (overflow \/ Full(rec[(myrec[self])]))
             /\ rec' = [rec EXCEPT ![(myrec[self])].items = Append(rec[(myrec[self])].items, p[self])]
             /\ pc' = [pc EXCEPT ![self] = "RT2"]
             /\ UNCHANGED << nrec, cell, nextObj, freed, dfree, leaked, myrec, 
                             stack, ri, plist, wasFull, surv, p, ai, hi, moved, 
                             hs, g, slot, pcnt, old >>

RT2(self) == /\ pc[self] = "RT2"
             /\ IF Full(rec[myrec[self]])
                   THEN /\ stack' = [stack EXCEPT ![self] = << [ procedure |->  "scan",
                                                                 pc        |->  "RT3",
                                                                 ri        |->  ri[self],
                                                                 plist     |->  plist[self],
                                                                 wasFull   |->  wasFull[self],
                                                                 surv      |->  surv[self] ] >>
                                                             \o stack[self]]
                        /\ ri' = [ri EXCEPT ![self] = 1]
                        /\ plist' = [plist EXCEPT ![self] = {}]
                        /\ wasFull' = [wasFull EXCEPT ![self] = FALSE]
                        /\ surv' = [surv EXCEPT ![self] = <<>>]
                        /\ pc' = [pc EXCEPT ![self] = "SC1"]
                   ELSE /\ pc' = [pc EXCEPT ![self] = "RT3"]
                        /\ UNCHANGED << stack, ri, plist, wasFull, surv >>
             /\ UNCHANGED << rec, nrec, cell, nextObj, retired, freed, dfree, 
                             overflow, leaked, myrec, p, ai, hi, moved, hs, g, 
                             slot, pcnt, old >>

RT3(self) == /\ pc[self] = "RT3"
             /\ pc' = [pc EXCEPT ![self] = Head(stack[self]).pc]
             /\ p' = [p EXCEPT ![self] = Head(stack[self]).p]
             /\ stack' = [stack EXCEPT ![self] = Tail(stack[self])]
             /\ UNCHANGED << rec, nrec, cell, nextObj, retired, freed, dfree, 
                             overflow, leaked, myrec, ri, plist, wasFull, surv, 
                             ai, hi, moved, hs, g, slot, pcnt, old >>

retire(self) == RT1(self) \/ RT2(self) \/ RT3(self)

AT1(self) == /\ pc[self] = "AT1"
             /\ IF ai[self] <= nrec /\ myrec[self] = NULL
                   THEN /\ IF rec[ai[self]].owner = NULL
                              THEN /\ rec' = [rec EXCEPT ![ai[self]].owner = self,
                                                         ![ai[self]].free = FALSE]
                                   /\ myrec' = [myrec EXCEPT ![self] = ai[self]]
                              ELSE /\ TRUE
                                   /\ UNCHANGED << rec, myrec >>
                        /\ ai' = [ai EXCEPT ![self] = ai[self] + 1]
                        /\ pc' = [pc EXCEPT ![self] = "AT1"]
                   ELSE /\ pc' = [pc EXCEPT ![self] = "AT2"]
                        /\ UNCHANGED << rec, myrec, ai >>
             /\ UNCHANGED << nrec, cell, nextObj, retired, freed, dfree, 
                             overflow, leaked, stack, ri, plist, wasFull, surv, 
                             p, hi, moved, hs, g, slot, pcnt, old >>

AT2(self) == /\ pc[self] = "AT2"
             /\ IF myrec[self] = NULL
                   THEN /\ nrec' = nrec + 1
                        /\ rec' = [rec EXCEPT ![nrec'] = [EmptyRec EXCEPT !.owner = self, !.free = FALSE]]
                        /\ myrec' = [myrec EXCEPT ![self] = nrec']
                   ELSE /\ TRUE
                        /\ UNCHANGED << rec, nrec, myrec >>
             /\ pc' = [pc EXCEPT ![self] = "AT3"]
             /\ UNCHANGED << cell, nextObj, retired, freed, dfree, overflow, 
                             leaked, stack, ri, plist, wasFull, surv, p, ai, 
                             hi, moved, hs, g, slot, pcnt, old >>

AT3(self) == /\ pc[self] = "AT3"
             /\ IF rec[myrec[self]].nb = 0
                   THEN /\ rec' = [rec EXCEPT ![myrec[self]].nb = 1,
                                              ![myrec[self]].tail = 1]
                   ELSE /\ TRUE
                        /\ rec' = rec
             /\ pc' = [pc EXCEPT ![self] = Head(stack[self]).pc]
             /\ ai' = [ai EXCEPT ![self] = Head(stack[self]).ai]
             /\ stack' = [stack EXCEPT ![self] = Tail(stack[self])]
             /\ UNCHANGED << nrec, cell, nextObj, retired, freed, dfree, 
                             overflow, leaked, myrec, ri, plist, wasFull, surv, 
                             p, hi, moved, hs, g, slot, pcnt, old >>

attach(self) == AT1(self) \/ AT2(self) \/ AT3(self)

DT1(self) == /\ pc[self] = "DT1"
             /\ rec' = [rec EXCEPT ![myrec[self]].hz = [k \in 1..GSlots |-> NULL]]
             /\ pc' = [pc EXCEPT ![self] = "DT2"]
             /\ UNCHANGED << nrec, cell, nextObj, retired, freed, dfree, 
                             overflow, leaked, myrec, stack, ri, plist, 
                             wasFull, surv, p, ai, hi, moved, hs, g, slot, 
                             pcnt, old >>

DT2(self) == /\ pc[self] = "DT2"
             /\ stack' = [stack EXCEPT ![self] = << [ procedure |->  "scan",
                                                      pc        |->  "DT3",
                                                      ri        |->  ri[self],
                                                      plist     |->  plist[self],
                                                      wasFull   |->  wasFull[self],
                                                      surv      |->  surv[self] ] >>
                                                  \o stack[self]]
             /\ ri' = [ri EXCEPT ![self] = 1]
             /\ plist' = [plist EXCEPT ![self] = {}]
             /\ wasFull' = [wasFull EXCEPT ![self] = FALSE]
             /\ surv' = [surv EXCEPT ![self] = <<>>]
             /\ pc' = [pc EXCEPT ![self] = "SC1"]
             /\ UNCHANGED << rec, nrec, cell, nextObj, retired, freed, dfree, 
                             overflow, leaked, myrec, p, ai, hi, moved, hs, g, 
                             slot, pcnt, old >>

DT3(self) == /\ pc[self] = "DT3"
             /\ IF hi[self] <= nrec
                   THEN /\ IF hi[self] # myrec[self] /\ ~rec[hi[self]].free /\ rec[hi[self]].owner = NULL
                              THEN /\ rec' = [rec EXCEPT ![hi[self]].owner = self]
                                   /\ moved' = [moved EXCEPT ![self] = rec'[hi[self]].items]
                                   /\ pc' = [pc EXCEPT ![self] = "DT4"]
                              ELSE /\ pc' = [pc EXCEPT ![self] = "DT7"]
                                   /\ UNCHANGED << rec, moved >>
                   ELSE /\ pc' = [pc EXCEPT ![self] = "DT8"]
                        /\ UNCHANGED << rec, moved >>
             /\ UNCHANGED << nrec, cell, nextObj, retired, freed, dfree, 
                             overflow, leaked, myrec, stack, ri, plist, 
                             wasFull, surv, p, ai, hi, hs, g, slot, pcnt, old >>

DT7(self) == /\ pc[self] = "DT7"
             /\ hi' = [hi EXCEPT ![self] = hi[self] + 1]
             /\ pc' = [pc EXCEPT ![self] = "DT3"]
             /\ UNCHANGED << rec, nrec, cell, nextObj, retired, freed, dfree, 
                             overflow, leaked, myrec, stack, ri, plist, 
                             wasFull, surv, p, ai, moved, hs, g, slot, pcnt, 
                             old >>

DT4(self) == /\ pc[self] = "DT4"
             /\ IF moved[self] # <<>>
                   THEN /\ overflow' = (overflow \/ Full(rec[(myrec[self])]))
                        /\ rec' = [rec EXCEPT ![(myrec[self])].items = Append(rec[(myrec[self])].items, (Head(moved[self])))]
                        /\ moved' = [moved EXCEPT ![self] = Tail(moved[self])]
                        /\ pc' = [pc EXCEPT ![self] = "DT5"]
                   ELSE /\ pc' = [pc EXCEPT ![self] = "DT6"]
                        /\ UNCHANGED << rec, overflow, moved >>
             /\ UNCHANGED << nrec, cell, nextObj, retired, freed, dfree, 
                             leaked, myrec, stack, ri, plist, wasFull, surv, p, 
                             ai, hi, hs, g, slot, pcnt, old >>

DT5(self) == /\ pc[self] = "DT5"
             /\ IF Full(rec[myrec[self]])
                   THEN /\ stack' = [stack EXCEPT ![self] = << [ procedure |->  "scan",
                                                                 pc        |->  "DT4",
                                                                 ri        |->  ri[self],
                                                                 plist     |->  plist[self],
                                                                 wasFull   |->  wasFull[self],
                                                                 surv      |->  surv[self] ] >>
                                                             \o stack[self]]
                        /\ ri' = [ri EXCEPT ![self] = 1]
                        /\ plist' = [plist EXCEPT ![self] = {}]
                        /\ wasFull' = [wasFull EXCEPT ![self] = FALSE]
                        /\ surv' = [surv EXCEPT ![self] = <<>>]
                        /\ pc' = [pc EXCEPT ![self] = "SC1"]
                   ELSE /\ pc' = [pc EXCEPT ![self] = "DT4"]
                        /\ UNCHANGED << stack, ri, plist, wasFull, surv >>
             /\ UNCHANGED << rec, nrec, cell, nextObj, retired, freed, dfree, 
                             overflow, leaked, myrec, p, ai, hi, moved, hs, g, 
                             slot, pcnt, old >>

DT6(self) == /\ pc[self] = "DT6"
             /\ rec' = [rec EXCEPT ![hi[self]] = [rec[hi[self]] EXCEPT !.items = <<>>, !.nb = 0, !.tail = 0, !.free = TRUE, !.owner = NULL]]
             /\ pc' = [pc EXCEPT ![self] = "DT7"]
             /\ UNCHANGED << nrec, cell, nextObj, retired, freed, dfree, 
                             overflow, leaked, myrec, stack, ri, plist, 
                             wasFull, surv, p, ai, hi, moved, hs, g, slot, 
                             pcnt, old >>

DT8(self) == /\ pc[self] = "DT8"
             /\ stack' = [stack EXCEPT ![self] = << [ procedure |->  "scan",
                                                      pc        |->  "DT9",
                                                      ri        |->  ri[self],
                                                      plist     |->  plist[self],
                                                      wasFull   |->  wasFull[self],
                                                      surv      |->  surv[self] ] >>
                                                  \o stack[self]]
             /\ ri' = [ri EXCEPT ![self] = 1]
             /\ plist' = [plist EXCEPT ![self] = {}]
             /\ wasFull' = [wasFull EXCEPT ![self] = FALSE]
             /\ surv' = [surv EXCEPT ![self] = <<>>]
             /\ pc' = [pc EXCEPT ![self] = "SC1"]
             /\ UNCHANGED << rec, nrec, cell, nextObj, retired, freed, dfree, 
                             overflow, leaked, myrec, p, ai, hi, moved, hs, g, 
                             slot, pcnt, old >>

DT9(self) == /\ pc[self] = "DT9"
             /\ IF IsEmpty(rec[myrec[self]])
                   THEN /\ leaked' = (leaked \cup SeqToSet(rec[myrec[self]].items))
                        /\ rec' = [rec EXCEPT ![myrec[self]] = [rec[myrec[self]] EXCEPT !.items = <<>>, !.nb = 0, !.tail = 0, !.free = TRUE]]
                   ELSE /\ rec' = [rec EXCEPT ![myrec[self]] = [rec[myrec[self]] EXCEPT !.nb = CurBlock(rec[myrec[self]]),
                                                                                        !.tail = IF StaleTail THEN @ ELSE CurBlock(rec[myrec[self]])]]
                        /\ UNCHANGED leaked
             /\ pc' = [pc EXCEPT ![self] = "DT10"]
             /\ UNCHANGED << nrec, cell, nextObj, retired, freed, dfree, 
                             overflow, myrec, stack, ri, plist, wasFull, surv, 
                             p, ai, hi, moved, hs, g, slot, pcnt, old >>

DT10(self) == /\ pc[self] = "DT10"
              /\ rec' = [rec EXCEPT ![myrec[self]].owner = NULL]
              /\ myrec' = [myrec EXCEPT ![self] = NULL]
              /\ pc' = [pc EXCEPT ![self] = Head(stack[self]).pc]
              /\ hi' = [hi EXCEPT ![self] = Head(stack[self]).hi]
              /\ moved' = [moved EXCEPT ![self] = Head(stack[self]).moved]
              /\ stack' = [stack EXCEPT ![self] = Tail(stack[self])]
              /\ UNCHANGED << nrec, cell, nextObj, retired, freed, dfree, 
                              overflow, leaked, ri, plist, wasFull, surv, p, 
                              ai, hs, g, slot, pcnt, old >>

detach(self) == DT1(self) \/ DT2(self) \/ DT3(self) \/ DT7(self)
                   \/ DT4(self) \/ DT5(self) \/ DT6(self) \/ DT8(self)
                   \/ DT9(self) \/ DT10(self)

H0(self) == /\ pc[self] = "H0"
            /\ stack' = [stack EXCEPT ![self] = << [ procedure |->  "attach",
                                                     pc        |->  "H1",
                                                     ai        |->  ai[self] ] >>
                                                 \o stack[self]]
            /\ ai' = [ai EXCEPT ![self] = 1]
            /\ pc' = [pc EXCEPT ![self] = "AT1"]
            /\ UNCHANGED << rec, nrec, cell, nextObj, retired, freed, dfree, 
                            overflow, leaked, myrec, ri, plist, wasFull, surv, 
                            p, hi, moved, hs, g, slot, pcnt, old >>

H1(self) == /\ pc[self] = "H1"
            /\ IF hs[self] < HSteps
                  THEN /\ hs' = [hs EXCEPT ![self] = hs[self] + 1]
                       /\ \/ /\ \E k \in 1..GSlots:
                                  slot' = [slot EXCEPT ![self] = k]
                             /\ pc' = [pc EXCEPT ![self] = "H2"]
                             /\ rec' = rec
                          \/ /\ \E k \in { kk \in 1..GSlots : rec[myrec[self]].hz[kk] # NULL }:
                                  rec' = [rec EXCEPT ![myrec[self]].hz[k] = NULL]
                             /\ pc' = [pc EXCEPT ![self] = "H1"]
                             /\ slot' = slot
                          \/ /\ \E k \in { kk \in 1..GSlots : rec[myrec[self]].hz[kk] # NULL }:
                                  Assert(rec[myrec[self]].hz[k] \notin freed, 
                                         "Failure of assertion at line 121, column 78.")
                             /\ pc' = [pc EXCEPT ![self] = "H1"]
                             /\ UNCHANGED <<rec, slot>>
                  ELSE /\ pc' = [pc EXCEPT ![self] = "H9"]
                       /\ UNCHANGED << rec, hs, slot >>
            /\ UNCHANGED << nrec, cell, nextObj, retired, freed, dfree, 
                            overflow, leaked, myrec, stack, ri, plist, wasFull, 
                            surv, p, ai, hi, moved, g, pcnt, old >>

H2(self) == /\ pc[self] = "H2"
            /\ g' = [g EXCEPT ![self] = cell]
            /\ pc' = [pc EXCEPT ![self] = "H3"]
            /\ UNCHANGED << rec, nrec, cell, nextObj, retired, freed, dfree, 
                            overflow, leaked, myrec, stack, ri, plist, wasFull, 
                            surv, p, ai, hi, moved, hs, slot, pcnt, old >>

H3(self) == /\ pc[self] = "H3"
            /\ rec' = [rec EXCEPT ![myrec[self]].hz[slot[self]] = g[self]]
            /\ pc' = [pc EXCEPT ![self] = "H4"]
            /\ UNCHANGED << nrec, cell, nextObj, retired, freed, dfree, 
                            overflow, leaked, myrec, stack, ri, plist, wasFull, 
                            surv, p, ai, hi, moved, hs, g, slot, pcnt, old >>

H4(self) == /\ pc[self] = "H4"
            /\ IF cell # g[self]
                  THEN /\ pc' = [pc EXCEPT ![self] = "H2"]
                  ELSE /\ pc' = [pc EXCEPT ![self] = "H5"]
            /\ UNCHANGED << rec, nrec, cell, nextObj, retired, freed, dfree, 
                            overflow, leaked, myrec, stack, ri, plist, wasFull, 
                            surv, p, ai, hi, moved, hs, g, slot, pcnt, old >>

H5(self) == /\ pc[self] = "H5"
            /\ Assert(g[self] \notin freed, 
                      "Failure of assertion at line 117, column 9.")
            /\ pc' = [pc EXCEPT ![self] = "H1"]
            /\ UNCHANGED << rec, nrec, cell, nextObj, retired, freed, dfree, 
                            overflow, leaked, myrec, stack, ri, plist, wasFull, 
                            surv, p, ai, hi, moved, hs, g, slot, pcnt, old >>

H9(self) == /\ pc[self] = "H9"
            /\ stack' = [stack EXCEPT ![self] = << [ procedure |->  "detach",
                                                     pc        |->  "Done",
                                                     hi        |->  hi[self],
                                                     moved     |->  moved[self] ] >>
                                                 \o stack[self]]
            /\ hi' = [hi EXCEPT ![self] = 1]
            /\ moved' = [moved EXCEPT ![self] = <<>>]
            /\ pc' = [pc EXCEPT ![self] = "DT1"]
            /\ UNCHANGED << rec, nrec, cell, nextObj, retired, freed, dfree, 
                            overflow, leaked, myrec, ri, plist, wasFull, surv, 
                            p, ai, hs, g, slot, pcnt, old >>

H(self) == H0(self) \/ H1(self) \/ H2(self) \/ H3(self) \/ H4(self)
              \/ H5(self) \/ H9(self)

R0(self) == /\ pc[self] = "R0"
            /\ stack' = [stack EXCEPT ![self] = << [ procedure |->  "attach",
                                                     pc        |->  "R1",
                                                     ai        |->  ai[self] ] >>
                                                 \o stack[self]]
            /\ ai' = [ai EXCEPT ![self] = 1]
            /\ pc' = [pc EXCEPT ![self] = "AT1"]
            /\ UNCHANGED << rec, nrec, cell, nextObj, retired, freed, dfree, 
                            overflow, leaked, myrec, ri, plist, wasFull, surv, 
                            p, hi, moved, hs, g, slot, pcnt, old >>

R1(self) == /\ pc[self] = "R1"
            /\ IF pcnt[self] <= Len(Script)
                  THEN /\ IF Script[pcnt[self]] = "retire"
                             THEN /\ old' = [old EXCEPT ![self] = cell]
                                  /\ cell' = nextObj
                                  /\ nextObj' = nextObj + 1
                                  /\ pc' = [pc EXCEPT ![self] = "R2"]
                                  /\ UNCHANGED << stack, ai, hi, moved >>
                             ELSE /\ IF Script[pcnt[self]] = "detach"
                                        THEN /\ stack' = [stack EXCEPT ![self] = << [ procedure |->  "detach",
                                                                                      pc        |->  "R3",
                                                                                      hi        |->  hi[self],
                                                                                      moved     |->  moved[self] ] >>
                                                                                  \o stack[self]]
                                             /\ hi' = [hi EXCEPT ![self] = 1]
                                             /\ moved' = [moved EXCEPT ![self] = <<>>]
                                             /\ pc' = [pc EXCEPT ![self] = "DT1"]
                                             /\ ai' = ai
                                        ELSE /\ stack' = [stack EXCEPT ![self] = << [ procedure |->  "attach",
                                                                                      pc        |->  "R3",
                                                                                      ai        |->  ai[self] ] >>
                                                                                  \o stack[self]]
                                             /\ ai' = [ai EXCEPT ![self] = 1]
                                             /\ pc' = [pc EXCEPT ![self] = "AT1"]
                                             /\ UNCHANGED << hi, moved >>
                                  /\ UNCHANGED << cell, nextObj, old >>
                  ELSE /\ pc' = [pc EXCEPT ![self] = "R9"]
                       /\ UNCHANGED << cell, nextObj, stack, ai, hi, moved, 
                                       old >>
            /\ UNCHANGED << rec, nrec, retired, freed, dfree, overflow, leaked, 
                            myrec, ri, plist, wasFull, surv, p, hs, g, slot, 
                            pcnt >>

R3(self) == /\ pc[self] = "R3"
            /\ pcnt' = [pcnt EXCEPT ![self] = pcnt[self] + 1]
            /\ pc' = [pc EXCEPT ![self] = "R1"]
            /\ UNCHANGED << rec, nrec, cell, nextObj, retired, freed, dfree, 
                            overflow, leaked, myrec, stack, ri, plist, wasFull, 
                            surv, p, ai, hi, moved, hs, g, slot, old >>

R2(self) == /\ pc[self] = "R2"
            /\ /\ p' = [p EXCEPT ![self] = old[self]]
               /\ stack' = [stack EXCEPT ![self] = << [ procedure |->  "retire",
                                                        pc        |->  "R3",
                                                        p         |->  p[self] ] >>
                                                    \o stack[self]]
            /\ pc' = [pc EXCEPT ![self] = "RT1"]
            /\ UNCHANGED << rec, nrec, cell, nextObj, retired, freed, dfree, 
                            overflow, leaked, myrec, ri, plist, wasFull, surv, 
                            ai, hi, moved, hs, g, slot, pcnt, old >>

R9(self) == /\ pc[self] = "R9"
            /\ IF myrec[self] # NULL
                  THEN /\ stack' = [stack EXCEPT ![self] = << [ procedure |->  "detach",
                                                                pc        |->  "Done",
                                                                hi        |->  hi[self],
                                                                moved     |->  moved[self] ] >>
                                                            \o stack[self]]
                       /\ hi' = [hi EXCEPT ![self] = 1]
                       /\ moved' = [moved EXCEPT ![self] = <<>>]
                       /\ pc' = [pc EXCEPT ![self] = "DT1"]
                  ELSE /\ pc' = [pc EXCEPT ![self] = "Done"]
                       /\ UNCHANGED << stack, hi, moved >>
            /\ UNCHANGED << rec, nrec, cell, nextObj, retired, freed, dfree, 
                            overflow, leaked, myrec, ri, plist, wasFull, surv, 
                            p, ai, hs, g, slot, pcnt, old >>

R(self) == R0(self) \/ R1(self) \/ R3(self) \/ R2(self) \/ R9(self)

(* Allow infinite stuttering to prevent deadlock on termination. *)
Terminating == /\ \A self \in ProcSet: pc[self] = "Done"
               /\ UNCHANGED vars

Next == (\E self \in ProcSet:  \/ scan(self) \/ retire(self) \/ attach(self)
                               \/ detach(self))
           \/ (\E self \in {Holder}: H(self))
           \/ (\E self \in {Retirer}: R(self))
           \/ Terminating

Spec == Init /\ [][Next]_vars

Termination == <>(\A self \in ProcSet: pc[self] = "Done")

\* END TRANSLATION
AllDone == \A t \in Threads : pc[t] = "Done"
\* the destructor frees what is left in the records: every retired object is then disposed, exactly once
NoDoubleFree == ~dfree
NoOverflow == ~overflow
NoLeak == leaked \subseteq freed
Conservation == AllDone => \A o \in retired : o \in freed \/ \E i \in 1..nrec : o \in SeqToSet(rec[i].items)
====
