SPECIFICATION Spec
CONSTANTS
  Readers = {1}
  Writers = {11, 12}
  RIter = 2
  WIter = 1
  Order <- MCOrder
  Threshold = 1
  QCap = 2
  EpochLate = FALSE
  OneFlip = FALSE
  NoEpochCheck = TRUE
  FreeRejected = FALSE
  MaxEpoch = 6
  defaultInitValue = 0
INVARIANTS NoDoubleFree Conservation BufBound EpochBound
CHECK_DEADLOCK FALSE
